"""C27 — Rejuvenate returns the Metropolis-Hastings log acceptance ratio.
Engine C-inf (flat-Q part, harness/mhq.py); model coq/model/Rejuv.v over coq/model/FlatQ.v.

A case = a flat static model p (1-3 polynomial probe sites, maybe one parameter), a flat
static proposal q over a subset of p's addresses, an argument_mapping given as polynomials of
p's choices, and two PRNG seeds (simulate, edit).  All numbers are small dyadic rationals, so
float32 is exact and the comparison with the Q model is equality (no tolerance)."""
from fractions import Fraction as F
from . import core
from . import mhq
from .mhq import c_q, c_qlist, c_pexpr, c_prog, c_chm, c_key

HEADER = ("From Coq Require Import List Bool ZArith NArith QArith.\n"
          "From Model Require Import Key FlatQ Rejuv.")
ERR = {"AddressReuse": "EAddressReuse", "MissingAddress": "EMissingAddress"}


# ---- generator ---------------------------------------------------------------------
def half(rng, lo=-2, hi=2, nz=False):
    while True:
        x = rng.randint(2 * lo, 2 * hi)
        if x or not nz:
            return ("c", x, 2)


def quarter(rng, nz=True):
    while True:
        x = rng.randint(-6, 6)
        if x or not nz:
            return ("c", x, 4)


def rand_argexpr(rng, nenv):
    if nenv == 0:
        return half(rng)
    r = rng.random()
    j = rng.randrange(nenv)
    if r < 0.35: return ("v", j)
    if r < 0.6: return ("+", ("v", j), half(rng, -1, 1, nz=True))
    if r < 0.75: return ("*", ("c", rng.choice([-1, 1, 3]), 2), ("v", j))
    if r < 0.9 and nenv >= 2:
        k = rng.randrange(nenv)
        return ("+", ("v", j), ("*", ("c", rng.choice([-1, 1]), 2), ("v", k)))
    if r < 0.95: return ("*", ("v", j), ("v", rng.randrange(nenv)))
    return half(rng)


def rand_lp(rng, nv):
    """degree <= 2 polynomial over [value] + args; always involves the value"""
    terms = [("*", quarter(rng), ("*", ("v", 0), ("v", 0)))] if rng.random() < 0.8 else [("*", quarter(rng), ("v", 0))]
    for _ in range(rng.randint(1, 3)):
        a = rng.randrange(nv)
        if rng.random() < 0.6:
            terms.append(("*", quarter(rng), ("*", ("v", a), ("v", rng.randrange(nv)))))
        else:
            terms.append(("*", quarter(rng), ("v", a)))
    if nv > 1 and rng.random() < 0.7:       # make sure the arguments matter
        terms.append(("*", quarter(rng), ("*", ("v", 0), ("v", rng.randrange(1, nv)))))
    if rng.random() < 0.5:
        terms.append(quarter(rng))
    e = terms[0]
    for t in terms[1:]:
        e = ("+", e, t)
    return e


SHIFTS = [0, 3, 7, 11, 16, 21, 26]


def gen_case(rng, malformed=None):
    n = rng.choice([1, 2, 2, 3, 3])
    nparams = rng.choice([0, 0, 1])
    addrs = rng.sample(range(5), n)
    p = []
    for i in range(n):
        nenv = nparams + i
        k = rng.choice([0, 1, 1, 2]) if nenv else rng.choice([0, 0, 1])
        args = [rand_argexpr(rng, nenv) for _ in range(k)]
        p.append({"addr": addrs[i], "args": args, "lp": rand_lp(rng, 1 + k), "shift": rng.choice(SHIFTS)})
    params = [F(rng.randint(-2, 2), 2) for _ in range(nparams)]
    # proposal: env of its sites = argument_mapping outputs ++ values of its earlier sites
    m = rng.randint(1, n)
    qaddrs = rng.sample(addrs, m)
    kind = rng.choice(["walk", "walk", "walk", "dep", "const"])
    am, first = [], []
    for a in qaddrs:
        pos = addrs.index(a)
        if kind == "walk":
            am.append(("v", pos)); first.append(len(am) - 1)
        elif kind == "dep":
            e = rand_argexpr(rng, n)
            if rng.random() < 0.5:
                e = ("+", ("v", pos), ("*", ("c", 1, 2), e))
            am.append(e); first.append(len(am) - 1)
        else:
            first.append(None)
    if kind != "const" and rng.random() < 0.4:
        am.append(rand_argexpr(rng, n))
    nam = len(am)
    q = []
    for j, a in enumerate(qaddrs):
        args = []
        if first[j] is not None:
            args.append(("v", first[j]))
        elif rng.random() < 0.5:
            args.append(half(rng))
        if j and rng.random() < 0.5:
            args.append(("v", nam + rng.randrange(j)))
        if nam > 1 and rng.random() < 0.3:
            args.append(("v", rng.randrange(nam)))
        q.append({"addr": a, "args": args, "lp": rand_lp(rng, 1 + len(args)), "shift": rng.choice(SHIFTS)})
    if malformed == "foreign":          # the proposal proposes at an address the model does not have
        free = [a for a in range(5) if a not in addrs]
        q[-1]["addr"] = free[0] if free else q[-1]["addr"]
    if malformed == "dup" and len(q) >= 1:
        q.append(dict(q[0], args=list(q[0]["args"])))
    s0, s1 = rng.randrange(1 << 31), rng.randrange(1 << 31)
    # the arguments of the edit: for a model with a parameter, a different value in 3 cases of 5 (tagged UnknownChange)
    nparams_v = list(params)
    if nparams and rng.random() < 0.6:
        nparams_v = [x + F(rng.choice([-2, -1, 1, 2]), 2) for x in params]
    return {"p": p, "params": [str(x) for x in params], "nparams": [str(x) for x in nparams_v], "q": q, "am": am,
            "kind": kind if not malformed else malformed, "s0": s0, "s1": s1}


# ---- implementation ------------------------------------------------------------------
_OBJ = {}


def objects(case):
    """(model, proposal, argument_mapping, params) of a case; cached per case object within one run"""
    ck = id(case)
    if ck not in _OBJ or _OBJ[ck][0] is not case:
        _OBJ[ck] = (case, _objects(case))
    return _OBJ[ck][1]


def _objects(case):
    import jax.numpy as jnp
    p, q, am = case["p"], case["q"], case["am"]
    model = mhq.realise(p)
    prop = mhq.realise(q)
    names = [mhq.name(s["addr"]) for s in p]

    def amap(chm):
        env = [chm[nm] for nm in names]
        return tuple(jnp.asarray(mhq.jeval(e, env), dtype=jnp.float32) for e in am)
    params = tuple(jnp.float32(float(F(x))) for x in case["params"])
    return model, prop, amap, params


def new_params(case):
    import jax.numpy as jnp
    return tuple(jnp.float32(float(F(x))) for x in case.get("nparams", case["params"]))


def run_impl(case):
    """-> dict with x0, x1, w, bwd (Fractions) or err"""
    import jax
    from genjax import Diff
    from genjax._src.inference.requests.rejuvenate import Rejuvenate
    model, prop, amap, params = objects(case)
    uni = [s["addr"] for s in case["p"]]
    quni = uni + [s["addr"] for s in case["q"] if s["addr"] not in uni]
    try:
        tr = model.simulate(jax.random.key(case["s0"]), params)
        req = Rejuvenate(prop, amap)
        np_ = new_params(case)
        changed = case.get("nparams", case["params"]) != case["params"]
        new_tr, w, retdiff, bwd = req.edit(jax.random.key(case["s1"]), tr, Diff.unknown_change(np_) if changed else Diff.no_change(params))
    except Exception as e:       # noqa: BLE001 - compared as a small enum
        return {"err": ERR.get(type(e).__name__, "EOther"), "exc": f"{type(e).__name__}: {str(e)[:120]}"}
    out = {"x0": mhq.read_chm(tr.get_choices(), uni), "x1": mhq.read_chm(new_tr.get_choices(), uni),
           "w": mhq.fr(w), "bwd": mhq.read_chm(bwd_constraint(req, tr, new_tr, case), quni),
           "score0": mhq.fr(tr.get_score()), "score1": mhq.fr(new_tr.get_score()),
           "args1": [mhq.fr(a) for a in new_tr.get_args()],
           "bwd_type": type(bwd).__name__}
    return out


def bwd_constraint(req, tr, new_tr, case):
    """Rejuvenate returns Rejuvenate(...) as its backward request; the discard it evaluated the
    backward proposal on is the backward constraint of the inner Update, which is recomputed here
    through the public API (Update(new choices at q's addresses) on the old trace)."""
    import jax
    from genjax import Diff, Update
    qa = [s["addr"] for s in case["q"]]
    newc = new_tr.get_choices()
    pairs = [(a, float(newc[mhq.name(a)])) for a in qa if mhq.name(a) in newc]
    _, _, _, b = Update(mhq.chm_of(pairs)).edit(jax.random.key(0), tr, Diff.no_change(tr.get_args()))
    return b.constraint


# ---- direct oracle: the MH ratio from `assess` on the real objects ------------------------
def oracle(case, out):
    """None if the property holds on this case, else a description"""
    import jax.numpy as jnp
    if case["kind"] in ("foreign", "dup"):
        return None          # malformed stream: only the correspondence (error kinds) judges these
    if "err" in out:
        return f"raised {out['exc']}"
    model, prop, amap, params = objects(case)
    x0, x1 = dict(out["x0"]), dict(out["x1"])
    uni = [s["addr"] for s in case["p"]]
    qa = [s["addr"] for s in case["q"]]
    c0 = mhq.chm_of([(a, x0[a]) for a in uni])
    c1 = mhq.chm_of([(a, x1[a]) for a in uni])
    nparams = new_params(case)
    lp0 = mhq.fr(model.assess(c0, params)[0])            # log p(x) under the trace's arguments
    lp1 = mhq.fr(model.assess(c1, nparams)[0])           # log p(x') under the arguments of the edit
    if out.get("args1") is not None and out["args1"] != [F(x) for x in case.get("nparams", case["params"])]:
        return f"the new trace holds the arguments {[float(a) for a in out['args1']]}, the edit was given {case.get('nparams')}"
    fwd_choices = mhq.chm_of([(a, x1[a]) for a in qa])      # x' restricted to the proposal's addresses
    bwd_choices = mhq.chm_of([(a, x0[a]) for a in qa])      # x restricted to them
    lq_fwd = mhq.fr(prop.assess(fwd_choices, amap(c0))[0])  # log q(x' | x)
    lq_bwd = mhq.fr(prop.assess(bwd_choices, amap(c1))[0])  # log q(x | x')
    want = lp1 + lq_bwd - lp0 - lq_fwd
    if out["w"] != want:
        return (f"weight {float(out['w'])} but log p(x')+log q(x|x')-log p(x)-log q(x'|x) = "
                f"{float(lp1)}+{float(lq_bwd)}-{float(lp0)}-{float(lq_fwd)} = {float(want)}")
    for a in uni:
        if a not in qa and x1[a] != x0[a]:
            return f"address {mhq.name(a)} is not proposed but moved from {x0[a]} to {x1[a]}"
    # the proposed value of a site is its base argument + one of {-1/2, 0, 1/2, 1}
    env = [mhq.fr(v) for v in amap(c0)]
    for s in case["q"]:
        base = mhq.feval(s["args"][0], env) if s["args"] else F(0)
        if x1[s["addr"]] - base not in (F(-1, 2), F(0), F(1, 2), F(1)):
            return f"new value at {mhq.name(s['addr'])} = {x1[s['addr']]} is not a value the proposal can draw (base {base})"
        env.append(x1[s["addr"]])
    if out["score1"] != lp1:
        return f"new trace score {float(out['score1'])} != assess of its choices {float(lp1)}"
    return None


def exact_safe(case, out):
    """every intermediate of the four density evaluations and of the weight arithmetic (in the
    order the implementation adds them up) is exactly representable in float32, so that the
    comparison can be equality.  Depends on the observed choices only, never on the weight."""
    if "err" in out or case["kind"] in ("foreign", "dup"):
        return True
    p, q = case["p"], case["q"]
    params = [F(x) for x in case["params"]]
    x0, x1 = dict(out["x0"]), dict(out["x1"])
    track = []
    s0 = mhq.f_site_scores(p, params, x0, track)
    nparams = [F(x) for x in case.get("nparams", case["params"])]
    s1 = mhq.f_site_scores(p, nparams, x1, track)
    mhq.f_assess(p, params, x0, track)
    mhq.f_assess(p, nparams, x1, track)
    w = F(0)
    for a, b in zip(s1, s0):            # UpdateHandler: weight += fwd - stored score
        track.append(a - b)
        w += a - b
        track.append(w)
    sc = []
    for xa, xb in ((x0, x1), (x1, x0)):     # arguments from xa, values from xb
        env = [xa[s["addr"]] for s in p]
        am = [mhq.feval(e, env, track) for e in case["am"]]
        sc.append(mhq.f_assess(q, am, {s["addr"]: xb[s["addr"]] for s in q}, track))
    fwd, bwd = sc
    track += [w + bwd, w + bwd - fwd]
    return all(mhq.fits(t) for t in track)


def c_case(case, out):
    k0 = c_key((0, case["s0"]))
    k1 = c_key((0, case["s1"]))
    am = "[" + "; ".join(c_pexpr(e) for e in case["am"]) + "]"
    if "err" in out:
        want = f"(RErr {out['err']})"
    else:
        want = f"(ROk {c_chm(out['x0'])} {c_chm(out['x1'])} {c_q(out['w'])} {c_chm(out['bwd'])})"
    return (f"RCase {c_prog(case['p'])} {c_prog(case['q'])} {c_qlist([F(x) for x in case['params']])} "
            f"{c_qlist([F(x) for x in case.get('nparams', case['params'])])} {am} {k0} {k1} {want}")


def nontrivial(case, out):
    """the proposal moved something and the backward arguments differ from the forward ones
    (or the proposal is constant)"""
    if "err" in out:
        return False
    return out["x0"] != out["x1"]


def run(ctx):
    import genjax
    ctx.proofs()
    ctx.cov["genjax_file"] = genjax.__file__
    rng = ctx.rng
    n = ctx.n(90, 900)
    cases = [gen_case(rng) for _ in range(n)]
    cases += [gen_case(rng, malformed=m) for m in ["foreign", "dup"] * ctx.n(3, 12)]
    terms, kept, nbad, skipped = [], [], 0, 0
    for c in cases:
        out = run_impl(c)
        if not exact_safe(c, out):
            skipped += 1
            continue
        why = oracle(c, out)
        if why is not None:
            nbad += 1
            if nbad <= 3:
                ctx.fail("oracle", f"Rejuvenate ({c['kind']} proposal over {[mhq.name(s['addr']) for s in c['q']]}): {why}", case=c)
        terms.append(c_case(c, out))
        kept.append((c, out))
    mism, errs = core.coq_mismatches("C27", HEADER, terms, "rcase", fn="rmismatches", shard=60)
    for e in errs[:2]:
        ctx.fail("correspondence", "C-inf/Rejuvenate case file did not evaluate: " + e)
    nmism = len(mism)
    if mism and not errs and nbad == 0:
        # do the weights still follow the model when the proposal's draw is read from the implementation
        # instead of predicted from the key?  then only the key derivation changed: C27 (and the
        # theorem C27_rejuvenate_weight_any_draw) still covers the code
        mism2, errs2 = core.coq_mismatches("C27g", HEADER, terms, "rcase", fn="rmismatches_given", shard=60)
        if not mism2 and not errs2:
            ctx.log(f"note: on {len(mism)} cases the proposal's draw differs from coq/model/Rejuv.v's prediction (sub_key = split(key)[1], "
                    f"site keys fold_in(sub_key, i)) while new choices, weight and discard agree with rejuvenate_from for the draw actually made: "
                    f"the key derivation changed, the MH weight did not")
            mism = []
    for i in mism[:3]:
        c, out = kept[i]
        ctx.fail("correspondence", f"model coq/model/Rejuv.v and implementation disagree ({c['kind']} proposal): implementation gives "
                 f"{ {k: (str(v) if not isinstance(v, list) else [(a, str(x)) for a, x in v]) for k, v in out.items()} }", case=c)
    ctx.cov["evaluations"] = len(kept)
    ctx.cov["traces_validated_against_impl"] = len(kept) - len(mism)
    ctx.cov["draw_differs_from_key_model"] = nmism - len(mism)
    ctx.cov["distinct_nontrivial"] = len({repr((c["p"], c["q"], c["am"], c["s0"], c["s1"])) for c, o in kept if nontrivial(c, o)})
    ctx.cov["inexact_skipped"] = skipped
    ctx.cov["errors_compared"] = sum(1 for c, o in kept if "err" in o)
    ctx.cov["by_kind"] = {k: sum(1 for c, o in kept if c["kind"] == k) for k in ("walk", "dep", "const", "foreign", "dup")}
    ctx.cov["by_sites"] = {f"p{len(c['p'])}q{len(c['q'])}": 0 for c, o in kept}
    for c, o in kept:
        ctx.cov["by_sites"][f"p{len(c['p'])}q{len(c['q'])}"] += 1
    ctx.cov["backward_args_differ"] = sum(1 for c, o in kept if bwd_args_differ(c, o))
    ctx.cov["rule"] = ("flat static models with 1-3 polynomial probe sites (degree <= 2, dyadic coefficients, 0-1 parameter) x "
                      "proposals over 1-3 of their addresses (random walk: argument = current value; dependent: argument = polynomial "
                      "of several choices; constant) x 2 PRNG seeds; small malformed stream (proposal address foreign to the model, "
                      "duplicated proposal address) compared as error kinds; non-trivial = the edit changed at least one choice; "
                      "weights, choices and discards compared as exact rationals inside Coq")
    if len(kept) and ctx.cov["distinct_nontrivial"] * 2 < len(kept):
        ctx.fail("tie", f"generator too trivial: {ctx.cov['distinct_nontrivial']} of {len(kept)} cases change a choice")
    ctx.add_samples([{"case": c, "impl": {k: str(v) for k, v in o.items()}} for c, o in kept[:1] + kept[len(kept) // 2:len(kept) // 2 + 1] + kept[-1:]])


def bwd_args_differ(case, out):
    if "err" in out:
        return False
    x0, x1 = dict(out["x0"]), dict(out["x1"])
    e0 = [x0[s["addr"]] for s in case["p"]]
    e1 = [x1[s["addr"]] for s in case["p"]]
    return [mhq.feval(e, e0) for e in case["am"]] != [mhq.feval(e, e1) for e in case["am"]]


def detuple(x):
    if isinstance(x, list) and x and isinstance(x[0], str) and x[0] in ("v", "c", "+", "*"):
        return tuple(detuple(y) for y in x)
    if isinstance(x, list):
        return [detuple(y) for y in x]
    if isinstance(x, dict):
        return {k: detuple(v) for k, v in x.items()}
    return x


def replay(case):
    case = detuple(case)
    if "witness" in case:
        rc, last = core.run_witness(case["witness"])
        print(last)
        return rc == 0
    out = run_impl(case)
    why = oracle(case, out)
    print(f"Rejuvenate {case['kind']} proposal, seeds {case['s0']}/{case['s1']}: "
          f"{ {k: str(v) for k, v in out.items()} }: {why or 'ok'}")
    return why is None
