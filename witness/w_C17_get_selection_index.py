"""candidate-defect witness (C17): get_selection is not transparent to index levels although filter is.
C[0, "a"].set(1.0).filter(S["a"]) keeps the entry, but .get_selection()["a"] is False, so
chm.filter(chm.get_selection()) and chm & chm are empty.  exit 1 if the defect is present."""
import sys
from genjax import ChoiceMapBuilder as C, Selection as S
c = C[0, "a"].set(1.0)
kept = (0, "a") in c.filter(S.at["a"])
sel = c.get_selection()["a"]
roundtrip = (0, "a") in c.filter(c.get_selection())
bad = kept and not (sel and roundtrip)
print("FAIL" if bad else "OK", {"filter(S['a']) keeps it": kept, "get_selection()['a']": sel, "in filter(get_selection())": roundtrip, "c & c empty": (c & c).static_is_empty()})
sys.exit(1 if bad else 0)
