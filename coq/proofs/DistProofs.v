(* Lemmas about coq/model/Dist.v and Kwargs.v (C24). *)
From Coq Require Import ZArith List Bool Lia ZifyBool.
Import ListNotations.
From Model Require Import Kwargs Dist.
Open Scope Z_scope.

Lemma est_sum : forall w, est w = zsum (leaves w).
Proof. intros [z | l]; unfold est, leaves, zsum; cbn [fold_right]; lia. Qed.

(* ------------------------------------------------------------------ *)
Section Scores.
Variables key params value : Type.
Variable S : key -> params -> value.
Variable L : value -> params -> lp.

Notation lpsum v a := (zsum (leaves (L v a))).
Notation sim := (simulate key params value S L).
Notation gen := (generate key params value S L).
Notation imp := (importance key params value S L).
Notation ass := (assess params value L).
Notation upd := (edit_update key params value L).
Notation regen := (edit_regenerate key params value S L).
Notation ok := (trace_ok params value L).
Notation elp := (estimate_logpdf params value L).

Lemma elp_sum v a : elp v a = lpsum v a.
Proof. unfold estimate_logpdf. apply est_sum. Qed.

Lemma simulate_spec k a :
  t_args (sim k a) = a /\ t_value (sim k a) = S k a /\ t_score (sim k a) = lpsum (S k a) a.
Proof. unfold simulate, random_weighted. cbn. rewrite elp_sum. auto. Qed.

Lemma simulate_ok k a : ok (sim k a).
Proof. unfold trace_ok. destruct (simulate_spec k a) as (-> & -> & ->). reflexivity. Qed.

Lemma assess_spec c a s v : ass c a = Some (s, v) ->
  s = lpsum v a /\ (c = CVal v \/ exists f, c = CMask f v).
Proof.
  destruct c as [| v' | f v']; cbn; intros H; inversion H; subst; rewrite elp_sum; split; eauto.
Qed.

Lemma generate_constrained k v a :
  gen k (CVal v) a = (mkTr a v (lpsum v a), lpsum v a).
Proof. cbn. rewrite elp_sum. reflexivity. Qed.

Lemma generate_unconstrained k a : gen k CNone a = (sim k a, 0).
Proof. reflexivity. Qed.

Lemma generate_masked_true k v a : gen k (CMask true v) a = gen k (CVal v) a.
Proof. reflexivity. Qed.

Lemma generate_masked_false k v a : gen k (CMask false v) a = gen k CNone a.
Proof. cbn. unfold simulate. destruct (random_weighted key params value S L k a). reflexivity. Qed.

Lemma generate_ok k c a : ok (fst (gen k c a)).
Proof.
  destruct c as [| v | [|] v].
  - apply simulate_ok.
  - rewrite generate_constrained. reflexivity.
  - rewrite generate_masked_true, generate_constrained. reflexivity.
  - rewrite generate_masked_false. apply simulate_ok.
Qed.

(* importance weight: the score when a value is imposed, 0 when the value is sampled *)
Lemma generate_weight k c a :
  snd (gen k c a) = match c with
                    | CVal _ | CMask true _ => t_score (fst (gen k c a))
                    | CNone | CMask false _ => 0
                    end.
Proof.
  destruct c as [| v | [|] v]; try reflexivity.
  all: rewrite generate_masked_false; reflexivity.
Qed.

Lemma importance_is_generate k c a : imp k c a = gen k c a.
Proof. reflexivity. Qed.

(* update: new value, new arguments, score = sum of leaves, weight = new - old *)
Definition upd_value (tr : @trace params value) (c : @constraint value) : value :=
  match c with CVal v | CMask true v => v | CNone | CMask false _ => t_value tr end.

Lemma update_spec k tr c a' :
  let e := upd k tr c a' in
  t_args (e_trace e) = a' /\ t_value (e_trace e) = upd_value tr c /\
  t_score (e_trace e) = lpsum (upd_value tr c) a' /\
  e_weight e = lpsum (upd_value tr c) a' - t_score tr.
Proof. destruct c as [| v | [|] v]; cbn; rewrite elp_sum; auto. Qed.

Lemma update_ok k tr c a' : ok (e_trace (upd k tr c a')).
Proof.
  unfold trace_ok. destruct (update_spec k tr c a') as (-> & -> & -> & _). reflexivity.
Qed.

Lemma update_unconstrained_unchanged k tr :
  ok tr -> let e := upd k tr CNone (t_args tr) in e_weight e = 0 /\ t_value (e_trace e) = t_value tr
                                             /\ t_score (e_trace e) = t_score tr.
Proof. unfold trace_ok. intros H. cbn. rewrite elp_sum. rewrite H. repeat split; lia. Qed.

Lemma update_masked_true k tr v a' :
  let e := upd k tr (CMask true v) a' in let e' := upd k tr (CVal v) a' in
  e_trace e = e_trace e' /\ e_weight e = e_weight e'.
Proof. cbn. auto. Qed.

Lemma update_masked_false k tr v a' :
  let e := upd k tr (CMask false v) a' in let e' := upd k tr CNone a' in
  e_trace e = e_trace e' /\ e_weight e = e_weight e'.
Proof. cbn. auto. Qed.

Lemma update_bwd k tr c a' :
  e_bwd (upd k tr c a') = match c with
                          | CNone => BEmpty
                          | CVal _ => BVal (t_value tr)
                          | CMask f _ => BMask f (t_value tr)
                          end.
Proof. destruct c as [| v | [|] v]; reflexivity. Qed.

Lemma regenerate_spec k tr sel a' nc :
  let e := regen k tr sel a' nc in
  e_weight e = t_score (e_trace e) - t_score tr /\
  (sel = true -> e_trace e = sim k a') /\
  (sel = false -> t_value (e_trace e) = t_value tr /\
                  (nc = false -> t_args (e_trace e) = a' /\ t_score (e_trace e) = lpsum (t_value tr) a') /\
                  (nc = true -> e_trace e = tr)).
Proof.
  destruct sel; cbn.
  - unfold simulate. destruct (random_weighted key params value S L k a') eqn:E. cbn.
    repeat split; try discriminate; auto.
  - destruct nc; cbn; rewrite ?elp_sum; repeat split; try discriminate; auto; lia.
Qed.

Lemma regenerate_ok k tr sel a' nc : ok tr -> ok (e_trace (regen k tr sel a' nc)).
Proof.
  intros H. destruct (regenerate_spec k tr sel a' nc) as (_ & Ht & Hf).
  destruct sel.
  - rewrite (Ht eq_refl). apply simulate_ok.
  - destruct (Hf eq_refl) as (Hv & Hn & Hy). destruct nc.
    + rewrite (Hy eq_refl). exact H.
    + destruct (Hn eq_refl) as (Ha & Hs). unfold trace_ok. rewrite Hs, Hv, Ha. reflexivity.
Qed.

Lemma project_spec tr sel : project params value tr sel = if sel then t_score tr else 0.
Proof. reflexivity. Qed.

Lemma propose_spec k a :
  propose key params value S L k a = (S k a, lpsum (S k a) a, S k a).
Proof. unfold propose. destruct (simulate_spec k a) as (_ & -> & ->). reflexivity. Qed.

(* the umbrella statement of C24 *)
Theorem wrapper_scores :
  (forall k a, t_value (sim k a) = S k a /\ t_score (sim k a) = lpsum (S k a) a) /\
  (forall c a s v, ass c a = Some (s, v) -> s = lpsum v a) /\
  (forall k v a, gen k (CVal v) a = (mkTr a v (lpsum v a), lpsum v a)) /\
  (forall k c a, imp k c a = gen k c a) /\
  (forall k c a, ok (fst (gen k c a)) /\
                 snd (gen k c a) = match c with
                                   | CVal _ | CMask true _ => t_score (fst (gen k c a))
                                   | CNone | CMask false _ => 0 end) /\
  (forall k tr c a', let e := upd k tr c a' in
                     t_args (e_trace e) = a' /\ t_value (e_trace e) = upd_value tr c /\
                     t_score (e_trace e) = lpsum (upd_value tr c) a' /\
                     e_weight e = lpsum (upd_value tr c) a' - t_score tr) /\
  (forall k tr sel a' nc, ok tr -> let e := regen k tr sel a' nc in
                     ok (e_trace e) /\ e_weight e = t_score (e_trace e) - t_score tr) /\
  (forall tr sel, project params value tr sel = if sel then t_score tr else 0).
Proof.
  split; [intros k a; destruct (simulate_spec k a) as (_ & ? & ?); auto |].
  split; [intros c a s v H; apply (assess_spec c a s v H) |].
  split; [apply generate_constrained |].
  split; [reflexivity |].
  split; [intros; split; [apply generate_ok | apply generate_weight] |].
  split; [intros; apply update_spec |].
  split; [intros k tr sel a' nc H; split; [apply regenerate_ok; exact H | apply regenerate_spec] |].
  reflexivity.
Qed.

(* two argument packages that the sampler and the density cannot tell apart give the same
   values, scores and weights in every method *)
Lemma methods_depend_on_args_through_S_L a b :
  (forall k, S k a = S k b) -> (forall v, L v a = L v b) ->
  (forall k, t_value (sim k a) = t_value (sim k b) /\ t_score (sim k a) = t_score (sim k b)) /\
  (forall c, option_map fst (ass c a) = option_map fst (ass c b) /\ option_map snd (ass c a) = option_map snd (ass c b)) /\
  (forall k c, t_value (fst (gen k c a)) = t_value (fst (gen k c b)) /\
               t_score (fst (gen k c a)) = t_score (fst (gen k c b)) /\ snd (gen k c a) = snd (gen k c b)) /\
  (forall k tr c, t_value (e_trace (upd k tr c a)) = t_value (e_trace (upd k tr c b)) /\
                  t_score (e_trace (upd k tr c a)) = t_score (e_trace (upd k tr c b)) /\
                  e_weight (upd k tr c a) = e_weight (upd k tr c b) /\
                  e_retdiff (upd k tr c a) = e_retdiff (upd k tr c b) /\
                  e_bwd (upd k tr c a) = e_bwd (upd k tr c b)) /\
  (forall k tr sel nc, t_value (e_trace (regen k tr sel a nc)) = t_value (e_trace (regen k tr sel b nc)) /\
                  t_score (e_trace (regen k tr sel a nc)) = t_score (e_trace (regen k tr sel b nc)) /\
                  e_weight (regen k tr sel a nc) = e_weight (regen k tr sel b nc)).
Proof.
  intros HS HL.
  assert (T : forall P Q : Prop, P -> Q -> P /\ Q) by auto.
  split; [| split; [| split; [| split]]].
  - intros k. unfold simulate, random_weighted, estimate_logpdf; cbn. rewrite ?HS, ?HL. auto.
  - intros c. destruct c; cbn; unfold estimate_logpdf; rewrite ?HL; auto.
  - intros k c. destruct c as [| v | [|] v]; cbn; unfold simulate, random_weighted, estimate_logpdf; cbn;
      rewrite ?HS, ?HL; auto.
  - intros k tr c. destruct c as [| v | [|] v]; cbn; unfold estimate_logpdf; rewrite ?HL; repeat apply T; reflexivity.
  - intros k tr sel nc. destruct sel, nc; cbn; unfold random_weighted, estimate_logpdf; cbn;
      rewrite ?HS, ?HL; auto.
Qed.

End Scores.

(* ------------------------------------------------------------------ *)
(* keyword binding *)
Lemma option_map_cons_inv : forall (V : Type) (v : V) (o : option (list V)) full,
  option_map (cons v) o = Some full -> exists r, o = Some r /\ full = v :: r.
Proof. intros V v [r |] full H; cbn in H; inversion H. eauto. Qed.

Lemma bind_from_full : forall (V : Type) (sig : sigt V) pos kw full,
  bind_from sig pos kw = Some full -> bind_from sig full [] = Some full.
Proof.
  intros V. induction sig as [| [n d] rest IH]; intros pos kw full H.
  - destruct pos; cbn in H; inversion H. reflexivity.
  - cbn in H.
    assert (G : forall v P, option_map (cons v) (bind_from rest P kw) = Some full ->
                bind_from ((n, d) :: rest) full [] = Some full).
    { intros v P Hv. apply option_map_cons_inv in Hv. destruct Hv as (r & E & ->).
      cbn. erewrite IH by exact E. reflexivity. }
    destruct pos as [| p pos'].
    + destruct (kw_lookup kw n) eqn:E1.
      * eapply G; exact H.
      * destruct d; [eapply G; exact H | discriminate].
    + destruct (kw_mem kw n); [discriminate | eapply G; exact H].
Qed.

Lemma bind_full : forall (V : Type) (sig : sigt V) pos kw full,
  bind sig pos kw = Some full -> bind sig full [] = Some full.
Proof.
  unfold bind. intros V sig pos kw full H. cbn [names_known forallb].
  destruct (names_known sig kw); [| discriminate]. eapply bind_from_full; eauto.
Qed.

Lemma bind_length : forall (V : Type) (sig : sigt V) pos kw full,
  bind_from sig pos kw = Some full -> length full = length sig.
Proof.
  intros V. induction sig as [| [n d] rest IH]; intros pos kw full H.
  - destruct pos; cbn in H; inversion H. reflexivity.
  - cbn in H.
    assert (G : forall v P, option_map (cons v) (bind_from rest P kw) = Some full ->
                length full = S (length rest)).
    { intros v P Hv. apply option_map_cons_inv in Hv. destruct Hv as (r & E & ->).
      cbn. f_equal. eapply IH; eauto. }
    destruct pos as [| p pos'].
    + destruct (kw_lookup kw n) eqn:E1.
      * eapply G; exact H.
      * destruct d; [eapply G; exact H | discriminate].
    + destruct (kw_mem kw n); [discriminate | eapply G; exact H].
Qed.

Lemma as_nums_map_AZ l : as_nums (map AZ l) = Some l.
Proof. induction l as [| x r IH]; cbn; [reflexivity |]. unfold as_nums in IH. rewrite IH. reflexivity. Qed.

Lemma kwargle_args_plain l : kwargle_args (map AZ l) = Some (map AZ l, []).
Proof. destruct l as [| x [| y [| z r]]]; reflexivity. Qed.

Lemma kw_bind_plain sig l : kw_bind sig (map AZ l) = bind sig l [].
Proof. unfold kw_bind. rewrite kwargle_args_plain, as_nums_map_AZ. reflexivity. Qed.

Lemma kw_bind_packaged sig pos kw : kw_bind sig [ATup pos; ADict kw] = bind sig pos kw.
Proof. unfold kw_bind. cbn [kwargle_args]. rewrite as_nums_map_AZ. reflexivity. Qed.

(* a keyword invocation reaches the sampler / density with the same parameters as the positional
   invocation that lists them in signature order (defaults filled in) *)
Lemma kw_bind_equiv sig pos kw full :
  kw_bind sig [ATup pos; ADict kw] = Some full -> kw_bind sig (map AZ full) = Some full.
Proof. rewrite kw_bind_packaged, kw_bind_plain. apply bind_full. Qed.

Section KwEquiv.
Variables key value : Type.
Variable sig : sigt Z.
Variable fS : key -> list Z -> value.       (* the sampler on bound parameters *)
Variable fL : value -> list Z -> lp.        (* the density on bound parameters *)
Variable dS : value.                        (* what stands for the TypeError; never used below *)
Definition kS (k : key) (a : list aval) : value := match kw_bind sig a with Some p => fS k p | None => dS end.
Definition kL (v : value) (a : list aval) : lp := match kw_bind sig a with Some p => fL v p | None => LS 0 end.

Lemma kS_equiv pos kw full : kw_bind sig [ATup pos; ADict kw] = Some full ->
  (forall k, kS k [ATup pos; ADict kw] = kS k (map AZ full)) /\
  (forall v, kL v [ATup pos; ADict kw] = kL v (map AZ full)).
Proof.
  intros H. pose proof (kw_bind_equiv _ _ _ _ H) as H'. unfold kS, kL. rewrite H, H'. auto.
Qed.

Lemma kS_bound a p : kw_bind sig a = Some p ->
  (forall k, kS k a = fS k p) /\ (forall v, kL v a = fL v p).
Proof. intros H. unfold kS, kL. rewrite H. auto. Qed.
End KwEquiv.

Lemma kw_lookup_app : forall (V : Type) (l1 l2 : kwd V) n,
  kw_lookup (l1 ++ l2) n = match kw_lookup l1 n with Some v => Some v | None => kw_lookup l2 n end.
Proof. intros V. induction l1 as [| [m v] r IH]; intros; cbn; [reflexivity |]. destruct (Nat.eqb m n); auto. Qed.

Lemma kw_lookup_override : forall (V : Type) (a b : kwd V) n,
  kw_lookup (map (fun p : nat * V => (fst p, match kw_lookup b (fst p) with Some v => v | None => snd p end)) a) n
  = match kw_lookup a n with
    | Some va => Some (match kw_lookup b n with Some v => v | None => va end)
    | None => None end.
Proof.
  intros V a b n. induction a as [| [m v] r IH]; cbn; [reflexivity |].
  destruct (Nat.eqb m n) eqn:E; [apply Nat.eqb_eq in E; subst; reflexivity | exact IH].
Qed.

Lemma kw_lookup_new : forall (V : Type) (a b : kwd V) n,
  kw_lookup (filter (fun p : nat * V => negb (kw_mem a (fst p))) b) n
  = if kw_mem a n then None else kw_lookup b n.
Proof.
  intros V a b n. induction b as [| [m v] r IH]; cbn; [destruct (kw_mem a n); reflexivity |].
  destruct (kw_mem a m) eqn:Em; cbn.
  - rewrite IH. destruct (Nat.eqb m n) eqn:E; [apply Nat.eqb_eq in E; subst; rewrite Em; reflexivity | reflexivity].
  - destruct (Nat.eqb m n) eqn:E; [apply Nat.eqb_eq in E; subst; rewrite Em; reflexivity | exact IH].
Qed.

(* dict union: the right operand wins *)
Lemma merge_lookup : forall (V : Type) (a b : kwd V) n,
  kw_lookup (merge a b) n = match kw_lookup b n with
                            | Some v => Some v
                            | None => kw_lookup a n
                            end.
Proof.
  intros V a b n. unfold merge. rewrite kw_lookup_app, kw_lookup_override, kw_lookup_new. unfold kw_mem.
  destruct (kw_lookup a n), (kw_lookup b n); reflexivity.
Qed.

(* ---- the order in which keyword arguments are written does not matter ---- *)
Lemma kw_mem_in : forall (V : Type) (kw : kwd V) p, In p kw -> kw_mem kw (fst p) = true.
Proof.
  intros V. unfold kw_mem. induction kw as [| [m v] r IH]; intros p H; [destruct H |].
  cbn. destruct (Nat.eqb m (fst p)) eqn:E; [reflexivity |].
  destruct H as [<- | H]; [cbn in E; rewrite Nat.eqb_refl in E; discriminate | apply IH; exact H].
Qed.

Lemma kw_mem_ex : forall (V : Type) (kw : kwd V) n, kw_mem kw n = true -> exists v, In (n, v) kw.
Proof.
  intros V. unfold kw_mem. induction kw as [| [m v] r IH]; intros n H; cbn in H; [discriminate |].
  destruct (Nat.eqb m n) eqn:E.
  - apply Nat.eqb_eq in E. subst. exists v. left. reflexivity.
  - destruct (IH n H) as (w & Hw). exists w. right. exact Hw.
Qed.

Lemma names_known_ext : forall (V : Type) (sig : sigt V) (kw kw' : kwd V),
  (forall n, kw_lookup kw n = kw_lookup kw' n) -> names_known sig kw = names_known sig kw'.
Proof.
  intros V sig kw kw' H.
  assert (M : forall n, kw_mem kw n = kw_mem kw' n) by (intros; unfold kw_mem; now rewrite H).
  assert (D : forall a b : kwd V, (forall n, kw_mem a n = kw_mem b n) ->
              names_known sig a = true -> names_known sig b = true).
  { intros a b Hab Ha. unfold names_known in *. rewrite forallb_forall in *. intros p Hp.
    pose proof (kw_mem_in _ _ _ Hp) as Hm. rewrite <- Hab in Hm.
    destruct (kw_mem_ex _ _ _ Hm) as (v & Hv). exact (Ha _ Hv). }
  destruct (names_known sig kw) eqn:E1, (names_known sig kw') eqn:E2; try reflexivity.
  - rewrite (D kw kw' M E1) in E2. discriminate.
  - rewrite (D kw' kw (fun n => eq_sym (M n)) E2) in E1. discriminate.
Qed.

Lemma bind_from_ext : forall (V : Type) (sig : sigt V) pos (kw kw' : kwd V),
  (forall n, kw_lookup kw n = kw_lookup kw' n) -> bind_from sig pos kw = bind_from sig pos kw'.
Proof.
  intros V. induction sig as [| [n d] rest IH]; intros pos kw kw' H; [reflexivity |].
  cbn. unfold kw_mem. rewrite (H n). destruct pos as [| p pos'].
  - rewrite (IH [] kw kw' H). reflexivity.
  - rewrite (IH pos' kw kw' H). reflexivity.
Qed.

Theorem bind_kw_order : forall (V : Type) (sig : sigt V) pos (kw kw' : kwd V),
  (forall n, kw_lookup kw n = kw_lookup kw' n) -> bind sig pos kw = bind sig pos kw'.
Proof.
  intros. unfold bind. rewrite (names_known_ext _ sig kw kw' H), (bind_from_ext _ sig pos kw kw' H). reflexivity.
Qed.

(* ---- keyword and positional invocations of a wrapper are equivalent ---- *)
Section KwMethods.
Variables key value : Type.
Variable sig : sigt Z.
Variable fS : key -> list Z -> value.
Variable fL : value -> list Z -> lp.
Variable dS : value.
Notation Sk := (kS key value sig fS dS).
Notation Lk := (kL value sig fL).
Notation P := (list aval).

Theorem kwargs_positional_equiv pos kw full :
  kw_bind sig [ATup pos; ADict kw] = Some full ->
  let a := [ATup pos; ADict kw] in let b := map AZ full in
  (forall k, t_value (simulate key P value Sk Lk k a) = t_value (simulate key P value Sk Lk k b) /\
             t_score (simulate key P value Sk Lk k a) = t_score (simulate key P value Sk Lk k b)) /\
  (forall c, option_map fst (assess P value Lk c a) = option_map fst (assess P value Lk c b) /\
             option_map snd (assess P value Lk c a) = option_map snd (assess P value Lk c b)) /\
  (forall k c, t_value (fst (generate key P value Sk Lk k c a)) = t_value (fst (generate key P value Sk Lk k c b)) /\
               t_score (fst (generate key P value Sk Lk k c a)) = t_score (fst (generate key P value Sk Lk k c b)) /\
               snd (generate key P value Sk Lk k c a) = snd (generate key P value Sk Lk k c b)) /\
  (forall k tr c, t_value (e_trace (edit_update key P value Lk k tr c a)) = t_value (e_trace (edit_update key P value Lk k tr c b)) /\
                  t_score (e_trace (edit_update key P value Lk k tr c a)) = t_score (e_trace (edit_update key P value Lk k tr c b)) /\
                  e_weight (edit_update key P value Lk k tr c a) = e_weight (edit_update key P value Lk k tr c b) /\
                  e_retdiff (edit_update key P value Lk k tr c a) = e_retdiff (edit_update key P value Lk k tr c b) /\
                  e_bwd (edit_update key P value Lk k tr c a) = e_bwd (edit_update key P value Lk k tr c b)) /\
  (forall k tr sel nc, t_value (e_trace (edit_regenerate key P value Sk Lk k tr sel a nc)) = t_value (e_trace (edit_regenerate key P value Sk Lk k tr sel b nc)) /\
                  t_score (e_trace (edit_regenerate key P value Sk Lk k tr sel a nc)) = t_score (e_trace (edit_regenerate key P value Sk Lk k tr sel b nc)) /\
                  e_weight (edit_regenerate key P value Sk Lk k tr sel a nc) = e_weight (edit_regenerate key P value Sk Lk k tr sel b nc)).
Proof.
  intros H. cbv zeta. destruct (kS_equiv key value sig fS fL dS pos kw full H) as (HS & HL).
  exact (methods_depend_on_args_through_S_L key P value Sk Lk _ _ HS HL).
Qed.

(* the parameters reaching sampler and density are the bound ones: score = sum of the leaves of the
   underlying density at the parameters in signature order *)
Theorem keyword_score pos kw full k :
  kw_bind sig [ATup pos; ADict kw] = Some full ->
  let tr := simulate key P value Sk Lk k [ATup pos; ADict kw] in
  t_value tr = fS k full /\ t_score tr = zsum (leaves (fL (fS k full) full)).
Proof.
  intros H. cbv zeta. destruct (simulate_spec key P value Sk Lk k [ATup pos; ADict kw]) as (_ & -> & ->).
  destruct (kS_bound key value sig fS fL dS _ _ H) as (HS & HL). rewrite HS, HL. auto.
Qed.

(* handle_kwargs() of a wrapper is the wrapper: the kwarged form on (pos, kw) is the positional call *)
Theorem handle_kwargs_self pos kw full k :
  kw_bind sig [ATup pos; ADict kw] = Some full ->
  let hk := handle_kwargs (simulate key P value Sk Lk) in
  t_value (hk k [ATup pos; ADict kw]) = t_value (simulate key P value Sk Lk k (map AZ full)) /\
  t_score (hk k [ATup pos; ADict kw]) = t_score (simulate key P value Sk Lk k (map AZ full)).
Proof.
  intros H. cbv zeta. unfold handle_kwargs.
  destruct (kwargs_positional_equiv pos kw full H) as (Hs & _). apply Hs.
Qed.
End KwMethods.
