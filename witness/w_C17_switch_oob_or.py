"""candidate-defect witness (C17): an out-of-range array index makes ChoiceMap.switch mask every branch,
and Or.build pushes the other operand inside the branches, so `switch(oob, ...) | other` loses `other`.
exit 1 if the defect is present."""
import sys, jax.numpy as jnp
from genjax import ChoiceMap, ChoiceMapBuilder as C
sw = ChoiceMap.switch(jnp.array(5), [C["a"].set(1.0), C["a"].set(2.0)])
r = (sw | C["b"].set(7.0))["b"]
bad = not bool(r.flag)
print("FAIL" if bad else "OK", {"(switch(5,[..]) | C['b'].set(7))['b']": (float(r.value), bool(r.flag))})
sys.exit(1 if bad else 0)
