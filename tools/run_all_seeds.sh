#!/bin/bash
# tools/run_all_seeds.sh <verif-copy> : try every kept seeded change against the quick check of its property, from a
# copy of /verif (so that /verif itself and other sweeps are not disturbed); results in <copy>/out/seedruns_all.txt
V=${1:-/tmp/vrun2}
rm -rf $V; rsync -a --exclude .git --exclude .cache --exclude out /verif/ $V/; mkdir -p $V/out
cd $V
for d in seeded/*/; do
  n=$(basename $d)
  p=$(/venv/bin/python -c "import json;print(json.load(open('$V/seeded/$n/meta.json'))['property'])")
  r=/tmp/seedrepo_$$/$n
  rm -rf $r; mkdir -p $r; rsync -a --exclude .git /repo/ $r/
  ( cd $r && patch -p1 -s < $V/seeded/$n/patch.diff ) || { echo "seed $n: patch does not apply" >> out/seedruns_all.txt; rm -rf $r; continue; }
  VERIF_REPO=$r ./check $p --tier quick > out/seed_$n.$p.log 2>&1; rc=$?
  kinds=$(grep -o '^  [a-z]*:' out/seed_$n.$p.log | sort | uniq -c | tr '\n' ' ')
  echo "seed $n check $p: exit $rc; $(grep -c '^VIOLATION' out/seed_$n.$p.log) VIOLATION lines; $(grep '^VIOLATION' out/seed_$n.$p.log | head -1 | sed 's#.*replay=[^ ]*##'); kinds: $kinds" >> out/seedruns_all.txt
  rm -rf $r
done
rmdir /tmp/seedrepo_$$ 2>/dev/null
