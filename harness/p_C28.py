"""C28 — HMC proposals follow leapfrog dynamics and return the MH log ratio.
Engine C-inf (flat-Q part, harness/mhq.py); model coq/model/Hmc.v over coq/model/FlatQ.v.

A case = a flat static model (1-3 polynomial probe sites, degree <= 4, dyadic coefficients), a
selection of its addresses, a dyadic step size, a step count, two PRNG seeds (simulate, edit).
The momenta are TFP normal draws, so positions are general float32 numbers: the comparison
with the exact rational model / reference integrator is within TOL = 1e-4 * (1 + scale);
unselected choices are compared exactly.

The unchanged tree carries known finding K08 (the scan carry returns the OLD gradient).  The
Coq model `hmc_edit true` is faithful to that; the direct oracle integrates BOTH ways with exact
rationals: implementation == correct leapfrog -> fine; == stale variant only -> a failure with
signature "hmc-stale-gradient" (matched to K08 by core.Ctx.finish); neither -> VIOLATION."""
from fractions import Fraction as F
from . import core
from . import mhq
from .mhq import c_q, c_qlist, c_prog, c_natlist

HEADER = ("From Coq Require Import List Bool ZArith NArith QArith.\n"
          "From Model Require Import Key FlatQ Hmc.")
TOL = F(1, 10000)
QMAX = 8          # trajectories leaving [-QMAX, QMAX] are not generated (unstable step size)


# ---- generator ---------------------------------------------------------------------
def cst(n, d):
    return ("c", n, d)


def mul(*xs):
    e = xs[0]
    for x in xs[1:]:
        e = ("*", e, x)
    return e


def add(*xs):
    e = xs[0]
    for x in xs[1:]:
        e = ("+", e, x)
    return e


V0 = ("v", 0)


def rand_arg(rng, nenv):
    j = rng.randrange(nenv)
    r = rng.random()
    if r < 0.5: return ("v", j)
    if r < 0.75: return mul(cst(rng.choice([-1, 1]), 2), ("v", j))
    if nenv >= 2: return add(("v", j), mul(cst(rng.choice([-1, 1]), 2), ("v", rng.randrange(nenv))))
    return add(("v", j), cst(rng.choice([-1, 1]), 2))


def rand_lp(rng, kind, nargs):
    """log-density of one site over [value] + args"""
    a = cst(-rng.choice([1, 2, 4]), 4)
    if nargs:
        d = add(V0, mul(cst(-1, 1), ("v", 1)))            # v - arg0
        terms = [mul(a, d, d)]
    else:
        terms = [mul(a, V0, V0)]
    if rng.random() < 0.6:
        terms.append(mul(cst(rng.choice([-3, -2, -1, 1, 2, 3]), 4), V0))
    if nargs >= 2 or (nargs and rng.random() < 0.4):
        terms.append(mul(cst(rng.choice([-1, 1]), rng.choice([2, 4])), V0, ("v", nargs)))
    if kind == "cubic":
        terms.append(mul(cst(rng.choice([-1, 1]), rng.choice([8, 16])), V0, V0, V0))
    if kind == "quartic":
        terms.append(mul(cst(-1, rng.choice([8, 16])), V0, V0, V0, V0))
        if nargs and rng.random() < 0.5:
            terms.append(mul(cst(rng.choice([-1, 1]), 8), V0, V0, ("v", 1)))
    return add(*terms)


def gen_case(rng, thorough=False, kind=None):
    kind = kind or rng.choice(["quad", "quad", "cubic", "quartic", "linear", "quad1"])
    n = 1 if kind == "quad1" else rng.choice([1, 2, 2, 3, 3])
    nparams = rng.choice([0, 0, 1])
    addrs = rng.sample(range(5), n)
    p = []
    if kind == "linear":
        # unselected sites first (quadratic), then selected sites whose log-density is linear in
        # their value with a slope that only depends on unselected values: constant gradient
        nun = rng.randint(0, n - 1)
        for i in range(n):
            nenv = nparams + i
            if i < nun:
                k = min(nenv, rng.choice([0, 1]))
                args = [rand_arg(rng, nenv) for _ in range(k)]
                lp = rand_lp(rng, "quad", k)
            else:
                uenv = nparams + nun
                k = 1 if uenv and rng.random() < 0.7 else 0
                args = [rand_arg(rng, uenv) for _ in range(k)]
                lp = mul(cst(rng.choice([-3, -1, 1, 2]), 4), V0)
                if k:
                    lp = add(lp, mul(cst(rng.choice([-1, 1]), 2), V0, ("v", 1)))
            p.append({"addr": addrs[i], "args": args, "lp": lp, "shift": rng.choice([0, 3, 7, 11, 16, 21])})
        sel = addrs[nun:]
    else:
        k0 = "quad" if kind == "quad1" else kind
        for i in range(n):
            nenv = nparams + i
            k = min(nenv, rng.choice([0, 1, 1, 2]))
            args = [rand_arg(rng, nenv) for _ in range(k)]
            p.append({"addr": addrs[i], "args": args, "lp": rand_lp(rng, k0, k), "shift": rng.choice([0, 3, 7, 11, 16, 21])})
        sel = rng.sample(addrs, rng.randint(1, n)) if rng.random() < 0.6 else list(addrs)
    params = [F(rng.randint(-2, 2), 2) for _ in range(nparams)]
    lmax = {"quartic": 2, "cubic": 4}.get(kind, 8 if thorough else 4)
    L = rng.choice([1] + list(range(2, lmax + 1)) * 2)
    eps = F(1, rng.choice([2, 4, 4, 8]))
    return {"p": p, "params": [str(x) for x in params], "sel": sorted(sel, key=addrs.index), "eps": str(eps), "L": L,
            "kind": kind, "s0": rng.randrange(1 << 31), "s1": rng.randrange(1 << 31)}


# ---- implementation ------------------------------------------------------------------
def selection_of(sel):
    from genjax import Selection as S
    s = S.at[mhq.name(sel[0])]
    for a in sel[1:]:
        s = s | S.at[mhq.name(a)]
    return s


_TRACES, _INTEG = {}, {}


def start_trace(case):
    """(model, params, trace simulated with seed s0); cached per case object within one run"""
    import jax
    import jax.numpy as jnp
    ck = id(case)
    if ck not in _TRACES or _TRACES[ck][0] is not case:
        model = mhq.realise(case["p"])
        params = tuple(jnp.float32(float(F(x))) for x in case["params"])
        _TRACES[ck] = (case, (model, params, model.simulate(jax.random.key(case["s0"]), params)))
    return _TRACES[ck][1]


def run_impl(case):
    import jax
    import jax.numpy as jnp
    from genjax import Diff
    from genjax._src.inference.requests.hmc import HMC, selection_gradient
    model, params, tr = start_trace(case)
    uni = [s["addr"] for s in case["p"]]
    x0 = mhq.read_chm(tr.get_choices(), uni)
    if case.get("grad_only"):
        vals, grads = selection_gradient(selection_of(case["sel"]), tr, Diff.no_change(params))
        return {"x0": x0, "vals": mhq.read_chm(vals, case["sel"]), "grads": mhq.read_chm(grads, case["sel"])}
    try:
        h = HMC(selection_of(case["sel"]), jnp.float32(float(F(case["eps"]))), case["L"])
        new_tr, alpha, retdiff, bwd = h.edit(jax.random.key(case["s1"]), tr, Diff.no_change(params))
    except Exception as e:      # noqa: BLE001
        return {"x0": x0, "err": f"{type(e).__name__}: {str(e)[:100]}"}
    return {"x0": x0, "x1": mhq.read_chm(new_tr.get_choices(), uni), "alpha": mhq.fr(alpha),
            "score0": mhq.fr(tr.get_score()), "score1": mhq.fr(new_tr.get_score())}


def start_values(case):
    """the start trace's choices (the probe samplers only; no HMC code involved)"""
    model, params, tr = start_trace(case)
    return mhq.read_chm(tr.get_choices(), [s["addr"] for s in case["p"]])


def ref_momenta(case):
    """the momentum draw, reproduced without hmc.py: leaf i (selected addresses in pytree =
    sorted-name order) is a standard normal from fold_in(split(key)[1], i)"""
    import jax
    import jax.numpy as jnp
    _, sub = jax.random.split(jax.random.key(case["s1"]))
    order = sorted(case["sel"], key=mhq.name)
    return {a: mhq.fr(jax.random.normal(jax.random.fold_in(sub, i), (), dtype=jnp.float32)) for i, a in enumerate(order)}


# ---- direct oracle: exact leapfrog integration, both ways -----------------------------------
def integrate(case, x0, mom, stale):
    """exact rationals; returns (final values dict, final momenta dict, alpha, max |q|, scale); cached"""
    ck = (id(case), stale, case["L"], repr(x0), repr(sorted(mom.items())))
    if ck not in _INTEG or _INTEG[ck][0] is not case:
        _INTEG[ck] = (case, _integrate(case, x0, mom, stale))
    return _INTEG[ck][1]


def _integrate(case, x0, mom, stale):
    p, sel = case["p"], case["sel"]
    params = [F(x) for x in case["params"]]
    tot = mhq.total_poly(p, params)
    pos = {s["addr"]: i for i, s in enumerate(p)}
    grads = {a: tot.diff(pos[a]) for a in sel}
    eps, L = F(case["eps"]), case["L"]
    x = [F(dict(x0)[s["addr"]]) for s in p]
    m = {a: F(mom[a]) for a in sel}
    H0 = -tot(x) + sum(v * v for v in m.values()) / 2
    g0 = {a: grads[a](x) for a in sel}
    g = dict(g0)
    big = max(abs(v) for v in x)
    for _ in range(L):
        gk = g0 if stale else g
        m = {a: m[a] + eps / 2 * gk[a] for a in sel}
        for a in sel:
            x[pos[a]] = x[pos[a]] + eps * m[a]
        g = {a: grads[a](x) for a in sel}
        m = {a: m[a] + eps / 2 * g[a] for a in sel}
        big = max(big, max(abs(v) for v in x))
    H1 = -tot(x) + sum(v * v for v in m.values()) / 2
    scale = abs(tot(x)) + abs(H0) + abs(H1)
    return {s["addr"]: x[i] for i, s in enumerate(p)}, m, H0 - H1, big, scale


def close(a, b, scale):
    return abs(F(a) - F(b)) <= TOL * (1 + abs(F(scale)))


def agrees(case, out, ref):
    xr, mr, ar, big, scale = ref
    x1 = dict(out["x1"])
    for s in case["p"]:
        a = s["addr"]
        if a in case["sel"]:
            if not close(x1[a], xr[a], xr[a]):
                return f"{mhq.name(a)} = {float(x1[a]):.7g}, integrator gives {float(xr[a]):.7g}"
        elif x1[a] != xr[a]:
            return f"unselected {mhq.name(a)} moved from {float(xr[a])} to {float(x1[a])}"
    if not close(out["alpha"], ar, scale):
        return f"alpha = {float(out['alpha']):.7g}, H(start)-H(end) = {float(ar):.7g}"
    return None


def oracle(case, out):
    """-> (verdict, text): 'ok' | 'stale' (explained exactly by K08) | 'bad'"""
    if case["L"] == 0:
        return ("ok", "") if "err" in out else ("bad", "L=0 accepted")
    if "err" in out:
        return "bad", "raised " + out["err"]
    mom = ref_momenta(case)
    good = integrate(case, out["x0"], mom, stale=False)
    why_good = agrees(case, out, good)
    if why_good is None:
        return "ok", ""
    stale = integrate(case, out["x0"], mom, stale=True)
    why_stale = agrees(case, out, stale)
    if why_stale is None:
        return "stale", ("HMC differs from the leapfrog integrator (" + why_good + ") and equals the integrator whose first "
                         "half-kick of steps 2..L uses the gradient at the start position")
    return "bad", f"HMC follows neither the leapfrog integrator ({why_good}) nor its stale-gradient variant ({why_stale})"


def grad_oracle(case, out):
    p = case["p"]
    params = [F(x) for x in case["params"]]
    tot = mhq.total_poly(p, params)
    pos = {s["addr"]: i for i, s in enumerate(p)}
    x = [dict(out["x0"])[s["addr"]] for s in p]
    if [a for a, _ in out["vals"]] != case["sel"] or [a for a, _ in out["grads"]] != case["sel"]:
        return f"selection_gradient returned addresses {out['vals']} for selection {case['sel']}"
    for (a, v), (_, g) in zip(out["vals"], out["grads"]):
        if v != x[pos[a]]:
            return f"value of {mhq.name(a)} is {v}, trace has {x[pos[a]]}"
        want = tot.diff(pos[a])(x)
        if not close(g, want, want):
            return f"gradient at {mhq.name(a)} is {float(g)}, derivative of the log-density is {float(want)}"
    return None


# ---- Coq literals -----------------------------------------------------------------------
def c_case(case, out, mom):
    p = case["p"]
    x0 = [v for _, v in out["x0"]]
    head = f"{c_prog(p)} {c_qlist([F(x) for x in case['params']])} {c_natlist(case['sel'])}"
    if case.get("grad_only"):
        return f"GCase {head} {c_qlist(x0)} {c_qlist([v for _, v in out['vals']])} {c_qlist([v for _, v in out['grads']])} {c_q(TOL)}"
    m0 = [mom[a] for a in case["sel"]]        # trace order
    mid = f"{c_q(F(case['eps']))} {case['L']}%nat {c_qlist(x0)} {c_qlist(m0)}"
    if "err" in out:
        return f"HErr {head} {mid}"
    return f"HCase {head} {mid} {c_qlist([v for _, v in out['x1']])} {c_q(out['alpha'])} {c_q(TOL)}"


def run(ctx):
    import genjax
    ctx.proofs()
    ctx.cov["genjax_file"] = genjax.__file__
    rng = ctx.rng
    n = ctx.n(60, 400)
    cases, rejected = [], 0
    while len(cases) < n:
        c = gen_case(rng, thorough=not ctx.quick)
        x0 = start_values(c)
        mom = ref_momenta(c)
        if max(integrate(c, x0, mom, False)[3], integrate(c, x0, mom, True)[3]) > QMAX:
            rejected += 1
            continue
        cases.append(c)
    for _ in range(ctx.n(8, 40)):
        c = gen_case(rng)
        c["grad_only"] = True
        cases.append(c)
    c = gen_case(rng, kind="quad"); c["L"] = 0
    cases.append(c)

    terms, kept, bad = [], [], []
    verdicts = {"ok": 0, "stale": 0, "bad": 0}
    inR = outR = 0
    for c in cases:
        out = run_impl(c)
        mom = ref_momenta(c)
        if c.get("grad_only"):
            why = grad_oracle(c, out)
            if why:
                verdicts["bad"] += 1
                if verdicts["bad"] <= 3:
                    ctx.fail("oracle", f"selection_gradient: {why}", case=c)
        else:
            v, why = oracle(c, out)
            verdicts[v] += 1
            if v == "stale" and verdicts["stale"] <= 2:
                ctx.fail("oracle", f"{why} [{c['kind']} model, eps={c['eps']}, L={c['L']}]", case=c, signature="hmc-stale-gradient")
            if v == "bad":
                bad.append((c, why))
            if c["L"] > 0 and "err" not in out:
                same = integrate(c, out["x0"], mom, False)[:3] == integrate(c, out["x0"], mom, True)[:3]
                inR += same
                outR += not same
        terms.append(c_case(c, out, mom))
        kept.append((c, out))
    # replayable violations: cases inside R first (there the unchanged tree passes without K08)
    bad.sort(key=lambda cw: not (cw[0]["L"] <= 1 or cw[0]["kind"] == "linear"))
    for c, why in bad[:3]:
        ctx.fail("oracle", f"{why} [{c['kind']} model, eps={c['eps']}, L={c['L']}, selection {[mhq.name(a) for a in c['sel']]}]", case=c)
    # correspondence: the faithful model (stale carry).  If it fails, try the repaired carry: an
    # implementation that agrees with `hmc_edit false` everywhere has fixed K08, which is not an alarm.
    mism, errs = core.coq_mismatches("C28", HEADER, terms, "hcase", fn="hmismatches", shard=9, timeout=900)
    for e in errs[:2]:
        ctx.fail("correspondence", "C-inf/HMC case file did not evaluate: " + e)
    if mism and not errs:
        mism2, errs2 = core.coq_mismatches("C28f", HEADER, terms, "hcase", fn="hmismatches_fixed", shard=9, timeout=900)
        if not mism2 and not errs2 and verdicts["bad"] == 0 and verdicts["stale"] == 0:
            ctx.log(f"note: the implementation agrees with the repaired integrator (coq/model/Hmc.v hmc_edit false) on all {len(kept)} cases and "
                    f"disagrees with the stale-gradient model on {len(mism)}: known finding K08 no longer reproduces; C28_hmc_fixed_is_leapfrog applies")
            mism = []
    for i in mism[:3]:
        c, out = kept[i]
        ctx.fail("correspondence", f"model coq/model/Hmc.v and implementation disagree ({c['kind']} model, eps={c['eps']}, L={c['L']}, "
                 f"selection {[mhq.name(a) for a in c['sel']]}): implementation gives { {k: str(v) for k, v in out.items()} }", case=c)
    ctx.cov["evaluations"] = len(kept)
    ctx.cov["traces_validated_against_impl"] = len(kept) - len(mism)
    ctx.cov["distinct_nontrivial"] = len({repr(sorted(c.items(), key=str)) for c, o in kept if "x1" in o and o["x1"] != o["x0"]})
    ctx.cov["by_kind"] = {k: sum(1 for c, o in kept if c["kind"] == k) for k in ("quad", "quad1", "cubic", "quartic", "linear")}
    ctx.cov["by_L"] = {str(L): sum(1 for c, o in kept if c["L"] == L and not c.get("grad_only")) for L in range(0, 9)}
    ctx.cov["partial_selection"] = sum(1 for c, o in kept if len(c["sel"]) < len(c["p"]))
    ctx.cov["inside_R_stale_equals_leapfrog"] = inR
    ctx.cov["outside_R"] = outR
    ctx.cov["oracle_verdicts"] = verdicts
    ctx.cov["unstable_rejected"] = rejected
    ctx.cov["tolerance"] = "|impl - exact| <= 1e-4 * (1 + scale); unselected choices and selection_gradient values exact"
    ctx.cov["rule"] = ("flat static models with 1-3 polynomial probe sites (quadratic / cubic / quartic / linear-in-the-selection "
                      "log-densities, dyadic coefficients, 0-1 parameter) x non-empty selections (full and partial) x eps in {1/2,1/4,1/8} x "
                      "L in 1..4 (8 thorough; quartic <= 2) x 2 PRNG seeds; trajectories leaving [-8,8] rejected at generation; plus "
                      "selection_gradient cases and L=0; non-trivial = a selected choice moved")
    ctx.add_samples([{"case": c, "impl": {k: str(v) for k, v in o.items()}} for c, o in kept[:1] + kept[len(kept) // 2:len(kept) // 2 + 1] + kept[-1:]])


def replay(case):
    case = mhq_detuple(case)
    if "witness" in case:
        rc, last = core.run_witness(case["witness"])
        print(last)
        return rc == 0
    out = run_impl(case)
    if case.get("grad_only"):
        why = grad_oracle(case, out)
        print(f"selection_gradient: {why or 'ok'}")
        return why is None
    v, why = oracle(case, out)
    print(f"HMC {case['kind']} model eps={case['eps']} L={case['L']} seeds {case['s0']}/{case['s1']}: "
          f"{ {k: str(x) for k, x in out.items()} }: {v} {why}")
    if v == "stale":
        print("KNOWN-FINDING: property=C28 K08 (stale gradient in the scan carry) explains this case exactly; not a new violation")
    return v in ("ok", "stale")


def mhq_detuple(x):
    if isinstance(x, list) and x and isinstance(x[0], str) and x[0] in ("v", "c", "+", "*"):
        return tuple(mhq_detuple(y) for y in x)
    if isinstance(x, list):
        return [mhq_detuple(y) for y in x]
    if isinstance(x, dict):
        return {k: mhq_detuple(v) for k, v in x.items()}
    return x
