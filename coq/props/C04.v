(* C04 — simulate samples the program's distribution and is a function of the key.
   Keys are followed as derivation paths (Key.v: eval_fkey root p is the threefry key reached from root by the
   fold_in data p; jax.random.split(k, n)[i] = fold_in(k, i) on this tree, checked at run time).
   t_sampled root t p: every distribution site of t holds d_sample of the key at its own path (ancestral sampling
   with the parameters the program text computes: wft, C02).  t_keys t p: those paths.
   Idealisation (stated, not proved): draws made with distinct derivation paths are independent (threefry as a
   random function); the frequency statement of the property then follows from C02 (score = log joint density). *)
From Coq Require Import List ZArith NArith.
Import ListNotations.
From Model Require Import Key Sel GFI.
From Proofs Require Import GFIBase GFIWf GFISim GFIKeys.

Theorem C04_simulate_is_a_function_of_key_and_arguments : forall g k a t1 t2,
  simulate g k a = Ok t1 -> simulate g k a = Ok t2 -> t1 = t2.
Proof. exact simulate_deterministic. Qed.
Print Assumptions C04_simulate_is_a_function_of_key_and_arguments.

Theorem C04_simulate_is_ancestral_sampling : forall root g p a t,
  simulate g (eval_fkey root p) a = Ok t -> t_sampled root t p.
Proof. exact simulate_is_ancestral. Qed.
Print Assumptions C04_simulate_is_ancestral_sampling.

Theorem C04_site_keys_are_distinct : forall g k a t p,
  simulate g k a = Ok t -> NoDup (t_keys t p) /\ (forall q, In q (t_keys t p) -> extends p q).
Proof. exact site_keys_distinct. Qed.
Print Assumptions C04_site_keys_are_distinct.

(* the model's key derivation is JAX's, bit for bit *)
Theorem C04_threefry_matches_jax :
  fold_in (0%N, 7%N) 5%N = (3583082021%N, 1947592014%N) /\
  (split_i (0%N, 7%N) 0%N, split_i (0%N, 7%N) 2%N) = ((3625411723%N, 1954958720%N), (966301609%N, 1948237315%N)).
Proof. split; [exact fold_in_matches_jax | exact split_matches_jax]. Qed.
Print Assumptions C04_threefry_matches_jax.

(* ---- non-vacuity: concrete non-trivial programs and traces meeting the hypotheses above (proofs/GFIWitness.v) ---- *)
From Proofs Require Import GFIWitness.
Example C04_hypotheses_met : simulate ex_g ex_k ex_a = Ok ex_t /\ length (t_choices ex_t) = 7%nat.
Proof. exact (conj ex_simulate ex_nontrivial). Qed.
Print Assumptions C04_hypotheses_met.
