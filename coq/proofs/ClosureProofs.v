(* Lemmas about coq/model/Closure.v (C32). *)
From Coq Require Import ZArith List Bool Lia.
Import ListNotations.
From Model Require Import Kwargs Dist Closure.
From Proofs Require Import DistProofs.

Section GFI.
Variables K C S Rq T O A : Type.
Variable mk_update : C -> Rq.
Variable un_update : O -> O.
Variable to_propose : O -> O.
Variable to_retval : O -> O.

Notation pos := (pos_gfi K C S Rq T O A).
Notation kwg := (kw_gfi K C S Rq T O A).

(* what "the underlying function called with the stored arguments prepended and the keyword
   arguments merged" means, method by method *)
Definition und_sim (g : pos) (gk : kwg) full kw k := if is_empty kw then gsim g k full else gsim gk k (full, kw).
Definition und_assess (g : pos) (gk : kwg) full kw c := if is_empty kw then gassess g c full else gassess gk c (full, kw).
Definition und_gen (g : pos) (gk : kwg) full kw k c := if is_empty kw then ggen g k c full else ggen gk k c (full, kw).
Definition und_edit (g : pos) (gk : kwg) (full : list (A * tag)) (kw : kwd A) k t r :=
  if is_empty kw then gedit g k t r full else gedit gk k t r (full, unknown_kw kw).

Theorem closure_is_prepend (g : pos) (gk : kwg) (stored : list A) (kw : kwd A) :
  let clo := closure g gk stored kw in
  (forall k args, gsim clo k args = und_sim g gk (stored ++ args) kw k) /\
  (forall c args, gassess clo c args = und_assess g gk (stored ++ args) kw c) /\
  (forall k c args, ggen clo k c args = und_gen g gk (stored ++ args) kw k c) /\
  (forall k c args, gimportance clo k c args = und_gen g gk (stored ++ args) kw k c) /\
  (forall k t s, gproject clo k t s = gproject g k t s) /\
  (forall k t r ad, gedit clo k t r ad = und_edit g gk (unknown_change stored ++ ad) kw k t r) /\
  (forall k t c ad, gupdate mk_update un_update clo k t c ad
                    = un_update (und_edit g gk (unknown_change stored ++ ad) kw k t (mk_update c))) /\
  (forall k args, gpropose to_propose clo k args = to_propose (und_sim g gk (stored ++ args) kw k)).
Proof. cbv zeta. repeat split. Qed.

(* without keyword arguments: literally the underlying method on stored ++ args *)
Corollary closure_no_kwargs (g : pos) (gk : kwg) (stored : list A) :
  let clo := closure g gk stored [] in
  (forall k args, gsim clo k args = gsim g k (stored ++ args)) /\
  (forall c args, gassess clo c args = gassess g c (stored ++ args)) /\
  (forall k c args, ggen clo k c args = ggen g k c (stored ++ args)) /\
  (forall k t s, gproject clo k t s = gproject g k t s) /\
  (forall k t r ad, gedit clo k t r ad = gedit g k t r (unknown_change stored ++ ad)) /\
  (forall k t c ad, gupdate mk_update un_update clo k t c ad
                    = gupdate mk_update un_update g k t c (unknown_change stored ++ ad)).
Proof. cbv zeta. repeat split. Qed.

(* `update` through a closure never loses the stored arguments (the repaired defect F09) *)
Lemma closure_update_keeps_stored (g : pos) (gk : kwg) stored k t c ad :
  gupdate mk_update un_update (closure g gk stored []) k t c ad
  = un_update (gedit g k t (mk_update c) (unknown_change stored ++ ad)).
Proof. reflexivity. Qed.

Lemma unknown_change_app (l1 l2 : list A) : unknown_change (l1 ++ l2) = unknown_change l1 ++ unknown_change l2.
Proof. unfold unknown_change. apply map_app. Qed.
Lemma no_change_app (l1 l2 : list A) : no_change (l1 ++ l2) = no_change l1 ++ no_change l2.
Proof. unfold no_change. apply map_app. Qed.

(* closing twice = closing once over the concatenation (inner closure without keyword
   arguments; the kwarged form of a closure is the closure's own) *)
Theorem closure_assoc (g : pos) (gk : kwg) (s1 s2 : list A) :
  let c2 := closure (closure g gk s1 []) (ignore_kwargs (closure g gk s1 [])) s2 [] in
  let c1 := closure g gk (s1 ++ s2) [] in
  (forall k args, gsim c2 k args = gsim c1 k args) /\
  (forall c args, gassess c2 c args = gassess c1 c args) /\
  (forall k c args, ggen c2 k c args = ggen c1 k c args) /\
  (forall k t s, gproject c2 k t s = gproject c1 k t s) /\
  (forall k t r ad, gedit c2 k t r ad = gedit c1 k t r ad).
Proof.
  cbv zeta. cbn. repeat split; intros; rewrite ?unknown_change_app, ?app_assoc; reflexivity.
Qed.

(* partial_apply twice = once on the concatenation, and partial_apply is prepending *)
Theorem partial_apply_assoc (g : pos) (d1 d2 : list A) :
  let p2 := papply_pos (papply_pos g d1) d2 in
  let p1 := papply_pos g (d1 ++ d2) in
  (forall k args, gsim p2 k args = gsim p1 k args) /\
  (forall c args, gassess p2 c args = gassess p1 c args) /\
  (forall k c args, ggen p2 k c args = ggen p1 k c args) /\
  (forall k t s, gproject p2 k t s = gproject p1 k t s) /\
  (forall k t r ad, gedit p2 k t r ad = gedit p1 k t r ad).
Proof.
  cbv zeta. cbn. repeat split; intros; rewrite ?no_change_app, ?app_assoc; reflexivity.
Qed.

(* a closure and a partial application with the same stored arguments agree in every method
   except in the change tag `edit` attaches to the stored arguments *)
Theorem closure_vs_partial_apply (g : pos) (gk : kwg) (stored : list A) :
  let clo := closure g gk stored [] in
  let pa := papply_pos g stored in
  (forall k args, gsim clo k args = gsim pa k args) /\
  (forall c args, gassess clo c args = gassess pa c args) /\
  (forall k c args, ggen clo k c args = ggen pa k c args) /\
  (forall k t s, gproject clo k t s = gproject pa k t s) /\
  (forall k t r ad, gedit clo k t r ad = gedit g k t r (unknown_change stored ++ ad) /\
                    gedit pa k t r ad = gedit g k t r (no_change stored ++ ad)).
Proof. cbv zeta. repeat split. Qed.

(* call syntax: call-site keyword arguments override the stored ones *)
Theorem closure_call_merges (g : pos) (gk : kwg) stored kw k args kw2 :
  closure_call to_retval g gk stored kw k args kw2
  = to_retval (und_sim g gk (stored ++ args) (merge kw kw2) k).
Proof. reflexivity. Qed.

(* use as a callee (`closure @ addr`): the pair handed to `trace` simulates as the closure does *)
Theorem closure_callee_is_closure (g : pos) (gk : kwg) stored kw k :
  callee_sim (closure_callee g gk stored kw) k = gsim (closure g gk stored kw) k [].
Proof.
  unfold closure_callee, callee_sim. cbn. rewrite app_nil_r. destruct (is_empty kw); reflexivity.
Qed.

(* IgnoreKwargs: keyword arguments given to a generative function that does not override
   handle_kwargs are dropped *)
Theorem ignore_kwargs_drops (g : pos) (stored : list A) (kw : kwd A) :
  let clo := closure g (ignore_kwargs g) stored kw in
  let clo0 := closure g (ignore_kwargs g) stored [] in
  (forall k args, gsim clo k args = gsim clo0 k args) /\
  (forall c args, gassess clo c args = gassess clo0 c args) /\
  (forall k c args, ggen clo k c args = ggen clo0 k c args) /\
  (forall k t r ad, gedit clo k t r ad = gedit clo0 k t r ad).
Proof. cbv zeta. cbn. destruct kw; repeat split. Qed.

End GFI.

(* ---- source level of the static language ---- *)
Section Source.
Variables V B : Type.
Variable sig : sigt V.
Variable fn : list V -> B.
Variable type_error : B.
Notation call := (src_call sig fn type_error).

Theorem source_partial_apply_is_prepend dyn extra args kw :
  call (partial_apply dyn extra) args kw = call dyn (extra ++ args) kw.
Proof. unfold src_call, partial_apply. rewrite app_assoc. reflexivity. Qed.

Theorem source_partial_apply_assoc (dyn a b : list V) :
  partial_apply (partial_apply dyn a) b = partial_apply dyn (a ++ b).
Proof. unfold partial_apply. rewrite app_assoc. reflexivity. Qed.

(* handle_kwargs of a static function: the keyword form runs the body on the same bound
   parameters as the positional call that lists them in signature order *)
Theorem source_kwargs_equiv dyn args kw full :
  bind sig (dyn ++ args) kw = Some full ->
  kwarged_source sig fn type_error dyn (args, kw) = call [] full [].
Proof.
  intros H. unfold kwarged_source, src_call. cbn [fst snd app]. rewrite H.
  rewrite (bind_full _ _ _ _ _ H). reflexivity.
Qed.

Theorem source_kwargs_error dyn args kw :
  bind sig (dyn ++ args) kw = None -> kwarged_source sig fn type_error dyn (args, kw) = type_error.
Proof. intros H. unfold kwarged_source, src_call. cbn [fst snd]. rewrite H. reflexivity. Qed.
End Source.

(* ---- closures over a distribution wrapper: keyword form = positional form ---- *)
Lemma dist_closure_kwargs_equiv d stored kw args full k :
  bind (ps_sig (probe d)) (stored ++ args) kw = Some full -> kw <> [] ->
  option_map (fun o => match o with OTr t => (t_value t, t_score t) | _ => ([], 0%Z) end)
             (gsim (closure (dist_pos d) (dist_kw d) stored kw) k args)
  = option_map (fun o => match o with OTr t => (t_value t, t_score t) | _ => ([], 0%Z) end)
               (gsim (dist_pos d) k full).
Proof.
  intros H Hk. destruct kw as [| p kw']; [congruence |]. cbn [closure gsim is_empty dist_kw dist_pos dist_methods fst snd].
  unfold args_ok. rewrite kw_bind_packaged, kw_bind_plain, H, (bind_full _ _ _ _ _ H). cbn [option_map].
  unfold simulate, random_weighted, estimate_logpdf, pd_sample, pd_logprob. cbn [t_value t_score].
  rewrite kw_bind_packaged, kw_bind_plain, H, (bind_full _ _ _ _ _ H). reflexivity.
Qed.
