"""fixed-defect witness: DiscreteHMM passed bound methods to TFP instead of
the tensors, so estimate_logpdf / random_weighted / data_logpdf all raised
(C37).  exit 1 if present or if the posterior is not normalised."""
import sys, itertools, math, jax, jax.numpy as jnp
from genjax._src.generative_functions.distributions.custom.discrete_hmm import DiscreteHMM, DiscreteHMMConfiguration

bad = []
try:
    cfg = DiscreteHMMConfiguration(jnp.array(3), jnp.array(1), jnp.array(1), jnp.array(0.5), jnp.array(0.4))
    obs = jnp.array([0, 2, 1])
    tot = 0.0
    for lat in itertools.product(range(3), repeat=3):
        lp = DiscreteHMM.estimate_logpdf(jax.random.key(0), jnp.array(lat), cfg, obs)
        tot += math.exp(float(lp))
    if abs(tot - 1.0) > 1e-4:
        bad.append(("not normalised", tot))
    w, v = DiscreteHMM.random_weighted(jax.random.key(1), cfg, obs)
    lp = DiscreteHMM.estimate_logpdf(jax.random.key(0), v, cfg, obs)
    if abs(float(w) - float(lp)) > 1e-5:
        bad.append(("rw weight", float(w), float(lp)))
    d = DiscreteHMM.data_logpdf(cfg, obs)
    if not math.isfinite(float(d)):
        bad.append(("data_logpdf", float(d)))
except Exception as e:
    bad.append(("raises", type(e).__name__, str(e)[:100]))
print("FAIL" if bad else "OK", bad[:3])
sys.exit(1 if bad else 0)
