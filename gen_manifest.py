#!/usr/bin/env python3
"""Writes MANIFEST.json from the table below (kept valid at all times)."""
import json, os
CLAIMED = {
 "C18": dict(engine="A-sel", technique="Coq proof over Gallina generated from choice_map.py by an ast translator; vm_compute correspondence",
             text="Theorems (coq/props/C18.v) over the selection classes as *regenerated from the source on every run*: membership of every address of any length equals the Boolean combination of the operands' memberships, sub-selection commutes, smart constructors preserve membership. Tie: translator + 3000 (quick) / exhaustive depth<=1 + 20000 (thorough) term x address cases compared inside Coq with the implementation's answers.",
             note="Trusted: Coq kernel/vm_compute; harness/translate_sel.py (validated by the correspondence run); pinned glue methods transcribed by hand in coq/model/Sel.v. All theorems closed under the global context.",
             ref="5/C18"),
 "C19": dict(engine="A-mask", technique="Coq proof over a hand-written Gallina model of Mask/FlagOp with staging tags; vm_compute correspondence",
             text="Theorems (coq/props/C19.v): truth tables of |, ^, ~, build (AND), flatten cases, unmask(default), and staging erasure (Python-bool vs array flags give the same observed flag and valid values) for scalar flags in every staging and arbitrary value pytrees. Tie: every stage x flag combination, all pairs of 2-element vector flags, ill-shaped combinations as errors, compared inside Coq with the implementation; direct oracle = the documented truth tables in numpy (also under jit in thorough).",
             note="Trusted: Coq kernel/vm_compute; the hand-written model coq/model/MaskAlg.v,Flag.v is tied only by the correspondence run; vectorised-flag tables are checked by correspondence + oracle, not by an elementwise theorem; Diff-wrapped flags and __getitem__ are not modelled. All theorems closed under the global context.",
             ref="5/C19"),
 "C20": dict(engine="A-mask", technique="Coq proof over a hand-written Gallina model of FlagOp/tree_choose/multi_switch; vm_compute correspondence",
             text="Theorems (coq/props/C20.v): FlagOp and/or/xor/not = Boolean logic on observed flags with numpy broadcasting, staging irrelevance, where/cond select, tree_choose = element at idx mod n with dtype join (static and array index agree), multi_switch = branch at the clamped index with zero placeholders, wrap/clamp agree exactly in range (refuted outside with a witness). Tie: exhaustive flag pairs, operands, every index in [-n-1,2n+1] for n<=4 as Python int and array.",
             note="Trusted: Coq kernel/vm_compute; hand-written model coq/model/Flag.v tied by the correspondence run; leaves are scalars or 1-d arrays of one common shape; lax/jnp error behaviour is modelled as None. All theorems closed under the global context.",
             ref="5/C20"),
}
ALL = ["C%02d" % i for i in range(1, 39)]
NA_REASON = "not yet covered by a theorem and tie in this round's development (see DESIGN.md section 7); no other technique is substituted"
m = {
 "version": 1,
 "setup_cmd": "./setup.sh",
 "hooks": {"guard": "GENJAX_VERIF", "enable": "no source hooks are needed: probes use the public exact_density API; checks run with PYTHONPATH=/repo/src", 
           "baseline_off_cmd": "cd /repo && /venv/bin/python -m pytest -ra -q -p no:cacheprovider --timeout=900 --continue-on-collection-errors", "source_commits": [], "add_only": True},
 "engines": [],
 "checks": [],
 "notes": "All checks: ./check <ID> --tier quick|thorough ; replay: ./check <ID> --replay <file>. Genuine defects repaired by fix: commits and recorded findings are in known_findings.json.",
 "not_applicable": [],
}
for pid in ALL:
    if pid in CLAIMED:
        c = CLAIMED[pid]
        m["checks"].append({
            "property_id": pid, "quick_cmd": f"./check {pid} --tier quick", "thorough_cmd": f"./check {pid} --tier thorough",
            "evidence_file": f"/verif/evidence/{pid}.json", "replay_cmd_template": f"./check {pid} --replay {{path}}",
            "engine": c["engine"], "level_claimed": {"category": "proof", "text": c["text"], "design_ref": c["ref"]},
            "level_note": c["note"], "technique": c["technique"]})
    else:
        m["not_applicable"].append({"property_id": pid, "reason": NA_REASON})
eng = {}
for pid, c in CLAIMED.items():
    eng.setdefault(c["engine"], []).append(pid)
m["engines"] = [{"name": k, "path": "harness/", "serves_properties": v, "kind_free_text": "correspondence engine: cases realised on /repo, compared inside Coq by vm_compute"} for k, v in eng.items()]
json.dump(m, open(os.path.join(os.path.dirname(__file__), "MANIFEST.json"), "w"), indent=1)
print("claimed", len(CLAIMED), "not_applicable", len(m["not_applicable"]))
