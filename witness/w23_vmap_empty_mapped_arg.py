"""C11: a vmapped generative function one of whose mapped arguments has no array leaves (an empty tuple, as the
argument tuple of a switch branch without parameters) raised IndexError when the axis size was looked up in it,
although jax.vmap itself accepts such an argument.   exit 0 = property holds, exit 1 = defect shows."""
import sys, os
os.environ.setdefault("JAX_PLATFORMS", "cpu")
import jax, jax.numpy as jnp, genjax

@genjax.gen
def f(empty, x):
    return genjax.normal(x, 1.0) @ "x"

try:
    tr = f.vmap(in_axes=(0, 0)).simulate(jax.random.key(0), ((), jnp.zeros(3)))
    ok = tr.get_retval().shape == (3,)
    print("retval shape", tr.get_retval().shape, "OK" if ok else "WRONG"); sys.exit(0 if ok else 1)
except Exception as e:
    print("raised", type(e).__name__, e); sys.exit(1)
