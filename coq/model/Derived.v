(* The derived combinators, defined from dimap / scan / vmap / switch / mask exactly as the
   source defines them (generative_function.py: repeat, or_else, map, contramap, iterate,
   iterate_final, accumulate, reduce, masked_iterate, masked_iterate_final; repeat.py, or_else.py,
   scan.py helper functions).  The harness ships programs in this derived syntax, so that
   `desugar` itself is compared with what `.iterate()`, `.repeat()` ... build. *)
From Coq Require Import List Bool ZArith NArith.
Import ListNotations.
From Gen Require Import SelGen.
From Model Require Import Key Sel GFI.
Open Scope Z_scope.

Definition ident_post : expr := EVar 2.

Fixpoint shift_var (e : expr) (by_ : nat) {struct e} : expr :=
  match e with
  | EVar i => EVar (i + by_)
  | EAdd a b => EAdd (shift_var a by_) (shift_var b by_)
  | EMul a b => EMul (shift_var a by_) (shift_var b by_)
  | ECons a b => ECons (shift_var a by_) (shift_var b by_)
  | EUnmask a b => EUnmask (shift_var a by_) (shift_var b by_)
  | ETup l => ETup (map (fun x => shift_var x by_) l)
  | EProj i x => EProj i (shift_var x by_)
  | ENotIdx x => ENotIdx (shift_var x by_)
  | EMaskValue x => EMaskValue (shift_var x by_)
  | EConst _ | ENone | EZeros _ => e
  end.

(* f.repeat(n): vmap over jnp.zeros(n) of a function ignoring the mapped index (repeat.py) *)
Definition g_repeat (n : nat) (g : gf) (arity : nat) : gf :=
  GDimap [EZeros n; ETup (map EVar (seq 0 arity))]
         (GVmap [Some 0%nat; None] (GDimap (map (fun i => EProj i (EVar 1)) (seq 0 arity)) g ident_post))
         ident_post.
(* f.or_else(g)(flag, f_args, g_args): switch on int(not flag) (or_else.py) *)
Definition g_or_else (g1 g2 : gf) : gf :=
  GDimap [ENotIdx (EVar 0); EVar 1; EVar 2] (GSwitch (GCons g1 (GCons g2 GNil))) ident_post.
Definition g_map (post1 : expr) (g : gf) (arity : nat) : gf :=
  GDimap (map EVar (seq 0 arity)) g (shift_var post1 2).
Definition g_contramap (pre : list expr) (g : gf) : gf := GDimap pre g ident_post.
(* iterate / iterate_final: scan with a None input, the kernel returns (x, x) resp. (x, None) *)
Definition g_iterate (n : nat) (f : gf) : gf :=
  GDimap [EVar 0; ENone]
         (GScan (Some n) (GDimap [EVar 0] f (ETup [EVar 2; EVar 2])))
         (ECons (EProj 0 (EVar 0)) (EProj 1 (EVar 2))).
Definition g_iterate_final (n : nat) (f : gf) : gf :=
  GDimap [EVar 0; ENone]
         (GScan (Some n) (GDimap [EVar 0] f (ETup [EVar 2; ENone])))
         (EProj 0 (EVar 2)).
Definition g_accumulate (f : gf) : gf :=
  GDimap [EVar 0; EVar 1]
         (GScan None (GDimap [EVar 0; EVar 1] f (ETup [EVar 2; EVar 2])))
         (ECons (EProj 0 (EVar 0)) (EProj 1 (EVar 2))).
Definition g_reduce (f : gf) : gf :=
  GDimap [EVar 0; EVar 1]
         (GScan None (GDimap [EVar 0; EVar 1] f (ETup [EVar 2; ENone])))
         (EProj 0 (EVar 2)).
Definition g_masked_iterate_final (step : gf) : gf :=
  GDimap [EVar 0; EVar 1]
         (GScan None (GDimap [EVar 1; EVar 0] (GMask step)
                             (ETup [EUnmask (EVar 2) (EProj 0 (EVar 0)); ENone])))
         (EProj 0 (EVar 2)).
Definition g_masked_iterate (step : gf) : gf :=
  GDimap [EVar 0; EVar 1]
         (GScan None (GDimap [EVar 1; EVar 0] (GMask step)
                             (ETup [EMaskValue (EVar 2); EMaskValue (EVar 2)])))
         (ECons (EProj 0 (EVar 0)) (EProj 1 (EVar 2))).

(* programs as users write them *)
Inductive dgf :=
| DDist (d : nat)
| DStatic (b : dbody)
| DVmap (axes : list (option nat)) (g : dgf)
| DScan (n : option nat) (g : dgf)
| DSwitch (bs : dgfs)
| DMask (g : dgf)
| DDimap (pre : list expr) (g : dgf) (post : expr)
| DRepeat (n : nat) (g : dgf) (arity : nat)
| DOrElse (g1 g2 : dgf)
| DMap (post1 : expr) (g : dgf) (arity : nat)
| DContramap (pre : list expr) (g : dgf)
| DIterate (n : nat) (g : dgf)
| DIterateFinal (n : nat) (g : dgf)
| DAccumulate (g : dgf)
| DReduce (g : dgf)
| DMaskedIterate (g : dgf)
| DMaskedIterateFinal (g : dgf)
with dbody :=
| DRet (e : expr)
| DSite (a : addr) (g : dgf) (args : list expr) (rest : dbody)
with dgfs := DNil | DCons (g : dgf) (r : dgfs).

Fixpoint desugar (p : dgf) : gf :=
  match p with
  | DDist d => GDist d
  | DStatic b => GStatic (desugar_body b)
  | DVmap axes g => GVmap axes (desugar g)
  | DScan n g => GScan n (desugar g)
  | DSwitch bs => GSwitch (desugar_branches bs)
  | DMask g => GMask (desugar g)
  | DDimap pre g post => GDimap pre (desugar g) post
  | DRepeat n g ar => g_repeat n (desugar g) ar
  | DOrElse g1 g2 => g_or_else (desugar g1) (desugar g2)
  | DMap post1 g ar => g_map post1 (desugar g) ar
  | DContramap pre g => g_contramap pre (desugar g)
  | DIterate n g => g_iterate n (desugar g)
  | DIterateFinal n g => g_iterate_final n (desugar g)
  | DAccumulate g => g_accumulate (desugar g)
  | DReduce g => g_reduce (desugar g)
  | DMaskedIterate g => g_masked_iterate (desugar g)
  | DMaskedIterateFinal g => g_masked_iterate_final (desugar g)
  end
with desugar_body (b : dbody) : sbody :=
  match b with
  | DRet e => SRet e
  | DSite a g args rest => SSite a (desugar g) args (desugar_body rest)
  end
with desugar_branches (bs : dgfs) : gfs :=
  match bs with DNil => GNil | DCons g r => GCons (desugar g) (desugar_branches r) end.

(* mix(g_1 .. g_n) (mixture.py): a static function of (logits, args_1 .. args_n)
     mix_idx = categorical(logits=mixture_logits) @ "mixture_component"
     v = switch(g_1 .. g_n)(mix_idx, *args) @ "component_sample"
     return v
   The index distribution is site distribution d (any density: the probes stand for it); the two addresses are
   interned as 90 and 91. *)
Definition mix_component : addr := [90%nat].
Definition mix_sample : addr := [91%nat].
Definition g_mix (d : nat) (bs : gfs) : gf :=
  let n := gfs_len bs in
  GStatic (SSite mix_component (GDist d) [EVar 0]
          (SSite mix_sample (GSwitch bs) (EVar (S n) :: map EVar (seq 1 n))
          (SRet (EVar (S (S n)))))).
