(* The derived combinators behave as their documented reference loops / branches
   (C12: iterate_final, reduce; C13: or_else; C16: masked_iterate_final; C11: repeat). *)
From Coq Require Import List Bool ZArith NArith Lia Arith.
Import ListNotations.
From Gen Require Import SelGen.
From Model Require Import Key Sel GFI GFIEdit Derived.
From Proofs Require Import GFIBase GFIRef GFIWf GFIConsistent GFIProject GFISim.
Open Scope Z_scope.

(* ---------- or_else ---------- *)
Theorem or_else_simulate g1 g2 k b a1 a2 t :
  simulate (g_or_else g1 g2) k [VB b; VT a1; VT a2] = Ok t ->
  exists t', simulate (if b then g1 else g2) k (if b then a1 else a2) = Ok t' /\
             t_score t = t_score t' /\ t_retval t = t_retval t' /\ t_choices t = t_choices t' /\ t_terms t = t_terms t'.
Proof.
  unfold g_or_else. intros H. simpl in H. destruct b; simpl in H.
  - bind_inv H as x Hx. bind_inv Hx as t' Ht. inversion Hx; subst. simpl in H. inversion H; subst. exists t'. simpl. auto.
  - bind_inv H as x Hx. bind_inv Hx as t' Ht. inversion Hx; subst. simpl in H. inversion H; subst. exists t'. simpl. auto.
Qed.
Theorem or_else_assess g1 g2 c b a1 a2 :
  assess (g_or_else g1 g2) c [VB b; VT a1; VT a2] = assess (if b then g1 else g2) c (if b then a1 else a2).
Proof.
  unfold g_or_else. simpl. destruct b; simpl.
  - destruct (assess g1 c a1) as [[s v]|e]; reflexivity.
  - destruct (assess g2 c a2) as [[s v]|e]; reflexivity.
Qed.
Theorem or_else_generate g1 g2 k c b a1 a2 t w :
  generate (g_or_else g1 g2) k c [VB b; VT a1; VT a2] = Ok (t, w) ->
  exists t', generate (if b then g1 else g2) k c (if b then a1 else a2) = Ok (t', w) /\
             t_score t = t_score t' /\ t_retval t = t_retval t' /\ t_choices t = t_choices t'.
Proof.
  unfold g_or_else. intros H. simpl in H. destruct b; simpl in H.
  - bind_inv H as x Hx. bind_inv Hx as y Hy. destruct y as [t' w']. inversion Hx; subst. simpl in H. inversion H; subst. exists t'. simpl. auto.
  - bind_inv H as x Hx. bind_inv Hx as y Hy. destruct y as [t' w']. inversion Hx; subst. simpl in H. inversion H; subst. exists t'. simpl. auto.
Qed.

(* ---------- iterate_final / reduce: the documented loops ---------- *)
(* ret = init; for _ in range(n): ret = f(ret)        -- recorded as the calls ts of f *)
Fixpoint iter_chain (f : gf) (x : val) (ts : list trace) (xf : val) : Prop :=
  match ts with
  | [] => xf = x
  | t :: r => wft f t /\ t_args t = [x] /\ iter_chain f (t_retval t) r xf
  end.
(* carry = init; for x in xs: carry = f(carry, x) *)
Fixpoint reduce_chain (f : gf) (xs : val) (i : nat) (c : val) (ts : list trace) (cf : val) : Prop :=
  match ts with
  | [] => cf = c
  | t :: r => wft f t /\ t_args t = [c; slice0 xs i] /\ reduce_chain f xs (S i) (t_retval t) r cf
  end.
Definition inner_of (t : trace) : trace := match t with TDimap i _ _ => i | _ => t end.

Lemma iterate_final_chain f : forall inner i c cf ys,
  scan_ok (wft (GDimap [EVar 0] f (ETup [EVar 2; ENone]))) VNone i c inner cf ys ->
  iter_chain f c (map inner_of inner) cf /\ zsum (map t_score inner) = zsum (map t_score (map inner_of inner)).
Proof.
  induction inner as [|t r IH]; intros i c cf ys H; simpl in H.
  - destruct H as [-> _]. simpl. auto.
  - destruct H as [Hw [Ha [c' [y [ys' [Hs [-> Hr]]]]]]].
    destruct t; simpl in Hw; try contradiction. destruct Hw as [Hpre [Hw Hpost]]. simpl in Ha. subst args.
    simpl in Hpre. inversion Hpre as [Hargs]. simpl in Hpost. inversion Hpost; subst ret. simpl in Hs. inversion Hs; subst.
    destruct (IH _ _ _ _ Hr) as [H1 H2]. simpl. rewrite H2. split; [|reflexivity].
    split; [exact Hw|]. split; [symmetry; exact Hargs | exact H1].
Qed.

Theorem iterate_final_is_loop n f t :
  wft (g_iterate_final n f) t ->
  exists init rest ts, t_args t = init :: rest /\ length ts = n /\ iter_chain f init ts (t_retval t) /\
                  t_score t = zsum (map t_score ts).
Proof.
  unfold g_iterate_final. intros H. destruct t; simpl in H; try contradiction. destruct H as [Hpre [Hw Hpost]].
  destruct t; simpl in Hw; try contradiction.
  destruct Hw as [carry [xs [len [cf [ys [Ha [Hlen [Hn [Hok [-> ->]]]]]]]]]].
  simpl in *. destruct args as [|init rest]; simpl in Hpre; try discriminate. rewrite Ha in Hpre. inversion Hpre; subst.
  inversion Hlen; subst. simpl in Hpost. inversion Hpost; subst.
  destruct (iterate_final_chain f inner 0%nat _ _ _ Hok) as [H1 H2].
  eexists _, _, (map inner_of inner). rewrite map_length.
  split; [reflexivity|]. split; [reflexivity|]. split; [exact H1 | exact H2].
Qed.

Lemma reduce_chain_of_scan f xs : forall inner i c cf ys,
  scan_ok (wft (GDimap [EVar 0; EVar 1] f (ETup [EVar 2; ENone]))) xs i c inner cf ys ->
  reduce_chain f xs i c (map inner_of inner) cf /\ zsum (map t_score inner) = zsum (map t_score (map inner_of inner)).
Proof.
  induction inner as [|t r IH]; intros i c cf ys H; simpl in H.
  - destruct H as [-> _]. simpl. auto.
  - destruct H as [Hw [Ha [c' [y [ys' [Hs [-> Hr]]]]]]].
    destruct t; simpl in Hw; try contradiction. destruct Hw as [Hpre [Hw Hpost]]. simpl in Ha. subst args.
    simpl in Hpre. inversion Hpre as [Hargs]. simpl in Hpost. inversion Hpost; subst ret. simpl in Hs. inversion Hs; subst.
    destruct (IH _ _ _ _ Hr) as [H1 H2]. simpl. rewrite H2. split; [|reflexivity].
    split; [exact Hw|]. split; [symmetry; exact Hargs | exact H1].
Qed.

Theorem reduce_is_loop f t :
  wft (g_reduce f) t ->
  exists init xs rest ts, t_args t = init :: xs :: rest /\ leading_len xs = Some (length ts) /\
                     reduce_chain f xs 0 init ts (t_retval t) /\ t_score t = zsum (map t_score ts).
Proof.
  unfold g_reduce. intros H. destruct t; simpl in H; try contradiction. destruct H as [Hpre [Hw Hpost]].
  destruct t; simpl in Hw; try contradiction.
  destruct Hw as [carry [xs [len [cf [ys [Ha [Hlen [Hn [Hok [-> ->]]]]]]]]]].
  simpl in *. destruct args as [|init [|xs0 rest]]; simpl in Hpre; try discriminate. rewrite Ha in Hpre. inversion Hpre; subst.
  simpl in Hpost. inversion Hpost; subst.
  destruct (reduce_chain_of_scan f _ inner 0%nat _ _ _ Hok) as [H1 H2].
  eexists _, _, _, (map inner_of inner). rewrite map_length.
  split; [reflexivity|]. split; [exact Hlen|]. split; [exact H1 | exact H2].
Qed.

(* ---------- masked_iterate_final: a step whose mask entry is False is inert ---------- *)
Definition masked_inner (t : trace) : trace := match t with TDimap (TMask i _ _) _ _ => i | _ => t end.
Definition masked_flag (t : trace) : bool := match t with TDimap (TMask _ f _) _ _ => f | _ => false end.
(* x_{i+1} = step(x_i) if mask[i] else x_i ; the score counts the live steps only *)
Fixpoint masked_chain (step : gf) (ms : val) (i : nat) (x : val) (ts : list trace) (xf : val) : Prop :=
  match ts with
  | [] => xf = x
  | t :: r => wft step (masked_inner t) /\ t_args (masked_inner t) = [x] /\ slice0 ms i = VB (masked_flag t) /\
              (forall g v, t_retval (masked_inner t) <> VM g v) /\
              masked_chain step ms (S i) (if masked_flag t then t_retval (masked_inner t) else x) r xf
  end.

Lemma masked_chain_of_scan step ms : forall inner i c cf ys,
  (forall t, In t inner -> forall g v, t_retval (masked_inner t) <> VM g v) ->
  scan_ok (wft (GDimap [EVar 1; EVar 0] (GMask step) (ETup [EUnmask (EVar 2) (EProj 0 (EVar 0)); ENone]))) ms i c inner cf ys ->
  masked_chain step ms i c inner cf /\
  zsum (map t_score inner) = zsum (map (fun t => if masked_flag t then t_score (masked_inner t) else 0) inner).
Proof.
  induction inner as [|t r IH]; intros i c cf ys Hnm H; simpl in H.
  - destruct H as [-> _]. simpl. auto.
  - destruct H as [Hw [Ha [c' [y [ys' [Hs [-> Hr]]]]]]].
    destruct t; simpl in Hw; try contradiction. destruct Hw as [Hpre [Hw Hpost]].
    destruct t; simpl in Hw; try contradiction. destruct Hw as [Hw Hargs0]. simpl in Ha. subst args.
    simpl in Hpre. subst args0. inversion Hpre as [[Hflag Hargs]]. clear Hpre.
    pose proof (Hnm _ (or_introl eq_refl)) as Hn0. simpl in Hn0.
    simpl in Hpost. unfold mbuild in Hpost.
    destruct (t_retval t) eqn:Er; try (exfalso; eapply Hn0; reflexivity);
      simpl in Hpost; inversion Hpost; subst ret; simpl in Hs; inversion Hs; subst;
      (destruct (IH _ _ _ _ (fun t0 Hi => Hnm t0 (or_intror Hi)) Hr) as [H1 H2]; simpl; rewrite H2; split; [|reflexivity];
       split; [exact Hw|]; split; [first [exact Hargs | symmetry; exact Hargs]|]; split; [first [exact Hflag | symmetry; exact Hflag]|]; split; [intros g v; rewrite Er; discriminate|];
       rewrite Er; destruct check; exact H1).
Qed.

Theorem masked_iterate_final_is_loop step t :
  wft (g_masked_iterate_final step) t ->
  exists init ms rest ts, t_args t = init :: ms :: rest /\
    ((forall t0, In t0 ts -> forall g v, t_retval (masked_inner t0) <> VM g v) ->
     masked_chain step ms 0 init ts (t_retval t) /\
     t_score t = zsum (map (fun t0 => if masked_flag t0 then t_score (masked_inner t0) else 0) ts)).
Proof.
  unfold g_masked_iterate_final. intros H. destruct t; simpl in H; try contradiction. destruct H as [Hpre [Hw Hpost]].
  destruct t; simpl in Hw; try contradiction.
  destruct Hw as [carry [xs [len [cf [ys [Ha [Hlen [Hn [Hok [-> ->]]]]]]]]]].
  simpl in *. destruct args as [|init [|ms rest]]; simpl in Hpre; try discriminate. rewrite Ha in Hpre. inversion Hpre; subst.
  simpl in Hpost. inversion Hpost; subst.
  eexists _, _, _, inner. split; [reflexivity|]. intros Hnm.
  apply (masked_chain_of_scan step _ inner 0%nat _ _ _ Hnm Hok).
Qed.
