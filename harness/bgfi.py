"""Engine B-gfi shared by the GFI properties: programs x histories are realised on
/repo's current tree (worker processes), shipped with the implementation's
observations to the Coq model (coq/model/GFI.v, GFIRun.v, vm_compute), and the
per-property direct oracles are evaluated on the implementation's outputs alone.

One engine run serves every B-gfi property of the same tree: its result is cached
under /verif/.cache keyed by a hash of /repo/src, the harness, the model, the seed
and the tier (a changed source byte changes the key)."""
import hashlib
import json
import os
import re
import time
from concurrent.futures import ThreadPoolExecutor
from pathlib import Path

from . import core, gfi, gfi_run
from .gfi import COEF, sel_mem

HDR = ("From Coq Require Import List Bool ZArith NArith.\nFrom Gen Require Import SelGen.\n"
       "From Model Require Import Key Sel GFI GFIEdit Derived GFIRun.")
CACHE = core.VERIF / ".cache"


# ---------------------------------------------------------------------------
# cache key
# ---------------------------------------------------------------------------
def tree_hash(seed, tier):
    h = hashlib.sha256()
    files = sorted((core.SRC / "genjax").rglob("*.py"))
    files += [core.VERIF / "harness" / f for f in ("gfi.py", "gfi_run.py", "bgfi.py")]
    files += sorted((core.COQ / "model").glob("GFI*.v")) + [core.COQ / "model" / f for f in ("Key.v", "Sel.v", "Derived.v")]
    for f in files:
        h.update(str(f).encode()); h.update(f.read_bytes())
    h.update(f"{seed}:{tier}".encode())
    return h.hexdigest()[:24]


# ---------------------------------------------------------------------------
# Coq evaluation returning (case, step) pairs
# ---------------------------------------------------------------------------
def coq_pairs(name, terms, shard=60, timeout=900):
    cdir = core.COQ / "cases"
    cdir.mkdir(exist_ok=True)
    shards = [terms[i:i + shard] for i in range(0, len(terms), shard)] or [[]]
    jobs = []
    for k, sh in enumerate(shards):
        body = [HDR, "Import ListNotations.", "Open Scope Z_scope.", "Definition cases : list gcase := [",
                ";\n".join(sh), "].", "Eval vm_compute in (gmismatches cases)."]
        path = cdir / f"{name}_{k}.v"
        path.write_text("\n".join(body) + "\n")
        jobs.append((k, path))

    def run(job):
        k, path = job
        rc, out = core.sh(["coqc", *core.QFLAGS, "-Q", "cases", "Cases", str(path.relative_to(core.COQ))], cwd=core.COQ, timeout=timeout)
        return k, rc, out

    pairs, errors = [], []
    with ThreadPoolExecutor(max_workers=8) as ex:
        for k, rc, out in ex.map(run, jobs):
            if rc != 0:
                errors.append(f"shard {k}: coqc failed: {out[-600:]}")
                continue
            m = re.search(r"=\s*(\[[^\]]*\])", out, flags=re.S)
            if not m:
                errors.append(f"shard {k}: unparsable output: {out[-300:]}")
                continue
            xs = [int(x) for x in re.findall(r"\d+", m.group(1))]
            for i in range(0, len(xs), 2):
                pairs.append((k * shard + xs[i], xs[i + 1]))
    return pairs, errors


# ---------------------------------------------------------------------------
# the engine
# ---------------------------------------------------------------------------
ROOTS = ["vmap", "axis1", "scan", "switch", "or_else", "mask", "dimap", "repeat", "map", "contramap", "iterate",
         "iterate_final", "accumulate", "reduce", "masked_iterate_final", "masked_iterate", "static"]


def engine(ctx):
    """returns dict(cases, outs, shipped(list of step-lists), mism {case_idx: step_idx}, errors, cached)"""
    key = tree_hash(ctx.seed, ctx.tier)
    CACHE.mkdir(exist_ok=True)
    cf = CACHE / f"bgfi_{key}.json"
    if cf.exists():
        try:
            res = json.loads(cf.read_text())
            res["cached"] = True
            res["mism"] = {int(k): v for k, v in res["mism"].items()}
            return res
        except Exception:
            pass
    t0 = time.time()
    n = ctx.n(64, 200)
    base = ctx.seed * 100000
    cases = [gfi_run.make_case(base + s, depth=(2 if s % 3 else 3)) for s in range(n)]
    # malformed stream (C22): static bodies that trace one address twice
    ndup = ctx.n(6, 12)
    k = 0
    while sum(1 for c in cases if c["flavour"] == "dup") < ndup and k < 40 * ndup:
        c = gfi_run.make_case(base + 50000 + k, depth=2, flavour="dup")
        k += 1
        if c["prog"][0] == "static" and len(c["prog"][1]) >= 2 and c["prog"][1][0][0] == c["prog"][1][-1][0]:
            cases.append(c)
    # targeted stream: every combinator as the root of some programs (see gfi_run.make_case)
    for ri, root in enumerate(ROOTS):
        for j in range(ctx.n(2, 4)):
            cases.append(gfi_run.make_case(base + 60000 + 100 * ri + j, depth=2, flavour="root:" + root))
    outs = gfi_run.run_cases(cases, procs=14)
    t_impl = time.time() - t0
    kept_idx = [i for i, o in enumerate(outs) if "skip" not in o]
    terms, shipped = [], {}
    for i in kept_idx:
        shipped[i] = [j for (j, _, _, _) in gfi_run.shipped_steps(outs[i])]
        terms.append(gfi_run.c_case(cases[i], outs[i]))
    pairs, errors = coq_pairs("bgfi", terms)
    mism = {}
    for (ci, si) in pairs:
        gi = kept_idx[ci]
        mism[gi] = shipped[gi][si]          # index into outs[gi]["steps"]
    res = {"cases": cases, "outs": outs, "mism": mism, "errors": errors, "t_impl": round(t_impl, 1),
           "t_total": round(time.time() - t0, 1), "cached": False, "key": key,
           "genjax_file": str(core.SRC / "genjax")}
    try:
        cf.write_text(json.dumps(res, default=str))
        # keep the cache small
        old = sorted(CACHE.glob("bgfi_*.json"), key=lambda p: p.stat().st_mtime)
        for p in old[:-6]:
            p.unlink()
    except Exception:
        pass
    res = json.loads(json.dumps(res, default=str))     # same shape as a cached read
    res["mism"] = {int(k): v for k, v in res["mism"].items()}
    return res


# ---------------------------------------------------------------------------
# independent reference evaluator (direct oracles; no model involved)
# ---------------------------------------------------------------------------
class Missing(Exception):
    pass


class Unsupported(Exception):
    pass


def logpdf(d, v, p):
    a, b, c, _ = COEF[d]
    return a * v + b * p + c


def ev(e, env):
    k = e[0]
    if k == "var": return env[e[1]]
    if k == "const": return e[1]
    if k == "add": return ev(e[1], env) + ev(e[2], env)
    if k == "mul": return ev(e[1], env) * ev(e[2], env)
    if k == "tup": return [ev(x, env) for x in e[1]]
    if k == "proj": return ev(e[2], env)[e[1]]
    if k == "none": return None
    if k == "zeros": return [0] * e[1]
    if k == "notidx": return 0 if ev(e[1], env) else 1
    if k == "cons": return [ev(e[1], env)] + list(ev(e[2], env) or [])
    if k == "unmask":
        m = ev(e[1], env)
        return m[2] if m[1] else ev(e[2], env)
    if k == "maskvalue":
        m = ev(e[1], env)
        if not m[1]: raise Unsupported("value of an invalid mask")
        return m[2]
    raise ValueError(e)


def py_ref(p, look, args, pre=()):
    """the program text run over the observed choice values: returns (terms, retval) where
    terms = [(path, dist, value, param)] for every random choice made (masked-off calls make none)"""
    k = p[0]
    if k == "dist":
        v = look.get(tuple(pre))
        if v is None:
            raise Missing(pre)
        return [(tuple(pre), p[1], v, args[0])], v
    if k == "static":
        env, terms = list(args), []
        for (a, g, es) in p[1]:
            av = [ev(e, env) for e in es]
            t, r = py_ref(g, look, av, tuple(pre) + tuple(("s", x) for x in a))
            terms += t
            env.append(r)
        return terms, ev(p[2], env)
    if k == "vmap":
        axes = p[1]
        n = None
        for ax, v in zip(axes, args):
            if ax is not None:
                n = len(v) if not (isinstance(v, list) and v and isinstance(v[0], list) and ax == 1) else len(v[0])
                break
        terms, rets = [], []
        for i in range(n):
            sl = [(v if ax is None else ([row[i] for row in v] if ax == 1 else v[i])) for ax, v in zip(axes, args)]
            t, r = py_ref(p[2], look, sl, tuple(pre) + (("i", i),))
            terms += t
            rets.append(r)
        return terms, rets
    if k == "scan":
        carry, xs = args
        n = p[1] if p[1] is not None else len(xs)
        terms, ys = [], []
        for i in range(n):
            t, r = py_ref(p[2], look, [carry, (None if xs is None else xs[i])], tuple(pre) + (("i", i),))
            terms += t
            carry, y = r
            ys.append(y)
        if n > 0 and all(y is None for y in ys):
            ys = None
        return terms, [carry, ys]
    if k == "switch":
        idx = args[0]
        j = min(max(idx, 0), len(p[1]) - 1)
        return py_ref(p[1][j], look, args[1 + j], pre)
    if k == "mask":
        flag = args[0]
        if not flag:
            # a masked-off call makes no random choice; its return value is an invalid mask
            return [], ("M", False, None)
        t, r = py_ref(p[1], look, args[1:], pre)
        if isinstance(r, tuple) and r and r[0] == "M":
            return (t if r[1] else []), r
        return t, ("M", True, r)
    if k == "dimap":
        ia = [ev(e, list(args)) for e in p[1]]
        t, r = py_ref(p[2], look, ia, pre)
        return t, ev(p[3], [list(args), ia, r])
    raise ValueError(p)


def look_dict(obs):
    return {tuple(tuple(c) for c in path): v for path, v in obs["look"] if v is not None}


def static_names(path):
    return [x for (k, x) in path if k == "s"]


# ---------------------------------------------------------------------------
# direct oracles: each returns a list of (what, detail) failures for one case
# ---------------------------------------------------------------------------
def traces_of(out):
    """observations of the traces created by the steps, in creation order"""
    tr = []
    for s in out["steps"]:
        if s["kind"] in ("sim", "gen") and s["res"][0] == "ok":
            tr.append(s["res"][1] if s["kind"] == "sim" else s["res"][1][0])
        elif s["kind"] in ("edit",) and s["res"][0] == "ok":
            tr.append(s["res"][1]["trace"])
    return tr


def ref_of(case, obs):
    try:
        return py_ref(case["core"], look_dict(obs), case["args"])
    except (Missing, Unsupported, TypeError, IndexError):
        return None


def oracle_C01(case, out):
    bad, tr = [], traces_of(out)
    for s in out["steps"]:
        if s["kind"] == "assess_own":
            o = tr[s["ti"]]
            if s["res"][0] == "ok":
                sc, rv = s["res"][1]
                if sc != o["score"] or not val_eq(rv, o["ret"]):
                    bad.append(("assess(trace.get_choices(), trace.get_args()) != (trace.get_score(), trace.get_retval())",
                                {"trace": s["ti"], "assess": [sc, rv], "score": o["score"], "retval": o["ret"]}))
            elif s["res"][0] == "err":
                bad.append(("assess raised on the trace's own choices and arguments", {"trace": s["ti"], "error": s["res"][1:]}))
    return bad


def val_eq(a, b):
    if isinstance(a, (list, tuple)) and a and a[0] == "M" and isinstance(b, (list, tuple)) and b and b[0] == "M":
        return (not a[1] and not b[1]) or (a[1] and b[1] and val_eq(a[2], b[2]))
    if isinstance(a, (list, tuple)) and isinstance(b, (list, tuple)):
        return len(a) == len(b) and all(val_eq(x, y) for x, y in zip(a, b))
    return a == b


def oracle_C02(case, out):
    bad = []
    sg = [s["res"][1] if s["kind"] == "sim" else s["res"][1][0] for s in out["steps"] if s["kind"] in ("sim", "gen") and s["res"][0] == "ok"]
    for i, o in enumerate(sg):
        r = ref_of(case, o)
        if r is None:
            continue
        terms, rv = r
        want = sum(logpdf(d, v, p) for (_, d, v, p) in terms)
        if want != o["score"]:
            bad.append(("score != sum over the program's random choices of their log-densities",
                        {"trace": i, "score": o["score"], "reference": want, "terms": [list(map(str, t)) for t in terms][:8]}))
        elif not val_eq(norm(rv), norm(o["ret"])):
            bad.append(("return value differs from the program text evaluated on the trace's choices",
                        {"trace": i, "retval": o["ret"], "reference": rv}))
    return bad


def norm(v):
    if isinstance(v, tuple):
        v = list(v)
    if isinstance(v, list):
        if v and v[0] == "M":
            return ["M", bool(v[1]), norm(v[2]) if v[1] else None]
        if not v:
            return None          # a zero-length stack of None outputs is None; of scalars an empty array: not distinguished
        return [norm(x) for x in v]
    return v


def valid_entries(entries):
    """address -> value for the entries that constrain (first wins; masked-false entries do not constrain)"""
    seen, out = set(), {}
    for path, v in entries:
        key = tuple(tuple(c) for c in path)
        if key in seen:
            continue
        seen.add(key)
        if isinstance(v, (list, tuple)) and v and v[0] == "M":
            if v[1]:
                out[key] = v[2]
        else:
            out[key] = v
    return out


def oracle_C03(case, out):
    bad = []
    for s in out["steps"]:
        if s["kind"] != "gen" or s["res"][0] != "ok":
            continue
        o, w = s["res"][1]
        r = ref_of(case, o)
        if r is None:
            continue
        terms, _ = r
        cons = valid_entries(s["entries"])
        want = sum(logpdf(d, v, p) for (path, d, v, p) in terms if path in cons)
        look = look_dict(o)
        for path, v in cons.items():
            if path in look and look[path] != v and any(t[0] == path for t in terms):
                bad.append(("trace disagrees with the constraint at a constrained address", {"addr": list(path), "constraint": v, "trace": look[path]}))
        if want != w:
            bad.append(("importance weight != sum of the log-densities of the constrained choices",
                        {"weight": w, "reference": want, "constrained": [list(p) for p in cons], "entries": s["entries"]}))
        if not cons and w != 0:
            bad.append(("empty constraint with non-zero weight", {"weight": w}))
    for s_ in out["steps"]:
        if s_["kind"] == "gen" and s_["res"][0] == "ok" and s_.get("closure_differs"):
            bad.append(("importance through the partially applied function g(a)(rest) differs from g(a, *rest)",
                        {"entries": s_["entries"], "difference": str(s_["closure_differs"])[:300]}))
    return bad


def oracle_C10(case, out):
    bad, tr = [], traces_of(out)
    for s in out["steps"]:
        if s["kind"] != "project" or s["res"][0] != "ok":
            continue
        o = tr[s["ti"]]
        r = ref_of(case, o)
        if r is None:
            continue
        terms, _ = r
        want = sum(logpdf(d, v, p) for (path, d, v, p) in terms if sel_mem(s["sel"], static_names(path)))
        if want != s["res"][1]:
            bad.append(("project != sum of the log-densities of the selected choices", {"sel": s["sel"], "project": s["res"][1], "reference": want}))
    return bad


ORACLES = {"C01": oracle_C01, "C02": oracle_C02, "C03": oracle_C03, "C10": oracle_C10}


# ---------------- edits ----------------
def edits_of(out, kinds=None, weights=False):
    """successful edit steps; weights=True leaves out the index-changing switch edits (their weight is K19)"""
    for s in out["steps"]:
        if s["kind"] == "edit" and s["res"][0] == "ok" and (kinds is None or s["req"][0] in kinds):
            if weights and s.get("noship") and s["args"][:1] != s["old_args"][:1]:
                continue
            yield s


def req_constraints(q, pre=()):
    """address -> value for the addresses an Update-like request constrains with a valid value"""
    k = q[0]
    if k == "update":
        return {tuple(pre) + kk: v for kk, v in valid_entries(q[1]).items()}
    if k == "static":
        out = {}
        for a, r in q[1]:
            out.update(req_constraints(r, tuple(pre) + tuple(("s", x) for x in a)))
        return out
    if k == "index":
        return req_constraints(q[2], tuple(pre) + (("i", q[1]),))
    return {}


def oracle_C05(case, out):
    """Update: constrained addresses take the constraint, the others keep their value, weight = score change,
    the backward request holds the previous values at the overwritten addresses and nothing else"""
    bad = []
    for s in edits_of(out, ("update",), weights=True):
        new, old, w, bwd = s["res"][1]["trace"], s["old_obs"], s["res"][1]["weight"], s["res"][1]["bwd"]
        cons = req_constraints(s["req"])
        ln, lo = look_dict(new), look_dict(old)
        for path, v in ln.items():
            if path in cons:
                if v != cons[path]:
                    bad.append(("update: the new trace disagrees with the constraint", {"addr": list(path), "constraint": cons[path], "trace": v}))
            elif path in lo and v != lo[path]:
                bad.append(("update: an unconstrained choice changed", {"addr": list(path), "old": lo[path], "new": v}))
        if w != new["score"] - old["score"]:
            bad.append(("update: weight != new score - old score", {"weight": w, "new": new["score"], "old": old["score"], "req": s["req"]}))
        if bwd["flat"] and not prog_has(case["prog"], ("switch", "or_else")):
            lb = {tuple(tuple(c) for c in p): v for p, v in bwd["look"] if v is not None}
            for path in cons:
                if path in lo and path in ln and lb.get(path) != lo[path]:
                    bad.append(("update: the backward constraint does not hold the previous value at an overwritten address",
                                {"addr": list(path), "previous": lo[path], "backward": lb.get(path)}))
            for path, v in lb.items():
                if path not in cons:
                    bad.append(("update: the backward constraint has a value at an address that was not overwritten", {"addr": list(path), "value": v}))
    return bad


def oracle_C06(case, out):
    """applying the backward request with the original arguments restores choices, score, return value; weight negated.
    Failures explained by a recorded finding carry its signature (third component)."""
    bad = []
    edits = [s for s in out["steps"] if s["kind"] == "edit"]
    masky = prog_has(case["prog"], ("mask", "masked_iterate", "masked_iterate_final"))
    for s in out["steps"]:
        if s["kind"] != "bwd":
            continue
        if s["res"][0] == "err":
            bad.append(("the backward request is not accepted by edit", {"request": s["req_kind"], "error": s["res"][1:]}))
            continue
        if s["res"][0] != "ok":
            continue
        fwd = edits[s["ei"]]
        o, w = s["res"][1]
        orig = s["orig_obs"]
        sig = None
        if prog_has(case["prog"], ("switch", "or_else")):
            sig = "switch-edit-bwd"           # K19 (c): the backward request is branch 0's whatever branch ran
        elif masky and req_constraints(fwd["req"]):
            sig = "mask-off-update-bwd"       # K25: an update constraining a choice under a mask that is off afterwards
        if o["score"] != orig["score"] or not val_eq(norm(o["ret"]), norm(orig["ret"])) or look_dict(o) != look_dict(orig):
            bad.append(("the backward request does not restore the original trace",
                        {"request": fwd["req"], "args": fwd["args"], "old_args": fwd["old_args"],
                         "restored": {"score": o["score"], "ret": o["ret"]}, "original": {"score": orig["score"], "ret": orig["ret"]},
                         "choices_differ": sorted([list(k) for k in set(look_dict(o).items()) ^ set(look_dict(orig).items())], key=str)[:4]}, sig))
        elif w != -s["fwd_weight"]:
            bad.append(("backward weight != - forward weight", {"forward": s["fwd_weight"], "backward": w}, sig))
    return bad


def oracle_C07(case, out):
    bad = []
    for s in edits_of(out, ("regen",)):
        new, old, w = s["res"][1]["trace"], s["old_obs"], s["res"][1]["weight"]
        ln, lo = look_dict(new), look_dict(old)
        for path, v in ln.items():
            if path in lo and not sel_mem(s["req"][1], static_names(path)) and v != lo[path]:
                bad.append(("regenerate changed an unselected choice", {"addr": list(path), "old": lo[path], "new": v, "sel": s["req"][1]}))
        if w != new["score"] - old["score"]:
            bad.append(("regenerate: weight != new score - old score", {"weight": w, "new": new["score"], "old": old["score"]}))
        nothing = not any(sel_mem(s["req"][1], static_names(p)) for p in ln)
        if nothing and s["args"] == s["old_args"] and (w != 0 or ln != lo or new["score"] != old["score"]):
            bad.append(("regenerate with nothing selected and unchanged arguments is not the identity", {"weight": w}))
    return bad


def oracle_edit_ref(case, out):
    """every edited trace still has the score / return value the program text defines (C01/C02 on edited traces:
    scan remains the documented loop, masks stay inert, dimap recomputes pre/post ...)"""
    bad = []
    for s in edits_of(out):
        o = s["res"][1]["trace"]
        if s["res"][1].get("args_ok") is False:
            bad.append(("after an edit: the new trace does not hold the arguments of the edit",
                        {"req": s["req"], "args": s["args"], "trace_args": s["res"][1].get("trace_args")}))
        c2 = dict(case); c2["args"] = s["args"]
        r = ref_of(c2, o)
        if r is None:
            continue
        terms, rv = r
        want = sum(logpdf(d, v, p) for (_, d, v, p) in terms)
        if want != o["score"]:
            bad.append(("after an edit: score != sum of the log-densities the program defines for the trace's choices and new arguments",
                        {"req": s["req"], "args": s["args"], "score": o["score"], "reference": want}))
        elif not val_eq(norm(rv), norm(o["ret"])):
            bad.append(("after an edit: return value differs from the program text evaluated on the new choices and arguments",
                        {"req": s["req"], "args": s["args"], "retval": o["ret"], "reference": rv}))
    return bad


def oracle_all(case, out):
    return oracle_C01(case, out) + oracle_C02(case, out) + oracle_C03(case, out) + oracle_C10(case, out) + oracle_edit_ref(case, out)


ORACLES.update({"C05": oracle_C05, "C06": oracle_C06, "C07": oracle_C07, "edit_ref": oracle_edit_ref, "all": oracle_all})

# which step kinds a property's correspondence is about
KINDS = {
    "C01": {"sim", "gen", "assess_own", "edit"},
    "C02": {"sim", "gen", "assess_own"},
    "C03": {"gen"},
    "C10": {"project"},
    "C05": {"edit", "bwd"}, "C06": {"edit", "bwd"}, "C07": {"edit"},
}
# direct oracles of each property (combinator properties: everything the program text defines, on their programs)
PROP_ORACLES = {"C02": ["C02", "edit_ref"],     # "the score of its traces": edited traces are traces too
                "C05": ["C05", "edit_ref"], "C06": ["C06", "edit_ref"], "C07": ["C07", "edit_ref"],
                "C11": ["all"], "C12": ["all"], "C13": ["all"], "C14": ["all"], "C15": ["all"], "C16": ["all"]}
# combinator-specific properties look at every step of the programs that contain the combinator
CONTAINS = {
    "C11": ("vmap", "repeat"), "C12": ("scan", "iterate", "iterate_final", "accumulate", "reduce"),
    "C13": ("switch", "or_else"), "C14": ("mask", "masked_iterate", "masked_iterate_final"), "C15": ("dimap", "map", "contramap"),
    "C16": ("masked_iterate", "masked_iterate_final"),
}


# ---------------- C22 / C34 / C38 ----------------
def oracle_C22(case, out):
    """static language: the trace's choices are exactly the visited addresses; a re-used address raises AddressReuse;
    assess raises MissingAddress exactly when a visited address has no value"""
    bad = []
    if case.get("flavour") == "dup":
        for s in out["steps"]:
            if s["kind"] in ("sim", "gen") and not (s["res"][0] == "err" and s["res"][1] == "EAddressReuse"):
                bad.append(("a static body tracing one address twice did not raise AddressReuse", {"step": s["kind"], "res": s["res"][:2]}))
        return bad
    for s in out["steps"]:
        if s["kind"] == "sim" and s["res"][0] == "ok":
            o = s["res"][1]
            try:
                terms, _ = py_ref(case["core"], look_dict(o), case["args"])
                visited = {t[0] for t in terms}
                present = set(look_dict(o))
                if visited != present:
                    bad.append(("the trace's choice map does not hold exactly the visited addresses",
                                {"only_visited": [list(p) for p in visited - present][:3], "only_in_choices": [list(p) for p in present - visited][:3]}))
            except Missing as e:
                if case.get("univ_full", True):      # (a truncated observation cannot tell)
                    bad.append(("a visited address has no value in the trace's choice map", {"addr": [list(c) for c in e.args[0]]}))
            except (Unsupported, TypeError, IndexError):
                pass
        if case.get("zero_len") and s["kind"] in ("assess_partial", "assess_full"):
            continue        # a zero-length vector site records no choice: assess reports it missing (known finding K16)
        if s["kind"] == "assess_partial":
            # the dropped site's addresses are visited: MissingAddress expected (unless the site makes no choice)
            dropped = [("s", x) for x in s["dropped"]]
            sim = next(x for x in out["steps"] if x["kind"] == "sim")
            had = any(tuple(tuple(c) for c in p)[:len(dropped)] == tuple(dropped) for p, v in sim["res"][1]["look"] if v is not None)
            want_err = had
            got_err = s["res"][0] == "err" and s["res"][1] == "EMissingAddress"
            if s["res"][0] in ("ok", "err") and want_err != got_err:
                bad.append(("assess: MissingAddress is not raised exactly when a visited address has no value",
                            {"dropped": s["dropped"], "visited_had_choices": had, "res": s["res"][:2]}))
        if s["kind"] == "assess_full" and s["res"][0] == "err" and s["res"][1] == "EMissingAddress":
            bad.append(("assess raised MissingAddress although every visited address has a value", {"res": s["res"][:3]}))
    return bad


def oracle_C34(case, out):
    bad = []
    sim = next((x for x in out["steps"] if x["kind"] == "sim" and x["res"][0] == "ok"), None)
    if sim is None:
        return bad
    o = sim["res"][1]
    r = ref_of(case, o)
    for s in out["steps"]:
        if s["kind"] == "subtrace" and s["res"][0] == "err":
            pre = tuple(tuple(c) for c in s["addr"])
            # (not through a switch: the pattern may belong to a branch that did not run, and a tuple address of the
            #  branch that ran can share a prefix with it; there the model alone judges)
            if not any(el[0] == "switch" for el in s.get("pattern", [])) and any(k[:len(pre)] == pre for k in look_dict(o)):
                bad.append(("get_subtrace raised at an address under which the trace holds choices",
                            {"addr": s["addr"], "error": s["res"][1:]}))
            continue
        if s["kind"] != "subtrace" or s["res"][0] != "ok":
            continue
        sc, lk = s["res"][1]
        pre = tuple(tuple(c) for c in s["addr"])
        parent = {k[len(pre):]: v for k, v in look_dict(o).items() if k[:len(pre)] == pre}
        sub = {tuple(tuple(c) for c in p): v for p, v in lk if v is not None}
        if not parent and any(el[0] == "mask" for el in s.get("pattern", [])):
            continue        # under a mask that is off (or an empty call): the program did not trace the address
        if sub != parent:
            bad.append(("get_subtrace: the subtrace's choices differ from the parent's submap at that address", {"addr": s["addr"], "sub": str(sub)[:200], "parent": str(parent)[:200]}))
        if r is not None:
            want = sum(logpdf(d, v, p) for (path, d, v, p) in r[0] if path[:len(pre)] == pre)
            if want != sc:
                bad.append(("get_subtrace: the subtrace's score is not that call's contribution to the parent's score", {"addr": s["addr"], "score": sc, "contribution": want}))
    return bad


def oracle_C38(case, out):
    bad = []
    sim = next((x for x in out["steps"] if x["kind"] == "sim" and x["res"][0] == "ok"), None)
    for s in out["steps"]:
        if s["kind"] == "propose" and sim is not None and s["res"][0] == "ok":
            if json.dumps(s["res"][1], sort_keys=True, default=str) != json.dumps(sim["res"][1], sort_keys=True, default=str):
                bad.append(("propose differs from simulate with the same key", {"propose": str(s["res"][1])[:200], "simulate": str(sim["res"][1])[:200]}))
        if s["kind"] == "wrappers":
            if s["res"][0] == "err":
                bad.append(("a derived GFI method raised where the primitive one works", {"error": s["res"][1:]}))
                continue
            if s["res"][0] != "ok":
                continue
            w = s["res"][1]
            if w.get("project") is not None and w["project"][0] != w["project"][1]:
                bad.append(("Trace.project differs from the generative function's project", {"values": w["project"]}))
            uv = [json.dumps(x, sort_keys=True, default=str) for x in w["update_variants"]]
            if len(set(uv)) != 1:
                names = ["Update.edit", "Trace.update", "Trace.edit", "DiffAnnotate(identity).edit", "gen_fn.edit"]
                bad.append(("Update.edit / Trace.update / Trace.edit / DiffAnnotate(identity) / gen_fn.edit disagree",
                            {"differs": [n for n, x in zip(names, uv) if x != uv[0]]}))
            ig = [json.dumps(x, sort_keys=True, default=str) for x in w["importance_generate"]]
            if ig[0] != ig[1]:
                bad.append(("importance differs from generate", {}))
            et, ew, eb = w["empty_identity"]
            if sim is not None and (json.dumps(et, sort_keys=True, default=str) != json.dumps(sim["res"][1], sort_keys=True, default=str) or ew != 0 or eb != "EmptyRequest"):
                bad.append(("EmptyRequest with unchanged arguments is not the identity with weight 0", {"weight": ew, "bwd": eb}))
    # EmptyRequest with changed arguments = empty Update; StaticRequest = addressed sub-requests: by the model (correspondence) + edit_ref
    return bad + [b for b in oracle_edit_ref(case, out)]


ORACLES.update({"C22": oracle_C22, "C34": oracle_C34, "C38": oracle_C38})
PROP_ORACLES.update({"C22": ["C22"], "C34": ["C34"], "C38": ["C38"], "C35": ["C03", "C05"]})
KINDS.update({"C22": {"sim", "gen", "assess_partial", "assess_full", "assess_own"}, "C34": {"subtrace"},
              "C38": {"propose", "wrappers", "edit", "gen", "sim"}, "C35": {"gen", "edit"}})


# ---------------- C04 / C08 / C23 ----------------
def oracle_C04(case, out):
    bad = []
    sim = next((x for x in out["steps"] if x["kind"] == "sim" and x["res"][0] == "ok"), None)
    for s in out["steps"]:
        if s["kind"] == "sim_again" and sim is not None:
            if s["res"][0] != "ok" or json.dumps(s["res"][1], sort_keys=True, default=str) != json.dumps(sim["res"][1], sort_keys=True, default=str):
                bad.append(("simulate is not a function of (key, arguments): two calls differ", {"second": str(s["res"])[:200]}))
        if s["kind"] == "echo" and s["res"][0] == "ok":
            vals = s["res"][1]
            seen = {}
            for p, v in vals:
                if v in seen:
                    bad.append(("two random choices of one simulate call drew with the same PRNG key (key-echo probes returned the same key bits)",
                                {"addr1": seen[v], "addr2": p, "key_bits": v}))
                    break
                seen[v] = p
    return bad


def oracle_C08(case, out):
    bad = []
    for s in out["steps"]:
        if s["kind"] == "edit" and s["res"][0] == "ok":
            rd = s["res"][1].get("retdiff")
            if rd and rd["violations"]:
                bad.append(("a return-value leaf tagged NoChange differs from the previous return value",
                            {"req": s["req"], "args": s["args"], "old_args": s["old_args"], "leaves": rd["violations"]}))
        if s["kind"] == "tagging" and s["res"][0] in ("ok", "err"):
            if s["res"][0] == "err":
                bad.append(("an edit fails under one honest tagging of its unchanged arguments and succeeds under another", {"alt": s["alt"], "changed": s["changed"], "error": s["res"][1:]}))
                continue
            o, w, b, rd = s["res"][1]
            ref = s["ref"]
            same = (json.dumps(o, sort_keys=True, default=str) == json.dumps(ref["trace"], sort_keys=True, default=str) and w == ref["weight"]
                    and json.dumps(b, sort_keys=True, default=str) == json.dumps(ref["bwd"], sort_keys=True, default=str))
            if not same:
                bad.append(("tagging an unchanged argument NoChange instead of UnknownChange (or back) changed the edit's result",
                            {"changed": s["changed"], "alt": s["alt"], "weight": [ref["weight"], w]}))
            if rd and rd["violations"]:
                bad.append(("a return-value leaf tagged NoChange differs from the previous return value (second tagging)", {"leaves": rd["violations"]}))
    return bad


def oracle_C23(case, out):
    bad = []
    byk = lambda k: next((x for x in out["steps"] if x["kind"] == k and x["res"][0] == "ok"), None)
    for s in out["steps"]:
        if s["kind"] == "jit":
            if s["res"][0] == "err":
                bad.append(("a GFI method that works eagerly raises inside jax.jit", {"error": s["res"][1:]}))
                continue
            if s["res"][0] != "ok":
                continue
            j = s["res"][1]
            eq = lambda a, b: json.dumps(a, sort_keys=True, default=str) == json.dumps(b, sort_keys=True, default=str)
            sim = byk("sim")
            if sim and not eq(j["sim"], sim["res"][1]):
                bad.append(("simulate differs between eager execution and jax.jit", {"eager": str(sim["res"][1])[:150], "jit": str(j["sim"])[:150]}))
            a = byk("assess_own")
            if a and "assess" in j and not eq(list(j["assess"]), list(a["res"][1])):
                bad.append(("assess differs between eager execution and jax.jit", {"eager": a["res"][1], "jit": j["assess"]}))
            gn = byk("gen")
            if gn and "gen" in j and not eq(list(j["gen"]), list(gn["res"][1])):
                bad.append(("importance differs between eager execution and jax.jit", {}))
            pr = byk("project")
            if pr and "project" in j and j["project"] != pr["res"][1]:
                bad.append(("project differs between eager execution and jax.jit", {"eager": pr["res"][1], "jit": j["project"]}))
        if s["kind"] == "vmapkeys":
            if s["res"][0] == "err":
                bad.append(("simulate raises under jax.vmap over keys", {"error": s["res"][1:]}))
            elif s["res"][0] == "ok":
                for i, (sl, single) in enumerate(s["res"][1]):
                    if json.dumps(sl, sort_keys=True, default=str) != json.dumps(single, sort_keys=True, default=str):
                        bad.append(("slice i of a simulate batched over keys differs from the unbatched call on key i", {"i": i}))
                        break
    return bad


ORACLES.update({"C04": oracle_C04, "C08": oracle_C08, "C23": oracle_C23})
PROP_ORACLES.update({"C04": ["C04"], "C08": ["C08"], "C23": ["C23"]})
KINDS.update({"C04": {"sim", "sim_again", "echo", "gen"}, "C08": {"edit", "tagging"},
              "C23": {"jit", "vmapkeys", "sim", "gen", "assess_own", "project"}})


def prog_has(p, kinds):
    return gfi.Gen.contains(detuple_prog(p), kinds)


def detuple_prog(p):
    if isinstance(p, list):
        if p and isinstance(p[0], str):
            return tuple(detuple_prog(x) for x in p)
        return [detuple_prog(x) for x in p]
    return p


def relevant(pid, case, step_kind):
    if pid in KINDS:
        return step_kind in KINDS[pid]
    if pid in CONTAINS:
        return prog_has(case["prog"], CONTAINS[pid])
    return True


def run_property(ctx, pid, oracles=None, extra_cov=None):
    ctx.proofs()
    res = engine(ctx)
    cases, outs = res["cases"], res["outs"]
    for e in res["errors"][:2]:
        ctx.fail("correspondence", "B-gfi case file did not evaluate: " + e)
    nsteps, nrel, kinds, ncases, skipped, known = 0, 0, {}, 0, 0, 0
    rel_cases = []
    for i, (c, o) in enumerate(zip(cases, outs)):
        if "skip" in o:
            skipped += 1
            continue
        rel = False
        for si, s in enumerate(o["steps"]):
            nsteps += 1
            if s["res"][0] == "known":
                known += 1
            if relevant(pid, c, s["kind"]):
                nrel += 1
                rel = True
                kinds[s["kind"] + ":" + s["res"][0]] = kinds.get(s["kind"] + ":" + s["res"][0], 0) + 1
        if rel:
            ncases += 1
            rel_cases.append(i)
    # correspondence
    nm = 0
    for gi, si in sorted(res["mism"].items()):
        st = outs[gi]["steps"][si]
        if relevant(pid, cases[gi], st["kind"]):
            nm += 1
            if nm <= 3:
                ctx.fail("correspondence",
                         f"model coq/model/GFI.v and implementation disagree at step {si} ({st['kind']}) of case seed={cases[gi]['seed']}: "
                         f"program {json.dumps(cases[gi]['prog'])[:300]} implementation gives {json.dumps(st['res'], default=str)[:300]}",
                         case={"seed": cases[gi]["seed"], "depth": (2 if (cases[gi]["flavour"] != "basic" or (cases[gi]['seed'] % 100000) % 3) else 3),
                               "flavour": cases[gi]["flavour"], "oracle": "model", "step": si})
    # direct oracles
    nor, nsig = 0, {}
    for name in (oracles or [pid]):
        fn = ORACLES.get(name)
        if not fn:
            continue
        for i in rel_cases:
            for fail in fn(cases[i], outs[i]):
                what, detail = fail[0], fail[1]
                sig = fail[2] if len(fail) > 2 else None
                if sig:
                    nsig[sig] = nsig.get(sig, 0) + 1
                    if nsig[sig] > 1:
                        continue
                else:
                    nor += 1
                    if nor > 3:
                        continue
                ctx.fail("oracle", f"{what}: {json.dumps(detail, default=str)[:400]} (program {json.dumps(cases[i]['prog'])[:200]})",
                         case={"seed": cases[i]["seed"], "depth": (2 if (cases[i]["flavour"] != "basic" or (cases[i]['seed'] % 100000) % 3) else 3),
                               "flavour": cases[i]["flavour"], "oracle": name, "what": what},
                         signature=sig)
    ctx.cov["evaluations"] = nrel
    ctx.cov["traces_validated_against_impl"] = nrel - nm
    ctx.cov["programs"] = ncases
    ctx.cov["distinct_nontrivial"] = len({json.dumps(cases[i]["prog"]) for i in rel_cases
                                         if any(s["res"][0] == "ok" for s in outs[i]["steps"])})
    ctx.cov["by_kind"] = kinds
    ctx.cov["engine"] = {"cases_generated": len(cases), "skipped_inexact_or_unrealisable": skipped, "steps": nsteps,
                         "known_finding_steps": known, "cached": res["cached"], "impl_seconds": res["t_impl"],
                         "engine_seconds": res["t_total"], "tree_key": res["key"], "source": res["genjax_file"]}
    ctx.cov["rule"] = ("typed random programs (depth<=3) over 4 integer-exact probe distributions, the static language and every combinator "
                       "(vmap repeat scan iterate(_final) accumulate reduce masked_iterate(_final) switch or_else mask dimap map contramap); per program: "
                       "simulate, assess on own choices, 3 projections, 2 importance runs with partial/full/empty/masked/foreign constraints, assess of those; "
                       "every observation (score, return value, lookups over the address universe + junk addresses, weights, errors as enum) compared with the Coq model by vm_compute; "
                       "evaluations = steps relevant to this property; non-trivial = distinct programs with a successful step")
    if extra_cov:
        ctx.cov.update(extra_cov)
    samp = []
    for i in rel_cases[:2]:
        samp.append({"program": cases[i]["prog"], "args": cases[i]["args"],
                     "steps": [{"kind": s["kind"], "res": s["res"]} for s in outs[i]["steps"][:3]]})
    ctx.add_samples(samp)
    sigs = {s["res"][1] for i in rel_cases for s in outs[i]["steps"] if s["res"][0] == "known"}
    for f in core.load_findings():
        if f["status"] == "known" and pid in f.get("properties", []) and sigs & set(f.get("signatures", [])):
            if f["id"] not in [k["id"] for k in ctx.known_seen]:
                ctx.known_seen.append(f)
    return res


def replay(case):
    """re-run one engine case and its oracle on the implementation"""
    c = gfi_run.make_case(case["seed"], depth=case.get("depth", 2), flavour=case.get("flavour", "basic"))
    gfi_run.worker_init()
    o = gfi_run.run_case(c)
    if case["oracle"] == "model":
        # the disagreement between the Coq model and the implementation on this case, re-evaluated
        if "skip" in o:
            print("case skipped:", o["skip"]); return True
        pairs, errors = coq_pairs("replay", [gfi_run.c_case(c, o)])
        ship = [j for (j, _, _, _) in gfi_run.shipped_steps(o)]
        for e in errors:
            print("case file did not evaluate:", e[:400])
        for (_, si) in pairs:
            st = o["steps"][ship[si]]
            print(f"model coq/model/GFI.v and implementation disagree at step {ship[si]} ({st['kind']}): implementation gives "
                  f"{json.dumps(st['res'], default=str)[:600]}")
        print(f"program: {json.dumps(c['prog'])[:600]}")
        return not pairs and not errors
    o = json.loads(json.dumps(o, default=str))
    c = json.loads(json.dumps(c, default=str))
    fn = ORACLES[case["oracle"]]
    bad = fn(c, o)
    bad = [b for b in bad if len(b) < 3 or not b[2]]
    for b in bad:
        print(f"{b[0]}: {json.dumps(b[1], default=str)[:600]}")
    print(f"program: {json.dumps(c['prog'])[:600]}")
    return not bad
