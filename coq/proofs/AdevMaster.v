(* AdevMaster.v — the main C29 theorem: on the region, the grid-expectation of the
   estimator (primal, tangent) equals (P(0), P'(0)) for the polynomial P = specP,
   the expectation of the program along a line through the parameters. *)
From Coq Require Import List ZArith QArith Qabs Bool Lia Setoid Morphisms.
Import ListNotations.
From Model Require Import Adev.
From Proofs Require Import AdevPoly AdevGrid AdevProofs.
Open Scope Q_scope.

Definition relDP (d : dual) (P : poly) : Prop := fst d == c0 P /\ snd d == c1 P.
Definition RelP (env : list dual) (envP : list poly) : Prop := Forall2 relDP env envP.
Definition same_eps (rs rs' : rnd) : Prop := forall i, de (rs i) = de (rs' i) /\ dv (rs i) = dv (rs' i).

Lemma same_eps_refl rs : same_eps rs rs. Proof. intros i; split; reflexivity. Qed.
Lemma same_eps_set_u rs rs0 d u : same_eps rs rs0 -> same_eps (set_u rs d u) rs0.
Proof. intros H i. unfold set_u. destruct (Nat.eqb i d); simpl; apply H. Qed.

Lemma relDP_nth env envP : RelP env envP -> forall i, relDP (nth i env (0, 0)) (nth i envP []).
Proof.
  induction 1; intros [|i]; simpl; try assumption; try (split; reflexivity). apply IHForall2.
Qed.

Lemma F2_length {A B} (R : A -> B -> Prop) l l' : Forall2 R l l' -> length l = length l'.
Proof. induction 1; simpl; congruence. Qed.

Section M.
Variables lg dlg : Q -> Q.
Notation deval := (deval lg dlg).
Notation interpT := (interpT lg dlg).
Notation probs_ok := (probs_ok lg dlg).

Lemma deval_ppeval e : arith e = true -> forall env envP benv, RelP env envP ->
  relDP (deval e env benv) (ppeval e envP benv).
Proof.
  unfold relDP.
  induction e; simpl; intros Ha env envP benv HR; try discriminate.
  - split; reflexivity.
  - apply relDP_nth. assumption.
  - bsplit Ha. destruct (IHe1 Ha env envP benv HR), (IHe2 Ha0 env envP benv HR).
    rewrite c0_padd, c1_padd. split; [rewrite H, H1|rewrite H0, H2]; reflexivity.
  - bsplit Ha. destruct (IHe1 Ha env envP benv HR), (IHe2 Ha0 env envP benv HR).
    rewrite c0_psub, c1_psub. split; [rewrite H, H1|rewrite H0, H2]; reflexivity.
  - bsplit Ha. destruct (IHe1 Ha env envP benv HR), (IHe2 Ha0 env envP benv HR).
    rewrite c0_pmul, c1_pmul. split; [rewrite H, H1|rewrite H, H0, H1, H2]; reflexivity.
  - destruct (IHe Ha env envP benv HR). rewrite c0_pneg, c1_pneg. split; [rewrite H|rewrite H0]; reflexivity.
  - bsplit Ha. destruct (nth c benv false); [apply IHe1|apply IHe2]; assumption.
Qed.

Lemma deval_ppeval_args args : forallb arith args = true -> forall env envP benv, RelP env envP ->
  Forall2 relDP (map (fun e => deval e env benv) args) (map (fun e => ppeval e envP benv) args).
Proof.
  induction args; simpl; intros Ha env envP benv HR. { constructor. }
  bsplit Ha. constructor. { apply deval_ppeval; assumption. } apply IHargs; assumption.
Qed.

(* the polynomial site is affine in its continuation with weights summing to one *)
Lemma psite_shift pr : forall args rs d K b,
  prim_exact pr = true -> prim_ok pr (length args) = true ->
  peq1 (psite pr args rs d (fun v d' => psub (K v d') b)) (psub (psite pr args rs d K) b).
Proof.
  induction pr; intros args rs d K b He Hok; simpl in He, Hok; try discriminate.
  - destruct args as [|p [|? ?]]; try discriminate. simpl. split.
    + rewrite c0_psub, !c0_padd, !c0_pmul, !c0_psub. cbn [c0 pconst nth]. ring.
    + rewrite c1_psub, !c1_padd, !c1_pmul, !c0_psub, !c1_psub. cbn [c0 c1 pconst nth]. ring.
  - destruct args as [|p [|? ?]]; try discriminate. simpl. split.
    + rewrite c0_psub, !c0_padd, !c0_pmul, !c0_psub. cbn [c0 pconst nth]. ring.
    + rewrite c1_psub, !c1_padd, !c1_pmul, !c0_psub, !c1_psub. cbn [c0 c1 pconst nth]. ring.
  - destruct args as [|m [|s [|? ?]]]; try discriminate. simpl. apply peq1_refl.
  - destruct args as [|b0 args]; try discriminate. simpl. apply IHpr; assumption.
Qed.

Lemma on_grid_range N q : (0 < N)%nat -> on_grid N q -> ~ q == 0 /\ ~ 1 - q == 0.
Proof.
  intros HN [j [[Hj1 Hj2] Hq]].
  assert (P : 0 < inject_Z (Z.of_nat N)) by (apply injN_pos; assumption).
  assert (Hlt0 : 0 < q).
  { rewrite Hq. unfold grid. apply Qlt_shift_div_l; [assumption|]. rewrite Qmult_0_l.
    change 0 with (inject_Z 0). rewrite <- Zlt_Qlt. lia. }
  assert (Hlt1 : q < 1).
  { rewrite Hq. unfold grid. apply Qlt_shift_div_r; [assumption|]. rewrite Qmult_1_l.
    rewrite <- Zlt_Qlt. lia. }
  split; intros E.
  - rewrite E in Hlt0. apply (Qlt_irrefl 0 Hlt0).
  - assert (q == 1) by (rewrite <- (Qplus_0_r q), <- E; ring). rewrite H in Hlt1. apply (Qlt_irrefl 1 Hlt1).
Qed.

Lemma on_grid_le N q : on_grid N q -> exists j, (j <= N)%nat /\ q == grid N j.
Proof. intros [j [[H1 H2] H3]]. exists j. split; [lia|assumption]. Qed.

Definition site_grid_ok (N : nat) (pr : prim) (args : list dual) : Prop :=
  match pstrip pr args with
  | (PFlipReinforce, [q]) => on_grid N (fst q)
  | _ => True
  end.

(* the site lemma *)
Lemma site_master pr : forall (args : list dual) (argsP : list poly) N n m d
    (KT : bval -> nat -> rnd -> dual) (KP : pbval -> nat -> poly) rs0,
  (0 < N)%nat ->
  prim_exact pr = true -> prim_ok pr (length args) = true ->
  Forall2 relDP args argsP ->
  (prim_depth pr + m <= n)%nat ->
  site_grid_ok N pr args ->
  (prim_tail pr = false -> forall b d' n' rs1, same_eps rs1 rs0 -> (m <= n')%nat ->
      Eu N n' d' (fun rs => fst (KT (BB b) d' rs)) rs1 == c0 (KP (PB b) d') /\
      Eu N n' d' (fun rs => snd (KT (BB b) d' rs)) rs1 == c1 (KP (PB b) d')) ->
  (prim_tail pr = true -> forall x P d' n' rs1, relDP x P -> same_eps rs1 rs0 -> (m <= n')%nat ->
      Eu N n' d' (fun rs => fst (KT (BR x) d' rs)) rs1 == c0 (KP (PR P) d') /\
      Eu N n' d' (fun rs => snd (KT (BR x) d' rs)) rs1 == c1 (KP (PR P) d')) ->
  (prim_tail pr = true -> forall vP d1 d2, KP vP d1 = KP vP d2) ->
  forall rs1, same_eps rs1 rs0 ->
  Eu N n d (fun rs => fst (siteT pr args rs d (fun v d' => KT v d' rs))) rs1 == c0 (psite pr argsP rs0 d KP) /\
  Eu N n d (fun rs => snd (siteT pr args rs d (fun v d' => KT v d' rs))) rs1 == c1 (psite pr argsP rs0 d KP).
Proof.
  induction pr; intros args argsP N n m d KT KP rs0 HN He Hok Hargs Hn Hgrid HB HR Htail rs1 Hrs1;
    simpl in He, Hok; try discriminate.
  - (* flip_enum *)
    destruct args as [|p [|? ?]]; try discriminate.
    inversion Hargs as [|? pP ? ? [Hp0 Hp1] Hrest]; subst. inversion Hrest; subst. clear Hargs Hrest.
    simpl in Hn. cbn [siteT psite].
    destruct (HB eq_refl true d n rs1 Hrs1 Hn) as [T0 T1].
    destruct (HB eq_refl false d n rs1 Hrs1 Hn) as [F0 F1].
    split.
    + rewrite (Eu_ext N n d _ (fun rs => fst p * fst (KT (BB true) d rs) + (1 - fst p) * fst (KT (BB false) d rs))).
      2:{ intros rs'. unfold dadd, dmul, dsub, dC. simpl. ring. }
      rewrite Eu_add, !Eu_scale, T0, F0.
      rewrite c0_padd, !c0_pmul, c0_psub. cbn [c0 pconst nth]. rewrite Hp0. ring.
    + rewrite (Eu_ext N n d _ (fun rs => (fst p * snd (KT (BB true) d rs) + snd p * fst (KT (BB true) d rs))
                                      + ((1 - fst p) * snd (KT (BB false) d rs) + (- snd p) * fst (KT (BB false) d rs)))).
      2:{ intros rs'. unfold dadd, dmul, dsub, dC. simpl. ring. }
      rewrite !Eu_add, !Eu_scale, T0, F0, T1, F1.
      rewrite c1_padd, !c1_pmul, c0_psub, c1_psub. cbn [c0 c1 pconst nth]. rewrite Hp0, Hp1. ring.
  - (* flip_reinforce *)
    destruct args as [|p [|? ?]]; try discriminate.
    inversion Hargs as [|? pP ? ? [Hp0 Hp1] Hrest]; subst. inversion Hrest; subst. clear Hargs Hrest.
    simpl in Hn. destruct n as [|n]; [lia|]. assert (Hm : (m <= n)%nat) by lia.
    unfold site_grid_ok in Hgrid. simpl in Hgrid.
    destruct (on_grid_range N (fst p) HN Hgrid) as [Hne0 Hne1].
    destruct (on_grid_le N (fst p) Hgrid) as [j [Hj Hpj]].
    cbn [siteT psite].
    (* inner expectation for a fixed outermost u *)
    assert (Inner : forall i,
      Eu N n (S d) (fun rs => fst (KT (BB (qlt (du (rs d)) (fst p))) (S d) rs)) (set_u rs1 d (grid N i))
        == (if qlt (grid N i) (fst p) then c0 (KP (PB true) (S d)) else c0 (KP (PB false) (S d))) /\
      Eu N n (S d) (fun rs => snd (KT (BB (qlt (du (rs d)) (fst p))) (S d) rs)
                               + fst (KT (BB (qlt (du (rs d)) (fst p))) (S d) rs) * flip_lp' (qlt (du (rs d)) (fst p)) p)
         (set_u rs1 d (grid N i))
        == (if qlt (grid N i) (fst p)
            then c1 (KP (PB true) (S d)) + c0 (KP (PB true) (S d)) * flip_lp' true p
            else c1 (KP (PB false) (S d)) + c0 (KP (PB false) (S d)) * flip_lp' false p)).
    { intros i.
      set (I := fun (d' : nat) (rs' : rnd) => (d < d')%nat /\ same_eps rs' rs0 /\ du (rs' d) = grid N i).
      assert (HIset : forall d0 rs i0 u, I d0 rs -> (d0 <= i0)%nat -> I (S i0) (set_u rs i0 u)).
      { intros d0 rs i0 u [A [B C]] Hle. split; [lia|]. split; [apply same_eps_set_u; assumption|].
        unfold set_u. destruct (Nat.eqb_spec d i0); [lia|assumption]. }
      assert (HImono : forall d0 d' rs, I d0 rs -> (d0 <= d')%nat -> I d' rs).
      { intros d0 d' rs [A [B C]] Hle. split; [lia|]. split; assumption. }
      assert (HI0 : I (S d) (set_u rs1 d (grid N i))).
      { split; [lia|]. split; [apply same_eps_set_u; assumption|]. unfold set_u. rewrite Nat.eqb_refl. reflexivity. }
      set (v := qlt (grid N i) (fst p)).
      destruct (HB eq_refl v (S d) n (set_u rs1 d (grid N i)) (same_eps_set_u _ _ _ _ Hrs1) Hm) as [V0 V1].
      split.
      - rewrite (Eu_ext_inv N I HIset HImono n (S d) _ (fun rs => fst (KT (BB v) (S d) rs)) _ HI0).
        2:{ intros rs' [_ [_ Hu]]. rewrite Hu. reflexivity. }
        rewrite V0. destruct v; reflexivity.
      - rewrite (Eu_ext_inv N I HIset HImono n (S d) _
                   (fun rs => snd (KT (BB v) (S d) rs) + flip_lp' v p * fst (KT (BB v) (S d) rs)) _ HI0).
        2:{ intros rs' [_ [_ Hu]]. rewrite Hu. fold v. ring. }
        rewrite Eu_add, Eu_scale, V0, V1. destruct v; ring. }
    split.
    + rewrite Eu_S.
      rewrite (gsum_ext N _ (fun i => if qlt (grid N i) (fst p) then c0 (KP (PB true) (S d)) else c0 (KP (PB false) (S d)))).
      2:{ intros i _. apply (proj1 (Inner i)). }
      rewrite (grid_bernoulli N j (fst p)) by assumption.
      rewrite c0_padd, !c0_pmul, c0_psub. cbn [c0 pconst nth]. rewrite Hp0. ring.
    + rewrite Eu_S.
      rewrite (gsum_ext N _ (fun i => if qlt (grid N i) (fst p)
            then c1 (KP (PB true) (S d)) + c0 (KP (PB true) (S d)) * flip_lp' true p
            else c1 (KP (PB false) (S d)) + c0 (KP (PB false) (S d)) * flip_lp' false p)).
      2:{ intros i _. apply (proj2 (Inner i)). }
      rewrite (grid_bernoulli N j (fst p)) by assumption.
      rewrite c1_padd, !c1_pmul, c0_psub, c1_psub. cbn [c0 c1 pconst nth].
      unfold flip_lp'. rewrite <- Hp0, <- Hp1. field. split; assumption.
  - (* normal_reparam *)
    destruct args as [|mu [|sg [|? ?]]]; try discriminate.
    inversion Hargs as [|? muP ? ? Hmu Hrest]; subst. inversion Hrest as [|? sgP ? ? Hsg Hrest']; subst.
    inversion Hrest'; subst. clear Hargs Hrest Hrest'.
    cbn [siteT psite]. rewrite <- (Htail eq_refl _ d (S d)).
    set (x0 := dadd mu (dmul sg (dC (de (rs0 d))))).
    assert (Hx : relDP x0 (padd muP (pscale (de (rs0 d)) sgP))).
    { destruct Hmu as [A B], Hsg as [C D]. unfold relDP, x0, dadd, dmul, dC. simpl.
      rewrite c0_padd, c1_padd, c0_pscale, c1_pscale, A, B, C, D. split; ring. }
    set (I := fun (d' : nat) (rs' : rnd) => same_eps rs' rs0).
    assert (HIset : forall d0 rs i0 u, I d0 rs -> (d0 <= i0)%nat -> I (S i0) (set_u rs i0 u)).
    { intros. apply same_eps_set_u. assumption. }
    assert (HImono : forall d0 d' rs, I d0 rs -> (d0 <= d')%nat -> I d' rs) by (intros; assumption).
    simpl in Hn.
    destruct (HR eq_refl x0 _ d n rs1 Hx Hrs1 Hn) as [V0 V1].
    split.
    + rewrite (Eu_ext_inv N I HIset HImono n d _ (fun rs => fst (KT (BR x0) d rs)) rs1 Hrs1).
      2:{ intros rs' H'. unfold x0. rewrite (proj1 (H' d)). reflexivity. }
      exact V0.
    + rewrite (Eu_ext_inv N I HIset HImono n d _ (fun rs => snd (KT (BR x0) d rs)) rs1 Hrs1).
      2:{ intros rs' H'. unfold x0. rewrite (proj1 (H' d)). reflexivity. }
      exact V1.
  - (* baseline *)
    destruct args as [|b args]; try discriminate.
    inversion Hargs as [|? bP ? argsP' [Hb0 Hb1] Hrest]; subst. clear Hargs.
    cbn [siteT psite]. simpl in Hok, Hn.
    destruct (psite_shift pr argsP' rs0 d KP bP He) as [S0 S1].
    { rewrite <- (F2_length _ _ _ Hrest). assumption. }
    assert (HB' : prim_tail pr = false -> forall b' d' n' rs2, same_eps rs2 rs0 -> (m <= n')%nat ->
      Eu N n' d' (fun rs => fst (dsub (KT (BB b') d' rs) b)) rs2 == c0 (psub (KP (PB b') d') bP) /\
      Eu N n' d' (fun rs => snd (dsub (KT (BB b') d' rs) b)) rs2 == c1 (psub (KP (PB b') d') bP)).
    { intros Ht b' d' n' rs2 Hrs2 Hm. destruct (HB Ht b' d' n' rs2 Hrs2 Hm) as [A B].
      unfold dsub. cbn [fst snd]. rewrite !Eu_sub, !Eu_const, A, B, c0_psub, c1_psub, Hb0, Hb1 by assumption. split; reflexivity. }
    assert (HR' : prim_tail pr = true -> forall x P d' n' rs2, relDP x P -> same_eps rs2 rs0 -> (m <= n')%nat ->
      Eu N n' d' (fun rs => fst (dsub (KT (BR x) d' rs) b)) rs2 == c0 (psub (KP (PR P) d') bP) /\
      Eu N n' d' (fun rs => snd (dsub (KT (BR x) d' rs) b)) rs2 == c1 (psub (KP (PR P) d') bP)).
    { intros Ht x P d' n' rs2 Hx Hrs2 Hm. destruct (HR Ht x P d' n' rs2 Hx Hrs2 Hm) as [A B].
      unfold dsub. cbn [fst snd]. rewrite !Eu_sub, !Eu_const, A, B, c0_psub, c1_psub, Hb0, Hb1 by assumption. split; reflexivity. }
    assert (Htail' : prim_tail pr = true -> forall vP d1 d2, psub (KP vP d1) bP = psub (KP vP d2) bP).
    { intros Ht vP d1 d2. rewrite (Htail Ht vP d1 d2). reflexivity. }
    destruct (IHpr args argsP' N n m d (fun v d' rs => dsub (KT v d' rs) b) (fun vP d' => psub (KP vP d') bP) rs0
                HN He Hok Hrest Hn Hgrid HB' HR' Htail' rs1 Hrs1) as [V0 V1].
    split.
      * rewrite (Eu_ext N n d _ (fun rs => fst (siteT pr args rs d (fun v d' => dsub (KT v d' rs) b)) + fst b)) by (intros; reflexivity).
        rewrite Eu_add, Eu_const, V0, S0, c0_psub, Hb0 by assumption. ring.
      * rewrite (Eu_ext N n d _ (fun rs => snd (siteT pr args rs d (fun v d' => dsub (KT v d' rs) b)) + snd b)) by (intros; reflexivity).
        rewrite Eu_add, Eu_const, V1, S1, c1_psub, Hb1 by assumption. ring.
Qed.

(* ---------------------------------------------------------------------------- *)
(* specification side: no drawing site => independent of depth and randomness      *)
(* ---------------------------------------------------------------------------- *)
Lemma psite_nodraw pr : forall args rs d rs' d' K K',
  prim_draws pr = false -> (forall v d1 d2, K v d1 = K' v d2) ->
  psite pr args rs d K = psite pr args rs' d' K'.
Proof.
  induction pr; intros args rs d rs' d' K K' Hd HK; simpl in Hd; try discriminate; simpl.
  - destruct args as [|p [|? ?]]; try reflexivity. rewrite (HK (PB true) d d'), (HK (PB false) d d'). reflexivity.
  - destruct args as [|p [|? ?]]; try reflexivity. rewrite (HK (PB true) d d'), (HK (PB false) d d'). reflexivity.
  - destruct args; reflexivity.
  - destruct args as [|b args]; try reflexivity. apply IHpr; assumption.
Qed.

Lemma specP_nodraw p : draws p = false ->
  forall env benv rs d rs' d' K K', (forall r d1 d2, K r d1 = K' r d2) ->
  specP p env benv rs d K = specP p env benv rs' d' K'.
Proof.
  induction p; simpl; intros Hd env benv rs d rs' d' K K' HK.
  - apply HK.
  - apply orb_false_iff in Hd. destruct Hd as [H1 H2].
    apply psite_nodraw; [assumption|]. intros [b|x] d1 d2; apply IHp; assumption.
  - discriminate.
  - rewrite (IHp Hd env benv rs d rs' d' K K' HK). reflexivity.
  - apply orb_false_iff in Hd. destruct Hd as [Hd H3]. apply orb_false_iff in Hd. destruct Hd as [H1 H2].
    destruct (nth c benv false); [apply IHp1|apply IHp2]; try assumption;
      intros r d1 d2; apply IHp3; assumption.
Qed.

Lemma pstrip_nodraw pr : forall args, prim_draws pr = false -> fst (pstrip pr args) <> PFlipReinforce.
Proof.
  induction pr; intros args Hd; simpl in Hd; try discriminate; simpl; try (destruct args; simpl; discriminate).
  destruct args as [|b args]; simpl. { discriminate. } apply IHpr. assumption.
Qed.

Lemma nodraw_probs_ok N p : draws p = false -> forall env benv, probs_ok N p env benv.
Proof.
  induction p; simpl; intros Hd env benv.
  - exact I.
  - apply orb_false_iff in Hd. destruct Hd as [H1 H2].
    pose proof (pstrip_nodraw p (map (fun e => deval e env benv) args) H1) as Hne.
    destruct (pstrip p (map (fun e => deval e env benv) args)) as [q l]. simpl in Hne.
    destruct q; try exact I; try congruence.
    destruct l as [|? [|? ?]]; try exact I. split; apply IHp; assumption.
  - exact I.
  - apply IHp. assumption.
  - apply orb_false_iff in Hd. destruct Hd as [Hd H3]. apply orb_false_iff in Hd. destruct Hd as [H1 H2].
    split; [apply IHp1; assumption|]. split; [apply IHp2; assumption|].
    destruct (if nth c benv false then p1 else p2); try exact I. apply IHp3. assumption.
Qed.

Lemma pstrip_cases pr : forall args,
  prim_exact pr = true -> prim_ok pr (length args) = true -> prim_tail pr = false ->
  (exists q, pstrip pr args = (PFlipEnum, [q])) \/ (exists q, pstrip pr args = (PFlipReinforce, [q])).
Proof.
  induction pr; intros args He Hok Ht; simpl in He, Hok, Ht; try discriminate.
  - destruct args as [|q [|? ?]]; try discriminate. left. exists q. reflexivity.
  - destruct args as [|q [|? ?]]; try discriminate. right. exists q. reflexivity.
  - destruct args as [|b args]; try discriminate. simpl. apply IHpr; assumption.
Qed.

Lemma zipmv_rel locs : forall locsP scs scsP eps,
  Forall2 relDP locs locsP -> Forall2 relDP scs scsP ->
  Forall2 relDP (zipmv locs scs eps) (pzipmv locsP scsP eps).
Proof.
  induction locs; intros locsP scs scsP eps H1 H2; inversion H1; subst; simpl. { constructor. }
  inversion H2; subst; simpl. { constructor. }
  constructor.
  - destruct H3 as [A B], H as [C D]. unfold relDP, dadd, dmul, dC. simpl.
    rewrite c0_padd, c1_padd, c0_pscale, c1_pscale, A, B, C, D. split; ring.
  - apply IHlocs; assumption.
Qed.

Lemma F2_rev {A B} (R : A -> B -> Prop) l l' : Forall2 R l l' -> Forall2 R (rev l) (rev l').
Proof.
  induction 1; simpl. { constructor. } apply Forall2_app; [assumption|]. constructor; [assumption|constructor].
Qed.

Lemma wf_sample sel pr args k : wf sel (Sample pr args k) = true ->
  sel pr = true /\ prim_ok pr (length args) = true /\ forallb arith args = true /\ wf sel k = true /\
  (prim_tail pr = true -> draws k = false).
Proof.
  simpl. rewrite !andb_true_iff, negb_true_iff. intros [[[[A B] C] D] E]. repeat split; try assumption.
  intros Ht. rewrite Ht in E. exact E.
Qed.
Lemma wf_mvdiag sel locs scales k : wf sel (SampleMvDiag locs scales k) = true ->
  length locs = length scales /\ forallb arith locs = true /\ forallb arith scales = true /\ wf sel k = true /\ draws k = false.
Proof.
  simpl. rewrite !andb_true_iff, negb_true_iff, Nat.eqb_eq. intros [[[[A B] C] D] E]. repeat split; assumption.
Qed.
Lemma wf_cond sel c t f k : wf sel (Cond c t f k) = true ->
  wf sel t = true /\ wf sel f = true /\ wf sel k = true /\ ((is_ret t = true /\ is_ret f = true) \/ is_tail k = true).
Proof.
  simpl. rewrite !andb_true_iff, orb_true_iff, andb_true_iff. intros [[[A B] C] D]. repeat split; assumption.
Qed.

Theorem master p : wf prim_exact p = true ->
  forall N n env envP benv rs0 d,
  (0 < N)%nat -> RelP env envP -> (udepth p <= n)%nat -> probs_ok N p env benv ->
  forall rs1, same_eps rs1 rs0 ->
  Eu N n d (fun rs => fst (interpT p env benv rs d)) rs1 == c0 (specP p envP benv rs0 d PKid) /\
  Eu N n d (fun rs => snd (interpT p env benv rs d)) rs1 == c1 (specP p envP benv rs0 d PKid).
Proof.
  induction p; intros Hwf N n env envP benv rs0 d HN HR Hn Hpr rs1 Hrs1.
  - (* Ret *)
    simpl in Hwf. cbn [interpT specP]. rewrite !Eu_const by assumption. apply deval_ppeval; assumption.
  - (* Sample *)
    destruct (wf_sample _ _ _ _ Hwf) as [Hex [Hok [Har [Hk Htl]]]].
    cbn [interpT specP]. simpl in Hn.
    set (KT := fun (v : bval) (d' : nat) (rs : rnd) =>
                 match v with BB b => interpT p0 env (b :: benv) rs d' | BR x => interpT p0 (x :: env) benv rs d' end).
    set (KP := fun (v : pbval) (d' : nat) =>
                 match v with PB b => specP p0 envP (b :: benv) rs0 d' PKid | PR x => specP p0 (x :: envP) benv rs0 d' PKid end).
    assert (A1 : prim_ok p (length (map (fun e => deval e env benv) args)) = true) by (rewrite map_length; assumption).
    assert (A2 : Forall2 relDP (map (fun e => deval e env benv) args) (map (fun e => ppeval e envP benv) args))
      by (apply deval_ppeval_args; assumption).
    assert (A4 : site_grid_ok N p (map (fun e => deval e env benv) args)).
    { unfold site_grid_ok. simpl in Hpr.
      destruct (pstrip p (map (fun e => deval e env benv) args)) as [q l]. destruct q; try exact I.
      destruct l as [|? [|? ?]]; try exact I. apply Hpr. }
    assert (A5 : prim_tail p = false -> forall b d' n' rs2, same_eps rs2 rs0 -> (udepth p0 <= n')%nat ->
      Eu N n' d' (fun rs => fst (KT (BB b) d' rs)) rs2 == c0 (KP (PB b) d') /\
      Eu N n' d' (fun rs => snd (KT (BB b) d' rs)) rs2 == c1 (KP (PB b) d')).
    { intros Ht b d' n' rs2 Hrs2 Hm. unfold KT, KP. apply IHp; try assumption.
      simpl in Hpr.
      destruct (pstrip_cases p (map (fun e => deval e env benv) args) Hex A1 Ht) as [[q E]|[q E]];
        rewrite E in Hpr; destruct b; apply Hpr. }
    assert (A6 : prim_tail p = true -> forall x P d' n' rs2, relDP x P -> same_eps rs2 rs0 -> (udepth p0 <= n')%nat ->
      Eu N n' d' (fun rs => fst (KT (BR x) d' rs)) rs2 == c0 (KP (PR P) d') /\
      Eu N n' d' (fun rs => snd (KT (BR x) d' rs)) rs2 == c1 (KP (PR P) d')).
    { intros Ht x P d' n' rs2 Hx Hrs2 Hm. unfold KT, KP.
      apply IHp; try assumption. { constructor; assumption. } apply nodraw_probs_ok. apply Htl. assumption. }
    assert (A7 : prim_tail p = true -> forall vP d1 d2, KP vP d1 = KP vP d2).
    { intros Ht [b|x] d1 d2; unfold KP; apply specP_nodraw; try (apply Htl; assumption); intros; reflexivity. }
    exact (site_master p _ _ N n (udepth p0) d KT KP rs0 HN Hex A1 A2 Hn A4 A5 A6 A7 rs1 Hrs1).
  - (* SampleMvDiag *)
    destruct (wf_mvdiag _ _ _ _ Hwf) as [Hlen [Hl [Hs [Hk Hnd]]]].
    cbn [interpT specP].
    set (I := fun (d' : nat) (rs' : rnd) => same_eps rs' rs0).
    assert (HIset : forall d0 rs i0 u, I d0 rs -> (d0 <= i0)%nat -> I (S i0) (set_u rs i0 u)).
    { intros. apply same_eps_set_u. assumption. }
    assert (HImono : forall d0 d' rs, I d0 rs -> (d0 <= d')%nat -> I d' rs) by (intros; assumption).
    set (env' := rev (zipmv (map (fun e => deval e env benv) locs) (map (fun e => deval e env benv) scales) (dv (rs0 d))) ++ env).
    rewrite <- (specP_nodraw p Hnd _ benv rs0 d rs0 (S d) PKid PKid) by (intros; reflexivity).
    assert (HR' : RelP env' (rev (pzipmv (map (fun e => ppeval e envP benv) locs) (map (fun e => ppeval e envP benv) scales) (dv (rs0 d))) ++ envP)).
    { apply Forall2_app; [|assumption]. apply F2_rev. apply zipmv_rel; apply deval_ppeval_args; assumption. }
    simpl in Hn.
    destruct (IHp Hk N n env' _ benv rs0 d HN HR' Hn (nodraw_probs_ok N p Hnd _ _) rs1 Hrs1) as [V0 V1].
    split.
    + rewrite (Eu_ext_inv N I HIset HImono n d _ (fun rs => fst (interpT p env' benv rs d)) rs1 Hrs1).
      2:{ intros rs' H'. unfold env'. rewrite (proj2 (H' d)). reflexivity. }
      exact V0.
    + rewrite (Eu_ext_inv N I HIset HImono n d _ (fun rs => snd (interpT p env' benv rs d)) rs1 Hrs1).
      2:{ intros rs' H'. unfold env'. rewrite (proj2 (H' d)). reflexivity. }
      exact V1.
  - (* AddCost *)
    simpl in Hwf. apply andb_true_iff in Hwf. destruct Hwf as [Hwf Hwf0].
    cbn [interpT specP]. simpl in Hn, Hpr.
    destruct (IHp Hwf0 N n env envP benv rs0 d HN HR Hn Hpr rs1 Hrs1) as [V0 V1].
    destruct (deval_ppeval e Hwf env envP benv HR) as [E0 E1].
    split.
    + rewrite (Eu_ext N n d _ (fun rs => fst (deval e env benv) + fst (interpT p env benv rs d))) by (intros; reflexivity).
      rewrite Eu_add, Eu_const, V0, c0_padd, E0 by assumption. reflexivity.
    + rewrite (Eu_ext N n d _ (fun rs => snd (deval e env benv) + snd (interpT p env benv rs d))) by (intros; reflexivity).
      rewrite Eu_add, Eu_const, V1, c1_padd, E1 by assumption. reflexivity.
  - (* Cond *)
    destruct (wf_cond _ _ _ _ _ Hwf) as [Hw1 [Hw2 [Hw3 Hshape]]].
    cbn [interpT specP]. simpl in Hn. destruct Hpr as [Hp1 [Hp2 Hp3]].
    destruct Hshape as [[Hr1 Hr2]|Htl].
    + (* pure branches *)
      destruct p1; try discriminate. destruct p2; try discriminate.
      cbn [interpT specP]. simpl in Hw1, Hw2.
      destruct (nth c benv false).
      * apply IHp3; try assumption; try lia. constructor; [apply deval_ppeval|]; assumption.
      * apply IHp3; try assumption; try lia. constructor; [apply deval_ppeval|]; assumption.
    + (* tail position *)
      destruct p3; try discriminate. destruct e; try discriminate. destruct i; try discriminate.
      cbn [interpT specP deval ppeval nth].
      destruct (nth c benv false).
      * change (fun (r : poly) (d' : nat) => PKid r d') with PKid. apply IHp1; try assumption; lia.
      * change (fun (r : poly) (d' : nat) => PKid r d') with PKid. apply IHp2; try assumption; lia.
Qed.
End M.
