"""fixed-defect witness: a static function whose return value contains a
literal had every changed return leaf relabelled NoChange by update, and
crashed in regenerate / StaticRequest (C08, C07).  exit 1 if present."""
import sys, jax, jax.numpy as jnp
import genjax
from genjax import gen, normal, ChoiceMap as C, Selection as S, Diff, Regenerate, StaticRequest, Update
from genjax._src.core.compiler.interpreters.incremental import NoChange

@gen
def f():
    x = normal(0.0, 1.0) @ "x"
    return x, 1.0

key = jax.random.key(0)
tr = f.simulate(key, ())
bad = []
tr2, w, rd, bwd = tr.update(key, C.d({"x": jnp.array(5.0)}))
if rd[0].tangent == NoChange and float(rd[0].primal) != float(tr.get_retval()[0]):
    bad.append(("update", float(rd[0].primal), "NoChange", float(tr.get_retval()[0])))
for name, req in [("regenerate", Regenerate(S.at["x"])), ("static_request", StaticRequest({"x": Update(C.choice(jnp.array(5.0)))}))]:
    try:
        tr3, w, rd, bwd = req.edit(jax.random.key(1), tr, ())
        if rd[0].tangent == NoChange and float(rd[0].primal) != float(tr.get_retval()[0]):
            bad.append((name, "NoChange on changed leaf"))
        if not Diff.static_check_tree_diff(rd):
            bad.append((name, "untagged leaf"))
    except Exception as e:
        bad.append((name, type(e).__name__))
print("FAIL" if bad else "OK", bad)
sys.exit(1 if bad else 0)
