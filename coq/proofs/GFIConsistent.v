(* C01 / C02 core: a well-formed trace agrees with the reference semantics (hence with
   assess) on its own choices and arguments, and its score is the sum of the
   log-densities of its live random choices. *)
From Coq Require Import List Bool ZArith NArith Lia Arith.
Import ListNotations.
From Gen Require Import SelGen.
From Model Require Import Key Sel GFI.
From Proofs Require Import GFIBase GFIRef GFIWf.
Open Scope Z_scope.

Definition live_sub (p : addr * trace) : Prop := t_choices (snd p) <> [] /\ sites_live (snd p).
Lemma sites_live_static a r subs : sites_live (TStatic a r subs) <-> Forall live_sub subs.
Proof.
  simpl. induction subs as [|[a' x] l IH]; [split; constructor|].
  split.
  - intros [H1 [H2 H3]]. constructor; [split; assumption | apply IH; assumption].
  - intros H. inversion H as [|? ? [H1 H2] H3]; subst. simpl in *. repeat split; auto. apply IH; assumption.
Qed.
Lemma sites_live_list_iff (l : list trace) :
  (fix go (l : list trace) : Prop := match l with [] => True | x :: r => sites_live x /\ go r end) l <-> Forall sites_live l.
Proof.
  induction l as [|x r IH]; [split; constructor|]. split.
  - intros [H1 H2]. constructor; [assumption | apply IH; assumption].
  - intros H. inversion H; subst. split; [assumption | apply IH; assumption].
Qed.
Lemma sites_live_vmap inner a : sites_live (TVmap inner a) <-> Forall sites_live inner.
Proof. simpl. apply sites_live_list_iff. Qed.
Lemma sites_live_scan inner a r s : sites_live (TScan inner a r s) <-> Forall sites_live inner.
Proof. simpl. apply sites_live_list_iff. Qed.

Lemma wfb_addrs : forall b env subs ret, wfb b env subs ret -> map fst subs = body_addrs b.
Proof.
  induction b as [e|a g es rest IH]; intros env subs ret H; simpl in *.
  - destruct H as [-> _]. reflexivity.
  - destruct subs as [|[a' t] subs']; [contradiction|]. destruct H as [-> [_ [_ H]]]. simpl. f_equal. eapply IH; eauto.
Qed.

(* map-with-index results over an index range *)
Definition imap {B} (h : nat -> trace -> B) : nat -> list trace -> list B :=
  fix go (i : nat) (l : list trace) : list B := match l with [] => [] | x :: r => h i x :: go (S i) r end.
Lemma mapM_seq_nth {B} (F : nat -> res B) (h : nat -> trace -> B) inner s :
  (forall j t', nth_error inner j = Some t' -> F (s + j)%nat = Ok (h (s + j)%nat t')) ->
  mapM F (seq s (length inner)) = Ok (imap h s inner).
Proof.
  revert s; induction inner as [|t r IH]; intros s H; [reflexivity|].
  simpl length. simpl seq. rewrite mapM_cons.
  rewrite <- (Nat.add_0_r s) at 1. rewrite (H 0%nat t eq_refl). simpl bind.
  rewrite IH; [simpl; rewrite Nat.add_0_r; reflexivity|].
  intros j t' Hj. replace (S s + j)%nat with (s + S j)%nat by lia. apply H. exact Hj.
Qed.
Lemma imap_terms s inner :
  concat (map fst (imap (fun i t' => (map (tm_prefix [KI i]) (t_terms t'), t_retval t')) s inner)) = iterms s inner.
Proof. revert s; induction inner as [|t r IH]; intros s; [reflexivity|]. simpl. rewrite IH. reflexivity. Qed.
Lemma imap_rets s inner :
  map snd (imap (fun i t' => (map (tm_prefix [KI i]) (t_terms t'), t_retval t')) s inner) = map t_retval inner.
Proof. revert s; induction inner as [|t r IH]; intros s; [reflexivity|]. simpl. rewrite IH. reflexivity. Qed.
Lemma tsum_iterms s inner : tsum (iterms s inner) = zsum (map (fun t => tsum (t_terms t)) inner).
Proof.
  revert s; induction inner as [|t r IH]; intros s; [reflexivity|].
  rewrite iterms_cons, tsum_app, tsum_prefix, IH. reflexivity.
Qed.
Lemma tsum_terms_of subs : tsum (terms_of subs) = zsum (map (fun p => tsum (t_terms (snd p))) subs).
Proof.
  induction subs as [|[a t] r IH]; [reflexivity|].
  unfold terms_of in *. simpl. rewrite tsum_app, tsum_prefix, IH. reflexivity.
Qed.

(* the scan loop over the recorded iterations *)
Lemma scanM_scan_ok g C xs inner0 :
  forall inner s c cf ys,
  (forall j t', nth_error inner j = Some t' -> nth_error inner0 (s + j) = Some t') ->
  C = ichoices 0 inner0 ->
  scan_ok (fun t' => ref g (t_choices t') (t_args t') = Ok (t_terms t', t_retval t')) xs s c inner cf ys ->
  scanM (fun i cr => do x <- ref g (csub C (KI i)) [cr; slice0 xs i];
                     do cy <- split_ret (snd x); Ok (map (tm_prefix [KI i]) (fst x), fst cy, snd cy))
        (seq s (length inner)) c
  = Ok (imap (fun i t' => map (tm_prefix [KI i]) (t_terms t')) s inner, cf, ys).
Proof.
  induction inner as [|t r IH]; intros s c cf ys Hnth HC Hok.
  - simpl in Hok. destruct Hok as [-> ->]. reflexivity.
  - simpl in Hok. destruct Hok as [Href [Hargs [c' [y [ys' [Hsplit [-> Hrest]]]]]]].
    simpl length. simpl seq. rewrite scanM_cons.
    assert (E : csub C (KI s) = t_choices t).
    { subst C. rewrite <- (Nat.add_0_l s). apply csub_ichoices. rewrite <- (Nat.add_0_r s). apply Hnth. reflexivity. }
    rewrite E, <- Hargs, Href. simpl bind. rewrite Hsplit. simpl bind.
    rewrite (IH (S s) c' cf ys'); auto.
    intros j t' Hj. replace (S s + j)%nat with (s + S j)%nat by lia. apply Hnth. exact Hj.
Qed.
Lemma concat_imap_terms s inner : concat (imap (fun i t' => map (tm_prefix [KI i]) (t_terms t')) s inner) = iterms s inner.
Proof. revert s; induction inner as [|t r IH]; intros s; [reflexivity|]. simpl. rewrite IH. reflexivity. Qed.

Lemma scan_ok_weaken (P Q : trace -> Prop) xs inner :
  forall s c cf ys, (forall t, In t inner -> P t -> Q t) -> scan_ok P xs s c inner cf ys -> scan_ok Q xs s c inner cf ys.
Proof.
  induction inner as [|t r IH]; intros s c cf ys H Hok; [exact Hok|].
  simpl in *. destruct Hok as [Hp [Ha [c' [y [ys' [H1 [H2 H3]]]]]]].
  split; [apply H; auto|]. split; [assumption|]. exists c', y, ys'. repeat split; auto.
Qed.

Lemma scanM_ext {T} (f g : nat -> val -> res (T * val * val)) l c :
  (forall i c, f i c = g i c) -> scanM f l c = scanM g l c.
Proof.
  intros H. revert c; induction l as [|i r IH]; intros c; [reflexivity|].
  rewrite !scanM_cons, H. destruct (g i c) as [[[t c'] y]|e]; simpl; [rewrite IH; reflexivity | reflexivity].
Qed.

(* the reference semantics reads values whatever their mask flag (as ExactDensity.assess does) *)
Lemma ref_cmask_all f :
  (forall g c a, ref g (cmask f c) a = ref g c a) /\
  (forall b c env acc, ref_body b (cmask f c) env acc = ref_body b c env acc) /\
  (forall bs j c a, ref_branch bs j (cmask f c) a = ref_branch bs j c a).
Proof.
  apply gf_sbody_gfs_ind.
  - intros d c a. simpl. destruct a as [|[p| | | | |] [|? ?]]; try reflexivity.
    unfold cvalue. rewrite cget_cmask. destruct (cget c []) as [v|]; simpl; [rewrite leaf_Z_vmask|reflexivity].
    destruct (leaf_Z v); reflexivity.
  - intros b IH c a. simpl. apply IH.
  - intros axes g IH c a. simpl. destruct (vmap_len axes a); [|reflexivity].
    f_equal. apply mapM_ext. intros i _. rewrite csub_cmask, IH. reflexivity.
  - intros n g IH c a. simpl. destruct a as [|carry [|xs [|? ?]]]; try reflexivity.
    destruct (scan_len n xs); [|reflexivity]. f_equal. apply scanM_ext. intros i cr. rewrite csub_cmask, IH. reflexivity.
  - intros bs IH c a. simpl. destruct a as [|[idx| | | | |] bargs]; try reflexivity.
    destruct (nth_error bargs _) as [[| |l| | |]|]; try reflexivity. apply IH.
  - intros g IH c a. simpl. destruct a as [|[|check| | | |] a']; try reflexivity. rewrite IH. reflexivity.
  - intros pre g IH post c a. simpl. destruct (eval_list a pre); simpl; [|reflexivity]. rewrite IH. reflexivity.
  - intros e c env acc. reflexivity.
  - intros a g IHg es rest IHr c env acc. simpl. destruct (eval_list env es) as [l|]; simpl; [|reflexivity].
    unfold csub_addr. rewrite csub_path_cmask, cis_empty_cmask. fold (csub_addr c a).
    destruct (cis_empty (csub_addr c a)); [reflexivity|]. rewrite IHg.
    destruct (ref g (csub_addr c a) l) as [[l' v]|e]; simpl; [apply IHr | reflexivity].
  - intros j c a. reflexivity.
  - intros g IHg r IHr j c a. destruct j; simpl; [apply IHg | apply IHr].
Qed.
Lemma ref_cmask f g c a : ref g (cmask f c) a = ref g c a.
Proof. apply ref_cmask_all. Qed.

Definition Agrees (g : gf) (t : trace) : Prop :=
  ref g (t_choices t) (t_args t) = Ok (t_terms t, t_retval t) /\ t_score t = tsum (t_terms t).

Theorem wft_ref_all :
  (forall g, wfg g -> forall t, wft g t -> sites_live t -> Agrees g t) /\
  (forall b, wfg_body b -> forall env subs ret pre acc,
      wfb b env subs ret -> heads_ok (map fst (pre ++ subs)) -> Forall live_sub subs ->
      ref_body b (choices_of (pre ++ subs)) env acc = Ok (acc ++ terms_of subs, ret)
      /\ zsum (map (fun p => t_score (snd p)) subs) = tsum (terms_of subs)) /\
  (forall bs, wfg_branches bs -> forall j t, wf_branch bs j t -> sites_live t ->
      ref_branch bs j (t_choices t) (t_args t) = Ok (t_terms t, t_retval t) /\ t_score t = tsum (t_terms t)).
Proof.
  apply gf_sbody_gfs_ind.
  - (* GDist *) intros d _ t Hw _. destruct t; simpl in Hw; try contradiction.
    destruct Hw as [-> [p [-> ->]]]. unfold Agrees. simpl. unfold tsum, tm_logpdf. simpl. split; [reflexivity | lia].
  - (* GStatic *) intros b IH [Hheads Hwb] t Hw Hlive. destruct t; simpl in Hw; try contradiction.
    apply sites_live_static in Hlive.
    pose proof (wfb_addrs _ _ _ _ Hw) as Haddrs.
    destruct (IH Hwb args subs ret [] [] Hw) as [H1 H2]; [simpl; rewrite Haddrs; exact Hheads | exact Hlive |].
    unfold Agrees. simpl in *. split; [exact H1 | exact H2].
  - (* GVmap *) intros axes g IH Hg t Hw Hlive. destruct t; simpl in Hw; try contradiction.
    destruct Hw as [n [Hlen [Hn Hall]]]. apply sites_live_vmap in Hlive.
    assert (Hag : forall j t', nth_error inner j = Some t' -> Agrees g t').
    { intros j t' Hj. apply IH; auto. apply (Hall j t' Hj). eapply Forall_forall; eauto. eapply nth_error_In; eauto. }
    unfold Agrees. simpl. rewrite Hlen. subst n.
    rewrite (mapM_seq_nth _ (fun i t' => (map (tm_prefix [KI i]) (t_terms t'), t_retval t')) inner 0).
    + simpl bind. fold (iterms 0 inner). rewrite imap_terms, imap_rets. split; [reflexivity|].
      rewrite tsum_iterms. f_equal. apply map_ext_in. intros t' Hin.
      destruct (In_nth_error _ _ Hin) as [j Hj]. apply (Hag j t' Hj).
    + intros j t' Hj. simpl Nat.add. fold (ichoices 0 inner).
      rewrite <- (Nat.add_0_l j) at 1. rewrite (csub_ichoices 0 inner j t' Hj).
      destruct (Hall j t' Hj) as [_ <-]. destruct (Hag j t' Hj) as [-> _]. reflexivity.
  - (* GScan *) intros n g IH Hg t Hw Hlive. destruct t; simpl in Hw; try contradiction.
    destruct Hw as [carry [xs [len [cf [ys [-> [Hlen [Hn [Hok [-> ->]]]]]]]]]]. apply sites_live_scan in Hlive.
    assert (Hok' : scan_ok (fun t' => Agrees g t') xs 0 carry inner cf ys).
    { eapply scan_ok_weaken; [|exact Hok]. intros t' Hin Hw'. apply IH; auto. eapply Forall_forall; eauto. }
    unfold Agrees. simpl. rewrite Hlen. subst len. fold (ichoices 0 inner).
    rewrite (scanM_scan_ok g (ichoices 0 inner) xs inner inner 0 carry cf ys); auto.
    + simpl bind. rewrite concat_imap_terms. fold (iterms 0 inner). split; [reflexivity|].
      rewrite tsum_iterms. f_equal. apply map_ext_in. intros t' Hin.
      clear - Hok' Hin. revert Hok' Hin. generalize 0%nat carry ys. induction inner as [|t r IHr]; intros s c ys0 Hok Hin; [contradiction|].
      simpl in Hok. destruct Hok as [[_ Hs] [_ [c' [y [ys' [_ [_ Hr]]]]]]]. destruct Hin as [<-|Hin]; [exact Hs | eapply IHr; eauto].
    + eapply scan_ok_weaken; [|exact Hok']. intros t' _ [H _]. exact H.
  - (* GSwitch *) intros bs IH Hg t Hw Hlive. destruct t; simpl in Hw; try contradiction.
    destruct Hw as [idx [bargs [a [-> [-> [Hnth [Hbr [Ha [-> ->]]]]]]]]].
    unfold Agrees. simpl. rewrite Hnth. subst a. apply IH; auto.
  - (* GMask *) intros g IH Hg t Hw Hlive. destruct t; simpl in Hw; try contradiction.
    destruct Hw as [Hw ->]. simpl in Hlive. destruct (IH Hg t Hw Hlive) as [H1 H2].
    unfold Agrees. simpl. destruct check.
    + rewrite cmask_true, H1. simpl. split; [reflexivity | exact H2].
    + (* the masked-off call is still evaluated on its recorded (flag-false) values *)
      rewrite ref_cmask, H1. simpl. split; reflexivity.
  - (* GDimap *) intros pre g IH post Hg t Hw Hlive. destruct t; simpl in Hw; try contradiction.
    destruct Hw as [Hpre [Hw Hpost]]. simpl in Hlive. destruct (IH Hg t Hw Hlive) as [H1 H2].
    unfold Agrees. simpl. rewrite Hpre. simpl. rewrite H1. simpl. rewrite Hpost. simpl. split; [reflexivity | exact H2].
  - (* SRet *) intros e _ env subs ret pre acc [-> He] _ _. simpl. rewrite He. simpl. rewrite app_nil_r. split; reflexivity.
  - (* SSite *) intros a g IHg es rest IHr [Hg Hrest] env subs ret pre acc Hw Hheads Hlive.
    simpl in Hw. destruct subs as [|[a' t] subs']; [contradiction|]. destruct Hw as [-> [Hes [Hwt Hw']]].
    inversion Hlive as [|? ? [Hne Hl] Hlive']; subst. simpl in Hne, Hl.
    simpl. rewrite Hes. simpl. rewrite (csub_addr_own pre a t subs' Hheads).
    destruct (t_choices t) eqn:Ec; [contradiction|]. simpl cis_empty. cbv iota. rewrite <- Ec.
    destruct (IHg Hg t Hwt Hl) as [H1 H2]. rewrite H1. simpl.
    replace (pre ++ (a, t) :: subs') with ((pre ++ [(a, t)]) ++ subs') by (rewrite <- app_assoc; reflexivity).
    destruct (IHr Hrest (env ++ [t_retval t]) subs' ret (pre ++ [(a, t)]) (acc ++ map (tm_prefix (map KS a)) (t_terms t)) Hw') as [H3 H4].
    + rewrite <- app_assoc. exact Hheads.
    + exact Hlive'.
    + rewrite H3. split.
      * unfold terms_of. simpl. rewrite <- app_assoc. reflexivity.
      * unfold terms_of in *. simpl. rewrite tsum_app, tsum_prefix, <- H4, H2. reflexivity.
  - (* GNil *) intros _ j t Hw. destruct j; contradiction.
  - (* GCons *) intros g IHg r IHr [Hg Hr] j t Hw Hlive. destruct j; simpl in *.
    + apply IHg; auto.
    + apply IHr; auto.
Qed.
