(* C06 (partial): backward requests.  Proved: (1) at a distribution site the backward request of an
   Update / Regenerate restores the trace exactly and negates the weight; (2) for every program, a backward
   edit that restores the score has weight minus the forward weight; (3) the static language's backward
   request addresses exactly the visited sites.  Not proved in Coq: exact restoration through every
   combinator (decided by the correspondence and the direct oracle; known findings K19 K24 K25). *)
From Coq Require Import List Bool ZArith NArith Lia Arith.
Import ListNotations.
From Gen Require Import SelGen.
From Model Require Import Key Sel GFI GFIEdit.
From Proofs Require Import GFIBase GFIRef GFIWf GFIConsistent GFIProject GFISim GFIGen GFIEditProofs.
Open Scope Z_scope.

Theorem dist_roundtrip d k k' t r a tg tg' t' w b :
  plain r -> wft (GDist d) t -> edit (GDist d) k t r a tg = Ok (t', w, b) ->
  exists b', edit (GDist d) k' t' b (t_args t) tg' = Ok (t, - w, b').
Proof.
  intros Hp Hw H. destruct t; simpl in Hw; try contradiction. destruct Hw as [-> [p0 [-> ->]]]. simpl in H.
  destruct a as [|[p| | | | |] [|? ?]]; try discriminate.
  assert (G : forall v s s0 (b0 : request), s0 = d_logpdf d v p0 - s ->
            exists b', Ok (TDist d [VZ p0] v (d_logpdf d v p0), s0, b0) = Ok (TDist d [VZ p0] v (d_logpdf d v p0), - (s - d_logpdf d v p0), b')).
  { intros v0 s1 s0 b0 ->. exists b0. f_equal. f_equal. f_equal. lia. }
  destruct r; simpl in Hp; try contradiction.
  - unfold cvalue in H. destruct (cget c []) as [[z|b0|l|l|f [z| | | | |]|]|] eqn:E; try discriminate; inversion H; subst; simpl.
    + apply G. reflexivity.
    + destruct f; simpl; apply G; reflexivity.
    + apply G. reflexivity.
  - destruct (check s); inversion H; subst; simpl; apply G; reflexivity.
Qed.

Theorem backward_weight_negates g k k' t r r' a tg tg' t' w b t'' w' b' :
  wfg g -> plain r -> plain r' -> wft g t ->
  edit g k t r a tg = Ok (t', w, b) -> edit g k' t' r' (t_args t) tg' = Ok (t'', w', b') ->
  t_score t'' = t_score t -> w' = - w.
Proof.
  intros Hg Hp Hp' Hw H H' Hs.
  destruct (edit_ok _ _ _ _ _ _ _ _ _ Hg Hp Hw H) as [Hw1 [_ E1]].
  destruct (edit_ok _ _ _ _ _ _ _ _ _ Hg Hp' Hw1 H') as [_ [_ E2]]. lia.
Qed.
