(* C12 — scan and its derived combinators match the documented Python loops.
   scan_ok P xs i c ts cf ys: the loop "carry = c; for t in ts: t is a kernel call on (carry, xs[i]); (carry, y) = t's
   return value" ends with carry cf and outputs ys. *)
From Coq Require Import List ZArith.
Import ListNotations.
From Gen Require Import SelGen.
From Model Require Import Key Sel GFI GFIEdit Derived.
From Proofs Require Import GFIBase GFIRef GFIWf GFIConsistent GFIProject GFISim GFIGen GFIEditProofs GFIEditChoices GFIDerived GFIDerived2 GFICombinators.
Open Scope Z_scope.

Theorem C12_scan_trace_is_the_loop : forall n g t,
  wft (GScan n g) t ->
  exists inner carry xs cf ys,
    t = TScan inner [carry; xs] (VT [cf; stack_vals ys]) (zsum (map t_score inner)) /\
    scan_len n xs = Some (length inner) /\
    scan_ok (wft g) xs 0 carry inner cf ys /\
    (forall i t', nth_error inner i = Some t' -> csub (t_choices t) (KI i) = t_choices t').
Proof. exact scan_trace_is_the_loop. Qed.
Print Assumptions C12_scan_trace_is_the_loop.

(* ... after simulate, importance, and any Update / Regenerate edit *)
Theorem C12_holds_after_every_operation : forall g t, produced g t -> wft g t.
Proof. exact produced_wft. Qed.
Print Assumptions C12_holds_after_every_operation.

Theorem C12_iterate_final_is_its_loop : forall n f t,
  wft (g_iterate_final n f) t ->
  exists init rest ts, t_args t = init :: rest /\ length ts = n /\ iter_chain f init ts (t_retval t) /\
                       t_score t = zsum (map t_score ts).
Proof. exact iterate_final_is_loop. Qed.
Print Assumptions C12_iterate_final_is_its_loop.

Theorem C12_reduce_is_its_loop : forall f t,
  wft (g_reduce f) t ->
  exists init xs rest ts, t_args t = init :: xs :: rest /\ leading_len xs = Some (length ts) /\
                          reduce_chain f xs 0 init ts (t_retval t) /\ t_score t = zsum (map t_score ts).
Proof. exact reduce_is_loop. Qed.
Print Assumptions C12_reduce_is_its_loop.

Theorem C12_iterate_is_its_loop : forall n f t,
  wft (g_iterate n f) t ->
  exists init rest ts xf l, t_args t = init :: rest /\ length ts = n /\ iter_chain f init ts xf /\
    stack_vals (map t_retval ts) = VA l /\ t_retval t = VA (init :: l) /\ t_score t = zsum (map t_score ts).
Proof. exact iterate_is_loop. Qed.
Print Assumptions C12_iterate_is_its_loop.

Theorem C12_accumulate_is_its_loop : forall f t,
  wft (g_accumulate f) t ->
  exists init xs rest ts xf l, t_args t = init :: xs :: rest /\ leading_len xs = Some (length ts) /\
    reduce_chain f xs 0 init ts xf /\ stack_vals (map t_retval ts) = VA l /\ t_retval t = VA (init :: l) /\
    t_score t = zsum (map t_score ts).
Proof. exact accumulate_is_loop. Qed.
Print Assumptions C12_accumulate_is_its_loop.

(* ---- non-vacuity: concrete non-trivial programs and traces meeting the hypotheses above (proofs/GFIWitness.v) ---- *)
From Proofs Require Import GFIWitness.
Example C12_hypotheses_met :
  (wft ex_scan (tr_of ex_scan ex_scan_a) /\ length (t_choices (tr_of ex_scan ex_scan_a)) = 3%nat) /\
  (let t := tr_of (g_iterate 3 ex_step) [VZ 2] in wft (g_iterate 3 ex_step) t /\ length (t_choices t) = 3%nat) /\
  (let t := tr_of (g_iterate_final 3 ex_step) [VZ 2] in wft (g_iterate_final 3 ex_step) t /\ length (t_choices t) = 3%nat) /\
  (let t := tr_of (g_accumulate ex_step2) ex_scan_a in wft (g_accumulate ex_step2) t /\ length (t_choices t) = 3%nat) /\
  (let t := tr_of (g_reduce ex_step2) ex_scan_a in wft (g_reduce ex_step2) t /\ length (t_choices t) = 3%nat).
Proof. exact (conj ex_scan_wft (conj ex_iterate_wft (conj ex_iterate_final_wft (conj ex_accumulate_wft ex_reduce_wft)))). Qed.
Print Assumptions C12_hypotheses_met.
