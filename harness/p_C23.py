"""C23 — engine B-gfi (harness/bgfi.py); theorems in coq/props/C23.v."""
from . import bgfi


def run(ctx):
    bgfi.run_property(ctx, "C23", oracles=bgfi.PROP_ORACLES.get("C23"))


def replay(case):
    return bgfi.replay(case)
