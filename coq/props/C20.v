(* C20 — staging helpers select, branch and combine flags correctly.
   Model: coq/model/Flag.v (written to mirror staging.py branch by branch, with
   Python-bool vs array staging tags); specification: plain Boolean logic on the
   observed flags, nth-modulo for tree_choose, clamp for multi_switch. *)
From Coq Require Import List Bool ZArith.
Import ListNotations.
From Model Require Import Flag.
From Proofs Require Import FlagProofs.
Open Scope Z_scope.

Theorem C20_flagop_is_boolean_logic : forall op f g,
  option_map obs (flag_bin op f g) = olift2 op (obs f) (obs g).
Proof. exact flagop_bool. Qed.
Print Assumptions C20_flagop_is_boolean_logic.

Theorem C20_not_is_negation : forall f, obs (not_ f) = omap negb (obs f).
Proof. exact not_bool. Qed.
Print Assumptions C20_not_is_negation.

(* concrete (Python) and array flags give the same observable answer *)
Theorem C20_stage_irrelevant : forall op f f' g g',
  obs f = obs f' -> obs g = obs g' ->
  option_map obs (flag_bin op f g) = option_map obs (flag_bin op f' g').
Proof. exact stage_irrelevant_bin. Qed.
Print Assumptions C20_stage_irrelevant.

Theorem C20_where_scalar : forall s b t e r, where_ (FS s b) t e = Some r -> r = if b then t else e.
Proof. exact where_scalar. Qed.
Print Assumptions C20_where_scalar.
Theorem C20_where_vector : forall bs d l d' m r,
  where_ (FV bs) (TVec d l) (TVec d' m) = Some r ->
  exists out, r = TVec d out /\ length out = length l /\
    forall i, (i < length l)%nat -> nth i out 0 = if nth i bs false then nth i l 0 else nth i m 0.
Proof. exact where_vector. Qed.
Print Assumptions C20_where_vector.
Theorem C20_cond : forall s b t e r, cond_ (FS s b) t e = Some r -> r = if b then t else e.
Proof. exact cond_bool. Qed.
Print Assumptions C20_cond.

(* tree_choose: the element at idx modulo the number of choices, dtype promoted *)
Theorem C20_tree_choose_mod : forall z vs r,
  tree_choose (IArr z) vs = Some r ->
  exists v0, r = tv_cast (join_all vs) (nth (Z.to_nat (z mod Z.of_nat (length vs))) vs v0)
             /\ (Z.to_nat (z mod Z.of_nat (length vs)) < length vs)%nat.
Proof. exact tree_choose_mod. Qed.
Print Assumptions C20_tree_choose_mod.
Theorem C20_tree_choose_static_index : forall z vs, tree_choose (IPy z) vs = tree_choose (IArr z) vs.
Proof. exact tree_choose_stage. Qed.
Print Assumptions C20_tree_choose_static_index.

(* multi_switch: the branch at the clamped index, zero placeholders for the others *)
Theorem C20_multi_switch_clamp : forall z outs r d,
  multi_switch (IArr z) outs = Some r ->
  length r = length outs /\
  forall k, (k < length outs)%nat ->
    nth k r d = if Nat.eqb k (Z.to_nat (clamp z (length outs))) then nth k outs d else tv_zeros (nth k outs d).
Proof. exact multi_switch_clamp. Qed.
Print Assumptions C20_multi_switch_clamp.

(* wrap (tree_choose) and clamp (multi_switch) agree on in-range indices; outside they do
   not, which is why Switch must clamp before using both (see C13) *)
Theorem C20_wrap_clamp_agree_in_range : forall z n, 0 <= z < Z.of_nat n -> wrap z n = clamp z n.
Proof. exact wrap_eq_clamp_in_range. Qed.
Print Assumptions C20_wrap_clamp_agree_in_range.
Theorem C20_choose_after_switch_refuted :
  exists z outs r c, multi_switch (IArr z) outs = Some r /\ tree_choose (IArr z) r = Some c /\
    c <> tv_cast (join_all outs) (nth (Z.to_nat (clamp z (length outs))) outs (TS DInt 0)).
Proof. exact choose_after_switch_refuted. Qed.
Print Assumptions C20_choose_after_switch_refuted.
