"""known-finding witness: Marginal.random_weighted WITH an inference algorithm does not
return a density estimate of the sample (C25).  With everything selected nothing is
marginalised and the weight must be the exact joint log-density of the returned
choices (what the same Marginal returns without an algorithm, and what assess says);
it is the log-density of the algorithm's own constraint instead, whatever was sampled.
exit 1 if present."""
import sys, jax, jax.numpy as jnp
import genjax
from genjax import gen, normal, ChoiceMapBuilder as C
from genjax.inference import Target
from genjax.inference.smc import Importance

@gen
def model():
    x = normal(0.0, 1.0) @ "x"
    y = normal(x, 0.5) @ "y"
    return y

alg = Importance(Target(model, (), C["x"].set(0.3) | C["y"].set(-0.2)))
bad = []
for seed in range(3):
    key = jax.random.key(seed)
    w, chm = model.marginal(algorithm=alg).random_weighted(key)     # selection: everything
    exact, _ = model.assess(chm, ())
    w0, _ = model.marginal().random_weighted(key)                   # same sample, no algorithm
    if abs(float(w) - float(exact)) > 1e-4:
        bad.append((seed, round(float(w), 4), round(float(exact), 4), round(float(w0), 4)))
print("FAIL (weight, assess of the sample, weight without algorithm)" if bad else "OK", bad[:3])
sys.exit(1 if bad else 0)
