"""C19 — Mask algebra (|, ^, ~, build, flatten, maybe_mask, unmask(default)) for
concrete and array flags.  Engine A-mask."""
import itertools
import numpy as np
from . import core
from .core import clist, copt
from .p_C20 import c_flag, c_tv, to_flag, from_flag, to_tv, from_tv, erase, detuple as _dt

# a mask is ("mask", [tv...], flag); raw value is ("raw", [tv...])


def c_mask(m):
    return f"(MkMask {clist([c_tv(v) for v in m[1]])} {c_flag(m[2])})"


def c_mv(v):
    return f"(Raw {clist([c_tv(x) for x in v[1]])})" if v[0] == "raw" else f"(Msk {c_mask(v)})"


def c_flat(x):
    if x[0] == "none": return "FlNone"
    if x[0] == "val": return f"(FlVal {clist([c_tv(v) for v in x[1]])})"
    return f"(FlMask {c_mask(x)})"


def to_val(vs):
    return tuple(to_tv(v) for v in vs)


def to_mask(m):
    from genjax import Mask
    return Mask(to_val(m[1]), to_flag(m[2]))


def from_mask(m):
    return ("mask", [from_tv(x) for x in m.value], from_flag(m.flag))


def from_flat(x):
    from genjax import Mask
    if x is None: return ("none",)
    if isinstance(x, Mask): return from_mask(x)
    return ("val", [from_tv(v) for v in x])


def run_impl(case, jit=False):
    import jax
    from genjax import Mask
    k = case[0]
    try:
        if k == "build":
            v = to_mask(case[1]) if case[1][0] == "mask" else to_val(case[1][1])
            return from_mask(Mask.build(v, to_flag(case[2])))
        if k == "maybe":
            v = to_mask(case[1]) if case[1][0] == "mask" else to_val(case[1][1])
            return from_flat(Mask.maybe_mask(v, to_flag(case[2])))
        if k == "unmask":
            m = to_mask(case[1])
            d = to_val(case[2])
            r = jax.jit(lambda m, d: m.unmask(default=d))(m, d) if jit else m.unmask(default=d)
            return [from_tv(x) for x in r]
        if k in ("or", "xor"):
            a, b = to_mask(case[1]), to_mask(case[2])
            f = (lambda a, b: a | b) if k == "or" else (lambda a, b: a ^ b)
            return from_mask(jax.jit(f)(a, b) if jit else f(a, b))
        if k == "not":
            a = to_mask(case[1])
            return from_mask(jax.jit(lambda a: ~a)(a) if jit else ~a)
    except (TypeError, ValueError, AssertionError) as e:
        return None
    raise ValueError(case)


def vals(vs):
    return [np.array(v[1]) for v in vs]


def sel(f, a, b):
    return [np.where(f, x, y) if np.ndim(f) else (x if f else y) for x, y in zip(a, b)]


def eq_where(flag, got, want):
    for g, w in zip(got, want):
        if np.shape(g) != np.shape(w):
            return False
        m = np.broadcast_to(flag, np.shape(g))
        if not np.all(np.asarray(g)[m] == np.asarray(w)[m]):
            return False
    return True


def oracle(case, out):
    """documented truth tables on erased flags; values compared where the result flag is true"""
    k = case[0]
    if k in ("or", "xor"):
        a, b = case[1], case[2]
        fa, fb = erase(a[2]), erase(b[2])
        shapes_ok = (fa.shape == fb.shape and len(a[1]) == len(b[1])
                     and all(np.shape(x[1]) == np.shape(y[1]) for x, y in zip(a[1], b[1])))
        if not shapes_ok:
            return None if out is None else "combined masks of different shapes"
        if out is None:
            return "raised on well-shaped masks"
        want_f = (fa | fb) if k == "or" else (fa ^ fb)
        got_f = erase(out[2])
        if got_f.shape != want_f.shape or not np.all(got_f == want_f):
            return f"flag {got_f}, truth table gives {want_f}"
        if not eq_where(want_f, vals(out[1]), sel(fa, vals(a[1]), vals(b[1]))):
            return f"valid values {out[1]} differ from where(first flag, first, second)"
        return None
    if k == "not":
        if out is None: return "raised"
        a = case[1]
        want_f = ~erase(a[2])
        got_f = erase(out[2])
        if got_f.shape != want_f.shape or not np.all(got_f == want_f): return f"flag {got_f}, want {want_f}"
        return None if [x[1] for x in out[1]] == [x[1] for x in a[1]] else "value changed"
    if k == "unmask":
        m, d = case[1], case[2]
        if out is None:
            return None   # shape-incompatible defaults may raise
        f = erase(m[2])
        want = sel(f, vals(m[1]), vals(d))
        got = vals(out)
        ok = all(np.shape(g) == np.shape(w) and np.all(g == w) for g, w in zip(got, want))
        return None if ok else f"unmask(default) gave {out}, where(flag, value, default) is {want}"
    if k in ("build", "maybe"):
        v, f = case[1], case[2]
        ff = erase(f)
        if v[0] == "mask":
            g = erase(v[2])
            try:
                want_f = ff & g
            except ValueError:
                return None if out is None else "expected shape error"
            if ff.ndim and ff.shape != g.shape:
                return None if out is None else "expected flag shape assertion"
            value = v[1]
        else:
            want_f, value = ff, v[1]
        bad_init = want_f.ndim and any((not isinstance(x[1], list)) or len(x[1]) != want_f.shape[0] for x in value)
        if bad_init:
            return None if out is None else "vector flag accepted for values it is not a prefix of"
        if out is None:
            return "raised"
        if k == "maybe" and out[0] == "none":
            return None if (want_f.ndim == 0 and not bool(want_f)) else "flattened a not-all-false mask to None"
        if k == "maybe" and out[0] == "val":
            ok = want_f.ndim == 0 and bool(want_f) and [x[1] for x in out[1]] == [x[1] for x in value]
            return None if ok else "flattened to a bare value although the flag is not True"
        got_f = erase(out[2])
        if got_f.shape != want_f.shape or not np.all(got_f == want_f): return f"flag {got_f}, want f AND g = {want_f}"
        return None if [x[1] for x in out[1]] == [x[1] for x in value] else "value changed"


def c_case(case, out):
    k = case[0]
    if k == "build": return f"MBuild {c_mv(case[1])} {c_flag(case[2])} {copt(None if out is None else c_mask(out))}"
    if k == "maybe": return f"MMaybe {c_mv(case[1])} {c_flag(case[2])} {copt(None if out is None else c_flat(out))}"
    if k == "unmask": return f"MUnmask {c_mask(case[1])} {clist([c_tv(v) for v in case[2]])} {copt(None if out is None else clist([c_tv(v) for v in out]))}"
    if k == "or": return f"MOr {c_mask(case[1])} {c_mask(case[2])} {copt(None if out is None else c_mask(out))}"
    if k == "xor": return f"MXor {c_mask(case[1])} {c_mask(case[2])} {copt(None if out is None else c_mask(out))}"
    if k == "not": return f"MNot {c_mask(case[1])} {c_mask(out)}"


SFLAGS = [("py", True), ("py", False), ("ar", True), ("ar", False)]
VFLAGS2 = [("v", list(p)) for p in itertools.product([True, False], repeat=2)]
VFLAGS3 = [("v", [True, False, True]), ("v", [False, False, True]), ("v", [False, True, False])]


def gen_cases(ctx):
    rng = ctx.rng
    sv = [[("f", 1)], [("i", 2)], [("f", 3), ("i", [4, 5])], [("b", 1)], [("i", [7, 8]), ("f", [9, 10])]]
    sv2 = [[("f", 11)], [("f", 12)], [("i", 13), ("i", [14, 15])], [("i", 5)], [("f", [17, 18]), ("f", [19, 20])]]
    vv = [[("f", [1, 2])], [("i", [3, 4]), ("f", [5, 6])]]
    vv2 = [[("f", [11, 12])], [("f", [13, 14]), ("f", [15, 16])]]
    cases = []
    # scalar flags, all stage combinations
    for (x, y) in zip(sv, sv2):
        for fa, fb in itertools.product(SFLAGS, SFLAGS):
            cases.append(("or", ("mask", x, fa), ("mask", y, fb)))
            cases.append(("xor", ("mask", x, fa), ("mask", y, fb)))
        for fa in SFLAGS:
            cases.append(("not", ("mask", x, fa)))
            cases.append(("unmask", ("mask", x, fa), y))
            for f in SFLAGS + VFLAGS2[:2]:
                cases.append(("build", ("raw", x), f))
                cases.append(("maybe", ("raw", x), f))
                cases.append(("build", ("mask", x, fa), f))
                cases.append(("maybe", ("mask", x, fa), f))
    # vector flags, elementwise
    for (x, y) in zip(vv, vv2):
        for fa, fb in itertools.product(VFLAGS2, VFLAGS2):
            cases.append(("or", ("mask", x, fa), ("mask", y, fb)))
            cases.append(("xor", ("mask", x, fa), ("mask", y, fb)))
        for fa in VFLAGS2:
            cases.append(("not", ("mask", x, fa)))
            cases.append(("unmask", ("mask", x, fa), y))
            for f in SFLAGS + VFLAGS2 + VFLAGS3[:1]:
                cases.append(("build", ("mask", x, fa), f))
                cases.append(("maybe", ("mask", x, fa), f))
                cases.append(("build", ("raw", x), f))
        # scalar flag over vector values
        for fa, fb in itertools.product(SFLAGS, SFLAGS):
            cases.append(("or", ("mask", x, fa), ("mask", y, fb)))
            cases.append(("xor", ("mask", x, fa), ("mask", y, fb)))
            cases.append(("unmask", ("mask", x, fa), y))
    # ill-shaped combinations (compared as errors)
    cases.append(("or", ("mask", sv[0], ("ar", True)), ("mask", vv[0], ("ar", True))))
    cases.append(("or", ("mask", vv[0], ("ar", True)), ("mask", vv2[0], ("v", [True, False]))))
    cases.append(("xor", ("mask", sv[2], ("ar", True)), ("mask", sv[0], ("ar", False))))
    return cases


def run(ctx):
    ctx.proofs()
    cases = gen_cases(ctx)
    modes = [False] if ctx.quick else [False, True]
    terms, kept, nbad = [], [], 0
    for jit in modes:
        for c in cases:
            if jit and c[0] in ("build", "maybe"):
                continue
            out = run_impl(c, jit=jit)
            why = oracle(c, out)
            if why is not None:
                nbad += 1
                if nbad <= 3:
                    ctx.fail("oracle", f"{c} ({'jit' if jit else 'eager'}): {why}", case={"case": c, "jit": jit})
            if jit:
                continue      # under jit Python flags become tracers: the eager model does not apply, the oracle does
            terms.append(c_case(c, out))
            kept.append((c, out, jit))
    mism, errs = core.coq_mismatches("C19", "From Coq Require Import List Bool ZArith.\nFrom Model Require Import Flag MaskAlg.", terms, "mcase", fn="mmismatches", shard=1500)
    for e in errs[:2]:
        ctx.fail("correspondence", "A-mask case file did not evaluate: " + e)
    for i in mism[:3]:
        c, out, jit = kept[i]
        ctx.fail("correspondence", f"model coq/model/MaskAlg.v and implementation disagree on {c}: implementation gives {out}", case={"case": c, "jit": jit})
    ctx.cov["evaluations"] = len(cases) * len(modes)
    ctx.cov["traces_validated_against_impl"] = len(kept) - len(mism)
    ctx.cov["distinct_nontrivial"] = len({repr(c) for c, o, j in kept if o is not None})
    ctx.cov["errors_compared"] = sum(1 for c, o, j in kept if o is None)
    ctx.cov["by_kind"] = {k: sum(1 for c, o, j in kept if c[0] == k) for k in ("build", "maybe", "unmask", "or", "xor", "not")}
    ctx.cov["rule"] = ("all 16 stage x value combinations of scalar flags (Python bool / 0-d array) for | and ^ over 5 value pytrees (1-2 leaves, mixed dtypes), "
                      "all 16 pairs of 2-element vector flags, ~, unmask(default), build/maybe_mask over raw values and masks with scalar and vector flags; "
                      "ill-shaped combinations compared as errors; thorough repeats |,^,~,unmask under jax.jit (oracle only); non-trivial = implementation returned a value")
    ctx.cov["exhaustive"] = True
    ctx.add_samples([{"case": c, "impl": o} for c, o, j in kept[:1] + kept[200:201] + kept[-5:-4]])


def replay(case):
    c = demask(case["case"])
    out = run_impl(c, jit=case.get("jit", False))
    why = oracle(c, out)
    print(f"{c}: implementation {out}: {why or 'ok'}")
    return why is None


def demask(x):
    if isinstance(x, list) and x and x[0] in ("or", "xor", "not", "unmask", "build", "maybe"):
        return tuple(demask(y) for y in x)
    if isinstance(x, list) and x and x[0] in ("mask",):
        return ("mask", [tuple(v) if not isinstance(v[1], list) else (v[0], list(v[1])) for v in x[1]], tuple(x[2]) if x[2][0] != "v" else ("v", list(x[2][1])))
    if isinstance(x, list) and x and x[0] == "raw":
        return ("raw", [tuple(v) if not isinstance(v[1], list) else (v[0], list(v[1])) for v in x[1]])
    if isinstance(x, list) and x and x[0] in ("py", "ar"):
        return tuple(x)
    if isinstance(x, list) and x and x[0] == "v":
        return ("v", list(x[1]))
    if isinstance(x, list):
        return [tuple(v) if not isinstance(v[1], list) else (v[0], list(v[1])) for v in x]
    return x
