(* C04: simulate is ancestral sampling with pairwise distinct PRNG keys.
   Keys are followed in the free key algebra (Key.v: a key is the path of fold_in data from
   the root key, eval_fkey maps paths to threefry keys and commutes with fold_in):
     t_keys t p      the key paths handed to the samplers of the distribution sites of t
                     when the call that produced t was given the key at path p
     t_sampled r t p every distribution site's value is d_sample at (the threefry key of) its path
   Theorems: simulate establishes t_sampled; the paths of t_keys are pairwise distinct and
   none is a prefix of another site's path.  Distinct paths are distinct fold_in derivations:
   under the usual idealisation of threefry as a random function the draws are independent. *)
From Coq Require Import List Bool ZArith NArith Lia Arith.
Import ListNotations.
From Gen Require Import SelGen.
From Model Require Import Key Sel GFI.
From Proofs Require Import GFIBase GFIRef GFIWf GFIConsistent GFISim.
Open Scope Z_scope.

Definition keys_static (f : trace -> fkey -> list fkey) (p : fkey) : list (addr * trace) -> N -> list fkey :=
  fix go (l : list (addr * trace)) (c : N) : list fkey :=
    match l with [] => [] | (_, x) :: r => f x (p ++ [c]) ++ go r (c + 1)%N end.
Definition keys_indexed (f : trace -> fkey -> list fkey) (p : fkey) : list trace -> nat -> list fkey :=
  fix go (l : list trace) (i : nat) : list fkey :=
    match l with [] => [] | x :: r => f x (p ++ [N.of_nat i]) ++ go r (S i) end.
Fixpoint t_keys (t : trace) (p : fkey) {struct t} : list fkey :=
  match t with
  | TDist _ _ _ _ => [p]
  | TStatic _ _ subs => keys_static t_keys p subs 1%N
  | TVmap inner _ | TScan inner _ _ _ => keys_indexed t_keys p inner 0%nat
  | TSwitch _ _ sub _ _ => t_keys sub p
  | TMask inner _ _ => t_keys inner p
  | TDimap inner _ _ => t_keys inner p
  end.

Definition sampled_static (f : trace -> fkey -> Prop) (p : fkey) : list (addr * trace) -> N -> Prop :=
  fix go (l : list (addr * trace)) (c : N) : Prop :=
    match l with [] => True | (_, x) :: r => f x (p ++ [c]) /\ go r (c + 1)%N end.
Definition sampled_indexed (f : trace -> fkey -> Prop) (p : fkey) : list trace -> nat -> Prop :=
  fix go (l : list trace) (i : nat) : Prop :=
    match l with [] => True | x :: r => f x (p ++ [N.of_nat i]) /\ go r (S i) end.
Fixpoint t_sampled (root : key) (t : trace) (p : fkey) {struct t} : Prop :=
  match t with
  | TDist d args v _ => match args with [VZ q] => v = d_sample d (eval_fkey root p) q | _ => False end
  | TStatic _ _ subs => sampled_static (t_sampled root) p subs 1%N
  | TVmap inner _ | TScan inner _ _ _ => sampled_indexed (t_sampled root) p inner 0%nat
  | TSwitch _ _ sub _ _ => t_sampled root sub p
  | TMask inner _ _ => t_sampled root inner p
  | TDimap inner _ _ => t_sampled root inner p
  end.

Lemma fold_in_path root p d : fold_in (eval_fkey root p) d = eval_fkey root (p ++ [d]).
Proof. symmetry. apply eval_ffold. Qed.

Lemma sampled_static_app f p l1 l2 c :
  sampled_static f p (l1 ++ l2) c <-> sampled_static f p l1 c /\ sampled_static f p l2 (c + N.of_nat (length l1))%N.
Proof.
  revert c; induction l1 as [|[a x] r IH]; intros c; simpl.
  - rewrite N.add_0_r. tauto.
  - rewrite IH. replace (c + 1 + N.of_nat (length r))%N with (c + N.pos (Pos.of_succ_nat (length r)))%N by lia. tauto.
Qed.

Theorem simulate_sampled_all root :
  (forall g p a t, simulate g (eval_fkey root p) a = Ok t -> t_sampled root t p) /\
  (forall b p cnt env acc r, sim_body b (eval_fkey root p) cnt env acc = Ok r ->
      exists subs, snd r = acc ++ subs /\ sampled_static (t_sampled root) p subs cnt) /\
  (forall bs j p a t, sim_branch bs j (eval_fkey root p) a = Ok t -> t_sampled root t p).
Proof.
  apply gf_sbody_gfs_ind.
  - intros d p a t H. simpl in H. destruct a as [|[q| | | | |] [|? ?]]; try discriminate. inversion H; subst. reflexivity.
  - intros b IH p a t H. simpl in H. bind_inv H as r Hr. inversion H; subst.
    destruct (IH _ _ _ _ _ Hr) as [subs [Hs Hk]]. simpl in Hs. simpl. rewrite Hs. exact Hk.
  - intros axes g IH p a t H. simpl in H. destruct (vmap_len axes a) as [n|]; [|discriminate].
    bind_inv H as inner Hin. inversion H; subst. simpl.
    pose proof (mapM_ok_Forall2 _ _ _ Hin) as HF. clear Hin H.
    revert HF. generalize 0%nat. revert inner. induction n as [|n IHn]; intros inner s HF; simpl in HF; inversion HF; subst; simpl; [exact I|].
    split; [apply IH with (a := slice_args axes a s); rewrite <- fold_in_path; assumption | apply IHn; assumption].
  - intros n g IH p a t H. simpl in H. destruct a as [|carry [|xs [|? ?]]]; try discriminate.
    destruct (scan_len n xs) as [len|]; [|discriminate].
    bind_inv H as r Hr. destruct r as [[ts cf] ys]. inversion H; subst. simpl. clear H.
    revert Hr. generalize 0%nat carry ts cf ys. induction len as [|len IHl]; intros s c ts0 cf0 ys0 Hr.
    + simpl in Hr. inversion Hr; subst. exact I.
    + simpl seq in Hr. rewrite scanM_cons in Hr. bind_inv Hr as st Hst. destruct st as [[x c'] y].
      bind_inv Hr as rr Hrr. destruct rr as [[ts' cf'] ys']. inversion Hr; subst. simpl.
      bind_inv Hst as t0 Ht0. bind_inv Hst as cy Hcy. inversion Hst; subst.
      split; [apply IH with (a := [c; slice0 xs s]); rewrite <- fold_in_path; assumption | eapply IHl; eauto].
  - intros bs IH p a t H. simpl in H. destruct a as [|[idx| | | | |] bargs]; try discriminate.
    destruct (nth_error bargs (clampZ idx (gfs_len bs))) as [[| |l| | |]|]; try discriminate.
    bind_inv H as t' Ht'. inversion H; subst. simpl. eapply IH; eauto.
  - intros g IH p a t H. simpl in H. destruct a as [|[|check| | | |] a']; try discriminate.
    bind_inv H as t' Ht'. inversion H; subst. simpl. eapply IH; eauto.
  - intros pre g IH post p a t H. simpl in H. bind_inv H as ia Hia. bind_inv H as t' Ht'. bind_inv H as r Hr.
    inversion H; subst. simpl. eapply IH; eauto.
  - intros e p cnt env acc r H. simpl in H. bind_inv H as v Hv. inversion H; subst. exists []. simpl. rewrite app_nil_r. auto.
  - intros a g IHg es rest IHr p cnt env acc r H. simpl in H. bind_inv H as av Hav. bind_inv H as t Ht.
    destruct (existsb _ acc); [discriminate|]. destruct (IHr _ _ _ _ _ H) as [subs [Hs Hk]].
    exists ((a, t) :: subs). split; [rewrite Hs, <- app_assoc; reflexivity|]. simpl.
    split; [apply IHg with (a := av); rewrite <- fold_in_path; exact Ht | exact Hk].
  - intros j p a t H. discriminate.
  - intros g IHg r IHr j p a t H. destruct j; simpl in H; [eapply IHg | eapply IHr]; eauto.
Qed.
Theorem simulate_is_ancestral root g p a t : simulate g (eval_fkey root p) a = Ok t -> t_sampled root t p.
Proof. apply (proj1 (simulate_sampled_all root)). Qed.

(* ---------- the key paths are pairwise distinct and prefix-free ---------- *)
Definition extends (p k : fkey) : Prop := exists q, k = p ++ q.
Definition KeysOk (t : trace) : Prop :=
  forall p, NoDup (t_keys t p) /\ (forall k, In k (t_keys t p) -> extends p k).

Lemma extends_app (p : fkey) (c : N) (k : fkey) : extends (p ++ [c]) k -> extends p k.
Proof. intros [r ->]. exists ([c] ++ r). rewrite <- app_assoc. reflexivity. Qed.
Lemma disjoint_children (p : fkey) (c1 c2 : N) k : c1 <> c2 -> extends (p ++ [c1]) k -> extends (p ++ [c2]) k -> False.
Proof.
  intros Hne [q1 ->] [q2 H]. rewrite <- !app_assoc in H. apply app_inv_head in H. simpl in H. inversion H. contradiction.
Qed.

Lemma NoDup_app_disjoint {A} (l1 l2 : list A) : NoDup l1 -> NoDup l2 -> (forall x, In x l1 -> In x l2 -> False) -> NoDup (l1 ++ l2).
Proof.
  induction l1 as [|x r IH]; intros H1 H2 Hd; simpl; [exact H2|]. inversion H1; subst. constructor.
  - rewrite in_app_iff. intros [Hi|Hi]; [contradiction | apply (Hd x); [now left | exact Hi]].
  - apply IH; auto. intros y Hy1 Hy2. apply (Hd y); [now right | exact Hy2].
Qed.

Lemma keys_static_ok p : forall subs c,
  (forall a x, In (a, x) subs -> KeysOk x) ->
  NoDup (keys_static t_keys p subs c) /\
  (forall k, In k (keys_static t_keys p subs c) -> exists c', (c <= c')%N /\ extends (p ++ [c']) k).
Proof.
  induction subs as [|[a x] r IH]; intros c H; simpl; [split; [constructor | intros k []]|].
  destruct (H a x (or_introl eq_refl) (p ++ [c])) as [Hn He].
  destruct (IH (c + 1)%N (fun a0 x0 Hi => H a0 x0 (or_intror Hi))) as [Hn' He'].
  split.
  - apply NoDup_app_disjoint; auto. intros k Hk1 Hk2. destruct (He' k Hk2) as [c' [Hc' Hx]].
    apply (disjoint_children p c c' k); [lia | apply He; exact Hk1 | exact Hx].
  - intros k Hk. apply in_app_iff in Hk. destruct Hk as [Hk|Hk].
    + exists c. split; [lia | apply He; exact Hk].
    + destruct (He' k Hk) as [c' [Hc' Hx]]. exists c'. split; [lia | exact Hx].
Qed.
Lemma keys_indexed_ok p : forall inner i,
  (forall x, In x inner -> KeysOk x) ->
  NoDup (keys_indexed t_keys p inner i) /\
  (forall k, In k (keys_indexed t_keys p inner i) -> exists i', (i <= i')%nat /\ extends (p ++ [N.of_nat i']) k).
Proof.
  induction inner as [|x r IH]; intros i H; simpl; [split; [constructor | intros k []]|].
  destruct (H x (or_introl eq_refl) (p ++ [N.of_nat i])) as [Hn He].
  destruct (IH (S i) (fun x0 Hi => H x0 (or_intror Hi))) as [Hn' He'].
  split.
  - apply NoDup_app_disjoint; auto. intros k Hk1 Hk2. destruct (He' k Hk2) as [i' [Hi' Hx]].
    apply (disjoint_children p (N.of_nat i) (N.of_nat i') k); [lia | apply He; exact Hk1 | exact Hx].
  - intros k Hk. apply in_app_iff in Hk. destruct Hk as [Hk|Hk].
    + exists i. split; [lia | apply He; exact Hk].
    + destruct (He' k Hk) as [i' [Hi' Hx]]. exists i'. split; [lia | exact Hx].
Qed.

Theorem keys_ok_all :
  (forall g t, wft g t -> KeysOk t) /\
  (forall b env subs ret, wfb b env subs ret -> forall a x, In (a, x) subs -> KeysOk x) /\
  (forall bs j t, wf_branch bs j t -> KeysOk t).
Proof.
  apply gf_sbody_gfs_ind.
  - intros d t Hw. destruct t; simpl in Hw; try contradiction. intros p. simpl. split; [constructor; [intros []|constructor]|].
    intros k [<-|[]]. exists []. rewrite app_nil_r. reflexivity.
  - intros b IH t Hw. destruct t; simpl in Hw; try contradiction. intros p. simpl.
    destruct (keys_static_ok p subs 1%N (IH _ _ _ Hw)) as [Hn He]. split; [exact Hn|].
    intros k Hk. destruct (He k Hk) as [c' [_ Hx]]. eapply extends_app; eauto.
  - intros axes g IH t Hw. destruct t; simpl in Hw; try contradiction. destruct Hw as [n [_ [_ Hall]]]. intros p. simpl.
    assert (Hin : forall x, In x inner -> KeysOk x).
    { intros x Hx. destruct (In_nth_error _ _ Hx) as [j Hj]. apply IH. apply (Hall j x Hj). }
    destruct (keys_indexed_ok p inner 0%nat Hin) as [Hn He]. split; [exact Hn|].
    intros k Hk. destruct (He k Hk) as [i' [_ Hx]]. eapply extends_app; eauto.
  - intros n g IH t Hw. destruct t; simpl in Hw; try contradiction.
    destruct Hw as [carry [xs [len [cf [ys [_ [_ [_ [Hok _]]]]]]]]]. intros p. simpl.
    assert (Hin : forall x, In x inner -> KeysOk x).
    { intros x Hx. apply IH. clear - Hok Hx. revert Hok Hx. generalize 0%nat carry ys. induction inner as [|t0 r IHr]; intros s c ys0 Hok Hi; [contradiction|].
      simpl in Hok. destruct Hok as [Hw0 [_ [c' [y [ys' [_ [_ Hr]]]]]]]. destruct Hi as [<-|Hi]; [exact Hw0 | eapply IHr; eauto]. }
    destruct (keys_indexed_ok p inner 0%nat Hin) as [Hn He]. split; [exact Hn|].
    intros k Hk. destruct (He k Hk) as [i' [_ Hx]]. eapply extends_app; eauto.
  - intros bs IH t Hw. destruct t; simpl in Hw; try contradiction.
    destruct Hw as [idx [bargs [a [_ [_ [_ [Hbr _]]]]]]]. intros p. simpl. apply (IH _ _ Hbr p).
  - intros g IH t Hw. destruct t; simpl in Hw; try contradiction. destruct Hw as [Hw _]. intros p. simpl. apply (IH _ Hw p).
  - intros pre g IH post t Hw. destruct t; simpl in Hw; try contradiction. destruct Hw as [_ [Hw _]]. intros p. simpl. apply (IH _ Hw p).
  - intros e env subs ret [-> _] a x [].
  - intros a g IHg es rest IHr env subs ret Hw a0 x Hin. simpl in Hw. destruct subs as [|[a' t] subs']; [contradiction|].
    destruct Hw as [-> [_ [Hwt Hw']]]. destruct Hin as [E|Hin]; [inversion E; subst; apply IHg; exact Hwt | eapply IHr; eauto].
  - intros j t Hw. destruct j; contradiction.
  - intros g IHg r IHr j t Hw. destruct j; simpl in Hw; [apply IHg | eapply IHr]; eauto.
Qed.

Theorem site_keys_distinct g k a t p :
  simulate g k a = Ok t -> NoDup (t_keys t p) /\ (forall q, In q (t_keys t p) -> extends p q).
Proof. intros H. apply (proj1 keys_ok_all g t (proj1 (proj1 simulate_wft_all g k a t H)) p). Qed.

(* simulate is a function of (key, arguments) *)
Theorem simulate_deterministic g k a t1 t2 : simulate g k a = Ok t1 -> simulate g k a = Ok t2 -> t1 = t2.
Proof. intros H1 H2. congruence. Qed.
