"""known-finding witness (C30): QWake raises for every Marginal / SMC proposal:
estimate_logpdf(self, key, v, *args: tuple[Any, ...]) annotates each extra argument as a tuple and
QWake (like Importance.run_csmc) passes a Target; the runtime type check raises TypeError.
exit 1 while present."""
import sys, jax, jax.numpy as jnp, math
import genjax
from genjax import ChoiceMapBuilder as C

@genjax.gen
def model(th, a):
    x = genjax.flip(a) @ "x"
    _ = genjax.flip(jnp.where(x, 0.75, 0.25)) @ "y"

@genjax.marginal()
@genjax.gen
def guide(target):
    _ = genjax.vi.flip_enum(target.args[0]) @ "x"

mk = lambda th, a: genjax.Target(model, (th, a), C["y"].set(True))
bad = []
try:
    g = genjax.vi.QWake(guide, guide, mk)(jax.random.key(0), (0.25, 0.5))
    # objective -E_{x~q_th}[log q_th(x)] (posterior_approx = proposal = guide): d/dth = -(log th - log(1-th))
    want = -(math.log(0.25) - math.log(0.75))
    if abs(float(g[0]) - want) > 1e-4:
        bad.append(("grad", float(g[0]), want))
except Exception as e:
    bad.append(("raises", type(e).__name__, str(e)[:90]))
print("FAIL" if bad else "OK", bad[:2])
sys.exit(1 if bad else 0)
