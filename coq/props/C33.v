(* C33 — invalid_subset reports exactly the constraint addresses a model cannot trace.

   `shape` is the choice map of the model's zero trace (gen_fn.get_zero_trace of the arguments,
   .get_choices()); `dom shape q` says the model traces a choice at the static address
   q.  `c` is the constraint; `dom c q`: it has a leaf whose static part is q (index
   levels are ignored).  The model of invalid_subset is model/Chm.v; proofs in
   proofs/ChmDom.v. *)
From Coq Require Import List Bool ZArith Arith.
Import ListNotations.
From Gen Require Import SelGen.
From Model Require Import Sel Flag Chm ChmSpec.
From Proofs Require Import SelProofs ChmBasics ChmLaws ChmLookup ChmDom.
Open Scope Z_scope.

(* _shape_selection selects exactly the leaf addresses of the trace *)
Theorem C33_shape_selection_exact : forall n shape s,
  shape_selection n shape = OK s -> shape_ok shape -> forall q, mem s q = dom shape q.
Proof. exact shape_selection_exact. Qed.
Print Assumptions C33_shape_selection_exact.

(* None exactly when every address of the constraint is one the model traces *)
Theorem C33_invalid_none_iff : forall n shape c r,
  invalid_subset n shape c = OK r -> shape_ok shape -> tidy c ->
  (r = None <-> forall q, dom c q = true -> dom shape q = true).
Proof. exact invalid_none_iff. Qed.
Print Assumptions C33_invalid_none_iff.

(* otherwise exactly the sub-map of untraceable addresses: the same leaves, the same values *)
Theorem C33_invalid_exact : forall n shape c x,
  invalid_subset n shape c = OK (Some x) -> shape_ok shape -> tidy c ->
  (forall q, dom x q = dom c q && negb (dom shape q)) /\
  (wf c -> forall p, amap x p = if dom shape (statics p) then None else amap c p).
Proof. exact invalid_exact. Qed.
Print Assumptions C33_invalid_exact.

(* non-vacuity: a model tracing a, b.c, b.d (b under a switch); a constraint with an
   index level, a valid and two invalid addresses *)
Definition ex_shape : chm :=
  Static [(1%nat, Choice (LRaw (A0 0)));
          (2%nat, Switch (SArr 0) [Static [(3%nat, Choice (LMask (A0 0) (FS Ar true)))];
                                   Static [(4%nat, Choice (LMask (A0 0) (FS Ar false)))]])].
Definition ex_con : chm :=
  Or (Indexed (Static [(1%nat, Choice (LRaw (A0 5)))]) (IPy 0))
     (Static [(2%nat, Static [(3%nat, Choice (LRaw (A0 6))); (1%nat, Choice (LRaw (A0 7)))]); (4%nat, Choice (LRaw (A0 8)))]).
Example C33_nonvacuous :
  shape_ok ex_shape /\ tidy ex_con /\ wf ex_con /\
  exists x, invalid_subset FUEL ex_shape ex_con = OK (Some x) /\
            amap x [CS 2; CS 1] = Some 7 /\ amap x [CS 4] = Some 8 /\ amap x [CS 2; CS 3] = None /\ amap x [CI (LPy 0); CS 1] = None.
Proof.
  split; [|split; [|split]].
  - simpl. repeat split; repeat constructor; simpl; intuition discriminate.
  - simpl. repeat split; repeat constructor; simpl; intuition discriminate.
  - simpl. repeat split; auto; repeat constructor; simpl; intuition discriminate.
  - eexists. split; [vm_compute; reflexivity|]. vm_compute. repeat split.
Qed.
Example C33_nonvacuous_none :
  invalid_subset FUEL ex_shape (Indexed (Static [(1%nat, Choice (LRaw (A0 5)))]) (IPy 0)) = OK None.
Proof. vm_compute. reflexivity. Qed.

(* outside `tidy`: a constraint holding a traced Switch is reported as invalid although
   every address is traceable (Switch.static_is_empty is False even when every branch is
   empty): ChoiceMap.switch(jnp.array(0), [C["a"].set(1.)]).invalid_subset(model) is not None *)
Theorem C33_switch_constraint_refuted :
  exists c x, invalid_subset FUEL ex_shape c = OK (Some x) /\ (forall q, dom c q = true -> dom ex_shape q = true) /\
              forall p, amap x p = None.
Proof.
  exists (Switch (SArr 0) [Static [(1%nat, Choice (LMask (A0 5) (FS Ar true)))]]). eexists.
  split; [vm_compute; reflexivity|]. split.
  - intros q H. destruct q as [|[|[|k]] r]; simpl in H; try discriminate.
    destruct r; [reflexivity|discriminate].
  - intros p. unfold amap. rewrite abs_Switch. cbn [map first_some]. change (Static []) with empty.
    rewrite abs_empty. reflexivity.
Qed.
Print Assumptions C33_switch_constraint_refuted.
