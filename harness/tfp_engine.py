"""Shared code of engines C-tfp (C24) and the closure engine (C32).

* integer-exact probe distributions built with `exact_density` (scalar, vector and
  matrix valued, 0-3 parameters, one with a Python default), mirrored by
  coq/model/Dist.v `probes`;
* argument packages (positional / keyword) and their Coq literals;
* running one GFI operation of a distribution on the implementation and
  canonicalising what it returns.
"""
import numpy as np
from .core import clist, cz, cbool, copt

# name ids of keyword parameters: 0,1,2 are the probes' parameters, 7 is a name no probe has
NAMES = {0: "p", 1: "q", 2: "r", 7: "zz"}
NAME_ID = {v: k for k, v in NAMES.items()}

# (signature [(name id, default or None)], sample weights, a, bs, c, shift, nleaves, shape) -- Dist.v `probes`
PSPECS = [
    ([(0, None)], [1], 2, [3], 5, 0, 0, ()),
    ([(0, None), (1, None)], [1, 2], 7, [11, 13], 3, 3, 0, ()),
    ([(0, None), (1, None)], [1, 3], 2, [3, 5], 1, 5, 3, (3,)),
    ([(0, None), (1, None)], [2, 1], 3, [5, 7], 2, 9, 4, (2, 2)),
    ([], [], 5, [], 4, 6, 0, ()),
    ([(0, None), (1, None), (2, 1)], [1, 1, 1], 5, [2, 3, 4], 0, 2, 0, ()),
]
_PROBES = None


def _mk_probe(i, spec):
    import jax
    import jax.numpy as jnp
    from genjax._src.generative_functions.distributions.distribution import exact_density
    sig, sw, a, bs, c, shift, n, shape = spec
    names = [NAMES[s[0]] for s in sig]
    dflts = [s[1] for s in sig]
    m = max(1, n)

    def lin(ws, ps):
        t = 0.0
        for w, p in zip(ws, ps):
            t = t + w * p
        return t

    def sample_core(key, *ps):
        kd = jax.random.key_data(key)
        x = (kd[..., 0] ^ kd[..., 1])
        if n == 0:
            b = (x >> jnp.uint32(shift)) & jnp.uint32(3)
        else:
            b = ((x >> (jnp.uint32(shift) + jnp.arange(m, dtype=jnp.uint32))) & jnp.uint32(3)).reshape(shape)
        return lin(sw, ps) + b.astype(jnp.float32)

    def logpdf_core(v, *ps):
        base = a * v + lin(bs, ps) + float(c)
        if n == 0:
            return base
        return base + jnp.arange(m, dtype=jnp.float32).reshape(shape)

    # real Python signatures, so that keyword binding (and its TypeErrors) is Python's own
    params = ", ".join(nm if d is None else f"{nm}={float(d)}" for nm, d in zip(names, dflts))
    call = ", ".join(names)
    ns = {"sample_core": sample_core, "logpdf_core": logpdf_core}
    exec(f"def sample(key{', ' if params else ''}{params}):\n    return sample_core(key{', ' if call else ''}{call})\n"
         f"def logpdf(v{', ' if params else ''}{params}):\n    return logpdf_core(v{', ' if call else ''}{call})\n", ns)
    return exact_density(ns["sample"], ns["logpdf"], f"TProbe{i}")


def probes():
    global _PROBES
    if _PROBES is None:
        _PROBES = [_mk_probe(i, s) for i, s in enumerate(PSPECS)]
    return _PROBES


def nparams(d):
    return len(PSPECS[d][0])


def vshape(d):
    return PSPECS[d][7]


def vlen(d):
    return max(1, PSPECS[d][6])


# ---- argument packages ---------------------------------------------------------
# an argument list is a list of  ("z", int) | ("t", [int..]) | ("d", [(name id, int)..])
def plain(vals):
    return [("z", int(v)) for v in vals]


def packaged(pos, kw):
    return [("t", [int(v) for v in pos]), ("d", [(int(n), int(v)) for n, v in kw])]


def F(z):
    import jax.numpy as jnp
    return jnp.array(float(z), dtype=jnp.float32)


def impl_args(a):
    out = []
    for x in a:
        if x[0] == "z": out.append(F(x[1]))
        elif x[0] == "t": out.append(tuple(F(v) for v in x[1]))
        else: out.append({NAMES[n]: F(v) for n, v in x[1]})
    return tuple(out)


def c_aval(x):
    if x[0] == "z": return f"AZ {cz(x[1])}"
    if x[0] == "t": return f"ATup {clist([cz(v) for v in x[1]])}"
    return f"ADict {clist([f'({n}%nat, {cz(v)})' for n, v in x[1]])}"


def c_args(a):
    return clist([c_aval(x) for x in a])


def c_key(kd):
    return f"({int(kd[0])}%N, {int(kd[1])}%N)"


def c_cons(c):
    if c[0] == "none": return "CNone"
    if c[0] == "val": return f"(CVal {clist([cz(v) for v in c[1]])})"
    return f"(CMask {cbool(c[1])} {clist([cz(v) for v in c[2]])})"


def mk_key(kd):
    import jax
    import jax.numpy as jnp
    return jax.random.wrap_key_data(jnp.array([kd[0], kd[1]], dtype=jnp.uint32))


def value_arr(d, vals):
    import jax.numpy as jnp
    return jnp.array([float(v) for v in vals], dtype=jnp.float32).reshape(vshape(d))


def impl_cons(d, c):
    import jax.numpy as jnp
    from genjax import ChoiceMap
    if c[0] == "none":
        return ChoiceMap.empty()
    if c[0] == "val":
        return ChoiceMap.choice(value_arr(d, c[1]))
    return ChoiceMap.choice(value_arr(d, c[2])).mask(jnp.array(bool(c[1])))


class Inexact(Exception):
    pass


def ints(x):
    a = np.asarray(x, dtype=np.float64).ravel()
    if not np.all(a == np.round(a)) or np.any(np.abs(a) >= 2 ** 24):
        raise Inexact(str(a))
    return [int(v) for v in a]


def flat_leaves(tree):
    import jax
    out = []
    for l in jax.tree_util.tree_leaves(tree):
        out += ints(l)
    return out


def obs_chm_value(chm):
    """a distribution's choice map through the public API: [] absent | value leaves"""
    v = chm.get_value()
    if v is None:
        return None
    return v


def bwd_obs(chm):
    from genjax import Mask
    v = chm.get_value()
    if v is None:
        assert chm.static_is_empty()
        return [0]
    if isinstance(v, Mask):
        return [2, int(bool(np.asarray(v.flag)))] + ints(v.value)
    return [1] + ints(v)


def tag_obs(rd):
    import jax
    from genjax import Diff
    tans = jax.tree_util.tree_leaves(Diff.tree_tangent(rd), is_leaf=lambda x: type(x).__name__ in ("_NoChange", "_UnknownChange"))
    names = {type(t).__name__ for t in tans}
    if names == {"_NoChange"}: return 0
    if names == {"_UnknownChange"}: return 1
    raise ValueError(names)


def diffs(args, unknown):
    from genjax import Diff
    return Diff.unknown_change(args) if unknown else Diff.no_change(args)


def run_dist_op(gf, d, k0, a0, k, op, via=None):
    """runs one operation of the (probe) distribution `gf`; `via(gf, args)` optionally returns
    (callable object, remaining args) to invoke through a closure.  Returns the observation
    (list of ints) or None when the implementation raises TypeError/ValueError."""
    from genjax import Update, Regenerate, Selection
    key0, key = mk_key(k0), mk_key(k)
    try:
        args0 = impl_args(a0)
        kind = op[0]
        if kind == "sim":
            tr = gf.simulate(key, args0)
            return ints(tr.get_retval()) + ints(tr.get_score()) + flat_leaves(tr.get_args())
        if kind == "propose":
            c, s, r = gf.propose(key, args0)
            return ints(c.get_value()) + ints(s) + ints(r)
        if kind == "assess":
            s, v = gf.assess(impl_cons(d, op[1]), args0)
            return ints(s) + ints(v)
        if kind in ("gen", "imp"):
            fn = gf.generate if kind == "gen" else gf.importance
            tr, w = fn(key, impl_cons(d, op[1]), args0)
            assert ints(tr.get_choices().get_value()) == ints(tr.get_retval())
            return ints(tr.get_retval()) + ints(tr.get_score()) + ints(w)
        tr0 = gf.simulate(key0, args0)
        if kind == "project":
            sel = Selection.all() if op[1] else Selection.none()
            return ints(gf.project(key, tr0, sel))
        if kind in ("edit", "update"):
            a1 = impl_args(op[2])
            ad = diffs(a1, op[3])
            if kind == "edit":
                tr, w, rd, bwd = gf.edit(key, tr0, Update(impl_cons(d, op[1])), ad)
                bchm = bwd.constraint
            else:
                tr, w, rd, bchm = gf.update(key, tr0, impl_cons(d, op[1]), ad)
        elif kind == "regen":
            a1 = impl_args(op[2])
            ad = diffs(a1, op[3])
            sel = Selection.all() if op[1] else Selection.none()
            tr, w, rd, bwd = gf.edit(key, tr0, Regenerate(sel), ad)
            bchm = bwd.constraint
        else:
            raise KeyError(kind)
        assert ints(tr.get_choices().get_value()) == ints(tr.get_retval())
        return (ints(tr.get_retval()) + ints(tr.get_score()) + ints(w) + [tag_obs(rd)] + bwd_obs(bchm)
                + flat_leaves(tr.get_args()))
    except Inexact:
        raise
    except Exception as e:
        return None


def c_dop(op):
    k = op[0]
    if k == "sim": return "OSim"
    if k == "propose": return "OPropose"
    if k == "assess": return f"(OAssess {c_cons(op[1])})"
    if k == "gen": return f"(OGen {c_cons(op[1])})"
    if k == "imp": return f"(OImp {c_cons(op[1])})"
    if k == "project": return f"(OProject {cbool(op[1])})"
    if k == "edit": return f"(OEdit {c_cons(op[1])} {c_args(op[2])})"
    if k == "update": return f"(OUpdate {c_cons(op[1])} {c_args(op[2])})"
    if k == "regen":
        # Diff.static_check_no_change: every leaf tagged NoChange (vacuously true without leaves)
        nleaves = sum(1 if x[0] == "z" else len(x[1]) for x in op[2])
        return f"(ORegen {cbool(op[1])} {c_args(op[2])} {cbool((not op[3]) or nleaves == 0)})"
    raise KeyError(k)


def c_obs(o):
    return copt(None if o is None else clist([cz(v) for v in o]))


def c_dcase(d, k0, a0, k, op, out):
    return f"DCase {d}%nat {c_key(k0)} {c_args(a0)} {c_key(k)} {c_dop(op)} {c_obs(out)}"
