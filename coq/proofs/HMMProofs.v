(* Lemmas for C37 (DiscreteHMM).  All statements are over Qc (canonical rationals, Leibniz
   equality), for every number of states N, every length T, every prior / transition /
   observation table: induction on the observation sequence, no enumeration. *)
From Coq Require Import List Arith Bool ZArith QArith Qcanon Lia.
From Model Require Import HMM.
Import ListNotations.
Open Scope Qc_scope.

(* ------------------------------------------------------------------ *)
(* finite sums                                                          *)
(* ------------------------------------------------------------------ *)
Lemma length_tab {A} n (f : nat -> A) : length (tab n f) = n.
Proof. unfold tab. now rewrite map_length, seq_length. Qed.

Lemma nth_tab {A} n (f : nat -> A) i d : (i < n)%nat -> nth i (tab n f) d = f i.
Proof.
  intros H. unfold tab.
  rewrite nth_indep with (d' := f 0%nat) by (rewrite map_length, seq_length; exact H).
  rewrite map_nth. now rewrite seq_nth.
Qed.

Lemma vget_tab n f i : (i < n)%nat -> vget (tab n f) i = f i.
Proof. apply nth_tab. Qed.

Lemma qsum_app l m : qsum (l ++ m) = qsum l + qsum m.
Proof. induction l as [|a l IH]; simpl; [ring | rewrite IH; ring]. Qed.

Lemma sumN_0 f : sumN 0 f = 0.
Proof. reflexivity. Qed.

Lemma sumN_S n f : sumN (S n) f = sumN n f + f n.
Proof. unfold sumN, tab. rewrite seq_S, map_app, qsum_app. simpl. ring. Qed.

Lemma sumN_ext n f g : (forall i, (i < n)%nat -> f i = g i) -> sumN n f = sumN n g.
Proof.
  induction n as [|n IH]; intros H; [reflexivity|].
  rewrite !sumN_S, IH, H; auto.
Qed.

Lemma sumN_zero n : sumN n (fun _ => 0) = 0.
Proof. induction n as [|n IH]; [reflexivity | rewrite sumN_S, IH; ring]. Qed.

Lemma sumN_mul_l n c f : sumN n (fun i => c * f i) = c * sumN n f.
Proof. induction n as [|n IH]; [rewrite !sumN_0; ring | rewrite !sumN_S, IH; ring]. Qed.

Lemma sumN_mul_r n c f : sumN n (fun i => f i * c) = sumN n f * c.
Proof. induction n as [|n IH]; [rewrite !sumN_0; ring | rewrite !sumN_S, IH; ring]. Qed.

Lemma sumN_plus n f g : sumN n (fun i => f i + g i) = sumN n f + sumN n g.
Proof. induction n as [|n IH]; [rewrite !sumN_0; ring | rewrite !sumN_S, IH; ring]. Qed.

Lemma sumN_swap n m (f : nat -> nat -> Qc) :
  sumN n (fun i => sumN m (fun j => f i j)) = sumN m (fun j => sumN n (fun i => f i j)).
Proof.
  induction n as [|n IH].
  - rewrite sumN_0. symmetry. apply sumN_zero.
  - rewrite sumN_S, IH, <- sumN_plus. apply sumN_ext. intros j _. now rewrite sumN_S.
Qed.

Lemma qsum_vget a : qsum a = sumN (length a) (vget a).
Proof.
  induction a as [|x a IH] using rev_ind; [reflexivity|].
  rewrite app_length, Nat.add_comm. simpl length. rewrite sumN_S, qsum_app. simpl.
  unfold vget at 2. rewrite app_nth2, Nat.sub_diag by lia. simpl.
  rewrite IH. f_equal; [|ring].
  apply sumN_ext. intros i Hi. unfold vget. now rewrite app_nth1.
Qed.

Lemma qsum_map_mul_l {A} (c : Qc) (f : A -> Qc) l : qsum (map (fun a => c * f a) l) = c * qsum (map f l).
Proof. induction l as [|a l IH]; simpl; [ring | rewrite IH; ring]. Qed.

Lemma qsum_map_div {A} (c : Qc) (f : A -> Qc) l : qsum (map (fun a => f a / c) l) = qsum (map f l) / c.
Proof.
  induction l as [|a l IH]; simpl.
  - unfold Qcdiv. ring.
  - rewrite IH. unfold Qcdiv. ring.
Qed.

Lemma qsum_map_ext {A} (f g : A -> Qc) l : (forall a, In a l -> f a = g a) -> qsum (map f l) = qsum (map g l).
Proof.
  induction l as [|a l IH]; intros H; simpl; [reflexivity|].
  rewrite H, IH; auto with datatypes.
Qed.

Lemma qsum_flat_map {A B} (g : B -> Qc) (h : A -> list B) l :
  qsum (map g (flat_map h l)) = qsum (map (fun a => qsum (map g (h a))) l).
Proof. induction l as [|a l IH]; simpl; [reflexivity | now rewrite map_app, qsum_app, IH]. Qed.

Lemma qsum_map_seq n (f : nat -> Qc) : qsum (map f (seq 0 n)) = sumN n f.
Proof. reflexivity. Qed.

(* ------------------------------------------------------------------ *)
(* order                                                                *)
(* ------------------------------------------------------------------ *)
Lemma Qc_pos_mul x y : 0 < x -> 0 < y -> 0 < x * y.
Proof.
  intros Hx Hy. replace 0 with (0 * y) by ring. now apply Qcmult_lt_compat_r.
Qed.

Lemma Qc_pos_add x y : 0 <= x -> 0 < y -> 0 < x + y.
Proof.
  intros Hx Hy. apply Qclt_le_trans with (y := y); [exact Hy|].
  replace y with (0 + y) at 1 by ring. apply Qcplus_le_compat; [exact Hx | apply Qcle_refl].
Qed.

Lemma Qc_pos_neq x : 0 < x -> x <> 0.
Proof. intros H E. subst. now apply (Qclt_not_eq _ _ H). Qed.

Lemma sumN_nonneg n f : (forall i, (i < n)%nat -> 0 < f i) -> 0 <= sumN n f.
Proof.
  induction n as [|n IH]; intros H.
  - rewrite sumN_0. apply Qcle_refl.
  - rewrite sumN_S. apply Qclt_le_weak, Qc_pos_add; auto.
Qed.

Lemma sumN_pos n f : (0 < n)%nat -> (forall i, (i < n)%nat -> 0 < f i) -> 0 < sumN n f.
Proof.
  intros Hn H. destruct n as [|n]; [lia|].
  rewrite sumN_S. apply Qc_pos_add; auto. apply sumN_nonneg; auto.
Qed.

Lemma Qc_posb_pos x : Qc_posb x = true -> 0 < x.
Proof.
  unfold Qc_posb. intros H. apply Z.ltb_lt in H.
  unfold Qclt, Qlt. simpl. lia.
Qed.

Lemma Qc_eqb_eq x y : Qc_eqb x y = true -> x = y.
Proof. unfold Qc_eqb. intros H. apply Qc_is_canon. now apply Qeq_bool_eq. Qed.

Lemma all2_spec f n m : all2 f n m = true -> forall i j, (i < n)%nat -> (j < m)%nat -> f i j = true.
Proof.
  unfold all2. intros H i j Hi Hj.
  rewrite forallb_forall in H. specialize (H i). rewrite in_seq in H.
  assert (Hf := H ltac:(lia)). rewrite forallb_forall in Hf. apply Hf. rewrite in_seq. lia.
Qed.

Lemma forallb_seq f n : forallb f (seq 0 n) = true -> forall i, (i < n)%nat -> f i = true.
Proof. intros H i Hi. rewrite forallb_forall in H. apply H. rewrite in_seq. lia. Qed.

Lemma Qc_eqb_false x y : Qc_eqb x y = false -> x <> y.
Proof. intros H E. subst. unfold Qc_eqb in H. now rewrite Qeq_bool_refl in H. Qed.

Lemma last_cons {A} (l : list A) x d : last (x :: l) d = last l x.
Proof.
  revert x d. induction l as [|z l IH]; intros x d; [reflexivity|].
  change (last (x :: z :: l) d) with (last (z :: l) d). now rewrite !IH.
Qed.

Lemma vget_normalise a i : vget (normalise a) i = vget a i / qsum a.
Proof.
  unfold normalise, vget.
  assert (E : Q2Qc 0 = (fun x => x / qsum a) 0) by (unfold Qcdiv; ring).
  rewrite E at 1. exact (map_nth (fun x => x / qsum a) a 0 i).
Qed.

(* ------------------------------------------------------------------ *)
Section Proofs.
  Variable N : nat.
  Variable pr : list Qc.
  Variable tr ob : list (list Qc).

  Local Notation T := (mget tr).
  Local Notation O := (mget ob).

  (* a forward recursion with contraction weight t, run to the end *)
  Fixpoint grun (t : nat -> nat -> Qc) (a : list Qc) (ys : list nat) : list Qc :=
    match ys with [] => a | y :: r => grun t (gstep N ob t a y) r end.
  (* backward message of the chain in which moving p -> x weighs s p x *)
  Fixpoint gbeta (s : nat -> nat -> Qc) (p : nat) (ys : list nat) : Qc :=
    match ys with [] => 1 | y :: r => sumN N (fun x => s p x * O x y * gbeta s x r) end.

  Lemma length_gstep t a y : length (gstep N ob t a y) = N.
  Proof. apply length_tab. Qed.

  Lemma grun_beta t ys : forall a, length a = N ->
    qsum (grun t a ys) = sumN N (fun j => vget a j * gbeta (fun p x => t x p) j ys).
  Proof.
    induction ys as [|y r IH]; intros a Ha; simpl.
    - rewrite qsum_vget, Ha. apply sumN_ext; intros; ring.
    - rewrite IH by apply length_gstep.
      transitivity (sumN N (fun i => sumN N (fun j => vget a j * (t i j * O i y * gbeta (fun p x => t x p) i r)))).
      + apply sumN_ext; intros i Hi. unfold gstep. rewrite vget_tab by exact Hi.
        rewrite <- sumN_mul_l, <- sumN_mul_r. apply sumN_ext; intros; ring.
      + rewrite sumN_swap. apply sumN_ext; intros j Hj.
        rewrite <- sumN_mul_l. apply sumN_ext; intros; ring.
  Qed.

  Lemma gbeta_ext s s' : (forall p x, (p < N)%nat -> (x < N)%nat -> s p x = s' p x) ->
    forall ys p, (p < N)%nat -> gbeta s p ys = gbeta s' p ys.
  Proof.
    intros H. induction ys as [|y r IH]; intros p Hp; simpl; [reflexivity|].
    apply sumN_ext; intros x Hx. now rewrite H, IH.
  Qed.

  (* ---- the brute-force sum is the backward recursion ---- *)
  Lemma jtail_sum ys : forall p,
    qsum (map (fun xs => jtail tr ob p xs ys) (seqs N (length ys))) = gbeta T p ys.
  Proof.
    induction ys as [|y r IH]; intros p.
    - simpl. ring.
    - simpl length. simpl seqs. rewrite qsum_flat_map, qsum_map_seq. simpl gbeta.
      apply sumN_ext; intros x Hx. rewrite map_map.
      rewrite qsum_map_ext with (g := fun xr => (T p x * O x y) * jtail tr ob x xr r) by (intros; reflexivity).
      now rewrite qsum_map_mul_l, IH.
  Qed.

  Lemma marginal_beta y ys :
    marginal N pr tr ob (y :: ys) = sumN N (fun x => vget pr x * O x y * gbeta T x ys).
  Proof.
    unfold marginal. simpl length. simpl seqs. rewrite qsum_flat_map, qsum_map_seq.
    apply sumN_ext; intros x Hx. rewrite map_map.
    rewrite qsum_map_ext with (g := fun xr => (vget pr x * O x y) * jtail tr ob x xr ys) by (intros; reflexivity).
    now rewrite qsum_map_mul_l, jtail_sum.
  Qed.

  (* ---- the scans ---- *)
  Lemma fwd_scan_S s k a ys : fwd_scan_with N ob s (S k) a ys = fwd_scan_with N ob s 1 a ys.
  Proof.
    revert k a. induction ys as [|y r IH]; intros k a; [reflexivity|].
    cbn [fwd_scan_with Nat.eqb]. f_equal. now rewrite (IH (S k)), (IH 1%nat).
  Qed.

  Lemma length_fwd_scan s ys : forall k a, length (fwd_scan_with N ob s k a ys) = length ys.
  Proof. induction ys as [|y r IH]; intros k a; simpl; [reflexivity | now rewrite IH]. Qed.

  Lemma last_fwd_scan t ys : forall a, last (fwd_scan_with N ob (gstep N ob t) 1 a ys) a = grun t a ys.
  Proof.
    induction ys as [|y r IH]; intros a; [reflexivity|].
    cbn [fwd_scan_with Nat.eqb grun]. rewrite last_cons, fwd_scan_S. apply IH.
  Qed.

  Lemma alphas_cons s y ys :
    alphas_with N pr ob s (y :: ys) = alpha_init N ob pr y :: fwd_scan_with N ob s 1 (alpha_init N ob pr y) ys.
  Proof. reflexivity. Qed.

  Lemma tfp_fwd_grun ys : forall a, tfp_fwd N tr ob a ys = grun (fun i j => T j i) a ys.
  Proof. induction ys as [|y r IH]; intros a; [reflexivity | apply IH]. Qed.

  Lemma vget_alpha_init y i : (i < N)%nat -> vget (alpha_init N ob pr y) i = O i y * vget pr i.
  Proof. intros. unfold alpha_init. now rewrite vget_tab. Qed.

  (* what a forward pass with contraction weight t sums to: the likelihood of the chain whose
     weight of moving p -> x is t x p *)
  Lemma forward_sum_gen t y ys :
    qsum (last (alphas_with N pr ob (gstep N ob t) (y :: ys)) []) =
    sumN N (fun x => vget pr x * O x y * gbeta (fun p x => t x p) x ys).
  Proof.
    rewrite alphas_cons, last_cons, last_fwd_scan, grun_beta by apply length_tab.
    apply sumN_ext; intros i Hi. rewrite vget_alpha_init by exact Hi. ring.
  Qed.

  Definition Sym := forall i j, (i < N)%nat -> (j < N)%nat -> T i j = T j i.

  Lemma symmetric_Sym : symmetric N tr = true -> Sym.
  Proof. intros H i j Hi Hj. apply Qc_eqb_eq. exact (all2_spec _ _ _ H i j Hi Hj). Qed.

  (* the (repaired) forward pass sums to the marginal likelihood, for every table *)
  Lemma forward_sum y ys :
    qsum (last (alphas N pr tr ob (y :: ys)) []) = marginal N pr tr ob (y :: ys).
  Proof.
    unfold alphas, alpha_step. rewrite forward_sum_gen, marginal_beta.
    apply sumN_ext; intros x Hx. reflexivity.
  Qed.

  (* ---- data_logpdf ---- *)
  Lemma data_lik_is_marginal y ys : data_lik N pr tr ob (y :: ys) = marginal N pr tr ob (y :: ys).
  Proof.
    unfold data_lik. rewrite tfp_fwd_grun, grun_beta by apply length_tab. rewrite marginal_beta.
    apply sumN_ext; intros i Hi. rewrite vget_alpha_init by exact Hi.
    rewrite (Qcmult_comm (O i y)). reflexivity.
  Qed.

  (* ---- estimate_logpdf ---- *)
  Lemma lsp_jtail xs : forall ys row p, (forall x, vget row x = T p x) -> length xs = length ys ->
    qprod (lsp_scan tr ob row xs ys) = jtail tr ob p xs ys.
  Proof.
    induction xs as [|x xr IH]; intros [|y yr] row p Hrow Hl; simpl in Hl; try discriminate; [reflexivity|].
    cbn [lsp_scan jtail qprod fold_right]. fold (qprod (lsp_scan tr ob (nth x tr []) xr yr)).
    rewrite (IH yr (nth x tr []) x) by (auto; lia). now rewrite Hrow.
  Qed.

  Lemma lsp_joint xs ys : length xs = length ys -> ys <> [] ->
    qprod (lsp_scan tr ob pr xs ys) = joint pr tr ob xs ys.
  Proof.
    destruct xs as [|x xr], ys as [|y yr]; simpl; intros Hl Hne; try discriminate; try congruence.
    fold (qprod (lsp_scan tr ob (nth x tr []) xr yr)).
    rewrite (lsp_jtail xr yr (nth x tr []) x) by (auto; lia). ring.
  Qed.

  Lemma est_pdf_is_posterior xs y ys : length xs = S (length ys) ->
    est_pdf N pr tr ob xs (y :: ys) = posterior N pr tr ob xs (y :: ys).
  Proof.
    intros Hl. unfold est_pdf, est_pdf_with, posterior.
    rewrite lsp_joint by (simpl; auto; discriminate). now rewrite data_lik_is_marginal.
  Qed.

  Lemma posterior_normalised ys : marginal N pr tr ob ys <> 0 ->
    qsum (map (fun xs => posterior N pr tr ob xs ys) (seqs N (length ys))) = 1.
  Proof.
    intros H. unfold posterior. rewrite qsum_map_div. fold (marginal N pr tr ob ys). now field.
  Qed.

  Lemma in_range_cons K x l : in_range K (x :: l) = true <-> (x < K)%nat /\ in_range K l = true.
  Proof. unfold in_range. simpl. rewrite andb_true_iff, Nat.ltb_lt. tauto. Qed.

  Lemma seqs_length k : forall xs, In xs (seqs N k) -> length xs = k.
  Proof.
    induction k as [|k IH]; intros xs Hin.
    - destruct Hin as [<-|[]]. reflexivity.
    - simpl in Hin. apply in_flat_map in Hin. destruct Hin as [x [Hx Hin]].
      apply in_map_iff in Hin. destruct Hin as [xr [<- Hxr]]. simpl. f_equal. now apply IH.
  Qed.

  Lemma seqs_in_range k : forall xs, In xs (seqs N k) -> in_range N xs = true.
  Proof.
    induction k as [|k IH]; intros xs Hin.
    - destruct Hin as [<-|[]]. reflexivity.
    - simpl in Hin. apply in_flat_map in Hin. destruct Hin as [x [Hx Hin]].
      apply in_map_iff in Hin. destruct Hin as [xr [<- Hxr]].
      apply in_range_cons. split; [apply in_seq in Hx; lia | now apply IH].
  Qed.

  (* ---- positivity ---- *)
  Section Positive.
    Variable M : nat.
    Hypothesis Hpos : positive N pr tr ob M = true.

    Lemma Npos : (0 < N)%nat.
    Proof. unfold positive in Hpos. rewrite !andb_true_iff in Hpos. apply Nat.ltb_lt. tauto. Qed.
    Lemma Ppr i : (i < N)%nat -> 0 < vget pr i.
    Proof.
      unfold positive in Hpos. rewrite !andb_true_iff in Hpos. destruct Hpos as [[[_ H] _] _].
      intros Hi. apply Qc_posb_pos. exact (forallb_seq _ _ H i Hi).
    Qed.
    Lemma Ptr i j : (i < N)%nat -> (j < N)%nat -> 0 < T i j.
    Proof.
      unfold positive in Hpos. rewrite !andb_true_iff in Hpos. destruct Hpos as [[_ H] _].
      intros Hi Hj. apply Qc_posb_pos. exact (all2_spec _ _ _ H i j Hi Hj).
    Qed.
    Lemma Pob i y : (i < N)%nat -> (y < M)%nat -> 0 < O i y.
    Proof.
      unfold positive in Hpos. rewrite !andb_true_iff in Hpos. destruct Hpos as [_ H].
      intros Hi Hj. apply Qc_posb_pos. exact (all2_spec _ _ _ H i y Hi Hj).
    Qed.

    Lemma gbeta_pos ys : in_range M ys = true -> forall p, (p < N)%nat -> 0 < gbeta T p ys.
    Proof.
      induction ys as [|y r IH]; intros Hr p Hp; simpl.
      - reflexivity.
      - apply in_range_cons in Hr. destruct Hr as [Hy Hr].
        apply sumN_pos; [apply Npos|]. intros x Hx.
        apply Qc_pos_mul; [apply Qc_pos_mul|]; auto using Ptr, Pob.
    Qed.

    Lemma marginal_pos y ys : in_range M (y :: ys) = true -> 0 < marginal N pr tr ob (y :: ys).
    Proof.
      intros Hr. apply in_range_cons in Hr. destruct Hr as [Hy Hr]. rewrite marginal_beta.
      apply sumN_pos; [apply Npos|]. intros x Hx.
      apply Qc_pos_mul; [apply Qc_pos_mul|]; auto using Ppr, Pob, gbeta_pos.
    Qed.

    Definition posv (a : list Qc) := forall i, (i < N)%nat -> 0 < vget a i.

    Lemma posv_init y : (y < M)%nat -> posv (alpha_init N ob pr y).
    Proof. intros Hy i Hi. rewrite vget_alpha_init by exact Hi. apply Qc_pos_mul; auto using Ppr, Pob. Qed.

    Lemma posv_step a y : posv a -> (y < M)%nat -> posv (alpha_step N tr ob a y).
    Proof.
      intros Ha Hy i Hi. unfold alpha_step, gstep. rewrite vget_tab by exact Hi.
      apply Qc_pos_mul; [auto using Pob|]. apply sumN_pos; [apply Npos|].
      intros j Hj. apply Qc_pos_mul; auto using Ptr.
    Qed.

    Lemma posv_qsum a : length a = N -> posv a -> 0 < qsum a.
    Proof. intros Hl Ha. rewrite qsum_vget, Hl. apply sumN_pos; [apply Npos | exact Ha]. Qed.

    (* ---- the backward conditional, against the next alpha ---- *)
    Lemma cond_eq a x x' : length a = N -> posv a -> (x < N)%nat -> (x' < N)%nat ->
      vget (bwd_dist N tr 1 x' (normalise a)) x * sumN N (fun j => vget a j * T j x') = vget a x * T x x'.
    Proof.
      intros Hl Ha Hx Hx'.
      change (bwd_dist N tr 1 x' (normalise a)) with (normalise (tab N (fun i => vget (normalise a) i * T i x'))).
      rewrite vget_normalise, vget_tab by exact Hx.
      change (qsum (tab N (fun i => vget (normalise a) i * T i x'))) with (sumN N (fun i => vget (normalise a) i * T i x')).
      set (S0 := qsum a). set (Z := sumN N (fun j => vget a j * T j x')).
      assert (HS : S0 <> 0) by (apply Qc_pos_neq, posv_qsum; assumption).
      assert (HZ : Z <> 0).
      { apply Qc_pos_neq, sumN_pos; [apply Npos|]. intros j Hj. apply Qc_pos_mul; auto using Ptr. }
      assert (E : sumN N (fun i => vget (normalise a) i * T i x') = Z / S0).
      { unfold Z. unfold Qcdiv. rewrite <- sumN_mul_r. apply sumN_ext; intros i Hi.
        rewrite vget_normalise. fold S0. unfold Qcdiv. ring. }
      rewrite E, vget_normalise. fold S0. field. split; assumption.
    Qed.

    (* head-first form of the probability that the backward scan emits xs *)
    Fixpoint qh (ffs : list (list Qc)) (xs : list nat) {struct ffs} : Qc :=
      match ffs, xs with
      | ff :: ffr, x :: xr =>
          match ffr, xr with
          | [], [] => vget ff x
          | _ :: _, x' :: _ => vget (bwd_dist N tr 1 x' ff) x * qh ffr xr
          | _, _ => 0
          end
      | _, _ => 0
      end.

    Lemma bwd_pmf_S rl : forall rxs k p, bwd_pmf N tr (S k) p rl rxs = bwd_pmf N tr 1 p rl rxs.
    Proof.
      induction rl as [|ff rl IH]; intros [|x rxs] k p; try reflexivity.
      cbn [bwd_pmf]. rewrite (IH rxs (S k)), (IH rxs 1%nat). reflexivity.
    Qed.

    Lemma bridge' rl : forall rxs, length rl = length rxs -> forall f tl x' tx,
      qh (rev rl ++ f :: tl) (rev rxs ++ x' :: tx) = bwd_pmf N tr 1 x' rl rxs * qh (f :: tl) (x' :: tx).
    Proof.
      induction rl as [|ff rl IH]; intros [|x rxs] Hl f tl x' tx; simpl in Hl; try discriminate.
      - simpl. ring.
      - cbn [rev]. rewrite <- !app_assoc. cbn [app].
        rewrite (IH rxs ltac:(lia) ff (f :: tl) x (x' :: tx)).
        cbn [bwd_pmf]. rewrite (bwd_pmf_S rl rxs 1%nat).
        change (qh (ff :: f :: tl) (x :: x' :: tx)) with (vget (bwd_dist N tr 1 x' ff) x * qh (f :: tl) (x' :: tx)).
        ring.
    Qed.

    Lemma bridge ffs xs : ffs <> [] -> length ffs = length xs ->
      bwd_pmf N tr 0 0 (rev ffs) (rev xs) = qh ffs xs.
    Proof.
      intros Hne Hl.
      destruct (exists_last Hne) as [l' [a ->]].
      assert (Hx : xs <> []) by (intros ->; rewrite app_length in Hl; simpl in Hl; lia).
      destruct (exists_last Hx) as [xs' [xT ->]].
      rewrite !app_length in Hl. simpl in Hl.
      rewrite !rev_unit. cbn [bwd_pmf].
      change (bwd_dist N tr 0 0 a) with a.
      rewrite <- (rev_involutive l') at 2. rewrite <- (rev_involutive xs') at 2.
      rewrite bridge' by (rewrite !rev_length; lia). simpl. ring.
    Qed.

    Lemma qh_main ys : forall a x xr, length a = N -> posv a -> (x < N)%nat ->
      in_range N xr = true -> in_range M ys = true -> length xr = length ys ->
      qh (map normalise (a :: fwd_scan_with N ob (alpha_step N tr ob) 1 a ys)) (x :: xr) * qsum (grun (fun i j => T j i) a ys)
      = vget a x * jtail tr ob x xr ys.
    Proof.
      induction ys as [|y r IH]; intros a x xr Hl Ha Hx Hxr Hys Hlen.
      - destruct xr; simpl in Hlen; [|discriminate]. simpl.
        rewrite vget_normalise. field. apply Qc_pos_neq, posv_qsum; assumption.
      - destruct xr as [|x' xr']; simpl in Hlen; [discriminate|].
        apply in_range_cons in Hxr. destruct Hxr as [Hx' Hxr'].
        apply in_range_cons in Hys. destruct Hys as [Hy Hr].
        cbn [fwd_scan_with Nat.eqb grun jtail]. rewrite fwd_scan_S.
        set (a' := alpha_step N tr ob a y).
        change (gstep N ob (fun i j => T j i) a y) with a'.
        assert (Hl' : length a' = N) by apply length_tab.
        assert (Ha' : posv a') by (apply posv_step; assumption).
        specialize (IH a' x' xr' Hl' Ha' Hx' Hxr' Hr ltac:(lia)).
        change (qh (map normalise (a :: a' :: fwd_scan_with N ob (alpha_step N tr ob) 1 a' r)) (x :: x' :: xr'))
          with (vget (bwd_dist N tr 1 x' (normalise a)) x * qh (map normalise (a' :: fwd_scan_with N ob (alpha_step N tr ob) 1 a' r)) (x' :: xr')).
        rewrite <- Qcmult_assoc, IH.
        assert (E : vget a' x' = O x' y * sumN N (fun j => vget a j * T j x')).
        { unfold a', alpha_step, gstep. now rewrite vget_tab by exact Hx'. }
        rewrite E.
        transitivity (vget (bwd_dist N tr 1 x' (normalise a)) x * sumN N (fun j => vget a j * T j x')
                      * (O x' y * jtail tr ob x' xr' r)); [ring|].
        rewrite cond_eq by assumption. ring.
    Qed.

    Theorem ffbs_is_posterior y ys xs :
      in_range N xs = true -> in_range M (y :: ys) = true -> length xs = S (length ys) ->
      ffbs_pmf N pr tr ob (y :: ys) xs = posterior N pr tr ob xs (y :: ys).
    Proof.
      intros Hxs Hys Hlen.
      destruct xs as [|x xr]; simpl in Hlen; [discriminate|].
      apply in_range_cons in Hxs. destruct Hxs as [Hx Hxr].
      assert (Hys' := Hys). apply in_range_cons in Hys'. destruct Hys' as [Hy Hr].
      unfold ffbs_pmf, ffbs_pmf_with, filters_with. rewrite alphas_cons.
      set (a1 := alpha_init N ob pr y).
      rewrite bridge; [| discriminate | simpl; now rewrite map_length, length_fwd_scan, Hlen ].
      assert (Hm : marginal N pr tr ob (y :: ys) <> 0) by (apply Qc_pos_neq, marginal_pos; exact Hys).
      assert (E := qh_main ys a1 x xr (length_tab _ _) (posv_init y Hy) Hx Hxr Hr ltac:(lia)).
      assert (F := forward_sum y ys). unfold alphas, alpha_step in F.
      rewrite alphas_cons, last_cons, last_fwd_scan in F. fold a1 in F.
      rewrite F in E. unfold posterior.
      assert (J : joint pr tr ob (x :: xr) (y :: ys) = vget a1 x * jtail tr ob x xr ys).
      { unfold a1. rewrite vget_alpha_init by exact Hx. simpl. ring. }
      rewrite J, <- E. field. exact Hm.
    Qed.

    Theorem ffbs_normalised y ys : in_range M (y :: ys) = true ->
      qsum (map (fun xs => ffbs_pmf N pr tr ob (y :: ys) xs) (seqs N (length (y :: ys)))) = 1.
    Proof.
      intros Hys.
      rewrite <- (posterior_normalised (y :: ys)) by (apply Qc_pos_neq, marginal_pos; exact Hys).
      apply qsum_map_ext. intros xs Hin. apply ffbs_is_posterior; auto.
      - exact (seqs_in_range _ _ Hin).
      - exact (seqs_length _ _ Hin).
    Qed.
  End Positive.
End Proofs.

(* ------------------------------------------------------------------ *)
(* the forward pass BEFORE the repair F37 (alpha_step_transposed) *)
Lemma mget_transpose n m i j : (i < n)%nat -> (j < n)%nat -> mget (transpose n m) i j = mget m j i.
Proof. intros Hi Hj. unfold transpose, mget at 1. rewrite nth_tab by exact Hi. now rewrite nth_tab. Qed.

(* it summed to the likelihood of the chain with the TRANSPOSED transition table *)
Lemma forward_sum_transposed N pr tr ob y ys :
  qsum (last (alphas_transposed N pr tr ob (y :: ys)) []) = marginal N pr (transpose N tr) ob (y :: ys).
Proof.
  unfold alphas_transposed, alpha_step_transposed.
  rewrite forward_sum_gen, marginal_beta. apply sumN_ext; intros x Hx. f_equal.
  apply gbeta_ext; [|exact Hx]. intros p z Hp Hz. now rewrite mget_transpose.
Qed.

(* on a symmetric table it coincided with the repaired one *)
Lemma gstep_ext N ob t t' a y : (forall i j, (i < N)%nat -> (j < N)%nat -> t i j = t' i j) ->
  gstep N ob t a y = gstep N ob t' a y.
Proof.
  intros H. unfold gstep, tab. apply map_ext_in. intros i Hi. apply in_seq in Hi. f_equal.
  apply sumN_ext. intros j Hj. rewrite H; auto. lia.
Qed.

Lemma fwd_scan_with_ext N ob s s' : (forall a y, s a y = s' a y) ->
  forall ys k a, fwd_scan_with N ob s k a ys = fwd_scan_with N ob s' k a ys.
Proof.
  intros H. induction ys as [|y r IH]; intros k a; [reflexivity|].
  cbn [fwd_scan_with]. rewrite H, IH. reflexivity.
Qed.

Lemma transposed_agrees_when_symmetric N pr tr ob ys xs : symmetric N tr = true ->
  ffbs_pmf_transposed N pr tr ob ys xs = ffbs_pmf N pr tr ob ys xs.
Proof.
  intros H. apply symmetric_Sym in H.
  unfold ffbs_pmf_transposed, ffbs_pmf, ffbs_pmf_with, filters_with, alphas_with.
  rewrite (fwd_scan_with_ext N ob (alpha_step_transposed N tr ob) (alpha_step N tr ob)); [reflexivity|].
  intros a y. unfold alpha_step_transposed, alpha_step. apply gstep_ext. intros i j Hi Hj. now apply H.
Qed.

(* ------------------------------------------------------------------ *)
(* witnesses *)
Definition w_pr : list Qc := qv [1 # 4; 3 # 4]%Q.
Definition w_sym : list (list Qc) := qm [[2 # 3; 1 # 3]; [1 # 3; 2 # 3]]%Q.
Definition w_asym : list (list Qc) := qm [[2 # 3; 1 # 3]; [1 # 5; 4 # 5]]%Q.
Definition w_ob : list (list Qc) := qm [[1 # 2; 1 # 2]; [1 # 10; 9 # 10]]%Q.

(* the hypotheses are satisfiable, on an ASYMMETRIC table *)
Lemma hyps_nonvacuous :
  positive 2 w_pr w_asym w_ob 2 = true /\ row_stochastic 2 w_pr w_asym w_ob 2 = true /\
  symmetric 2 w_asym = false /\ in_range 2 [1; 0; 1]%nat = true /\ in_range 2 [0; 1; 1]%nat = true /\
  marginal 2 w_pr w_asym w_ob [1; 0; 1]%nat <> 0 /\
  ffbs_pmf 2 w_pr w_asym w_ob [1; 0; 1]%nat [0; 1; 1]%nat = Q2Qc (675 # 26288).
Proof.
  repeat split; try (vm_compute; reflexivity).
  - apply Qc_eqb_false. vm_compute. reflexivity.
  - apply Qc_is_canon. vm_compute. reflexivity.
Qed.

(* what the repair fixed: with the transposed forward pass the sampler's law is NOT the posterior
   (and the forward pass does not sum to the data likelihood) on an asymmetric table, although
   every table is positive and row-stochastic *)
Lemma ffbs_transposed_refuted :
  exists N M pr tr ob ys xs,
    positive N pr tr ob M = true /\ row_stochastic N pr tr ob M = true /\
    in_range M ys = true /\ in_range N xs = true /\ length xs = length ys /\
    symmetric N tr = false /\
    ffbs_pmf_transposed N pr tr ob ys xs <> posterior N pr tr ob xs ys /\
    qsum (last (alphas_transposed N pr tr ob ys) []) <> marginal N pr tr ob ys.
Proof.
  exists 2%nat, 2%nat, w_pr, w_asym, w_ob, [1; 0; 1]%nat, [0; 1; 1]%nat.
  repeat split; try (vm_compute; reflexivity); apply Qc_eqb_false; vm_compute; reflexivity.
Qed.

(* ------------------------------------------------------------------ *)
(* scaled_circulant: the logits are symmetric when the band does not wrap onto itself *)
Open Scope Z_scope.
Lemma circ_source_sym N k e d m : 0 <= k -> 2 * k <= N -> 0 < m < N ->
  circ_source N k e d m = circ_source N k e d (N - m).
Proof.
  intros Hk H2 Hm. unfold circ_source. rewrite !Z.geb_leb.
  destruct (m <=? k) eqn:A; destruct (N - m <=? k) eqn:B;
    destruct (- k <=? m - N) eqn:C; destruct (- k <=? N - m - N) eqn:D;
    rewrite ?Z.leb_le, ?Z.leb_gt in *; try lia; try reflexivity; f_equal; lia.
Qed.

Lemma circ_entry_sym N k e d i j : 0 <= k -> 2 * k <= N -> 0 <= i < N -> 0 <= j < N ->
  circ_entry N k e d i j = circ_entry N k e d j i.
Proof.
  intros Hk H2 Hi Hj. unfold circ_entry.
  destruct (Z.lt_trichotomy i j) as [L|[E|G]].
  - assert (E1 : (i - j) mod N = N - (j - i)) by (symmetry; apply Z.mod_unique with (q := -1); lia).
    assert (E2 : (j - i) mod N = j - i) by (apply Z.mod_small; lia).
    rewrite E1, E2. symmetry. apply circ_source_sym; lia.
  - now subst.
  - assert (E1 : (j - i) mod N = N - (i - j)) by (symmetry; apply Z.mod_unique with (q := -1); lia).
    assert (E2 : (i - j) mod N = i - j) by (apply Z.mod_small; lia).
    rewrite E1, E2. apply circ_source_sym; lia.
Qed.

(* ... and are not when it does: N = 3, adjacency distance 2 (entry [0,1] is eps^2, entry [1,0] is eps) *)
Lemma circ_asymmetric_witness :
  exists N k e d i j, 0 <= i < N /\ 0 <= j < N /\ 0 <= k /\ ~ (2 * k <= N) /\
    ~ (circ_entry N k e d i j == circ_entry N k e d j i)%Q.
Proof.
  exists 3, 2, (1 # 2)%Q, (-2 # 1)%Q, 0, 1. repeat split; try lia.
  vm_compute. discriminate.
Qed.
Close Scope Z_scope.

(* ------------------------------------------------------------------ *)
(* statements in the form used by props/C37.v *)
Open Scope Qc_scope.
Lemma posterior_normalised_pos N pr tr ob M y ys :
  positive N pr tr ob M = true -> in_range M (y :: ys) = true ->
  qsum (map (fun xs => posterior N pr tr ob xs (y :: ys)) (seqs N (length (y :: ys)))) = 1.
Proof. intros Hp Hr. apply posterior_normalised, Qc_pos_neq. exact (marginal_pos N pr tr ob M Hp y ys Hr). Qed.

Lemma length_bwd_scan N tr choose rffs : forall k p, length (bwd_scan N tr choose k p rffs) = length rffs.
Proof. induction rffs as [|ff r IH]; intros k p; simpl; [reflexivity | now rewrite IH]. Qed.

Lemma length_ffbs_sample N pr tr ob choose ys : length (ffbs_sample N pr tr ob choose ys) = length ys.
Proof.
  unfold ffbs_sample, filters, filters_with, alphas_with.
  now rewrite rev_length, length_bwd_scan, rev_length, map_length, length_fwd_scan.
Qed.

Lemma rw_weight_is_posterior N pr tr ob choose y ys :
  let '(w, v) := rw N pr tr ob choose (y :: ys) in
  v = ffbs_sample N pr tr ob choose (y :: ys) /\ w = posterior N pr tr ob v (y :: ys).
Proof.
  unfold rw. split; [reflexivity|].
  apply est_pdf_is_posterior. now rewrite length_ffbs_sample.
Qed.
