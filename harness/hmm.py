"""Engine C-hmm (C37): runs DiscreteHMM on the implementation, prints Coq literals for
coq/model/HMM.v, and holds the model-free numpy reference (brute-force enumeration, float64).

Run as a worker:  python -m harness.hmm  < jobs.json  > results.json
A job (bundle) is one configuration x one sequence length:
  {"N","kt","ko","st","so","T","obs":[[..]..],"roots":[[w0,w1],..],"freq":{"obs":i,"K":n,"seed":s}|None}
"""
import itertools
import json
import math
import sys
from fractions import Fraction

import numpy as np


# ----------------------------------------------------------------------------
# implementation side (imports jax / genjax lazily: only the worker needs them)
# ----------------------------------------------------------------------------
def make_cfg(N, kt, ko, st, so):
    import jax.numpy as jnp
    from genjax._src.generative_functions.distributions.custom.discrete_hmm import DiscreteHMMConfiguration
    return DiscreteHMMConfiguration(jnp.array(N), jnp.array(kt), jnp.array(ko),
                                    jnp.array(st, dtype=jnp.float32), jnp.array(so, dtype=jnp.float32))


def tables(cfg):
    """the float32 tables exactly as forward_filtering_backward_sampling builds them
    (softmax of the config's logits; init = int(N / 2)), plus the logits and scalars"""
    import jax
    N = int(cfg.linear_grid_dim)
    tt = cfg.transition_tensor()
    ot = cfg.observation_tensor()
    init = int(N / 2)
    pr = np.asarray(jax.nn.softmax(tt[init, :]), dtype=np.float32)
    tr = np.asarray(jax.nn.softmax(tt), dtype=np.float32)
    ob = np.asarray(jax.nn.softmax(ot), dtype=np.float32)
    return {"tt": np.asarray(tt).astype(np.float64).tolist(), "ot": np.asarray(ot).astype(np.float64).tolist(),
            "pr": pr.astype(np.float64).tolist(), "tr": tr.astype(np.float64).tolist(), "ob": ob.astype(np.float64).tolist(),
            "eps_t": float(cfg.sigma_trans), "md_t": float(-(1 / cfg.sigma_trans)),
            "eps_o": float(cfg.sigma_obs), "md_o": float(-(1 / cfg.sigma_obs))}


def key_chain(roots, T, N):
    """the keys random_weighted / backward_sample derive from each root key:
    key, k1, k2 = split(root, 3); per scan step: key, sub = split(key).  Returns
    (k1 typed keys, sub key words [K][T][2], gumbel noise [K][T][N] float32 drawn from the sub keys)"""
    import jax
    import jax.numpy as jnp
    rk = jax.random.wrap_key_data(jnp.asarray(np.array(roots, dtype=np.uint32)))
    k1 = jax.vmap(lambda k: jax.random.split(k, 3)[1])(rk)
    subs, gum = [], []
    key = k1
    for _ in range(T):
        pair = jax.vmap(lambda k: jax.random.split(k))(key)
        key, sub = pair[:, 0], pair[:, 1]
        subs.append(np.asarray(jax.random.key_data(sub)))
        gum.append(np.asarray(jax.vmap(lambda k: jax.random.gumbel(k, (N,), jnp.float32))(sub)))
    subs = np.stack(subs, axis=1)
    gum = np.stack(gum, axis=1)
    return rk, k1, subs, gum


def count_rows(v):
    cnt = {}
    for r in np.asarray(v).astype(int):
        t = tuple(int(x) for x in r)
        cnt[t] = cnt.get(t, 0) + 1
    return [[list(k), c] for k, c in sorted(cnt.items())]


def run_bundle(job):
    import jax
    import jax.numpy as jnp
    import genjax
    from genjax._src.generative_functions.distributions.custom import discrete_hmm as dh
    N, T = job["N"], job["T"]
    cfg = make_cfg(job["N"], job["kt"], job["ko"], job["st"], job["so"])
    out = {"genjax_file": genjax.__file__, "tables": tables(cfg)}
    obs = jnp.asarray(np.array(job["obs"], dtype=np.int32))
    lats = jnp.asarray(np.array(list(itertools.product(range(N), repeat=T)), dtype=np.int32))
    k0 = jax.random.key(0)
    M, L, K = obs.shape[0], lats.shape[0], len(job["roots"])
    # public entry points, batched with ONE level of vmap over flattened index pairs (nested vmap
    # triples the tracing cost; jit is impossible: it would stage the config's own arrays)
    om = jnp.repeat(jnp.arange(M), L)
    lm = jnp.tile(jnp.arange(L), M)
    post = jax.vmap(lambda a, b: dh.DiscreteHMM.estimate_logpdf(k0, lats[b], cfg, obs[a]))(om, lm)
    out["post"] = np.asarray(post, dtype=np.float64).reshape(M, L).tolist()
    data = jax.vmap(lambda o: dh.DiscreteHMM.data_logpdf(cfg, o))(obs)
    out["data"] = np.asarray(data, dtype=np.float64).tolist()
    roots = job["roots"]
    rk, k1, subs, gum = key_chain(roots, T, N)
    fq = job.get("freq")
    om = jnp.repeat(jnp.arange(M), K)
    keys = jnp.tile(rk, M)
    if fq:   # the frequency keys ride in the same batched call
        om = jnp.concatenate([om, jnp.full((fq["K"],), fq["obs"])])
        keys = jnp.concatenate([keys, jax.random.split(jax.random.key(fq["seed"]), fq["K"])])
    W, V = jax.vmap(lambda a, k: dh.DiscreteHMM.random_weighted(k, cfg, obs[a]))(om, keys)
    W, V = np.asarray(W, dtype=np.float64), np.asarray(V).astype(int)
    out["rw_w"] = W[:M * K].reshape(M, K).tolist()
    out["rw_v"] = V[:M * K].reshape(M, K, T).tolist()
    if fq:
        out["freq"] = count_rows(V[M * K:])
    _, (S, F) = jax.vmap(lambda a, k: dh.forward_filtering_backward_sampling(k, cfg, obs[a]))(jnp.repeat(jnp.arange(M), K), jnp.tile(k1, M))
    F = np.asarray(F, dtype=np.float64).reshape(M, K, T, N)
    out["ffbs_v"] = np.asarray(S).astype(int).reshape(M, K, T).tolist()
    out["filters"] = F[:, 0].tolist()
    out["filters_key_independent"] = bool(np.all(F == F[:, :1]))
    out["subs"] = [[[int(w) for w in kk] for kk in row] for row in subs]
    out["gumbel"] = gum.astype(np.float64).tolist()
    return out


def run_malformed():
    """a small malformed stream; outcomes are recorded as an enum, never judged"""
    import jax
    import jax.numpy as jnp
    from genjax._src.generative_functions.distributions.custom import discrete_hmm as dh
    cfg = make_cfg(3, 1, 1, 0.5, 0.75)
    k = jax.random.key(0)

    def outcome(f):
        try:
            v = float(f())
            return "finite" if math.isfinite(v) else "nonfinite"
        except (ValueError, TypeError, IndexError) as e:
            return "raises:" + type(e).__name__
    return {
        "latent_shorter_than_obs": outcome(lambda: dh.DiscreteHMM.estimate_logpdf(k, jnp.array([0, 1]), cfg, jnp.array([0, 1, 2]))),
        "empty_observation_sequence": outcome(lambda: dh.DiscreteHMM.data_logpdf(cfg, jnp.array([], dtype=jnp.int32))),
        "latent_state_out_of_range": outcome(lambda: dh.DiscreteHMM.estimate_logpdf(k, jnp.array([0, 3, 2]), cfg, jnp.array([0, 1, 2]))),
        "observation_symbol_out_of_range": outcome(lambda: dh.DiscreteHMM.data_logpdf(cfg, jnp.array([0, 3, 2]))),
    }


def run_single(case):
    """one replayable call on the implementation (eager), used by replay()"""
    import jax
    import jax.numpy as jnp
    from genjax._src.generative_functions.distributions.custom import discrete_hmm as dh
    c = case["cfg"]
    cfg = make_cfg(c["N"], c["kt"], c["ko"], c["st"], c["so"])
    obs = jnp.asarray(np.array(case["obs"], dtype=np.int32))
    res = {"tables": tables(cfg)}
    kind = case["kind"]
    if kind == "post":
        res["post"] = float(dh.DiscreteHMM.estimate_logpdf(jax.random.key(0), jnp.asarray(np.array(case["lat"], dtype=np.int32)), cfg, obs))
    elif kind == "data":
        res["data"] = float(dh.DiscreteHMM.data_logpdf(cfg, obs))
    elif kind in ("filt", "samp"):
        N, T = c["N"], len(case["obs"])
        rk, k1, subs, gum = key_chain([case["root"]], T, N)
        w, v = dh.DiscreteHMM.random_weighted(rk[0], cfg, obs)
        _, (s, f) = dh.forward_filtering_backward_sampling(k1[0], cfg, obs)
        res.update(rw_w=float(w), rw_v=np.asarray(v).astype(int).tolist(), ffbs_v=np.asarray(s).astype(int).tolist(),
                   filters=np.asarray(f, dtype=np.float64).tolist(), gumbel=gum[0].astype(np.float64).tolist(),
                   post_at_v=float(dh.DiscreteHMM.estimate_logpdf(jax.random.key(1), v, cfg, obs)))
    elif kind == "freq":
        ks = jax.random.split(jax.random.key(case["seed"]), case["K"])
        w, v = jax.vmap(lambda k: dh.DiscreteHMM.random_weighted(k, cfg, obs))(ks)
        res["freq"] = count_rows(v)
    return res


# ----------------------------------------------------------------------------
# the model-free reference: numpy float64, brute-force enumeration
# ----------------------------------------------------------------------------
def softmax64(a):
    a = np.asarray(a, dtype=np.float64)
    e = np.exp(a - a.max(axis=-1, keepdims=True))
    return e / e.sum(axis=-1, keepdims=True)


class Ref:
    """HMM defined by the config's logits: prior = softmax(tt[N//2]), trans[p, x] = softmax(tt)[p, x],
    obs[x, y] = softmax(ot)[x, y]; everything by enumeration of all N^T sequences"""

    def __init__(self, tt, ot):
        self.N = len(tt)
        self.P = softmax64(np.asarray(tt)[self.N // 2])
        self.Tm = softmax64(tt)
        self.O = softmax64(ot)

    def joint(self, xs, ys):
        p = self.P[xs[0]] * self.O[xs[0], ys[0]]
        for t in range(1, len(ys)):
            p *= self.Tm[xs[t - 1], xs[t]] * self.O[xs[t], ys[t]]
        return p

    def all_joint(self, ys):
        return {xs: self.joint(xs, ys) for xs in itertools.product(range(self.N), repeat=len(ys))}

    def marginal(self, ys):
        return sum(self.all_joint(ys).values())

    def filtering(self, ys):
        """p(x_t | y_1..y_t) for every t, each by enumeration over x_1..x_t"""
        out = []
        for t in range(1, len(ys) + 1):
            j = self.all_joint(ys[:t])
            m = np.zeros(self.N)
            for xs, p in j.items():
                m[xs[-1]] += p
            out.append(m / m.sum())
        return out


def oracle_logits(N, k, eps, mdelta, got):
    """scaled_circulant written independently, for a band that does not wrap onto itself (2k <= N):
    entry [i, j] = eps ** d if d <= k else -delta, d = circular distance between i and j"""
    if 2 * k > N:
        return None
    for i in range(N):
        for j in range(N):
            d = min(abs(i - j), N - abs(i - j))
            want = Fraction(eps) ** d if d <= k else Fraction(mdelta)
            if Fraction(got[i][j]) != want:
                return f"logit [{i},{j}] is {got[i][j]}, a band of half-width {k} with eps={eps} gives {float(want)}"
    return None


def normalise_log(row):
    """x - logsumexp(x) in float64 (canonical form of a log-probability vector)"""
    a = np.asarray(row, dtype=np.float64)
    m = a.max()
    return (a - (m + math.log(np.exp(a - m).sum()))).tolist()


def symmetric_tables(tab):
    tr = np.asarray(tab["tr"])
    return bool(np.array_equal(tr, tr.T))


REL = 1e-4      # relative tolerance on exp(float32 log density)
MARGIN = 1e-3   # Gumbel-max replay: ties closer than this are not judged
WTOL = 1e-5     # random_weighted's weight vs estimate_logpdf of the returned sequence


def close(impl_log, ref, rel=REL):
    return math.isfinite(impl_log) and abs(math.exp(impl_log) - ref) <= rel * ref


def oracle_samp(ref, ys, gumbel, v):
    """numpy re-enactment of backward sampling from the brute-force filtering distributions and the
    Gumbel noise of the sub keys: None if v is what exact FFBS draws (up to ties within MARGIN)"""
    filt = ref.filtering(ys)
    T = len(ys)
    prev = None
    for step in range(T):
        t = T - 1 - step
        d = filt[t] if step == 0 else filt[t] * ref.Tm[:, prev]
        score = d * np.exp(np.asarray(gumbel[step], dtype=np.float64))
        x = v[t]
        if not (0 <= x < ref.N):
            return f"x_{t + 1}={x} out of range"
        if np.any(np.delete(score, x) > score[x] * (1 + MARGIN)):
            return f"x_{t + 1}={x} but exact backward sampling with this step's key draws {int(np.argmax(score))}"
        prev = x
    return None


def oracle_freq(ref, ys, counts, K, sigmas=6.0):
    """frequency of the returned sequences against the brute-force posterior; cells with expected
    count >= 10, the rest pooled.  Returns (worst z, description or None)"""
    j = ref.all_joint(ys)
    Z = sum(j.values())
    cnt = {tuple(k): c for k, c in counts}
    worst, why = 0.0, None
    pooled_p, pooled_c = 0.0, 0
    for xs, p in j.items():
        p /= Z
        c = cnt.get(xs, 0)
        if K * p < 10:
            pooled_p += p
            pooled_c += c
            continue
        z = abs(c / K - p) / math.sqrt(p * (1 - p) / K)
        if z > worst:
            worst = z
            if z > sigmas:
                why = f"sequence {list(xs)} drawn {c}/{K} times, posterior {p:.5f} (z={z:.1f})"
    if K * pooled_p >= 10:
        z = abs(pooled_c / K - pooled_p) / math.sqrt(pooled_p * (1 - pooled_p) / K)
        if z > worst:
            worst = z
            if z > sigmas:
                why = f"rare sequences drawn {pooled_c}/{K} times, posterior mass {pooled_p:.5f} (z={z:.1f})"
    return worst, why


# ----------------------------------------------------------------------------
# Coq literals (wire format of coq/model/HMM.v: primitive 63-bit integer literals only;
# Coq's decimal number notation is far too slow for thousands of 24..40-bit numbers)
# ----------------------------------------------------------------------------
def c_int(n):
    n = int(n)
    assert 0 <= n < 2 ** 62, n
    return str(n)


def dyadic(fr):
    """(neg, m, k) with fr = (-1)^neg * m / 2^k exactly; fr must be a dyadic rational"""
    fr = Fraction(fr)
    d = fr.denominator
    assert d & (d - 1) == 0, fr
    return fr < 0, abs(fr.numerator), d.bit_length() - 1


def c_dy(fr):
    neg, m, k = dyadic(fr)
    return f"(Dy {'true' if neg else 'false'} {c_int(m)} {c_int(k)})"


def c_float(x):
    """a float is a dyadic rational: exact"""
    return c_dy(Fraction(float(x)))


def round_dyadic(fr, bits, up):
    """fr > 0 rounded outward (up / down) to at most `bits` significant bits: (m, k), value m / 2^k"""
    fr = Fraction(fr)
    assert fr > 0
    e = fr.numerator.bit_length() - fr.denominator.bit_length()
    k = max(bits - e, 0)
    scaled = fr * (1 << k)
    m = math.ceil(scaled) if up else math.floor(scaled)
    return m, k


def enclosure(impl_log, bits=36):
    """(lo, hi, k): [lo / 2^k, hi / 2^k] contains exp(impl_log).  IEEE float64 exp is within 1 ulp;
    the interval is widened by 2^-40 relative and rounded outward to `bits` bits"""
    if not math.isfinite(impl_log):
        return None
    e = Fraction(math.exp(impl_log))
    if e <= 0:
        return None
    w = Fraction(1, 2 ** 40)
    lo, k1 = round_dyadic(e * (1 - w), bits, False)
    hi, k2 = round_dyadic(e * (1 + w), bits, True)
    k = max(k1, k2)
    lo, hi = lo << (k - k1), hi << (k - k2)
    if k >= 2 ** 10 or hi >= 2 ** 62:
        return None
    return lo, hi, k


def c_enc(impl_log):
    enc = enclosure(impl_log)
    if enc is None:
        return "(En 1 0 0)"      # empty interval: never within
    return f"(En {c_int(enc[0])} {c_int(enc[1])} {c_int(enc[2])})"


def clist(xs):
    return "[" + "; ".join(xs) + "]"


def c_ints(xs):
    return clist([c_int(x) for x in xs])


def c_vec(v):
    return clist([c_float(x) for x in v])


def c_mat(m):
    return clist([c_vec(r) for r in m])


def c_cfg(N, tab):
    return f"(Build_wcfg {c_int(N)} {c_vec(tab['pr'])} {c_mat(tab['tr'])} {c_mat(tab['ob'])})"


def c_key(words):
    return f"({c_int(words[0])}, {c_int(words[1])})"


def c_expg(g):
    """exp of a float32 Gumbel draw, rounded to 40 bits (the replay only judges gaps > MARGIN)"""
    m, k = round_dyadic(Fraction(math.exp(float(g))), 40, False)
    return f"(Dy false {c_int(m)} {c_int(k)})"


def main():
    jobs = json.load(sys.stdin)
    res = []
    for j in jobs:
        try:
            res.append({"malformed": run_malformed()} if j.get("malformed") else run_bundle(j))
        except Exception as e:  # the bundle is reported, never dropped
            import traceback
            res.append({"error": f"{type(e).__name__}: {e}", "trace": traceback.format_exc()[-1500:]})
    json.dump(res, sys.stdout)


if __name__ == "__main__":
    main()
