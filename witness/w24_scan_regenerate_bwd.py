"""C06: Scan accepts Regenerate, but the backward request it returns is a VectorRequest, which no
generative function's edit accepts (Scan.edit raises NotImplementedError), so the edit cannot be undone.
exit 0 = property holds, exit 1 = defect shows."""
import sys, os
os.environ.setdefault("JAX_PLATFORMS", "cpu")
import jax, jax.numpy as jnp, genjax
from genjax import Regenerate, Selection as S, Diff

@genjax.gen
def step(c, _):
    x = genjax.normal(c, 1.0) @ "x"
    return x, None

g = step.scan(n=3)
tr = g.simulate(jax.random.key(0), (0.0, None))
new, w, rd, bwd = Regenerate(S.at["x"]).edit(jax.random.key(1), tr, Diff.no_change((0.0, None)))
try:
    back, w2, _, _ = bwd.edit(jax.random.key(2), new, Diff.no_change((0.0, None)))
    ok = bool(jnp.allclose(back.get_score(), tr.get_score())) and bool(jnp.allclose(w2, -w))
    print("backward:", type(bwd).__name__, "restored" if ok else "did not restore"); sys.exit(0 if ok else 1)
except Exception as e:
    print("backward request", type(bwd).__name__, "raised", type(e).__name__); sys.exit(1)
