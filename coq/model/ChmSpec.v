(* The specification side of C17 / C33: what a choice map *means*.
   A choice map denotes a finite map from addresses to numbers,

       amap c : list comp -> option Z

   "the valid scalar stored at this address, if any".  An entry whose Mask flag is
   false is absent, exactly like an address that is not there.  `amap` is defined
   on the structure of the choice map and never calls get_submap / get_value /
   filter / Or.build; the operations on the denotations are the obvious ones on
   partial functions (`funion`, `fmask`, restriction to selected static parts).
   Definitions only; the theorems are in proofs/ChmProofs.v. *)
From Coq Require Import List Bool ZArith Arith.
Import ListNotations.
From Gen Require Import SelGen.
From Model Require Import Sel Flag Chm.
Open Scope Z_scope.

(* ---- scalar view of a leaf: the element at index list t, if t reaches a scalar and its flag holds ---- *)
Fixpoint aview (a : arr) (t : list Z) : option Z :=
  match t, a with
  | [], A0 z => Some z
  | i :: t', AN l => match nget l i with Some x => aview x t' | None => None end
  | _, _ => None
  end.
Definition sview (v : leaf) (t : list Z) : option Z :=
  match v with
  | LRaw a => aview a t
  | LMask a (FS _ b) => if b then aview a t else None
  | LMask a (FV l) =>
      match t with
      | i :: _ => match nget l i with Some true => aview a t | _ => None end
      | [] => None
      end
  end.
Definition oview (v : option leaf) (t : list Z) : option Z :=
  match v with Some l => sview l t | None => None end.

(* ---- operations on denotations ---- *)
Definition funion (x y : option Z) : option Z := match x with Some z => Some z | None => y end.   (* left-biased *)
Definition fmask (b : bool) (x : option Z) : option Z := if b then x else None.
Definition flag_true (f : flag) : bool := match f with FS _ b => b | FV _ => false end.

(* ---- addresses ---- *)
Definition is_index (k : comp) : bool := match k with CI _ => true | CS _ => false end.
Definition idxs (p : list comp) : list Z := flat_map (fun k => match k with CI i => [lidx_z i] | CS _ => [] end) p.
Definition statics (p : list comp) : list nat := flat_map (fun k => match k with CS n => [n] | CI _ => [] end) p.
(* p = (index components) ++ CS n :: rest *)
Fixpoint split_static (p : list comp) : option (list Z * nat * list comp) :=
  match p with
  | [] => None
  | CS n :: rest => Some ([], n, rest)
  | CI i :: r => match split_static r with
                 | Some (is, n, rest) => Some (lidx_z i :: is, n, rest)
                 | None => None
                 end
  end.

(* ---- the abstraction ----
   `pend` are row indices already chosen above (index components met at Static
   nodes): they address the leading axes of every leaf beneath, and the row of an
   array-shaped index level. *)
Fixpoint abs (c : chm) (pend : list Z) (p : list comp) {struct c} : option Z :=
  match c with
  | Choice v => if forallb is_index p then sview v (pend ++ idxs p) else None
  | Static m =>
      match split_static p with
      | Some (is, n, rest) =>
          (fix look (m : list (nat * chm)) : option Z :=
             match m with
             | [] => None
             | (k, c') :: r => if Nat.eqb k n then abs c' (pend ++ is) rest else look r
             end) m
      | None => None
      end
  | Indexed c' a =>
      match p with
      | CI i :: rest =>
          match a with
          | IPy k | IAr k => if Z.eqb k (lidx_z i) then abs c' pend rest else None
          | IVec l =>
              match pend with
              | [] => match find_index l (lidx_z i) 0 with          (* own index: the row it selects *)
                      | Some r => abs c' [Z.of_nat r] rest
                      | None => None
                      end
              | r :: _ => match nget l r with                        (* a row was chosen above *)
                          | Some k => if Z.eqb k (lidx_z i) then abs c' pend rest else None
                          | None => None
                          end
              end
          | IBad => None
          end
      | _ => None
      end
  | Switch _ cs =>
      (fix first (cs : list chm) : option Z :=
         match cs with
         | [] => None
         | c' :: r => funion (abs c' pend p) (first r)
         end) cs
  | Or a b => funion (abs a pend p) (abs b pend p)
  end.
Definition amap (c : chm) (p : list comp) : option Z := abs c [] p.

(* ---- the region in which the theorems are claimed ---- *)
(* vectorised maps: Static / Choice only (what Vmap / Scan traces hold) *)
Fixpoint vect (c : chm) : Prop :=
  match c with
  | Choice _ => True
  | Static m => (fix all (m : list (nat * chm)) : Prop := match m with [] => True | kv :: r => vect (snd kv) /\ all r end) m
  | _ => False
  end.
(* well-formed: dict keys are distinct; beneath an array-shaped index level the map
   is vectorised (no index level, no switch: that is where Indexed.get_inner_map's
   tree_map corrupts inner addresses); a Switch index is an in-range array index and
   every other branch is masked out; no Mask-valued addresses; a Mask's vector flag
   fits its value (Mask.__init__ checks it) *)
Definition leaf_ok (v : leaf) : Prop := match v with LMask a f => valid_init a f = true | LRaw _ => True end.
Fixpoint wf (c : chm) : Prop :=
  match c with
  | Choice v => leaf_ok v
  | Static m => NoDup (map fst m) /\
                (fix all (m : list (nat * chm)) : Prop := match m with [] => True | kv :: r => wf (snd kv) /\ all r end) m
  | Indexed c' a => wf c' /\ match a with IVec _ => vect c' | IBad => False | _ => True end
  | Switch i cs =>
      (exists k, i = SArr (Z.of_nat k) /\ (k < length cs)%nat /\
                 forall j cj, nth_error cs j = Some cj -> j <> k -> forall pend p, abs cj pend p = None) /\
      (fix all (cs : list chm) : Prop := match cs with [] => True | c' :: r => wf c' /\ all r end) cs
  | Or a b => wf a /\ wf b /\ forall pend, abs a pend [] = None /\ abs b pend [] = None
  end.

(* ---- structural presence: is there a leaf at this static address (index levels transparent) ---- *)
Fixpoint dom (c : chm) (q : list nat) {struct c} : bool :=
  match c with
  | Choice _ => match q with [] => true | _ => false end
  | Static m =>
      match q with
      | [] => false
      | n :: rest =>
          (fix look (m : list (nat * chm)) : bool :=
             match m with
             | [] => false
             | (k, c') :: r => if Nat.eqb k n then dom c' rest else look r
             end) m
      end
  | Indexed c' _ => dom c' q
  | Switch _ cs => (fix any (cs : list chm) : bool := match cs with [] => false | c' :: r => dom c' q || any r end) cs
  | Or a b => dom a q || dom b q
  end.
(* no index level / no traced switch anywhere *)
Fixpoint index_free (c : chm) : Prop :=
  match c with
  | Choice _ => True
  | Static m => (fix all (m : list (nat * chm)) : Prop := match m with [] => True | kv :: r => index_free (snd kv) /\ all r end) m
  | Switch _ cs => (fix all (cs : list chm) : Prop := match cs with [] => True | c' :: r => index_free c' /\ all r end) cs
  | Indexed _ _ | Or _ _ => False
  end.
Fixpoint switch_free (c : chm) : Prop :=
  match c with
  | Choice _ => True
  | Static m => (fix all (m : list (nat * chm)) : Prop := match m with [] => True | kv :: r => switch_free (snd kv) /\ all r end) m
  | Indexed c' _ => switch_free c'
  | Or a b => switch_free a /\ switch_free b
  | Switch _ _ => False
  end.
(* no Mask leaves: where mask(False) must give the statically empty map *)
Fixpoint plain (c : chm) : Prop :=
  match c with
  | Choice (LRaw _) => True
  | Choice (LMask _ _) => False
  | Static m => (fix all (m : list (nat * chm)) : Prop := match m with [] => True | kv :: r => plain (snd kv) /\ all r end) m
  | Indexed c' _ => plain c'
  | Or a b => plain a /\ plain b
  | Switch _ _ => False
  end.

(* lookup address from a builder address of scalar components *)
Definition comp_of_b (b : bcomp) : option comp :=
  match b with
  | BS n => Some (CS n)
  | BI (IPy z) => Some (CI (LPy z))
  | BI (IAr z) => Some (CI (LAr z))
  | _ => None
  end.

(* C33: constraints as users write them: no traced switch, distinct dict keys,
   no zero-length index arrays *)
Fixpoint tidy (c : chm) : Prop :=
  match c with
  | Choice _ => True
  | Static m => NoDup (map fst m) /\
                (fix all (m : list (nat * chm)) : Prop := match m with [] => True | kv :: r => tidy (snd kv) /\ all r end) m
  | Indexed c' a => tidy c' /\ a <> IVec []
  | Or a b => tidy a /\ tidy b
  | Switch _ _ => False
  end.
(* the choice map of a model's trace: Static / Choice / Switch (Vmap, Scan, Mask, Switch
   combinators and the static language produce nothing else), distinct dict keys *)
Fixpoint shape_ok (c : chm) : Prop :=
  match c with
  | Choice _ => True
  | Static m => NoDup (map fst m) /\
                (fix all (m : list (nat * chm)) : Prop := match m with [] => True | kv :: r => shape_ok (snd kv) /\ all r end) m
  | Switch _ cs => (fix all (cs : list chm) : Prop := match cs with [] => True | c' :: r => shape_ok c' /\ all r end) cs
  | Or a b => shape_ok a /\ shape_ok b
  | Indexed _ _ => False
  end.
