(* C05 — update installs the constraint and weighs by the score change.  Model: coq/model/GFIEdit.v.
   con c tm: the constraint holds a valid value at the address of the random choice tm;
   leafval old p: the value the old trace held at p (whatever its mask flag). *)
From Coq Require Import List ZArith Lia.
Import ListNotations.
From Gen Require Import SelGen.
From Model Require Import Key Sel GFI GFIEdit Derived.
From Proofs Require Import GFIBase GFIRef GFIWf GFIConsistent GFIProject GFISim GFIGen GFIEditProofs GFIEditChoices GFIDerived GFICombinators GFIRoundtripAll.
Open Scope Z_scope.

Theorem C05_update_arguments_and_weight : forall g k t c a tg t' w b,
  wfg g -> wft g t -> edit g k t (RUpdate c) a tg = Ok (t', w, b) ->
  wft g t' /\ t_args t' = a /\ w = t_score t' - t_score t.
Proof. intros g k t c a tg t' w b Hg Hw H. exact (edit_ok g k t (RUpdate c) a tg t' w b Hg I Hw H). Qed.
Print Assumptions C05_update_arguments_and_weight.

Theorem C05_update_choices : forall g k t c a tg t' w b,
  wfg g -> wft g t -> edit g k t (RUpdate c) a tg = Ok (t', w, b) ->
  Forall (fun tm => agrees_at c tm /\
                    (con c tm = false -> leafval (t_choices t) (tm_path tm) = Some (tm_val tm))) (t_terms t').
Proof.
  intros g k t c a tg t' w b Hg Hw H. pose proof (edit_choices g k t (RUpdate c) a tg t' w b Hg I Hw H) as Hc.
  unfold ChOk in Hc. eapply Forall_impl; [|exact Hc]. intros tm [Hi Hk]. split; [exact Hi|].
  intros Hn. apply Hk. simpl. rewrite Hn. reflexivity.
Qed.
Print Assumptions C05_update_choices.

(* "The returned backward constraint holds the previous values at the overwritten addresses": for programs without
   mask and switch the backward request is a constraint bc, and every choice of the ORIGINAL trace either is held by
   bc (with its previous value) or still has that value in the new trace — so nothing that was overwritten is lost.
   (That applying bc gives back exactly the original trace is C06_update_roundtrip.) *)
Theorem C05_backward_holds_the_previous_values : forall g k t c a tg t' w b,
  wfg g -> simple g -> wft g t -> edit g k t (RUpdate c) a tg = Ok (t', w, b) ->
  exists bc, b = RUpdate bc /\
    Forall (fun tm => agrees_at bc tm /\
                      (con bc tm = false -> leafval (t_choices t') (tm_path tm) = Some (tm_val tm))) (t_terms t).
Proof.
  intros g k t c a tg t' w b Hg Hs Hw H.
  destruct (update_roundtrip g k t c a tg t' w b Hg Hs Hw H) as [bc [Hb Hr]]. exists bc. split; [exact Hb|].
  destruct (Hr k tg) as [b' Hback]. subst b.
  destruct (edit_ok g k t (RUpdate c) a tg t' w (RUpdate bc) Hg I Hw H) as [Hw' _].
  pose proof (edit_choices g k t' (RUpdate bc) (t_args t) tg t (- w) b' Hg I Hw' Hback) as Hc.
  unfold ChOk in Hc. eapply Forall_impl; [|exact Hc]. intros tm [Hi Hk]. split; [exact Hi|].
  intros Hn. apply Hk. simpl. rewrite Hn. reflexivity.
Qed.
Print Assumptions C05_backward_holds_the_previous_values.

(* sequences of updates: the trace stays an execution of the program and the weights telescope *)
Fixpoint run_updates (g : gf) (k : key) (t : trace) (us : list (chm * list val * list tagt)) : res (trace * Z) :=
  match us with
  | [] => Ok (t, 0)
  | (c, a, tg) :: r => match edit g k t (RUpdate c) a tg with
                       | Ok (t', w, _) => match run_updates g k t' r with Ok (tf, ws) => Ok (tf, w + ws) | Err e => Err e end
                       | Err e => Err e
                       end
  end.
Theorem C05_update_sequences : forall g k us t tf ws,
  wfg g -> wft g t -> run_updates g k t us = Ok (tf, ws) -> wft g tf /\ ws = t_score tf - t_score t.
Proof.
  intros g k us. induction us as [|[[c a] tg] r IH]; intros t tf ws Hg Hw H; simpl in H.
  - inversion H; subst. split; [exact Hw | lia].
  - destruct (edit g k t (RUpdate c) a tg) as [[[t' w] b]|] eqn:E; [|discriminate].
    destruct (run_updates g k t' r) as [[tf' ws']|] eqn:E2; [|discriminate]. inversion H; subst.
    destruct (edit_ok g k t (RUpdate c) a tg t' w b Hg I Hw E) as [Hw' [_ Hwt]].
    destruct (IH t' tf ws' Hg Hw' E2) as [H1 H2]. split; [exact H1 | lia].
Qed.
Print Assumptions C05_update_sequences.

(* ---- non-vacuity: concrete non-trivial programs and traces meeting the hypotheses above (proofs/GFIWitness.v) ---- *)
From Proofs Require Import GFIWitness.
Example C05_hypotheses_met : wfg ex_g /\ wft ex_g ex_t /\
  exists t' w b, edit ex_g ex_k2 ex_t (RUpdate ex_c) ex_a' ex_tg = Ok (t', w, b) /\ t' <> ex_t /\ w <> 0.
Proof. exact (conj ex_wfg (conj ex_wft ex_update_succeeds)). Qed.
Print Assumptions C05_hypotheses_met.
