"""C30 — VI objective gradient estimators (ELBO, PWake; IWELBO/QWake raise).  Engine C-adev."""
import itertools
import math
from fractions import Fraction as Fr

from . import core, adev
from .adev import fr_json, fr_of

HEADER = ("From Coq Require Import List ZArith QArith.\nFrom Model Require Import Adev AdevVI.\nOpen Scope Q_scope.")


# ---- pairs ------------------------------------------------------------------------------------
# a pair = {"params": [...], "guide": [probexpr per latent], "lat": [probexpr per latent],
#           "obs": [[probexpr, bool], ...]}; expressions use ["v", i] for parameter i and
#           ["if", blvl, a, b] on the latents bound so far (levels)
def gen_pair(rng, nlat):
    npar = rng.randint(2, 3)
    vals = [rng.choice(adev.PROB_VALUES) for _ in range(npar)]
    def pexpr(nb):
        c = rng.random()
        if c < 0.45 or nb == 0:
            return rng.choice([["v", rng.randrange(npar)], ["sub", ["c", 1, 1], ["v", rng.randrange(npar)]],
                               ["mul", ["v", rng.randrange(npar)], ["v", rng.randrange(npar)]], ["c", rng.choice([1, 3, 5, 7]), 8]])
        a = ["v", rng.randrange(npar)] if rng.random() < 0.6 else ["c", rng.choice([1, 3, 5, 7]), 8]
        b = ["v", rng.randrange(npar)] if rng.random() < 0.4 else ["c", rng.choice([1, 2, 3]), 4]
        return ["if", rng.randrange(nb), a, b]
    guide = [pexpr(i) for i in range(nlat)]
    lat = [pexpr(i) for i in range(nlat)]
    obs = [[pexpr(nlat), rng.random() < 0.5] for _ in range(rng.randint(1, 2))]
    # a latent the guide does NOT propose and nothing depends on ("z", a leaf of the model): Importance draws it from the
    # model and its density is no part of the importance weight, so the ELBO and its gradient estimate are those of the
    # pair without it — for every key, whatever value is drawn (used by the ELBO runs of every second pair)
    decoy = pexpr(nlat)
    return {"params": [fr_json(v) for v in vals], "guide": guide, "lat": lat, "obs": obs, "decoy": decoy}


def realise_pair(pair, guide_prim="flip_enum", decoy=False):
    import jax.numpy as jnp
    import genjax
    from genjax import ChoiceMapBuilder as C

    def ev(e, params, benv):
        t = e[0]
        if t == "c": return jnp.float32(e[1] / e[2])
        if t == "v": return params[e[1]]
        if t == "sub": return ev(e[1], params, benv) - ev(e[2], params, benv)
        if t == "mul": return ev(e[1], params, benv) * ev(e[2], params, benv)
        if t == "if": return jnp.where(benv[e[1]], ev(e[2], params, benv), ev(e[3], params, benv))
        raise ValueError(e)

    @genjax.gen
    def model(*params):
        benv = []
        for i, pe in enumerate(pair["lat"]):
            benv.append(genjax.flip(ev(pe, params, benv)) @ f"x{i}")
        if decoy and pair.get("decoy") is not None:
            _ = genjax.flip(ev(pair["decoy"], params, benv)) @ "z"
        for j, (oe, _) in enumerate(pair["obs"]):
            _ = genjax.flip(ev(oe, params, benv)) @ f"y{j}"

    gdist = getattr(genjax.vi, guide_prim)

    @genjax.marginal()
    @genjax.gen
    def guide(target):
        params = target.args
        benv = []
        for i, qe in enumerate(pair["guide"]):
            benv.append(gdist(ev(qe, params, benv)) @ f"x{i}")

    def make_target(*params):
        chm = C["y0"].set(bool(pair["obs"][0][1]))
        for j in range(1, len(pair["obs"])):
            chm = chm | C[f"y{j}"].set(bool(pair["obs"][j][1]))
        return genjax.Target(model, params, chm)

    return guide, make_target


def run_vi(pair, which, seed, guide_prim="flip_enum"):
    import jax
    import genjax
    guide, mk = realise_pair(pair, guide_prim, decoy=(which == "elbo" and seed % 2 == 1))
    params = tuple(float(fr_of(v)) for v in pair["params"])
    try:
        if which == "elbo": f = genjax.vi.ELBO(guide, mk)
        elif which == "pwake": f = genjax.vi.PWake(guide, mk)
        elif which == "iwelbo": f = genjax.vi.IWELBO(guide, mk, 2)
        elif which == "qwake": f = genjax.vi.QWake(guide, guide, mk)
        else: raise ValueError(which)
        g = f(jax.random.key(seed), params)
        return [float(x) for x in g]
    except (TypeError, ValueError, NotImplementedError, IndexError, AssertionError):
        return None


def work(job):
    import warnings
    warnings.filterwarnings("ignore")
    kind = job[0]
    if kind == "vi":
        _, pair, which, seed, gp = job
        return run_vi(pair, which, seed, gp), adev.draws_for(seed)
    if kind == "normal":
        _, npair, seed = job
        return run_normal(npair, seed), adev.draws_for(seed)
    raise ValueError(kind)


def run_jobs(jobs, workers=8):
    import multiprocessing as mp, os
    from concurrent.futures import ProcessPoolExecutor
    if not jobs:
        return []
    os.environ["XLA_FLAGS"] = (os.environ.get("XLA_FLAGS", "") + " --xla_cpu_multi_thread_eigen=false intra_op_parallelism_threads=1").strip()
    with ProcessPoolExecutor(max_workers=min(workers, len(jobs)), mp_context=mp.get_context("spawn")) as ex:
        return list(ex.map(work, jobs, chunksize=max(1, len(jobs) // (workers * 3))))


# ---- Coq literals -------------------------------------------------------------------------------
def c_pexpr(e, npar, nb):
    """parameter i is real variable npar-1-i; latent level l is Boolean variable nb-1-l"""
    return adev.c_expr(e, npar, nb)


def c_pair(pair, prim="PFlipEnum"):
    npar = len(pair["params"])
    g = "[" + "; ".join(f"({prim}, {c_pexpr(e, npar, i)})" for i, e in enumerate(pair["guide"])) + "]"
    lat = "[" + "; ".join(c_pexpr(e, npar, i) for i, e in enumerate(pair["lat"])) + "]"
    n = len(pair["lat"])
    obs = "[" + "; ".join(f"({c_pexpr(e, npar, n)}, {'true' if o else 'false'})" for e, o in pair["obs"]) + "]"
    return g, lat, obs


def c_term(pair, which, out, ds):
    g, lat, obs = c_pair(pair)
    xs = adev.c_qlist([fr_of(v) for v in pair["params"]])
    prog = {"elbo": f"(elbo_prog {g} {lat} {obs})", "pwake": f"(pwake_prog {g} {lat} {obs})"}[which]
    return f"CGrad {prog} {xs} {adev.c_draws(ds)} {adev.c_opt(out, adev.c_qlist)}"


# ---- the direct oracle: closed-form objective, float64, central differences -------------------------
def f_expr(e, params, benv):
    t = e[0]
    if t == "c": return e[1] / e[2]
    if t == "v": return params[e[1]]
    if t == "sub": return f_expr(e[1], params, benv) - f_expr(e[2], params, benv)
    if t == "mul": return f_expr(e[1], params, benv) * f_expr(e[2], params, benv)
    if t == "if": return f_expr(e[2], params, benv) if benv[e[1]] else f_expr(e[3], params, benv)
    raise ValueError(e)


def objective(pair, which, params):
    """-ELBO = -sum_x q(x)(log p(x,obs) - log q(x));  PWake: -sum_x q(x) log p(x,obs)"""
    n = len(pair["lat"])
    tot = 0.0
    for xs in itertools.product([True, False], repeat=n):
        q = 1.0; lq = 0.0; lp = 0.0
        benv = []
        for i in range(n):
            qi = f_expr(pair["guide"][i], params, benv)
            pi = f_expr(pair["lat"][i], params, benv)
            q *= qi if xs[i] else 1 - qi
            lq += math.log(qi if xs[i] else 1 - qi)
            lp += math.log(pi if xs[i] else 1 - pi)
            benv = benv + [xs[i]]
        for oe, o in pair["obs"]:
            po = f_expr(oe, params, benv)
            lp += math.log(po if o else 1 - po)
        tot += q * ((lp - lq) if which == "elbo" else lp)
    return -tot


def oracle_grad(pair, which, out):
    if out is None:
        return f"{which} gradient estimator raised"
    params = [float(fr_of(v)) for v in pair["params"]]
    h = 1e-6
    want = []
    for i in range(len(params)):
        up = params[:]; up[i] += h
        dn = params[:]; dn[i] -= h
        want.append((objective(pair, which, up) - objective(pair, which, dn)) / (2 * h))
    sc = 1 + sum(abs(w) for w in want)
    for i, (o, w) in enumerate(zip(out, want)):
        if abs(o - w) > 1e-4 * sc:
            return f"d/dparam{i}: estimator {o}, gradient of the closed-form objective {w} (all: {out} vs {want})"
    return None


# ---- a normal latent with a normal observation and a normal_reparam guide ---------------------------
# npair = {"params": [...], "m0": e, "s0": e, "s1": e, "v0": [num, den], "m": e, "s": e}; e over parameters only
def gen_npair(rng):
    npar = rng.randint(2, 3)
    kinds = ["r", "s"] + [rng.choice("rs") for _ in range(npar - 2)]
    vals = [rng.choice(adev.REAL_VALUES) if k == "r" else rng.choice(adev.SCALE_VALUES) for k in kinds]
    R = [i for i, k in enumerate(kinds) if k == "r"]
    S = [i for i, k in enumerate(kinds) if k == "s"]
    def re():
        c = rng.random()
        if c < 0.5: return ["v", rng.choice(R)]
        if c < 0.7: return ["c", rng.choice([-2, -1, 0, 1, 3]), rng.choice([1, 2])]
        return ["add", ["v", rng.choice(R)], ["c", rng.choice([-1, 1]), 2]]
    def se():
        c = rng.random()
        if c < 0.5: return ["v", rng.choice(S)]
        if c < 0.8: return ["c", rng.choice([1, 3, 2, 5]), rng.choice([1, 2])]
        return ["mul", ["v", rng.choice(S)], ["c", rng.choice([1, 3]), 2]]
    return {"params": [fr_json(v) for v in vals], "m0": re(), "s0": se(), "s1": se(),
            "v0": fr_json(rng.choice(adev.REAL_VALUES)), "m": ["v", 0] if rng.random() < 0.6 else re(), "s": ["v", 1] if rng.random() < 0.6 else se()}


def run_normal(npair, seed):
    import jax, jax.numpy as jnp
    import genjax
    from genjax import ChoiceMapBuilder as C

    def ev(e, params):
        t = e[0]
        if t == "c": return jnp.float32(e[1] / e[2])
        if t == "v": return params[e[1]]
        if t == "add": return ev(e[1], params) + ev(e[2], params)
        if t == "mul": return ev(e[1], params) * ev(e[2], params)
        raise ValueError(e)

    @genjax.gen
    def model(*params):
        mu = genjax.normal(ev(npair["m0"], params), ev(npair["s0"], params)) @ "mu"
        _ = genjax.normal(mu, ev(npair["s1"], params)) @ "v"

    @genjax.marginal()
    @genjax.gen
    def guide(target):
        params = target.args
        _ = genjax.vi.normal_reparam(ev(npair["m"], params), ev(npair["s"], params)) @ "mu"

    v0 = float(fr_of(npair["v0"]))
    mk = lambda *params: genjax.Target(model, params, C["v"].set(v0))
    params = tuple(float(fr_of(v)) for v in npair["params"])
    try:
        g = genjax.vi.ELBO(guide, mk)(jax.random.key(seed), params)
        return [float(x) for x in g]
    except (TypeError, ValueError, NotImplementedError, IndexError, AssertionError):
        return None


def c_nterm(npair, out, ds):
    npar = len(npair["params"])
    E = lambda k: adev.c_expr(npair[k], npar, 0)
    v0 = f"(EC {adev.cq(fr_of(npair['v0']))})"
    prog = f"(elbo_normal_prog {E('m0')} {E('s0')} {E('s1')} {v0} {E('m')} {E('s')})"
    xs = adev.c_qlist([fr_of(v) for v in npair["params"]])
    return f"CGrad {prog} {xs} {adev.c_draws(ds)} {adev.c_opt(out, adev.c_qlist)}"


def n_expr(e, params):
    t = e[0]
    if t == "c": return e[1] / e[2]
    if t == "v": return params[e[1]]
    if t == "add": return n_expr(e[1], params) + n_expr(e[2], params)
    if t == "mul": return n_expr(e[1], params) * n_expr(e[2], params)
    raise ValueError(e)


def n_integrand(npair, params, eps):
    ln = lambda x, mu, sg: -0.5 * ((x - mu) / sg) ** 2 - math.log(sg) - 0.5 * math.log(2 * math.pi)
    m, s = n_expr(npair["m"], params), n_expr(npair["s"], params)
    x = m + s * eps
    v0 = float(fr_of(npair["v0"]))
    lp = ln(x, n_expr(npair["m0"], params), n_expr(npair["s0"], params)) + ln(v0, x, n_expr(npair["s1"], params))
    return -(lp - ln(x, m, s))


def oracle_normal(npair, out, ds):
    """pathwise: the estimate is the gradient of the integrand along x = m + s*eps for the eps drawn"""
    if out is None:
        return "ELBO gradient estimator raised"
    params = [float(fr_of(v)) for v in npair["params"]]
    eps = ds[0][1]
    h = 1e-6
    want = []
    for i in range(len(params)):
        up = params[:]; up[i] += h
        dn = params[:]; dn[i] -= h
        want.append((n_integrand(npair, up, eps) - n_integrand(npair, dn, eps)) / (2 * h))
    sc = 1 + sum(abs(w) for w in want)
    for i, (o, w) in enumerate(zip(out, want)):
        if abs(o - w) > 2e-4 * sc:
            return f"d/dparam{i}: estimator {o}, pathwise gradient of -(log p - log q) at eps={eps}: {w} (all: {out} vs {want})"
    return None


# ---- two reparameterised sites (outside the region: K44) ----------------------------------------------
def run_two_normal(seed):
    """guide with two normal_reparam sites; returns the two latent values it proposes for a fixed key by
    reading them off the ELBO gradient w.r.t. additive shifts (d loss / d shift_i is linear in x_i)"""
    import jax, jax.numpy as jnp
    import genjax
    from genjax import ChoiceMapBuilder as C

    @genjax.gen
    def model(a, b):
        x = genjax.normal(0.0, 1.0) @ "x"
        y = genjax.normal(0.0, 1.0) @ "y"
        _ = genjax.normal(x - y, 1.0) @ "v"

    @genjax.marginal()
    @genjax.gen
    def guide(target):
        a, b = target.args
        _ = genjax.vi.normal_reparam(a, 1.0) @ "x"
        _ = genjax.vi.normal_reparam(b, 1.0) @ "y"

    mk = lambda a, b: genjax.Target(model, (a, b), C["v"].set(0.0))
    try:
        g = genjax.vi.ELBO(guide, mk)(jax.random.key(seed), (0.0, 0.0))
        return [float(x) for x in g]
    except (TypeError, ValueError, NotImplementedError, IndexError, AssertionError):
        return None


def oracle_two_normal(out, ds):
    """independent draws: x = eps_0, y = eps_1; -ELBO integrand = -(log p - log q);
    d/da = x + (x - y) , d/db = y - (x - y)  (q's entropy terms cancel pathwise)"""
    if out is None:
        return "raised"
    e0, e1 = ds[0][1], ds[1][1]
    want = [e0 + (e0 - e1), e1 - (e0 - e1)]
    if any(abs(o - w) > 1e-4 * (1 + abs(w)) for o, w in zip(out, want)):
        return f"gradient {out}; with independent draws eps=({e0},{e1}) the pathwise gradient is {want}"
    return None


def work2(job):
    import warnings
    warnings.filterwarnings("ignore")
    if job[0] == "two":
        return run_two_normal(job[1]), adev.draws_for(job[1])
    return work(job)


def run_jobs2(jobs, workers=8):
    import multiprocessing as mp, os
    from concurrent.futures import ProcessPoolExecutor
    os.environ["XLA_FLAGS"] = (os.environ.get("XLA_FLAGS", "") + " --xla_cpu_multi_thread_eigen=false intra_op_parallelism_threads=1").strip()
    with ProcessPoolExecutor(max_workers=min(workers, len(jobs)), mp_context=mp.get_context("spawn")) as ex:
        return list(ex.map(work2, jobs, chunksize=max(1, len(jobs) // (workers * 3))))


def run(ctx):
    import time
    t0 = time.time()
    ctx.proofs()
    ctx.log(f"proofs built and checked in {time.time() - t0:.0f}s")
    import genjax
    ctx.log(f"implementation under test: {genjax.__file__}")
    rng = ctx.rng
    pairs = [gen_pair(rng, 1 if i % 3 == 0 else (2 if i % 7 else 3)) for i in range(ctx.n(12, 150))]
    npairs = [gen_npair(rng) for _ in range(ctx.n(9, 120))]
    jobs, meta = [], []
    for p in pairs:
        for which in ("elbo", "pwake"):
            seed = rng.randrange(1 << 20)
            jobs.append(("vi", p, which, seed, "flip_enum")); meta.append(("enum", p, which, seed))
    for p in npairs:
        seed = rng.randrange(1 << 20)
        jobs.append(("normal", p, seed)); meta.append(("normal", p, "elbo", seed))
    nmodel = len(jobs)
    for which in ("iwelbo", "qwake"):
        jobs.append(("vi", pairs[0], which, 0, "flip_enum")); meta.append(("raises", pairs[0], which, 0))
    jobs.append(("two", 1)); meta.append(("two", None, "elbo", 1))
    t1 = time.time()
    res = run_jobs2(jobs)
    ctx.log(f"{len(jobs)} implementation runs in {time.time() - t1:.0f}s")
    terms = []
    for (kind, p, which, seed), (out, ds) in zip(meta[:nmodel], res[:nmodel]):
        terms.append(c_term(p, which, out, ds) if kind == "enum" else c_nterm(p, out, ds))
    t1 = time.time()
    mism, errs = core.coq_mismatches("C30", HEADER, terms, "acase", fn="amismatches", shard=40)
    ctx.log(f"{len(terms)} cases evaluated in Coq in {time.time() - t1:.0f}s")
    for e in errs[:2]:
        ctx.fail("correspondence", "C-adev (VI) case file did not evaluate: " + e)
    for i in mism[:4]:
        kind, p, which, seed = meta[i]
        ctx.fail("correspondence", f"model coq/model/AdevVI.v and vi.{which.upper() if which != 'pwake' else 'PWake'} disagree on {p} seed {seed}: implementation gives {res[i][0]}",
                 case={"kind": kind, "pair": p, "which": which, "seed": seed})
    nbad = 0
    for (kind, p, which, seed), (out, ds) in zip(meta, res):
        if kind == "enum":
            why = oracle_grad(p, which, out)
        elif kind == "normal":
            why = oracle_normal(p, out, ds)
        elif kind == "raises":
            if out is not None:
                ctx.log(f"note: vi.{which} no longer raises on an enumerating guide (returned {out}); K46/K47 may be repaired")
            continue
        else:
            why = oracle_two_normal(out, ds)
            if why:
                ctx.fail("oracle", "ELBO with two reparameterised guide sites: " + why, case={"kind": "two", "seed": seed}, signature="adev-tailcall-key-reuse")
            continue
        if why:
            nbad += 1
            if nbad <= 3:
                ctx.fail("oracle", f"vi.{which} on {p} seed {seed}: {why}", case={"kind": kind, "pair": p, "which": which, "seed": seed})
    ctx.cov["evaluations"] = len(jobs)
    ctx.cov["traces_validated_against_impl"] = nmodel - len(mism)
    ctx.cov["distinct_nontrivial"] = len({repr((p, w)) for k, p, w, s in meta[:nmodel]})
    ctx.cov["by_kind"] = {"enumerable pairs": len(pairs), "latents": {str(n): sum(1 for p in pairs if len(p["lat"]) == n) for n in (1, 2, 3)},
                          "objectives": {"elbo (flip_enum guide)": len(pairs), "pwake (flip_enum guide)": len(pairs), "elbo (normal_reparam guide)": len(npairs)},
                          "outside": {"iwelbo": 1, "qwake": 1, "two reparameterised sites": 1}}
    ctx.cov["rule"] = ("model/guide pairs: 1-3 latent flips whose probabilities are expressions (v, 1-v, v*v', constants, jnp.where on earlier latents) of 2-3 "
                       "dyadic parameters, 1-2 observed flips, guide = vi.flip_enum per latent; genjax.vi.ELBO / PWake gradient at a fixed key vs the model's "
                       "run_grad of elbo_prog / pwake_prog (log = fixed-point qlog, 1e-15) within 2e-5*(1+|loss|+sum|grad|); normal latent + normal observation "
                       "with vi.normal_reparam guide vs elbo_normal_prog with the eps recomputed from the key; oracle (no model): closed-form objective by "
                       "explicit enumeration in float64, central differences (enumerable) and the pathwise gradient of the integrand at the drawn eps (normal); "
                       "every pair is non-trivial (>= 1 latent, >= 1 observation)")
    ctx.cov["tolerance"] = "2e-5 relative (Coq comparison); 1e-4 (enumerable) / 2e-4 (normal) relative for the float64 finite-difference oracle"
    ctx.cov["genjax_file"] = genjax.__file__
    ctx.add_samples([{"pair": meta[i][1], "objective": meta[i][2], "impl_grad": res[i][0]} for i in (0, nmodel // 2, nmodel - 1)])


def replay(case):
    kind = case["kind"]
    if kind == "two":
        out = run_two_normal(case["seed"])
        why = oracle_two_normal(out, adev.draws_for(case["seed"]))
    elif kind == "normal":
        out = run_normal(case["pair"], case["seed"])
        why = oracle_normal(case["pair"], out, adev.draws_for(case["seed"]))
    else:
        out = run_vi(case["pair"], case["which"], case["seed"])
        why = oracle_grad(case["pair"], case["which"], out)
    print(f"{case.get('which', 'elbo')} {case.get('pair')} seed {case['seed']}: implementation {out}: {why or 'ok'}")
    return why is None
