(* Model of genjax/_src/inference/requests/rejuvenate.py: Rejuvenate.edit, for a
   flat static model p and a flat static proposal q (coq/model/FlatQ.v).
   No proofs in this file. *)
From Coq Require Import List Bool ZArith NArith QArith.
Import ListNotations.
From Model Require Import Key FlatQ.
Open Scope Q_scope.

(* GenerativeFunction.propose: simulate, return (choices, score) *)
Definition propose (q : prog) (k : key) (args : list Q) : res (chm * Q) :=
  do t <- simulate q k args; Ok (choices t, score t).

(* Rejuvenate.edit(key, tr, argdiffs) with unchanged arguments:
     chm = tr.get_choices(); fwd_args = argument_mapping(chm)
     key, sub_key = split(key)                      (= fold_in key 0, fold_in key 1)
     proposed, fwd_score, _ = proposal.propose(sub_key, fwd_args)      (propose = simulate; choices, score)
     new_tr, w, retdiff, bwd = Update(proposed).edit(key, tr, argdiffs)
     bwd_args = argument_mapping(new_tr.get_choices())          <- the NEW trace
     bwd_score, _ = proposal.assess(bwd.constraint, bwd_args)
     final_weight = w + bwd_score - fwd_score
   Returns the new trace, the weight and the backward constraint (the discard).
   `rejuvenate_from` is everything after `propose`, for the proposal's trace pt. *)
Definition rejuvenate_from (p q : prog) (amap : chm -> list Q) (pt : strace) (t : strace)
  : res (strace * Q * chm) :=
  let proposed := choices pt in
  let fwd_score := score pt in
  do u <- update p t proposed;
  let '(new_t, w, bwd) := u in
  let bwd_args := amap (choices new_t) in
  do bwd_score <- assess q bwd bwd_args;
  Ok (new_t, w + bwd_score - fwd_score, bwd).
Definition rejuvenate (p q : prog) (amap : chm -> list Q) (k : key) (t : strace)
  : res (strace * Q * chm) :=
  let fwd_args := amap (choices t) in
  let sub_key := fold_in k 1 in
  do pt <- simulate q sub_key fwd_args;
  rejuvenate_from p q amap pt t.

(* Rejuvenate.edit(key, tr, argdiffs) with NEW arguments (argdiffs carry other primals): the inner Update is applied
   with the new arguments, so the new trace holds them and every site is re-scored under them; the previous trace's
   stored scores are the "old" side of the weight.  update_args p t (t_args t) = update p t. *)
Definition update_args (p : prog) (t : strace) (args : list Q) (c : chm) : res (strace * Q * chm) :=
  if nodupb (addrs p) then
    do x <- upd_sites p (t_subs t) c args;
    let '(subs, w, bwd) := x in
    Ok ({| t_args := args; t_subs := subs |}, w, bwd)
  else Err EAddressReuse.
Definition rejuvenate_args (p q : prog) (amap : chm -> list Q) (k : key) (t : strace) (args : list Q)
  : res (strace * Q * chm) :=
  let fwd_args := amap (choices t) in
  do pt <- simulate q (fold_in k 1) fwd_args;
  do u <- update_args p t args (choices pt);
  let '(new_t, w, bwd) := u in
  do bwd_score <- assess q bwd (amap (choices new_t));
  Ok (new_t, w + bwd_score - score pt, bwd).

(* the defect repaired by 155c8d3 (finding F07), kept as a definition so that the proofs can
   show the clause "arguments from the new trace" is not vacuous: backward arguments computed
   from the discarded values *)
Definition rejuvenate_bwd_args_from_discard (p q : prog) (amap : chm -> list Q) (k : key) (t : strace)
  : res (strace * Q * chm) :=
  let x := choices t in
  do pr <- propose q (fold_in k 1) (amap x);
  let '(proposed, fwd_score) := pr in
  do u <- update p t proposed;
  let '(new_t, w, bwd) := u in
  do bwd_score <- assess q bwd (amap bwd);
  Ok (new_t, w + bwd_score - fwd_score, bwd).

(* ---------------- correspondence cases ---------------- *)
(* argument_mapping written as polynomials over the model's site values (site order) *)
Definition amap_of (p : list psite) (es : list pexpr) : chm -> list Q :=
  fun x =>
    let env := map (fun s => match get x (ps_addr s) with Some v => v | None => 0 end) p in
    map (peval env) es.

Inductive rwant :=
| ROk (x0 x1 : chm) (w : Q) (bwd : chm)     (* simulated choices, new choices, weight, discard *)
| RErr (e : err).
Inductive rcase :=
| RCase (p q : list psite) (margs nargs : list Q) (am : list pexpr) (k0 k1 : key) (want : rwant).   (* nargs: the arguments of the edit *)

Definition run_rcase (p q : list psite) (margs nargs : list Q) (am : list pexpr) (k0 k1 : key)
  : res (chm * chm * Q * chm) :=
  do t <- simulate (prog_of p) k0 margs;
  do r <- rejuvenate_args (prog_of p) (prog_of q) (amap_of p am) k1 t nargs;
  let '(nt, w, bwd) := r in
  Ok (choices t, choices nt, w, bwd).

Definition rcase_ok (c : rcase) : bool :=
  match c with
  | RCase p q margs nargs am k0 k1 want =>
      match run_rcase p q margs nargs am k0 k1, want with
      | Ok (x0, x1, w, bwd), ROk x0' x1' w' bwd' =>
          chm_eqb x0 x0' && chm_eqb x1 x1' && qeqb w w' && chm_eqb bwd bwd'
      | Err e, RErr e' => err_eqb e e'
      | _, _ => false
      end
  end.
(* fallback used only when the check above fails: the same comparison with the proposal's draw
   READ from the implementation (the new values at q's addresses) instead of predicted from the
   key; tells a changed key derivation from a changed weight *)
Definition run_rcase_given (p q : list psite) (margs nargs : list Q) (am : list pexpr) (x0 x1 : chm)
  : res (chm * Q * chm) :=
  if negb (nodupb (addrs (prog_of p))) then Err EAddressReuse else
  let t := trace_at (prog_of p) margs (map snd x0) in
  let vals := map (fun s => match get x1 (ps_addr s) with Some v => v | None => 0 end) q in
  if negb (nodupb (addrs (prog_of q))) then Err EAddressReuse else
  let pt := trace_at (prog_of q) (amap_of p am (choices t)) vals in
  do u <- update_args (prog_of p) t nargs (choices pt);
  let '(nt, w0, bwd) := u in
  do bwd_score <- assess (prog_of q) bwd (amap_of p am (choices nt));
  Ok (choices nt, w0 + bwd_score - score pt, bwd).
Definition rcase_ok_given (c : rcase) : bool :=
  match c with
  | RCase p q margs nargs am k0 k1 want =>
      match want with
      | ROk x0 x1 w bwd =>
          match run_rcase_given p q margs nargs am x0 x1 with
          | Ok (x1', w', bwd') => chm_eqb x1' x1 && qeqb w' w && chm_eqb bwd' bwd
          | Err _ => false
          end
      | RErr e => rcase_ok c
      end
  end.
Fixpoint rmismatches_given_from (n : nat) (cs : list rcase) : list nat :=
  match cs with
  | [] => []
  | c :: r => if rcase_ok_given c then rmismatches_given_from (S n) r else n :: rmismatches_given_from (S n) r
  end.
Definition rmismatches_given := rmismatches_given_from 0.

Fixpoint rmismatches_from (n : nat) (cs : list rcase) : list nat :=
  match cs with
  | [] => []
  | c :: r => if rcase_ok c then rmismatches_from (S n) r else n :: rmismatches_from (S n) r
  end.
Definition rmismatches := rmismatches_from 0.
