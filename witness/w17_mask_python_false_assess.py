"""C01/C14: a masked static function called with the *Python* flag False yields a trace with empty choices and
score 0, but assess on the trace's own choices and arguments raises MissingAddress (with an array flag the
masked leaves stay in the choice map and assess returns (0, invalid mask)).
exit 0 = property holds, exit 1 = defect shows."""
import sys, os
os.environ.setdefault("JAX_PLATFORMS", "cpu")
import jax, jax.numpy as jnp, genjax

@genjax.gen
def f(x):
    return genjax.normal(x, 1.0) @ "x"

m = f.mask()
tr = m.simulate(jax.random.key(0), (False, 1.0))
try:
    s, r = m.assess(tr.get_choices(), tr.get_args())
    ok = float(s) == float(tr.get_score())
    print("assess ->", s, "OK" if ok else "WRONG"); sys.exit(0 if ok else 1)
except Exception as e:
    print("assess raised", type(e).__name__, e); sys.exit(1)
