(* C14 — mask: a true flag is transparent and a false flag is inert. *)
From Coq Require Import List ZArith.
Import ListNotations.
From Gen Require Import SelGen.
From Model Require Import Key Sel GFI GFIEdit Derived.
From Proofs Require Import GFIBase GFIRef GFIWf GFIConsistent GFIProject GFISim GFIGen GFIEditProofs GFIEditChoices GFIDerived GFICombinators.
Open Scope Z_scope.

Theorem C14_true_flag_is_transparent : forall g k a,
  simulate (GMask g) k (VB true :: a) =
    match simulate g k a with Ok t' => Ok (TMask t' true (VB true :: a)) | Err e => Err e end /\
  (forall c, generate (GMask g) k c (VB true :: a) =
    match generate g k c a with Ok x => Ok (TMask (fst x) true (VB true :: a), snd x) | Err e => Err e end) /\
  (forall c, assess (GMask g) c (VB true :: a) =
    match assess g c a with Ok x => Ok (fst x, mbuild true (snd x)) | Err e => Err e end) /\
  (forall t', t_score (TMask t' true (VB true :: a)) = t_score t' /\
              t_choices (TMask t' true (VB true :: a)) = t_choices t' /\
              t_terms (TMask t' true (VB true :: a)) = t_terms t' /\
              t_retval (TMask t' true (VB true :: a)) = mbuild true (t_retval t')).
Proof. exact mask_true_transparent. Qed.
Print Assumptions C14_true_flag_is_transparent.

Theorem C14_false_flag_is_inert : forall g t' a,
  let t := TMask t' false (VB false :: a) in
  t_score t = 0 /\ t_terms t = [] /\ (forall p, constrained (t_choices t) p = false) /\
  (exists v, t_retval t = VM false v) /\
  (forall k c x, generate (GMask g) k c (VB false :: a) = Ok x -> snd x = 0).
Proof. exact mask_false_inert. Qed.
Print Assumptions C14_false_flag_is_inert.

Theorem C14_flag_flip_weight_is_score_change : forall g k t c a tg t' w b,
  wfg g -> wft (GMask g) t -> edit (GMask g) k t (RUpdate c) a tg = Ok (t', w, b) -> w = t_score t' - t_score t.
Proof. exact mask_flip_weight. Qed.
Print Assumptions C14_flag_flip_weight_is_score_change.

(* ---- non-vacuity: concrete non-trivial programs and traces meeting the hypotheses above (proofs/GFIWitness.v) ---- *)
From Proofs Require Import GFIWitness.
Example C14_hypotheses_met : wft ex_mask (tr_of ex_mask ex_mask_a) /\ length (t_choices (tr_of ex_mask ex_mask_a)) = 1%nat.
Proof. exact ex_mask_wft. Qed.
Print Assumptions C14_hypotheses_met.
