"""candidate-defect witness (C33): a constraint holding a traced switch is reported as invalid although every
address is traceable: filtering leaves Switch(idx, [Static({}), ...]) whose static_is_empty() is False.
exit 1 if the defect is present."""
import sys, jax.numpy as jnp, genjax
from genjax import ChoiceMap, ChoiceMapBuilder as C
@genjax.gen
def model(x):
    return genjax.normal(x, 1.0) @ "a"
chm = ChoiceMap.switch(jnp.array(0), [C["a"].set(1.0), C["a"].set(2.0)])
r = chm.invalid_subset(model, (0.0,))
print("FAIL" if r is not None else "OK", r)
sys.exit(1 if r is not None else 0)
