(* C36 — the stateful interpreter is transparent for unhandled primitives.
   Model: coq/model/Jaxpr.v (jaxprs, genjax's Environment, ordinary evaluation = jax.core.eval_jaxpr),
   coq/model/Stateful.v (stateful.py: eval_jaxpr_stateful), coq/model/JaxPrims.v (the concrete
   primitives, among them genjax's InitialStylePrimitive).  The first theorem holds for EVERY jaxpr and
   EVERY primitive semantics, so control-flow primitives, literals and constants are all covered. *)
From Coq Require Import List Bool ZArith.
Import ListNotations.
From Model Require Import Jaxpr Stateful Incr JaxPrims.
From Proofs Require Import JaxprProofs JaxprExamples.

Theorem C36_stateful_null_handler :
  forall (prim val : Type) (psem : prim -> list val -> option (list val))
         (handles : prim -> bool) (dispatch : prim -> list val -> option (list val))
         (j : jaxpr prim val) (consts args : list val),
  (forall q, In q (j_eqns j) -> handles (e_prim q) = false) ->
  eval_stateful psem handles dispatch j consts args = eval_ref psem j consts args.
Proof. exact (@stateful_null_handler). Qed.
Print Assumptions C36_stateful_null_handler.
Example C36_stateful_null_handler_nonvacuous :
  (forall q, In q (j_eqns ex_j) -> (fun _ : cprim => false) (e_prim q) = false) /\
  eval_stateful psem0 (fun _ => false) (fun _ _ => None) ex_j ex_consts ex_xs
  = Some [VS 2; VS 6; VS 20; VS 2; VS 1; VS 14].
Proof. split; [reflexivity|vm_compute; reflexivity]. Qed.

(* an InitialStylePrimitive bound by initial_style_bind evaluates to its wrapped function: its impl
   splits off the closed-over values and runs the staged jaxpr *)
Theorem C36_initial_style_is_wrapped :
  forall (fuel : nat) (j : cjaxpr) (consts args : list cval),
  psem_c (S fuel) (PInitial j (length consts)) (consts ++ args) = eval_ref (psem_c fuel) j consts args.
Proof. exact initial_style_is_wrapped. Qed.
Print Assumptions C36_initial_style_is_wrapped.

(* a handler matters only at the equations it handles: with the swapping handler (add->sub, mul->add, max->min) of the
   correspondence the example (which contains an add) evaluates differently *)
Theorem C36_handler_is_consulted :
  eval_stateful psem0 (st_handles HSwap) (st_dispatch HSwap) ex_j ex_consts ex_xs
  <> eval_ref psem0 ex_j ex_consts ex_xs.
Proof. vm_compute. discriminate. Qed.
Print Assumptions C36_handler_is_consulted.
