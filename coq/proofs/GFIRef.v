(* C02: assess computes exactly the sum of the log-densities of the random choices the
   reference semantics `ref` lists, and returns the reference's return value. *)
From Coq Require Import List Bool ZArith NArith Lia Arith.
Import ListNotations.
From Gen Require Import SelGen.
From Model Require Import Key Sel GFI.
From Proofs Require Import GFIBase.
Open Scope Z_scope.

Definition tsum (l : list term) : Z := zsum (map tm_logpdf l).
Definition lift_ref (r : res (list term * val)) : res (Z * val) :=
  match r with Ok (l, v) => Ok (tsum l, v) | Err e => Err e end.

Lemma tsum_app a b : tsum (a ++ b) = tsum a + tsum b.
Proof. unfold tsum. rewrite map_app. apply zsum_app. Qed.
Lemma tm_logpdf_prefix p t : tm_logpdf (tm_prefix p t) = tm_logpdf t.
Proof. reflexivity. Qed.
Lemma tsum_prefix p l : tsum (map (tm_prefix p) l) = tsum l.
Proof. unfold tsum. rewrite map_map. reflexivity. Qed.
Lemma tsum_nil : tsum [] = 0. Proof. reflexivity. Qed.

(* mapM over assess vs mapM over ref *)
Lemma mapM_assess_ref (fa : nat -> res (Z * val)) (fr : nat -> res (list term * val)) (pre : nat -> path) l :
  (forall i, fa i = lift_ref (fr i)) ->
  (do rs <- mapM fa l; Ok (zsum (map fst rs), VA (map snd rs))) =
  lift_ref (do rs <- mapM (fun i => do x <- fr i; Ok (map (tm_prefix (pre i)) (fst x), snd x)) l;
            Ok (concat (map fst rs), VA (map snd rs))).
Proof.
  intros H.
  assert (G : forall l,
    match mapM fa l, mapM (fun i => do x <- fr i; Ok (map (tm_prefix (pre i)) (fst x), snd x)) l with
    | Ok rs, Ok rs' => zsum (map fst rs) = tsum (concat (map fst rs')) /\ map snd rs = map snd rs'
    | Err e, Err e' => e = e'
    | _, _ => False
    end).
  { clear l. induction l as [|i r IH]; [simpl; auto|].
    rewrite !mapM_cons, H. destruct (fr i) as [[li vi]|e]; simpl; [|reflexivity].
    destruct (mapM fa r) as [rs|e1], (mapM _ r) as [rs'|e2]; simpl; try contradiction; auto.
    destruct IH as [E1 E2]. rewrite tsum_app, tsum_prefix, E1, E2. auto. }
  specialize (G l). destruct (mapM fa l), (mapM _ l); simpl; try contradiction.
  - destruct G as [-> ->]. reflexivity.
  - congruence.
Qed.

Lemma scanM_assess_ref (fa : nat -> val -> res (Z * val)) (fr : nat -> val -> res (list term * val)) (pre : nat -> path) l c :
  (forall i c, fa i c = lift_ref (fr i c)) ->
  (do r <- scanM (fun i cr => do x <- fa i cr; do cy <- split_ret (snd x); Ok (fst x, fst cy, snd cy)) l c;
   let '(ss, cf, ys) := r in Ok (zsum ss, VT [cf; stack_vals ys])) =
  lift_ref (do r <- scanM (fun i cr => do x <- fr i cr; do cy <- split_ret (snd x);
                                        Ok (map (tm_prefix (pre i)) (fst x), fst cy, snd cy)) l c;
            let '(ts, cf, ys) := r in Ok (concat ts, VT [cf; stack_vals ys])).
Proof.
  intros H.
  assert (G : forall l c,
    match scanM (fun i cr => do x <- fa i cr; do cy <- split_ret (snd x); Ok (fst x, fst cy, snd cy)) l c,
          scanM (fun i cr => do x <- fr i cr; do cy <- split_ret (snd x); Ok (map (tm_prefix (pre i)) (fst x), fst cy, snd cy)) l c with
    | Ok (ss, cf, ys), Ok (ts, cf', ys') => zsum ss = tsum (concat ts) /\ cf = cf' /\ ys = ys'
    | Err e, Err e' => e = e'
    | _, _ => False
    end).
  { clear l c. induction l as [|i r IH]; intros c; [simpl; auto|].
    rewrite !scanM_cons, H. destruct (fr i c) as [[li vi]|e]; simpl; [|reflexivity].
    destruct (split_ret vi) as [[c' y]|e]; simpl; [|reflexivity].
    specialize (IH c').
    destruct (scanM _ r c') as [[[ss cf] ys]|e1], (scanM _ r c') as [[[ts cf'] ys']|e2]; simpl; try contradiction; auto.
    destruct IH as [E1 [E2 E3]]. subst. rewrite tsum_app, tsum_prefix, E1. auto. }
  specialize (G l c).
  destruct (scanM _ l c) as [[[ss cf] ys]|e1], (scanM _ l c) as [[[ts cf'] ys']|e2]; simpl; try contradiction.
  - destruct G as [-> [-> ->]]. reflexivity.
  - congruence.
Qed.

Theorem assess_is_ref_sum_all :
  (forall g c a, assess g c a = lift_ref (ref g c a)) /\
  (forall b c env s acc, s = tsum acc -> assess_body b c env s = lift_ref (ref_body b c env acc)) /\
  (forall bs j c a, assess_branch bs j c a = lift_ref (ref_branch bs j c a)).
Proof.
  apply gf_sbody_gfs_ind.
  - (* GDist *) intros d c a. simpl.
    destruct a as [|[p| | | | |] [|? ?]]; try reflexivity.
    destruct (cvalue c) as [[z|b|l|l|f [z| | | | |]|]|]; simpl; unfold tsum, tm_logpdf; simpl; rewrite ?Z.add_0_r; reflexivity.
  - (* GStatic *) intros b IH c a. simpl. apply IH. reflexivity.
  - (* GVmap *) intros axes g IH c a. simpl. destruct (vmap_len axes a) as [n|]; [|reflexivity].
    apply (mapM_assess_ref _ _ (fun i => [KI i])). intros i. apply IH.
  - (* GScan *) intros n g IH c a. simpl.
    destruct a as [|carry [|xs [|? ?]]]; try reflexivity.
    destruct (scan_len n xs) as [len|]; [|reflexivity].
    apply (scanM_assess_ref (fun i cr => assess g (csub c (KI i)) [cr; slice0 xs i])
                            (fun i cr => ref g (csub c (KI i)) [cr; slice0 xs i]) (fun i => [KI i])).
    intros i cr. apply IH.
  - (* GSwitch *) intros bs IH c a. simpl.
    destruct a as [|[idx| | | | |] bargs]; try reflexivity.
    destruct (nth_error bargs (clampZ idx (gfs_len bs))) as [[| |l| | |]|]; try reflexivity. apply IH.
  - (* GMask *) intros g IH c a. simpl.
    destruct a as [|[|check| | | |] a']; try reflexivity.
    rewrite IH. destruct (ref g c a') as [[l v]|e]; simpl; [|reflexivity].
    destruct check; reflexivity.
  - (* GDimap *) intros pre g IH post c a. simpl.
    destruct (eval_list a pre) as [ia|e]; simpl; [|reflexivity].
    rewrite IH. destruct (ref g c ia) as [[l v]|e]; simpl; [|reflexivity].
    destruct (eval _ post); reflexivity.
  - (* SRet *) intros e c env s acc Hs. simpl. destruct (eval env e); simpl; [subst; reflexivity | reflexivity].
  - (* SSite *) intros a g IHg args rest IHr c env s acc Hs. simpl.
    destruct (eval_list env args) as [av|e]; simpl; [|reflexivity].
    destruct (cis_empty (csub_addr c a)); [reflexivity|].
    rewrite IHg. destruct (ref g (csub_addr c a) av) as [[l v]|e]; simpl; [|reflexivity].
    apply IHr. rewrite tsum_app, tsum_prefix. subst. reflexivity.
  - (* GNil *) intros j c a. reflexivity.
  - (* GCons *) intros g IHg r IHr j c a. destruct j; simpl; [apply IHg | apply IHr].
Qed.

Corollary assess_is_ref_sum g c a : assess g c a = lift_ref (ref g c a).
Proof. apply assess_is_ref_sum_all. Qed.

(* masked-off calls contribute nothing, whatever the callee would have scored *)
Lemma ref_mask_false g c a l v : ref (GMask g) c (VB false :: a) = Ok (l, v) -> l = [].
Proof. simpl. destruct (ref g c a) as [[l' v']|e]; simpl; intros H; inversion H; reflexivity. Qed.
