"""C05 — engine B-gfi (harness/bgfi.py); theorems in coq/props/C05.v."""
from . import bgfi


def run(ctx):
    bgfi.run_property(ctx, "C05", oracles=bgfi.PROP_ORACLES.get("C05"))


def replay(case):
    return bgfi.replay(case)
