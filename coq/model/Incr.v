(* Model of genjax/_src/core/compiler/interpreters/incremental.py:
   Diff / ChangeTangent, default_propagation_rule,
   IncrementalInterpreter.eval_jaxpr_incremental, plus `tags_static`, the same
   interpreter run on tags alone (no values, no primitive semantics).
   No proofs in this file. *)
From Coq Require Import List Bool ZArith.
Import ListNotations.
From Model Require Import Jaxpr.

(* `_NoChange()` / `_UnknownChange()` *)
Inductive tag := NoChange | UnknownChange.
Definition is_no_change (t : tag) : bool := match t with NoChange => true | UnknownChange => false end.
Definition tag_eqb (a b : tag) : bool := Bool.eqb (is_no_change a) (is_no_change b).

(* what an environment cell / an output leaf is, with the value erased:
   a `Diff` with its tangent, or not a Diff at all (a Literal's `.val`) *)
Inductive shape := SDiff (t : tag) | SRaw.
Definition shape_eqb (a b : shape) : bool :=
  match a, b with SDiff s, SDiff t => tag_eqb s t | SRaw, SRaw => true | _, _ => false end.
(* Diff.tree_tangent leaf rule: `v.get_tangent() if isinstance(v, Diff) else NoChange` *)
Definition shape_tangent (s : shape) : tag := match s with SDiff t => t | SRaw => NoChange end.

Section Incr.
  Variables prim val : Type.
  Variable psem : prim -> list val -> option (list val).

  (* a cell: `Diff(primal, tangent)` or a bare value *)
  Inductive cell := Diff (v : val) (t : tag) | Raw (v : val).
  (* Diff.tree_primal / Diff.tree_tangent leaf rules *)
  Definition primal (c : cell) : val := match c with Diff v _ => v | Raw v => v end.
  Definition shape_of (c : cell) : shape := match c with Diff _ t => SDiff t | Raw _ => SRaw end.
  Definition tangent (c : cell) : tag := shape_tangent (shape_of c).
  (* `Diff(v, NoChange) if not isinstance(v, Diff) else v` *)
  Definition to_diff (c : cell) : cell := match c with Raw v => Diff v NoChange | d => d end.
  (* Diff.static_check_no_change(args) *)
  Definition static_check_no_change (cs : list cell) : bool :=
    forallb (fun c => is_no_change (tangent c)) cs.

  (* default_propagation_rule(prim, *args, **params):
       check = static_check_no_change(args); outval = prim.bind( *tree_primal(args))
       Diff.no_change(outval) if check else Diff.unknown_change(outval) *)
  Definition default_propagation_rule (p : prim) (args : list cell) : option (list cell) :=
    let check := static_check_no_change args in
    obind (psem p (map primal args)) (fun outs =>
    Some (map (fun v => Diff v (if check then NoChange else UnknownChange)) outs)).

  (* the optional stateful handler: None, or (handles, dispatch) *)
  Definition handler := option ((prim -> bool) * (prim -> list cell -> option (list cell)))%type.
  Definition h_handles (h : handler) (p : prim) : bool :=
    match h with None => false | Some (hs, _) => hs p end.

  Definition ienv := env cell.
  Definition iread := read (fun v : val => Raw v).

  (* loop body of eval_jaxpr_incremental *)
  Definition incr_eqn (h : handler) (e : ienv) (q : eqn prim val) : option ienv :=
    obind (read_many (fun v : val => Raw v) e (e_in q)) (fun induals0 =>
    let induals := map to_diff induals0 in
    obind (match h with
           | Some (hs, disp) => if hs (e_prim q) then disp (e_prim q) induals
                                else default_propagation_rule (e_prim q) induals
           | None => default_propagation_rule (e_prim q) induals
           end) (fun outduals =>
    write_many e (e_out q) outduals)).
  Fixpoint incr_eqns (h : handler) (e : ienv) (qs : list (eqn prim val)) : option ienv :=
    match qs with
    | [] => Some e
    | q :: qs' => obind (incr_eqn h e q) (fun e' => incr_eqns h e' qs')
    end.

  (* Diff.tree_diff(primals, tangents): jtu.tree_map over two lists, same length *)
  Fixpoint tree_diff (xs : list val) (ts : list tag) : option (list cell) :=
    match xs, ts with
    | [], [] => Some []
    | x :: xs', t :: ts' => option_map (cons (Diff x t)) (tree_diff xs' ts')
    | _, _ => None
    end.

  (* eval_jaxpr_incremental(handler, jaxpr, consts, primals, tangents):
       write constvars := Diff.no_change(consts); write invars := tree_diff(primals, tangents);
       loop; return safe_map(dual_env.read, jaxpr.outvars)  (a Literal outvar comes back bare) *)
  Definition eval_incr (h : handler) (j : jaxpr prim val) (consts primals : list val) (tangents : list tag)
    : option (list cell) :=
    obind (write_many [] (j_const j) (map (fun c => Diff c NoChange) consts)) (fun e1 =>
    obind (tree_diff primals tangents) (fun duals =>
    obind (write_many e1 (j_in j) duals) (fun e2 =>
    obind (incr_eqns h e2 (j_eqns j)) (fun e3 =>
    read_many (fun v : val => Raw v) e3 (j_out j))))).
End Incr.
Arguments Diff {val} v t.
Arguments Raw {val} v.
Arguments primal {val} c.
Arguments shape_of {val} c.
Arguments tangent {val} c.
Arguments to_diff {val} c.
Arguments static_check_no_change {val} cs.
Arguments default_propagation_rule {prim val} psem p args.
Arguments h_handles {prim val} h p.
Arguments incr_eqn {prim val} psem h e q.
Arguments incr_eqns {prim val} psem h e qs.
Arguments tree_diff {val} xs ts.
Arguments eval_incr {prim val} psem h j consts primals tangents.

(* ---- the same interpreter on shapes only: which outputs are Diffs and with which
   tangent is decided by the jaxpr's structure and the input tangents alone ---- *)
Section TagsStatic.
  Variables prim val : Type.
  Definition tenv := env shape.
  Definition tag_eqn (e : tenv) (q : eqn prim val) : option tenv :=
    obind (read_many (fun _ : val => SRaw) e (e_in q)) (fun ins =>
    let check := forallb (fun s => is_no_change (shape_tangent s)) ins in
    write_many e (e_out q) (map (fun _ => SDiff (if check then NoChange else UnknownChange)) (e_out q))).
  Fixpoint tag_eqns (e : tenv) (qs : list (eqn prim val)) : option tenv :=
    match qs with
    | [] => Some e
    | q :: qs' => obind (tag_eqn e q) (fun e' => tag_eqns e' qs')
    end.
  Definition tags_static (j : jaxpr prim val) (tangents : list tag) : option (list shape) :=
    obind (write_many [] (j_const j) (map (fun _ => SDiff NoChange) (j_const j))) (fun e1 =>
    obind (write_many e1 (j_in j) (map SDiff tangents)) (fun e2 =>
    obind (tag_eqns e2 (j_eqns j)) (fun e3 =>
    read_many (fun _ : val => SRaw) e3 (j_out j)))).
End TagsStatic.
Arguments tag_eqn {prim val} e q.
Arguments tag_eqns {prim val} e qs.
Arguments tags_static {prim val} j tangents.
