"""C13 / C03: a switch runs every branch on the same constraint.  A constraint addressed to the branch that
executes, under an address prefix that ANOTHER branch uses for a vmap/repeat site, makes that other branch
index a scalar leaf (Static.get_inner_map with a traced index maps v[idx] over the leaves) and importance
raises IndexError, although the executing branch alone accepts the constraint.
exit 0 = property holds, exit 1 = defect shows."""
import sys, os
os.environ.setdefault("JAX_PLATFORMS", "cpu")
import jax, jax.numpy as jnp, genjax
from genjax import gen, normal, ChoiceMapBuilder as C

@gen
def b1():
    x = normal.repeat(n=1)(0.0, 1.0) @ "a"          # "a" is an index level here
    return x[0]

@gen
def inner():
    return normal(0.0, 1.0) @ "y"

@gen
def b2():
    z = inner.repeat(n=3)() @ ("a", "b")            # ("a", "b") is a static prefix here
    return z[0]

key = jax.random.key(0)
chm = C["a", "b", 0, "y"].set(jnp.array(1.0))
_, w_alone = b2.importance(key, chm, ())
try:
    _, w = b1.or_else(b2).importance(key, chm, (jnp.array(False), (), ()))
except Exception as e:
    print("branch alone: weight", float(w_alone), "; switch raised", type(e).__name__, str(e)[:80])
    sys.exit(1)
ok = bool(jnp.allclose(w, w_alone))
print("branch alone:", float(w_alone), "switch:", float(w))
sys.exit(0 if ok else 1)
