(* AdevProofs.v — lemmas for C29 (ADEV estimators) about coq/model/Adev.v *)
From Coq Require Import List ZArith QArith Qabs Bool Lia Setoid Morphisms.
Import ListNotations.
From Model Require Import Adev.
From Proofs Require Import AdevPoly.
Open Scope Q_scope.

Ltac bsplit H := repeat (rewrite andb_true_iff in H); repeat match type of H with _ /\ _ => let H' := fresh H in destruct H as [H H'] end.

Definition dz : dual := (0, 0).
Definition deq (a b : dual) : Prop := fst a == fst b /\ snd a == snd b.

(* ---------------------------------------------------------------------------- *)
(* a total version of the interpreter, equal to it on the region                 *)
(* ---------------------------------------------------------------------------- *)
Fixpoint siteT (pr : prim) (args : list dual) (rs : rnd) (d : nat) (K : bval -> nat -> dual) : dual :=
  match pr, args with
  | PFlipEnum, [p] => dadd (dmul p (K (BB true) d)) (dmul (dsub (dC 1) p) (K (BB false) d))
  | PFlipReinforce, [p] =>
      let v := qlt (du (rs d)) (fst p) in
      let o := K (BB v) (S d) in (fst o, snd o + fst o * flip_lp' v p)
  | PNormalReparam, [mu; sigma] => K (BR (dadd mu (dmul sigma (dC (de (rs d)))))) d
  | PNormalReinforce, [mu; sigma] =>
      let x := fst mu + fst sigma * de (rs d) in
      let o := K (BR (dC x)) (S d) in (fst o, snd o + fst o * normal_lp' x mu sigma)
  | PBaseline pr', b :: args' => dadd (siteT pr' args' rs d (fun v d' => dsub (K v d') b)) b
  | _, _ => dz
  end.

Section P.
Variables lg dlg : Q -> Q.
Notation deval := (deval lg dlg).
Notation interp := (interp lg dlg).

Fixpoint interpT (p : prog) (env : list dual) (benv : list bool) (rs : rnd) (d : nat) : dual :=
  match p with
  | Ret e => deval e env benv
  | Sample pr args k =>
      siteT pr (map (fun e => deval e env benv) args) rs d
            (fun v d' => match v with
                         | BB b => interpT k env (b :: benv) rs d'
                         | BR x => interpT k (x :: env) benv rs d'
                         end)
  | SampleMvDiag locs scales k =>
      interpT k (rev (zipmv (map (fun e => deval e env benv) locs) (map (fun e => deval e env benv) scales) (dv (rs d))) ++ env) benv rs d
  | AddCost e k => dadd (deval e env benv) (interpT k env benv rs d)
  | Cond c t f k =>
      interpT k ((if nth c benv false then interpT t env benv rs d else interpT f env benv rs d) :: env) benv rs d
  end.

Lemma site_total pr : forall args rs d K KT,
  prim_ok pr (length args) = true ->
  (forall v d', K v d' = Some (KT v d')) ->
  site pr args rs d K = Some (siteT pr args rs d KT).
Proof.
  induction pr; intros args rs d K KT Hok HK; simpl in Hok; try discriminate.
  - destruct args as [|p [|? ?]]; try discriminate. simpl. rewrite !HK. reflexivity.
  - destruct args as [|p [|? ?]]; try discriminate. simpl. rewrite !HK. reflexivity.
  - destruct args as [|m [|s [|? ?]]]; try discriminate. simpl. apply HK.
  - destruct args as [|m [|s [|? ?]]]; try discriminate. simpl. rewrite !HK. reflexivity.
  - destruct args as [|b args]; try discriminate. simpl in *.
    erewrite IHpr; [reflexivity | exact Hok |]. intros v d'. simpl. rewrite HK. reflexivity.
Qed.

Lemma interp_total sel p : wf sel p = true ->
  forall env benv rs d, interp p env benv rs d = Some (interpT p env benv rs d).
Proof.
  induction p; intros Hwf env benv rs d; simpl in Hwf; bsplit Hwf; simpl.
  - reflexivity.
  - apply site_total. { rewrite map_length. assumption. }
    intros [b|x] d'; apply IHp; assumption.
  - rewrite Hwf. simpl. apply IHp. assumption.
  - rewrite IHp by assumption. reflexivity.
  - rewrite IHp1, IHp2 by assumption. simpl. rewrite IHp3 by assumption.
    destruct (nth c benv false); reflexivity.
Qed.

(* ---------------------------------------------------------------------------- *)
(* no drawing site: the result does not depend on the randomness or the depth     *)
(* ---------------------------------------------------------------------------- *)
Lemma siteT_nodraw pr : forall args rs d rs' d' K K',
  prim_draws pr = false -> (forall v d1 d2, K v d1 = K' v d2) ->
  siteT pr args rs d K = siteT pr args rs' d' K'.
Proof.
  induction pr; intros args rs d rs' d' K K' Hd HK; simpl in Hd; try discriminate; simpl.
  - destruct args as [|p [|? ?]]; try reflexivity. rewrite (HK (BB true) d d'), (HK (BB false) d d'). reflexivity.
  - destruct args; reflexivity.
  - destruct args; reflexivity.
  - destruct args as [|b args]; try reflexivity.
    erewrite IHpr; [reflexivity | exact Hd |]. intros; simpl. rewrite (HK v d1 d2). reflexivity.
Qed.

Lemma interpT_nodraw p : draws p = false ->
  forall env benv rs d rs' d', interpT p env benv rs d = interpT p env benv rs' d'.
Proof.
  induction p; simpl; intros Hd env benv rs d rs' d'.
  - reflexivity.
  - apply orb_false_iff in Hd. destruct Hd as [H1 H2].
    apply siteT_nodraw; [assumption|]. intros [b|x] d1 d2; apply IHp; assumption.
  - discriminate.
  - rewrite (IHp Hd env benv rs d rs' d'). reflexivity.
  - apply orb_false_iff in Hd. destruct Hd as [Hd H3]. apply orb_false_iff in Hd. destruct Hd as [H1 H2].
    rewrite (IHp1 H1 env benv rs d rs' d'), (IHp2 H2 env benv rs d rs' d').
    apply IHp3. assumption.
Qed.
End P.
