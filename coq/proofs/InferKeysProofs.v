(* Key distinctness of Importance / ImportanceK, and the key reuse of ChangeTarget
   (model/InferKeys.v, free key algebra). *)
From Coq Require Import List NArith Bool Lia.
From Model Require Import Key InferKeys.
Import ListNotations.
Open Scope N_scope.

(* ---- induction over call trees ---- *)
Section kgf_ind.
  Variable P : kgf -> Prop.
  Hypothesis HD : P KDist.
  Hypothesis HS : forall sites, Forall P sites -> P (KStatic sites).
  Fixpoint kgf_ind' (g : kgf) : P g :=
    match g with
    | KDist => HD
    | KStatic sites =>
        HS sites ((fix go (l : list kgf) : Forall P l :=
                     match l with
                     | [] => Forall_nil _
                     | s :: r => Forall_cons s (kgf_ind' s) (go r)
                     end) sites)
    end.
End kgf_ind.

Fixpoint go_paths (l : list kgf) (c : N) : list fkey :=
  match l with
  | [] => []
  | s :: r => map (cons c) (leaf_paths s) ++ go_paths r (c + 1)
  end.
Lemma leaf_paths_static_gen sites : forall c,
  (fix go (l : list kgf) (c : N) : list fkey :=
     match l with
     | [] => []
     | s :: r => map (cons c) (leaf_paths s) ++ go r (c + 1)
     end) sites c = go_paths sites c.
Proof. induction sites as [|s r IH]; intros c; [reflexivity|]. simpl. now rewrite IH. Qed.
Lemma leaf_paths_static sites : leaf_paths (KStatic sites) = go_paths sites 1.
Proof. apply leaf_paths_static_gen. Qed.

Lemma nodup_app {A} (l1 l2 : list A) : NoDup l1 -> NoDup l2 -> (forall a, In a l1 -> ~ In a l2) -> NoDup (l1 ++ l2).
Proof.
  induction l1; simpl; intros H1 H2 Hd; [assumption|]. inversion H1; subst.
  constructor.
  - rewrite in_app_iff. intros [H|H]; [contradiction|]. apply (Hd a); auto.
  - apply IHl1; auto.
Qed.
Lemma nodup_map_inj {A B} (f : A -> B) l : (forall a b, f a = f b -> a = b) -> NoDup l -> NoDup (map f l).
Proof.
  intros Hf. induction 1; simpl; constructor; auto.
  rewrite in_map_iff. intros [y [Hy Hin]]. apply Hf in Hy. subst. contradiction.
Qed.

Lemma go_paths_head l : forall c p, In p (go_paths l c) -> exists c' rest, p = c' :: rest /\ c <= c'.
Proof.
  induction l as [|s r IH]; simpl; intros c p H; [contradiction|].
  apply in_app_iff in H. destruct H as [H|H].
  - apply in_map_iff in H. destruct H as [rest [<- _]]. exists c, rest. split; [reflexivity|lia].
  - destruct (IH _ _ H) as [c' [rest [-> Hc]]]. exists c', rest. split; [reflexivity|lia].
Qed.

Lemma leaf_paths_NoDup g : NoDup (leaf_paths g).
Proof.
  induction g as [|sites IH] using kgf_ind'.
  - simpl. constructor; [intros []|constructor].
  - rewrite leaf_paths_static. generalize 1. induction IH as [|s r Hs Hr IHr]; intros c; simpl; [constructor|].
    apply nodup_app.
    + apply nodup_map_inj; [intros a b H; now inversion H|assumption].
    + apply IHr.
    + intros p Hp Hp'. apply in_map_iff in Hp. destruct Hp as [rest [<- _]].
      apply go_paths_head in Hp'. destruct Hp' as [c' [rest' [Heq Hc]]]. inversion Heq. lia.
Qed.

Lemma leaf_keys_NoDup g k : NoDup (leaf_keys g k).
Proof.
  unfold leaf_keys. apply nodup_map_inj; [intros a b; apply app_inv_head|apply leaf_paths_NoDup].
Qed.

Lemma gen_draws_In lks : forall con x, In x (gen_draws lks con) -> In x lks.
Proof.
  induction lks as [|lk r IH]; simpl; intros con x H; [contradiction|].
  apply in_app_iff in H. destruct H as [H|H].
  - destruct (hd None con); [contradiction|]. destruct H as [<-|[]]. now left.
  - right. eapply IH; eauto.
Qed.
Lemma gen_draws_NoDup lks : NoDup lks -> forall con, NoDup (gen_draws lks con).
Proof.
  induction 1 as [|lk r Hn Hr IH]; simpl; intros con; [constructor|].
  destruct (hd None con); simpl; [apply IH|].
  constructor; [|apply IH]. intros Hin. apply gen_draws_In in Hin. contradiction.
Qed.

Lemma q_draws_NoDup qk q : NoDup (q_draws qk q).
Proof.
  destruct q as [l|]; simpl; [|constructor].
  apply nodup_map_inj; [|apply seq_NoDup].
  intros a b H. unfold q_site_key in H. apply app_inv_head in H. inversion H. lia.
Qed.

(* every key drawn with by one particle lies below the particle's two keys *)
Lemma imp_one_draws t q qk mk x : In x (snd (imp_one t q qk mk)) ->
  (exists r, x = qk ++ r /\ q <> None) \/ (exists r, x = mk ++ r).
Proof.
  unfold imp_one. simpl. intros H. apply in_app_iff in H. destruct H as [H|H].
  - left. destruct q as [l|]; simpl in H; [|contradiction].
    apply in_map_iff in H. destruct H as [j [<- _]]. unfold q_site_key. eexists. split; [reflexivity|discriminate].
  - right. apply gen_draws_In in H. unfold leaf_keys in H. apply in_map_iff in H.
    destruct H as [p [<- _]]. now exists p.
Qed.

Lemma imp_one_NoDup t q qk mk : (q <> None -> forall r r', qk ++ r <> mk ++ r') -> NoDup (snd (imp_one t q qk mk)).
Proof.
  intros Hd. unfold imp_one. simpl. apply nodup_app.
  - apply q_draws_NoDup.
  - apply gen_draws_NoDup. apply leaf_keys_NoDup.
  - intros x Hq Hm. destruct q as [l|]; simpl in Hq; [|contradiction].
    apply in_map_iff in Hq. destruct Hq as [j [<- _]].
    apply gen_draws_In in Hm. unfold leaf_keys in Hm. apply in_map_iff in Hm. destruct Hm as [p [Hp _]].
    unfold q_site_key in Hp. symmetry in Hp. apply Hd in Hp; [assumption|discriminate].
Qed.

Lemma app2 (k : fkey) a b r : (k ++ [a; b]) ++ r = k ++ a :: b :: r.
Proof. now rewrite <- app_assoc. Qed.
Lemma app1 (k : fkey) a r : (k ++ [a]) ++ r = k ++ a :: r.
Proof. now rewrite <- app_assoc. Qed.

(* Importance.run_smc: the proposal's draws and the model's draws all use different keys *)
Lemma imp_keys_distinct t q k : NoDup (snd (krun (KImp t q) k)).
Proof.
  simpl. apply imp_one_NoDup. intros _ r r' H. rewrite !app1 in H. apply app_inv_head in H. discriminate.
Qed.

Lemma nodup_flat_map_tag {A B} (f : A -> list B) (tag : B -> A -> Prop) l :
  NoDup l -> (forall a, In a l -> NoDup (f a)) -> (forall a b, In b (f a) -> tag b a) ->
  (forall b a a', tag b a -> tag b a' -> a = a') -> NoDup (flat_map f l).
Proof.
  intros Hl Hf Ht Hi. induction Hl as [|a l Hn Hl IH]; simpl; [constructor|].
  apply nodup_app.
  - apply Hf. now left.
  - apply IH. intros; apply Hf; now right.
  - intros b Hb Hb'. apply in_flat_map in Hb'. destruct Hb' as [a' [Ha' Hb']].
    assert (a = a') by (eapply Hi; eauto). subst. contradiction.
Qed.

(* ImportanceK.run_smc, any number of particles: no two draws (of any two particles, proposal
   or model) share a key *)
Lemma impk_keys_distinct t q K k : NoDup (snd (krun (KImpK t q K) k)).
Proof.
  simpl. rewrite flat_map_concat_map, map_map, <- flat_map_concat_map.
  apply (nodup_flat_map_tag _ (fun x i => exists b r, x = k ++ b :: N.of_nat i :: r)).
  - apply seq_NoDup.
  - intros i _. destruct q as [l|]; apply imp_one_NoDup; intros Hq r r' H; [|congruence].
    rewrite !app2 in H. apply app_inv_head in H. discriminate.
  - intros i x Hx. destruct q as [l|]; apply imp_one_draws in Hx;
      destruct Hx as [[r [-> _]]|[r ->]]; rewrite app2; eauto.
  - intros x i i' [b [r H]] [b' [r' H']]. subst x. apply app_inv_head in H'. inversion H'. lia.
Qed.

(* ---- ChangeTarget ---- *)
Lemma fkey_eqb_eq a b : fkey_eqb a b = true <-> a = b.
Proof.
  revert b. induction a as [|x a IH]; destruct b as [|y b]; simpl; split; try congruence; try (intros; reflexivity).
  - intros H. apply andb_prop in H. destruct H as [H1 H2]. apply N.eqb_eq in H1. apply IH in H2. now subst.
  - intros H. inversion H; subst. rewrite N.eqb_refl. simpl. now apply IH.
Qed.
Lemma has_dup_spec l : has_dup l = true -> ~ NoDup l.
Proof.
  induction l as [|x r IH]; simpl; [discriminate|]. intros H ND. inversion ND; subst.
  apply orb_prop in H. destruct H as [H|H].
  - apply existsb_exists in H. destruct H as [y [Hy He]]. apply fkey_eqb_eq in He. subst. contradiction.
  - now apply IH.
Qed.

(* the old target has a latent x and an observation; the new one has an additional latent z
   traced first.  ChangeTarget.run_smc hands `key` to prev.run_smc (which gives its model
   key.0, so x is drawn with key.0.1) and then reweights particle 0 with split(key, 1)[0] =
   key.0: z is drawn with key.0.1 as well. *)
Definition ct_old := mkKT (KStatic [KDist; KDist]) [false; true].
Definition ct_new := mkKT (KStatic [KDist; KDist; KDist]) [false; false; true].
Definition ct_amap : list (option nat) := [None; Some 0%nat; Some 1%nat].
Lemma changetarget_key_reuse :
  exists prev t amap,
    NoDup (snd (krun prev [])) /\ ~ NoDup (snd (krun (KChange prev t amap) []))
    /\ fst (krun (KChange prev t amap) []) = [[Some [0; 1]; Some [0; 1]; None]].
Proof.
  exists (KImp ct_old None), ct_new, ct_amap. split; [apply imp_keys_distinct|].
  split; [apply has_dup_spec; reflexivity|reflexivity].
Qed.
(* same with ImportanceK (2 particles) when the new latent is a call of a static function *)
Definition ct_new_nested := mkKT (KStatic [KStatic [KDist]; KDist; KDist]) [false; false; true].
Lemma changetarget_key_reuse_K :
  exists prev t amap,
    NoDup (snd (krun prev [])) /\ ~ NoDup (snd (krun (KChange prev t amap) []))
    /\ nth 1 (fst (krun (KChange prev t amap) [])) [] = [Some [1; 1; 1]; Some [1; 1; 1]; None].
Proof.
  exists (KImpK ct_old None 2), ct_new_nested, ct_amap. split; [apply impk_keys_distinct|].
  split; [apply has_dup_spec; reflexivity|reflexivity].
Qed.

(* when every leaf of the new target is observed or carried over from the previous target's
   latents (as in SMCAlgorithm.random_weighted called with the algorithm's own target),
   the reweighting step draws nothing *)
Definition covered (pt t : ktarget) (amap : list (option nat)) : bool :=
  forallb (fun j => nth j (kobs t) false
                    || match nth j amap None with Some o => negb (nth o (kobs pt) false) | None => false end)
          (seq 0 (nleaves (kg t))).
Lemma gen_draws_all_some lks : forall con, length con = length lks -> Forall (fun c => c <> None) con ->
  gen_draws lks con = [].
Proof.
  induction lks as [|lk r IH]; intros con Hl Hall; [reflexivity|].
  destruct con as [|c con]; [discriminate|]. inversion Hall; subst. simpl.
  destruct c; [|congruence]. simpl. apply IH; auto.
Qed.
Lemma flat_map_nil {A B} (f : A -> list B) l : (forall x, In x l -> f x = []) -> flat_map f l = [].
Proof. induction l; simpl; intros H; [reflexivity|]. rewrite H by now left. apply IHl. intros; apply H; now right. Qed.
Lemma change_no_draws prev t amap k : covered (kfinal prev) t amap = true ->
  snd (krun (KChange prev t amap) k) = snd (krun prev k).
Proof.
  intros Hc. simpl. rewrite <- (app_nil_r (snd (krun prev k))) at 2. f_equal.
  rewrite flat_map_concat_map, map_map, <- flat_map_concat_map.
  apply flat_map_nil. intros ip _. simpl.
  apply gen_draws_all_some.
  - unfold change_con, leaf_keys, nleaves. now rewrite !map_length, seq_length.
  - unfold change_con. apply Forall_forall. intros c Hin. apply in_map_iff in Hin.
    destruct Hin as [j [<- Hj]]. unfold covered in Hc. rewrite forallb_forall in Hc. specialize (Hc j Hj).
    destruct (nth j (kobs t) false); [discriminate|]. simpl in Hc.
    destruct (nth j amap None) as [o|]; [|discriminate].
    destruct (nth o (kobs (kfinal prev)) false); discriminate.
Qed.
Lemma change_same_target_distinct t q K k :
  covered t t (map Some (seq 0 (nleaves (kg t)))) = true ->
  NoDup (snd (krun (KChange (KImpK t q K) t (map Some (seq 0 (nleaves (kg t))))) k)).
Proof. intros H. rewrite change_no_draws by exact H. apply impk_keys_distinct. Qed.
