#!/usr/bin/env python3
"""Writes MANIFEST.json from the table below (kept valid at all times)."""
import json, os
CLAIMED = {
 "C18": dict(engine="A-sel", technique="Coq proof over Gallina generated from choice_map.py by an ast translator; vm_compute correspondence",
             text="Theorems (coq/props/C18.v) over the selection classes as *regenerated from the source on every run*: membership of every address of any length equals the Boolean combination of the operands' memberships, sub-selection commutes, smart constructors preserve membership. Tie: translator + 3000 (quick) / exhaustive depth<=1 + 20000 (thorough) term x address cases compared inside Coq with the implementation's answers.",
             note="Trusted: Coq kernel/vm_compute; harness/translate_sel.py (validated by the correspondence run); pinned glue methods transcribed by hand in coq/model/Sel.v. All theorems closed under the global context.",
             ref="5/C18"),
 "C19": dict(engine="A-mask", technique="Coq proof over a hand-written Gallina model of Mask/FlagOp with staging tags; vm_compute correspondence",
             text="Theorems (coq/props/C19.v): truth tables of |, ^, ~, build (AND), flatten cases, unmask(default), and staging erasure (Python-bool vs array flags give the same observed flag and valid values) for scalar flags in every staging and arbitrary value pytrees. Tie: every stage x flag combination, all pairs of 2-element vector flags, ill-shaped combinations as errors, compared inside Coq with the implementation; direct oracle = the documented truth tables in numpy (also under jit in thorough).",
             note="Trusted: Coq kernel/vm_compute; the hand-written model coq/model/MaskAlg.v,Flag.v is tied only by the correspondence run; vectorised-flag tables are checked by correspondence + oracle, not by an elementwise theorem; Diff-wrapped flags and __getitem__ are not modelled. All theorems closed under the global context.",
             ref="5/C19"),
 "C20": dict(engine="A-mask", technique="Coq proof over a hand-written Gallina model of FlagOp/tree_choose/multi_switch; vm_compute correspondence",
             text="Theorems (coq/props/C20.v): FlagOp and/or/xor/not = Boolean logic on observed flags with numpy broadcasting, staging irrelevance, where/cond select, tree_choose = element at idx mod n with dtype join (static and array index agree), multi_switch = branch at the clamped index with zero placeholders, wrap/clamp agree exactly in range (refuted outside with a witness). Tie: exhaustive flag pairs, operands, every index in [-n-1,2n+1] for n<=4 as Python int and array.",
             note="Trusted: Coq kernel/vm_compute; hand-written model coq/model/Flag.v tied by the correspondence run; leaves are scalars or 1-d arrays of one common shape; lax/jnp error behaviour is modelled as None. All theorems closed under the global context.",
             ref="5/C20"),
}

BG_NOTE = ("Trusted: Coq kernel/vm_compute; the hand-written model coq/model/GFI.v (+GFIEdit.v) is tied to /repo only by the B-gfi correspondence run "
           "(harness/gfi.py, gfi_run.py, bgfi.py: program realiser, canonicaliser, Coq printers); integer-exact probe distributions stand for arbitrary densities "
           "(float32 is exact on the integers they produce); choice maps are modelled observationally (finite map address -> leaf value, masked leaves kept under a false flag); "
           "Python-bool mask flags, zero-length vector combinators under assess, and switch edits that change the index are outside the modelled region (known findings K16 K17 K19). "
           "All theorems closed under the global context.")
CLAIMED.update({
 "C01": dict(engine="B-gfi", technique="Coq proof (mutual induction over programs) on a hand-written Gallina model of the GFI; vm_compute correspondence on programs x histories",
             text="Theorems (coq/props/C01.v): for every program of the grammar (distributions, static language, vmap, scan, switch, mask, dimap and what is derived from them), every key, arguments, constraint and Update/Regenerate request, the trace returned by simulate, importance and edit is well formed (wft) and assess on its own choices and arguments returns exactly its score and return value. Tie: ~110 (quick) / 1200 (thorough) typed random programs, each with simulate, assess, 3 projections, 2 importance runs, 2 chained edits with their backward requests, every observation compared with the model inside Coq; direct oracle = assess(trace.get_choices(), trace.get_args()) on the implementation.",
             note=BG_NOTE + " Side conditions of the theorems: static-body addresses have distinct first components (wfg) and every call at a static address records a choice (sites_live); StaticRequest/EmptyRequest/IndexRequest edits are covered by correspondence and oracle only.", ref="5/C01"),
 "C02": dict(engine="B-gfi", technique="Coq proof relating the model's assess to a reference semantics listing the program's random choices; vm_compute correspondence",
             text="Theorems (coq/props/C02.v): assess g c a equals the sum of the log-densities of exactly the random choices the reference semantics `ref` (the program text run over the choice values: Python loop for scan, branches[clamp idx] for switch, `if flag` for mask) lists, with the same return value and the same errors; every simulated trace's score is that sum; a masked-off call contributes no term. Tie: B-gfi engine; the probes' coefficients are distinct primes so a dropped, doubled or mis-scaled term changes the integer score; direct oracle = an independent Python evaluator of the program AST over the trace's observed choices.",
             note=BG_NOTE, ref="5/C02"),
 "C03": dict(engine="B-gfi", technique="Coq proof (mutual induction) of the importance-weight formula on the GFI model; vm_compute correspondence",
             text="Theorems (coq/props/C03.v): for every program, key, constraint and arguments, importance returns weight = sum of the log-densities of exactly the random choices whose address carries a valid (unmasked or mask-true) constraint value, the trace agrees with the constraint there, an empty constraint gives 0 and a constraint fixing every choice gives the score. Tie: B-gfi engine with partial/full/empty/masked/foreign constraints under vmap indices, scan steps, switch branches and masks; direct oracle recomputes the weight from the program AST.",
             note=BG_NOTE, ref="5/C03"),
 "C10": dict(engine="B-gfi", technique="Coq proof of project = sum over selected choices, using the selection algebra regenerated from choice_map.py; vm_compute correspondence",
             text="Theorems (coq/props/C10.v): for every well-formed trace (those simulate/importance/edit return) and every selection, project returns the sum of the log-densities of the random choices whose static address is selected (index levels transparent); project(all) = score, project(none) = 0, project(S) + project(~S) = score. Mask.project raises NotImplementedError in the source and in the model. Tie: B-gfi engine with 3 random selections (wildcards, complements, and/or) per program; direct oracle recomputes from the AST.",
             note=BG_NOTE, ref="5/C10"),
})

import glob, re
for _f in sorted(glob.glob(os.path.join(os.path.dirname(os.path.abspath(__file__)), 'notes', 'manifest_*.json'))):
    CLAIMED.update(json.load(open(_f)))
ALL = ["C%02d" % i for i in range(1, 39)]
NA_REASON = "not yet covered by a theorem and tie in this round's development (see DESIGN.md section 7); no other technique is substituted"
m = {
 "version": 1,
 "setup_cmd": "./setup.sh",
 "hooks": {"guard": "GENJAX_VERIF", "enable": "no source hooks are needed: probes use the public exact_density API; checks run with PYTHONPATH=/repo/src", 
           "baseline_off_cmd": "cd /repo && /venv/bin/python -m pytest -ra -q -p no:cacheprovider --timeout=900 --continue-on-collection-errors", "source_commits": [], "add_only": True},
 "engines": [],
 "checks": [],
 "notes": "All checks: ./check <ID> --tier quick|thorough ; replay: ./check <ID> --replay <file>. Genuine defects repaired by fix: commits and recorded findings are in known_findings.json.",
 "not_applicable": [],
}
for pid in ALL:
    if pid in CLAIMED:
        c = CLAIMED[pid]
        m["checks"].append({
            "property_id": pid, "quick_cmd": f"./check {pid} --tier quick", "thorough_cmd": f"./check {pid} --tier thorough",
            "evidence_file": f"/verif/evidence/{pid}.json", "replay_cmd_template": f"./check {pid} --replay {{path}}",
            "engine": c["engine"], "level_claimed": {"category": "proof", "text": c["text"], "design_ref": c["ref"]},
            "level_note": c["note"], "technique": c["technique"]})
    else:
        m["not_applicable"].append({"property_id": pid, "reason": NA_REASON})
eng = {}
for pid, c in CLAIMED.items():
    eng.setdefault(c["engine"], []).append(pid)
m["engines"] = [{"name": k, "path": "harness/", "serves_properties": v, "kind_free_text": "correspondence engine: cases realised on /repo, compared inside Coq by vm_compute"} for k, v in eng.items()]
json.dump(m, open(os.path.join(os.path.dirname(__file__), "MANIFEST.json"), "w"), indent=1)
print("claimed", len(CLAIMED), "not_applicable", len(m["not_applicable"]))
