(* Executable model of GenJAX's generative function interface (Layer B).
   Deep syntax `gf` for programs built from probe distributions, the static
   language and the combinators; interpreters simulate / assess / generate /
   project that mirror the implementation method by method (key derivation,
   which score terms are summed, where return values and scores are stored).

   The model is *observational* on choice maps: a choice map is the finite trie
   of its valid values (a masked-off or non-selected-branch value is absent), which
   is the abstraction C17 ties to the real ChoiceMap classes.  Errors that depend
   on the static shape of masked placeholders are therefore not modelled. *)
From Coq Require Import List Bool ZArith NArith Lia.
Import ListNotations.
From Gen Require Import SelGen.
From Model Require Import Key Sel.
Open Scope Z_scope.

(* ---------------- values ---------------- *)
Inductive val :=
| VZ (z : Z)                 (* float32 scalar holding a small integer *)
| VB (b : bool)              (* flag *)
| VT (l : list val)          (* python tuple *)
| VA (l : list val)          (* array, leading axis *)
| VM (f : bool) (v : val)    (* Mask(value, flag) *)
| VNone.

Fixpoint val_eqb (a b : val) {struct a} : bool :=
  let fix all2 (l1 l2 : list val) : bool :=
      match l1, l2 with
      | [], [] => true
      | x :: r1, y :: r2 => val_eqb x y && all2 r1 r2
      | _, _ => false
      end in
  match a, b with
  | VZ x, VZ y => Z.eqb x y
  | VB x, VB y => Bool.eqb x y
  | VT l1, VT l2 => all2 l1 l2
  | VA l1, VA l2 => all2 l1 l2
  | VM f v, VM g w => if f then (if g then val_eqb v w else false) else negb g   (* an invalid mask has no value *)
  | VNone, VNone => true
  | _, _ => false
  end.

(* ---------------- errors ---------------- *)
Inductive err := EAddressReuse | EMissingAddress | ENotSupported | EType | EOther.
Inductive res (A : Type) := Ok (a : A) | Err (e : err).
Arguments Ok {A}. Arguments Err {A}.
Definition bind {A B} (r : res A) (f : A -> res B) : res B := match r with Ok a => f a | Err e => Err e end.
Notation "'do' x <- r ; k" := (bind r (fun x => k)) (at level 200, x pattern, r at level 100, k at level 200).
Definition err_eqb (a b : err) : bool :=
  match a, b with
  | EAddressReuse, EAddressReuse | EMissingAddress, EMissingAddress | ENotSupported, ENotSupported
  | EType, EType | EOther, EOther => true
  | _, _ => false
  end.

(* ---------------- pure expressions (argument / return computations) ---------------- *)
Inductive expr :=
| EVar (i : nat) | EConst (z : Z)
| EAdd (a b : expr) | EMul (a b : expr)
| ETup (l : list expr) | EProj (i : nat) (e : expr) | ENone
| EZeros (n : nat)                 (* jnp.zeros(n) *)
| ENotIdx (e : expr)               (* jnp.array(jnp.logical_not(b), dtype=int) *)
| ECons (a : expr) (arr : expr)    (* concatenate([a[None]], arr) *)
| EUnmask (m : expr) (d : expr)    (* m.unmask(default=d) *)
| EMaskValue (m : expr).           (* m.value *)

Fixpoint eval (env : list val) (e : expr) {struct e} : res val :=
  match e with
  | EVar i => match nth_error env i with Some v => Ok v | None => Err EType end
  | EConst z => Ok (VZ z)
  | EAdd a b => do x <- eval env a; do y <- eval env b;
                match x, y with VZ p, VZ q => Ok (VZ (p + q)) | _, _ => Err EType end
  | EMul a b => do x <- eval env a; do y <- eval env b;
                match x, y with VZ p, VZ q => Ok (VZ (p * q)) | _, _ => Err EType end
  | ETup l =>
      do vs <- (fix go (l : list expr) : res (list val) :=
                  match l with
                  | [] => Ok []
                  | x :: r => do v <- eval env x; do vs <- go r; Ok (v :: vs)
                  end) l;
      Ok (VT vs)
  | EProj i e => do v <- eval env e;
                 match v with VT l => match nth_error l i with Some x => Ok x | None => Err EType end | _ => Err EType end
  | ENone => Ok VNone
  | EZeros n => Ok (VA (repeat (VZ 0) n))
  | ENotIdx e => do v <- eval env e; match v with VB b => Ok (VZ (if b then 0 else 1)) | _ => Err EType end
  | ECons a arr => do x <- eval env a; do l <- eval env arr;
                   match l with VA xs => Ok (VA (x :: xs)) | _ => Err EType end
  | EUnmask m d => do x <- eval env m; do y <- eval env d;
                   match x with VM f v => Ok (if f then v else y) | _ => Err EType end
  | EMaskValue m => do x <- eval env m; match x with VM _ v => Ok v | _ => Err EType end
  end.

Fixpoint eval_list (env : list val) (l : list expr) : res (list val) :=
  match l with
  | [] => Ok []
  | x :: r => do v <- eval env x; do vs <- eval_list env r; Ok (v :: vs)
  end.

(* ---------------- probe distributions ---------------- *)
(* probe d takes one scalar parameter p; sample = p + (((k0 xor k1) >> s) land 3);
   logpdf(v; p) = a*v + b*p + c.  The harness defines the same through exact_density. *)
Record dspec := { da : Z; db : Z; dc : Z; dshift : N }.
Definition probes : list dspec :=
  [ {| da := 2; db := 3; dc := 5; dshift := 0 |};
    {| da := 7; db := 11; dc := 13; dshift := 3 |};
    {| da := 17; db := 19; dc := 23; dshift := 7 |};
    {| da := 29; db := 31; dc := 37; dshift := 11 |} ].
Definition probe (d : nat) : dspec := nth d probes {| da := 1; db := 1; dc := 1; dshift := 0 |}.
Definition d_sample (d : nat) (k : key) (p : Z) : Z :=
  p + Z.of_N (N.land (N.shiftr (N.lxor (fst k) (snd k)) (dshift (probe d))) 3).
Definition d_logpdf (d : nat) (v p : Z) : Z := da (probe d) * v + db (probe d) * p + dc (probe d).

(* ---------------- programs ---------------- *)
Definition addr := list nat.       (* static address, tuple components interned as nat *)
Fixpoint addr_eqb (a b : addr) : bool :=
  match a, b with [], [] => true | x :: r, y :: s => Nat.eqb x y && addr_eqb r s | _, _ => false end.
Inductive gf :=
| GDist (d : nat)
| GStatic (b : sbody)
| GVmap (axes : list (option nat)) (g : gf)
| GScan (n : option nat) (g : gf)
| GSwitch (bs : gfs)
| GMask (g : gf)
| GDimap (pre : list expr) (g : gf) (post : expr)
with sbody :=
| SRet (e : expr)
| SSite (a : addr) (g : gf) (args : list expr) (rest : sbody)
with gfs := GNil | GCons (g : gf) (r : gfs).

Fixpoint gfs_len (bs : gfs) : nat := match bs with GNil => 0 | GCons _ r => S (gfs_len r) end.
Fixpoint gfs_nth (bs : gfs) (i : nat) : option gf :=
  match bs, i with
  | GNil, _ => None
  | GCons g _, O => Some g
  | GCons _ r, S j => gfs_nth r j
  end.

(* ---------------- choice maps (observational trie) ---------------- *)
Inductive ckey := KS (n : nat) | KI (i : nat).
Definition ckey_eqb (a b : ckey) : bool :=
  match a, b with KS x, KS y | KI x, KI y => Nat.eqb x y | _, _ => false end.
Inductive chm := CE | CV (v : val) | CN (kids : list (ckey * chm)).

Fixpoint kids_get (kids : list (ckey * chm)) (k : ckey) : chm :=
  match kids with
  | [] => CE
  | (k', c) :: r => if ckey_eqb k k' then c else kids_get r k
  end.
Definition csub (c : chm) (k : ckey) : chm := match c with CN kids => kids_get kids k | _ => CE end.
Definition csub_path (c : chm) (p : list ckey) : chm := fold_left csub p c.
Definition csub_addr (c : chm) (a : addr) : chm := csub_path c (map KS a).
Definition cvalue (c : chm) : option val := match c with CV v => Some v | _ => None end.
Definition cis_empty (c : chm) : bool := match c with CE => true | CN [] => true | _ => false end.

(* c extended under a static path *)
Fixpoint cprefix (p : list ckey) (c : chm) : chm :=
  match p with [] => c | k :: r => if cis_empty c then CE else CN [(k, cprefix r c)] end.
(* left-biased union *)
Fixpoint cmerge (a b : chm) {struct a} : chm :=
  match a, b with
  | CE, _ => b
  | _, CE => a
  | CN ka, CN kb =>
      let fix go (ka : list (ckey * chm)) : list (ckey * chm) :=
          match ka with
          | [] => []
          | (k, c) :: r => (k, cmerge c (kids_get kb k)) :: go r
          end in
      CN (go ka ++ filter (fun kc => negb (existsb (fun kc' => ckey_eqb (fst kc) (fst kc')) ka)) kb)
  | _, _ => a
  end.

(* ---------------- traces ---------------- *)
Inductive trace :=
| TDist (d : nat) (args : list val) (v : Z) (score : Z)
| TStatic (args : list val) (ret : val) (subs : list (addr * trace))
| TVmap (inner : list trace) (args : list val)
| TScan (inner : list trace) (args : list val) (ret : val) (score : Z)
| TSwitch (args : list val) (k : nat) (sub : trace) (ret : val) (score : Z)
| TMask (inner : trace) (check : bool)
| TDimap (inner : trace) (args : list val) (ret : val).

Definition zsum (l : list Z) : Z := fold_right Z.add 0 l.

Fixpoint t_score (t : trace) {struct t} : Z :=
  match t with
  | TDist _ _ _ s => s
  | TStatic _ _ subs => zsum (map (fun p => t_score (snd p)) subs)
  | TVmap inner _ => zsum (map t_score inner)
  | TScan _ _ _ s => s
  | TSwitch _ _ _ _ s => s
  | TMask inner check => if check then t_score inner else 0
  | TDimap inner _ _ => t_score inner
  end.

Fixpoint t_retval (t : trace) {struct t} : val :=
  match t with
  | TDist _ _ v _ => VZ v
  | TStatic _ r _ => r
  | TVmap inner _ => VA (map t_retval inner)
  | TScan _ _ r _ => r
  | TSwitch _ _ _ r _ => r
  | TMask inner check => VM check (t_retval inner)
  | TDimap _ _ r => r
  end.

Definition t_args (t : trace) : list val :=
  match t with
  | TDist _ a _ _ => a
  | TStatic a _ _ => a
  | TVmap _ a => a
  | TScan _ a _ _ => a
  | TSwitch a _ _ _ _ => a
  | TMask inner check => VB check :: (match inner with
                                       | TDist _ a _ _ | TStatic a _ _ | TVmap _ a | TScan _ a _ _ | TSwitch a _ _ _ _ | TDimap _ a _ => a
                                       | TMask _ _ => [] end)
  | TDimap _ a _ => a
  end.

Fixpoint t_choices (t : trace) {struct t} : chm :=
  match t with
  | TDist _ _ v _ => CV (VZ v)
  | TStatic _ _ subs =>
      fold_left (fun acc p => cmerge acc (cprefix (map KS (fst p)) (t_choices (snd p)))) subs CE
  | TVmap inner _ | TScan inner _ _ _ =>
      match (fix go (i : nat) (l : list trace) : list (ckey * chm) :=
               match l with [] => [] | x :: r => (KI i, t_choices x) :: go (S i) r end) 0%nat inner with
      | [] => CE
      | kids => CN kids
      end
  | TSwitch _ _ sub _ _ => t_choices sub
  | TMask inner check => if check then t_choices inner else CE
  | TDimap inner _ _ => t_choices inner
  end.

(* ---------------- argument slicing for vmap ---------------- *)
Fixpoint slice0 (v : val) (i : nat) {struct v} : val :=
  match v with
  | VA l => nth i l VNone
  | VT l => VT (map (fun x => slice0 x i) l)
  | _ => v
  end.
Definition slice1 (v : val) (i : nat) : val :=
  match v with
  | VA rows => VA (map (fun r => slice0 r i) rows)
  | _ => v
  end.
Definition slice_ax (ax : option nat) (v : val) (i : nat) : val :=
  match ax with None => v | Some O => slice0 v i | Some _ => slice1 v i end.
Fixpoint leading_len (v : val) : option nat :=
  match v with
  | VA l => Some (length l)
  | VT l => (fix go (l : list val) := match l with [] => None | x :: r => match leading_len x with Some n => Some n | None => go r end end) l
  | _ => None
  end.
Definition axis_len (ax : option nat) (v : val) : option nat :=
  match ax with
  | None => None
  | Some O => leading_len v
  | Some _ => match v with VA (r :: _) => leading_len r | _ => None end
  end.
Fixpoint vmap_len (axes : list (option nat)) (args : list val) : option nat :=
  match axes, args with
  | ax :: ra, v :: rv => match axis_len ax v with Some n => Some n | None => vmap_len ra rv end
  | _, _ => None
  end.
Fixpoint slice_args (axes : list (option nat)) (args : list val) (i : nat) : list val :=
  match axes, args with
  | ax :: ra, v :: rv => slice_ax ax v i :: slice_args ra rv i
  | _, _ => []
  end.

Definition clampZ (z : Z) (n : nat) : nat := Z.to_nat (Z.max 0 (Z.min z (Z.of_nat n - 1))).
Definition stack_vals (l : list val) : val :=
  if forallb (fun v => match v with VNone => true | _ => false end) l
  then (match l with [] => VA [] | _ => VNone end) else VA l.

(* ---------------- simulate ---------------- *)
Fixpoint simulate (g : gf) (k : key) (args : list val) {struct g} : res trace :=
  match g with
  | GDist d =>
      match args with
      | [VZ p] => let v := d_sample d k p in Ok (TDist d args v (d_logpdf d v p))
      | _ => Err EType
      end
  | GStatic b =>
      do r <- sim_body b k 1%N args [];
      Ok (TStatic args (fst r) (snd r))
  | GVmap axes g' =>
      match vmap_len axes args with
      | None => Err EType
      | Some n =>
          do inner <- (fix go (is : list nat) : res (list trace) :=
                         match is with
                         | [] => Ok []
                         | i :: r => do t <- simulate g' (fold_in k (N.of_nat i)) (slice_args axes args i);
                                     do ts <- go r; Ok (t :: ts)
                         end) (seq 0 n);
          Ok (TVmap inner args)
      end
  | GScan n g' =>
      match args with
      | [carry; xs] =>
          match (match n with Some m => Some m | None => leading_len xs end) with
          | None => Err EType
          | Some len =>
              do r <- (fix go (is : list nat) (c : val) : res (list trace * val * list val) :=
                         match is with
                         | [] => Ok ([], c, [])
                         | i :: r =>
                             do t <- simulate g' (fold_in k (N.of_nat i)) [c; slice0 xs i];
                             match t_retval t with
                             | VT [c'; y] => do rr <- go r c'; let '(ts, cf, ys) := rr in Ok (t :: ts, cf, y :: ys)
                             | _ => Err EType
                             end
                         end) (seq 0 len) carry;
              let '(ts, cf, ys) := r in
              Ok (TScan ts args (VT [cf; stack_vals ys]) (zsum (map t_score ts)))
          end
      | _ => Err EType
      end
  | GSwitch bs =>
      match args with
      | VZ idx :: bargs =>
          let j := clampZ idx (gfs_len bs) in
          match nth_error bargs j with
          | Some (VT a) =>
              do t <- sim_branch bs j k a;
              Ok (TSwitch args j t (t_retval t) (t_score t))
          | _ => Err EType
          end
      | _ => Err EType
      end
  | GMask g' =>
      match args with
      | VB check :: a => do t <- simulate g' k a; Ok (TMask t check)
      | _ => Err EType
      end
  | GDimap pre g' post =>
      do ia <- eval_list args pre;
      do t <- simulate g' k ia;
      do r <- eval [VT args; VT ia; t_retval t] post;
      Ok (TDimap t args r)
  end
with sim_body (b : sbody) (k : key) (cnt : N) (env : list val) (acc : list (addr * trace)) {struct b}
  : res (val * list (addr * trace)) :=
  match b with
  | SRet e => do v <- eval env e; Ok (v, acc)
  | SSite a g' aexprs rest =>
      do av <- eval_list env aexprs;
      do t <- simulate g' (fold_in k cnt) av;
      if existsb (fun p => addr_eqb (fst p) a) acc then Err EAddressReuse
      else sim_body rest k (cnt + 1)%N (env ++ [t_retval t]) (acc ++ [(a, t)])
  end
with sim_branch (bs : gfs) (j : nat) (k : key) (a : list val) {struct bs} : res trace :=
  match bs, j with
  | GNil, _ => Err EType
  | GCons g' _, O => simulate g' k a
  | GCons _ r, S j' => sim_branch r j' k a
  end.

(* ---------------- assess ---------------- *)
Fixpoint assess (g : gf) (c : chm) (args : list val) {struct g} : res (Z * val) :=
  match g with
  | GDist d =>
      match args, cvalue c with
      | [VZ p], Some (VZ v) => Ok (d_logpdf d v p, VZ v)
      | [VZ p], Some (VM _ (VZ v)) => Ok (d_logpdf d v p, VZ v)   (* Mask(value, flag): the value is used whatever the flag *)
      | [VZ p], _ => Err EOther
      | _, _ => Err EType
      end
  | GStatic b => assess_body b c args 0
  | GVmap axes g' =>
      match vmap_len axes args with
      | None => Err EType
      | Some n =>
          do rs <- (fix go (is : list nat) : res (list (Z * val)) :=
                      match is with
                      | [] => Ok []
                      | i :: r => do x <- assess g' (csub c (KI i)) (slice_args axes args i);
                                  do xs <- go r; Ok (x :: xs)
                      end) (seq 0 n);
          Ok (zsum (map fst rs), VA (map snd rs))
      end
  | GScan n g' =>
      match args with
      | [carry; xs] =>
          match (match n with Some m => Some m | None => leading_len xs end) with
          | None => Err EType
          | Some len =>
              do r <- (fix go (is : list nat) (cr : val) : res (Z * val * list val) :=
                         match is with
                         | [] => Ok (0, cr, [])
                         | i :: r =>
                             do x <- assess g' (csub c (KI i)) [cr; slice0 xs i];
                             match snd x with
                             | VT [c'; y] => do rr <- go r c'; let '(s, cf, ys) := rr in Ok (fst x + s, cf, y :: ys)
                             | _ => Err EType
                             end
                         end) (seq 0 len) carry;
              let '(s, cf, ys) := r in Ok (s, VT [cf; stack_vals ys])
          end
      | _ => Err EType
      end
  | GSwitch bs =>
      match args with
      | VZ idx :: bargs =>
          let j := clampZ idx (gfs_len bs) in
          match nth_error bargs j with
          | Some (VT a) => assess_branch bs j c a
          | _ => Err EType
          end
      | _ => Err EType
      end
  | GMask g' =>
      match args with
      | VB check :: a =>
          if check then do x <- assess g' c a; Ok (fst x, VM true (snd x))
          else Ok (0, VM false VNone)        (* observationally: score check*s = 0, invalid mask *)
      | _ => Err EType
      end
  | GDimap pre g' post =>
      do ia <- eval_list args pre;
      do x <- assess g' c ia;
      do r <- eval [VT args; VT ia; snd x] post;
      Ok (fst x, r)
  end
with assess_body (b : sbody) (c : chm) (env : list val) (score : Z) {struct b} : res (Z * val) :=
  match b with
  | SRet e => do v <- eval env e; Ok (score, v)
  | SSite a g' aexprs rest =>
      do av <- eval_list env aexprs;
      let sub := csub_addr c a in
      if cis_empty sub then Err EMissingAddress
      else do x <- assess g' sub av;
           assess_body rest c (env ++ [snd x]) (score + fst x)
  end
with assess_branch (bs : gfs) (j : nat) (c : chm) (a : list val) {struct bs} : res (Z * val) :=
  match bs, j with
  | GNil, _ => Err EType
  | GCons g' _, O => assess g' c a
  | GCons _ r, S j' => assess_branch r j' c a
  end.

(* ---------------- generate ---------------- *)
Fixpoint generate (g : gf) (k : key) (c : chm) (args : list val) {struct g} : res (trace * Z) :=
  match g with
  | GDist d =>
      match args with
      | [VZ p] =>
          match cvalue c with
          | Some (VZ v) => Ok (TDist d args v (d_logpdf d v p), d_logpdf d v p)
          | Some (VM true (VZ v)) => Ok (TDist d args v (d_logpdf d v p), d_logpdf d v p)
          | Some (VM false _) | None =>
              let v := d_sample d k p in Ok (TDist d args v (d_logpdf d v p), 0)
          | _ => Err EType
          end
      | _ => Err EType
      end
  | GStatic b =>
      do r <- gen_body b k 1%N c args [] 0;
      let '(v, subs, w) := r in Ok (TStatic args v subs, w)
  | GVmap axes g' =>
      match vmap_len axes args with
      | None => Err EType
      | Some n =>
          do rs <- (fix go (is : list nat) : res (list (trace * Z)) :=
                      match is with
                      | [] => Ok []
                      | i :: r => do x <- generate g' (fold_in k (N.of_nat i)) (csub c (KI i)) (slice_args axes args i);
                                  do xs <- go r; Ok (x :: xs)
                      end) (seq 0 n);
          Ok (TVmap (map fst rs) args, zsum (map snd rs))
      end
  | GScan n g' =>
      match args with
      | [carry; xs] =>
          match (match n with Some m => Some m | None => leading_len xs end) with
          | None => Err EType
          | Some len =>
              do r <- (fix go (is : list nat) (cr : val) : res (list trace * val * list val * Z) :=
                         match is with
                         | [] => Ok ([], cr, [], 0)
                         | i :: r =>
                             do x <- generate g' (fold_in k (N.of_nat i)) (csub c (KI i)) [cr; slice0 xs i];
                             match t_retval (fst x) with
                             | VT [c'; y] => do rr <- go r c'; let '(ts, cf, ys, w) := rr in Ok (fst x :: ts, cf, y :: ys, snd x + w)
                             | _ => Err EType
                             end
                         end) (seq 0 len) carry;
              let '(ts, cf, ys, w) := r in
              Ok (TScan ts args (VT [cf; stack_vals ys]) (zsum (map t_score ts)), w)
          end
      | _ => Err EType
      end
  | GSwitch bs =>
      match args with
      | VZ idx :: bargs =>
          let j := clampZ idx (gfs_len bs) in
          match nth_error bargs j with
          | Some (VT a) =>
              do x <- gen_branch bs j k c a;
              Ok (TSwitch args j (fst x) (t_retval (fst x)) (t_score (fst x)), snd x)
          | _ => Err EType
          end
      | _ => Err EType
      end
  | GMask g' =>
      match args with
      | VB check :: a => do x <- generate g' k c a; Ok (TMask (fst x) check, if check then snd x else 0)
      | _ => Err EType
      end
  | GDimap pre g' post =>
      do ia <- eval_list args pre;
      do x <- generate g' k c ia;
      do r <- eval [VT args; VT ia; t_retval (fst x)] post;
      Ok (TDimap (fst x) args r, snd x)
  end
with gen_body (b : sbody) (k : key) (cnt : N) (c : chm) (env : list val) (acc : list (addr * trace)) (w : Z) {struct b}
  : res (val * list (addr * trace) * Z) :=
  match b with
  | SRet e => do v <- eval env e; Ok (v, acc, w)
  | SSite a g' aexprs rest =>
      do av <- eval_list env aexprs;
      do x <- generate g' (fold_in k cnt) (csub_addr c a) av;
      if existsb (fun p => addr_eqb (fst p) a) acc then Err EAddressReuse
      else gen_body rest k (cnt + 1)%N c (env ++ [t_retval (fst x)]) (acc ++ [(a, fst x)]) (w + snd x)
  end
with gen_branch (bs : gfs) (j : nat) (k : key) (c : chm) (a : list val) {struct bs} : res (trace * Z) :=
  match bs, j with
  | GNil, _ => Err EType
  | GCons g' _, O => generate g' k c a
  | GCons _ r, S j' => gen_branch r j' k c a
  end.

(* ---------------- project ---------------- *)
Definition sel_addr (s : sel) (a : addr) : sel := call s a.

Fixpoint project (t : trace) (s : sel) {struct t} : res Z :=
  match t with
  | TDist _ _ _ sc => Ok (if check s then sc else 0)
  | TStatic _ _ subs =>
      (fix go (l : list (addr * trace)) : res Z :=
         match l with
         | [] => Ok 0
         | (a, x) :: r => do w <- project x (sel_addr s a); do ws <- go r; Ok (w + ws)
         end) subs
  | TVmap inner _ | TScan inner _ _ _ =>
      (fix go (l : list trace) : res Z :=
         match l with
         | [] => Ok 0
         | x :: r => do w <- project x s; do ws <- go r; Ok (w + ws)
         end) inner
  | TSwitch _ _ sub _ _ => project sub s
  | TMask _ _ => Err ENotSupported
  | TDimap inner _ _ => project inner s
  end.

(* ---------------- get_subtrace (one address component path) ---------------- *)
Fixpoint subs_get (subs : list (addr * trace)) (a : addr) : option trace :=
  match subs with
  | [] => None
  | (a', t) :: r => if addr_eqb a a' then Some t else subs_get r a
  end.
Fixpoint get_inner_trace (t : trace) (a : addr) {struct t} : res trace :=
  match t with
  | TStatic _ _ subs => match subs_get subs a with Some x => Ok x | None => Err EOther end
  | TSwitch _ _ sub _ _ => get_inner_trace sub a
  | TMask inner _ => get_inner_trace inner a
  | TDimap inner _ _ => get_inner_trace inner a
  | TDist _ _ _ _ => Err ENotSupported
  | TVmap _ _ | TScan _ _ _ _ => Err ENotSupported   (* stacked sub-traces: observed through the vector ops below *)
  end.
