"""C01/C14: a masked masked function: simulate builds its return value with Mask.build (flags conjoined), but
assess built it with the raw Mask constructor, which refuses a Mask inside a Mask, so assess on the trace's own
choices and arguments raised AssertionError.   exit 0 = property holds, exit 1 = defect shows."""
import sys, os
os.environ.setdefault("JAX_PLATFORMS", "cpu")
import jax, jax.numpy as jnp, genjax

@genjax.gen
def f(x):
    return genjax.normal(x, 1.0) @ "x"

m = f.mask().mask()
args = (jnp.array(True), jnp.array(True), 1.0)
tr = m.simulate(jax.random.key(0), args)
try:
    s, r = m.assess(tr.get_choices(), tr.get_args())
    ok = bool(jnp.allclose(s, tr.get_score())) and bool(jnp.allclose(r.value, tr.get_retval().value)) and bool(r.primal_flag()) == bool(tr.get_retval().primal_flag())
    print("assess ->", s, r, "OK" if ok else "WRONG"); sys.exit(0 if ok else 1)
except Exception as e:
    print("assess raised", type(e).__name__, str(e)[:120]); sys.exit(1)
