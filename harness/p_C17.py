"""C17 — choice-map queries agree with a finite-map model.  Engine A-chm.

Tie: random construction expressions (harness/chm_engine.py) are realised on the
implementation; every query answer is shipped to Coq, where coq/model/Chm.v evaluates
the same expression (`cmismatches`).  Direct oracle: an independent finite map (a
Python dict from element addresses to numbers, `chm_engine.Ref`) gives the expected
valid elements of every lookup."""
import json
from . import core
from . import chm_engine as E


def run_cases(cases):
    out = []
    for e, qs in cases:
        built, ans = E.run_expr(e, qs)
        out.append((built, ans))
    return out


def plain(e):
    """no array-flag masks, no traced switch, no vmapped flags: `mask(False)` must give Static({})"""
    for x in E.subexprs(e):
        if x[0] == "switch" and x[1][0] == "ar": return False
        if x[0] == "mask" and x[1][0] != "py": return False
        if x[0] in ("choice",) and x[1][1] is not None and x[1][1][0] != "py": return False
        if x[0] == "updconst" and x[3][1] is not None: return False
        if x[0] == "sub" and any(c[0] != "s" for c in x[2]): return False       # a lookup through an index level may mask with an array flag
        if x[0] in ("updid", "updconst") and any(c[0] != "s" for c in x[2]): return False   # update looks the address up first
    return True


def oracle_case(e, qs, built, ans):
    """[(query, answer, why)] violations of the finite-map reading; counts of checked / skipped"""
    bad, checked, skipped = [], 0, 0
    if built is not None:
        return bad, 0, len(qs)
    try:
        ref = E.ref_eval(e)
    except E.OutOfRegion:
        ref = None
    for q, a in zip(qs, ans):
        if q[0] == "look":
            if ref is None:
                skipped += 1
            else:
                checked += 1
                why = E.oracle_look(ref, q, a)
                if why:
                    bad.append((q, a, why))
            # mask(False) of a map without array flags is statically empty
            if e[0] == "mask" and e[1] == ("py", False) and plain(e[2]) and q[1] == [] and a[0] == "look":
                checked += 1
                if not a[1]:
                    bad.append((q, a, "mask(False) of a map without array flags is not statically empty"))
        elif q[0] == "sel" and a[0] == "sel" and not E.has_index_level(e):
            # get_selection selects exactly the addresses `in` the map (claimed where no index level is involved)
            checked += 1
            if len(a) > 2 and a[1] != a[2]:
                bad.append((q, a, f"get_selection()[{q[1]}] = {a[1]} but ({q[1]} in chm) = {a[2]}"))
    return bad, checked, skipped


def observe_all(e, qs):
    """run_expr plus, for selection queries, the `in` answer the oracle compares with"""
    try:
        chm = E.realise(e)
    except E.Unknown:
        raise
    except Exception as ex:
        return E.classify(ex), []
    ans = []
    for q in qs:
        a = E.observe(chm, q)
        if q[0] == "sel" and a[0] == "sel":
            try:
                a = a + [bool(tuple(q[1]) in chm)]
            except Exception:
                pass
        ans.append(a)
    return None, ans


def run(ctx):
    ctx.proofs()
    rng = ctx.rng
    n = ctx.n(1000, 15000)
    cases = [E.gen_case(rng) for _ in range(n)]
    cases += [E.gen_malformed(rng) for _ in range(ctx.n(60, 400))]
    results = []
    for e, qs in cases:
        try:
            results.append(observe_all(e, qs))
        except E.Unknown as u:
            ctx.fail("tie", f"the implementation raised an exception outside the enum on {e}: {u}", case={"expr": e, "queries": qs})
            results.append(("EUnsup", []))
    # ---- direct oracle -----------------------------------------------------------
    nbad = checked = skipped = 0
    for (e, qs), (built, ans) in zip(cases, results):
        bad, c, s = oracle_case(e, qs, built, ans)
        checked += c; skipped += s
        for q, a, why in bad:
            nbad += 1
            if nbad <= 3:
                ctx.fail("oracle", f"{why}; expression {e}", case={"expr": e, "query": q})
    # ---- thorough: the same cases inside jax.jit (array flags / indices / leaves are tracers) ----
    njit = 0
    if not ctx.quick:
        strip = lambda ans: [a[:2] if a[0] == "sel" else a for a in ans]
        for (e, qs), (built, ans) in list(zip(cases, results))[:ctx.n(0, 1000)]:
            try:
                bj, aj = E.run_expr_jit(e, qs)
            except E.Unknown as u:
                ctx.fail("tie", f"under jit the implementation raised an exception outside the enum on {e}: {u}", case={"expr": e, "queries": qs})
                continue
            njit += 1
            if (bj, aj) != (built, strip(ans)):
                ctx.fail("correspondence", f"jit and eager answers differ on {e}: eager {built} {strip(ans)}, jit {bj} {aj}", case=None)
                bad, c, s_ = oracle_case(e, qs, bj, aj)
                for q, a, why in bad[:1]:
                    nbad += 1
                    ctx.fail("oracle", f"under jit: {why}; expression {e}", case={"expr": e, "query": q, "jit": True})
    # ---- correspondence inside Coq -------------------------------------------------
    terms = [E.c_case_expr(e, built, qs, [a[:2] if a[0] == "sel" else a for a in ans]) for (e, qs), (built, ans) in zip(cases, results)]
    outside = list(E.OUTSIDE.items())
    out_res = [observe_all(e, qs) for _, (e, qs) in outside]
    terms += [E.c_case_expr(e, built, qs, [a[:2] if a[0] == "sel" else a for a in ans]) for (_, (e, qs)), (built, ans) in zip(outside, out_res)]
    mism, errs = core.coq_mismatches("C17", E.COQ_HEADER, terms, "ccase", fn="cmismatches", shard=200)
    for er in errs[:2]:
        ctx.fail("correspondence", "A-chm case file did not evaluate: " + er)
    shown = 0
    for i in mism:
        if i >= len(cases):
            name = outside[i - len(cases)][0]
            ctx.fail("correspondence", f"model coq/model/Chm.v and implementation disagree on the outside-region witness {name}: implementation answers {out_res[i - len(cases)]}",
                     case=None)
            continue
        (e, qs), (built, ans) = cases[i], results[i]
        shown += 1
        if shown <= 3:
            ctx.fail("correspondence", f"model coq/model/Chm.v and implementation disagree on {e}: implementation raised {built}, answered {list(zip(qs, ans))}",
                     case=None)
            # search around the mismatch for an input on which the property itself fails
            if nbad == 0 and built is None:
                g = E.Gen(__import__("random").Random(i))
                g.paths = E.Gen(rng).paths or []
                extra = [q for q in qs]
                for q, a in zip(qs, ans):
                    if q[0] == "look":
                        for cut in range(len(q[1]) + 1):
                            extra.append(("look", q[1][:cut]))
                            extra.append(("look", q[1][:cut] + [("py", 0)]))
                            extra.append(("look", q[1][:cut] + [("py", 1)]))
                b2, a2 = observe_all(e, extra)
                bad, _, _ = oracle_case(e, extra, b2, a2)
                for q, a, why in bad[:1]:
                    nbad += 1
                    ctx.fail("oracle", f"{why}; expression {e}", case={"expr": e, "query": q})
    # ---- outside-region witnesses: informational ---------------------------------------
    for (name, (e, qs)), (built, ans) in zip(outside, out_res):
        bad, _, _ = oracle_case(e, qs, built, ans) if name != "get_selection_under_index" else ([], 0, 0)
        ctx.log(f"note: outside-region witness {name}: implementation answers {ans}")
    # ---- coverage ----------------------------------------------------------------------
    cov = ctx.cov
    cov["evaluations"] = sum(len(qs) for e, qs in cases)
    cov["traces_validated_against_impl"] = len(cases) + len(outside) - len(mism)
    nontriv = set()
    by_op, by_ans = {}, {}
    for (e, qs), (built, ans) in zip(cases, results):
        for x in E.subexprs(e):
            by_op[x[0]] = by_op.get(x[0], 0) + 1
        if built is not None:
            by_ans["construction raised " + built] = by_ans.get("construction raised " + built, 0) + 1
        for q, a in zip(qs, ans):
            kind = a[0] if a[0] != "look" else ("value" if a[2] is not None else "no value")
            if a[0] == "err": kind = "raised " + a[1]
            by_ans[kind] = by_ans.get(kind, 0) + 1
            if E.size(e) >= 3 and a[0] != "err":
                nontriv.add((json.dumps(e), json.dumps(q)))
    cov["distinct_nontrivial"] = len(nontriv)
    cov["rule"] = ("random construction expressions (builder set/entry/d/kw/from_mapping, at[..].set/update, |, mask with Python/array/vector flags, filter, extend, "
                   "switch with int/array index, get_submap, jax.vmap-built maps; depth <= 3, names a,b,c,d, indices 0..2, leaves of rank <= 2) x 6 lookups "
                   "(exact, missing, element, prefix, index-first, junk; int and 0-d array components) + 2 get_selection queries, plus a malformed stream; "
                   "non-trivial = expression with >= 3 nodes and a query that did not raise; distinct by (expression, query)")
    cov["by_kind"] = by_op
    cov["answers"] = by_ans
    cov["oracle_checked"] = checked
    cov["oracle_skipped_outside_region"] = skipped
    cov["cases_also_run_under_jit"] = njit
    cov["exhaustive"] = False
    import genjax
    cov["genjax_file"] = genjax.__file__
    ctx.add_samples([{"expr": e, "queries": qs[:2], "impl": ans[:2]} for (e, qs), (built, ans) in list(zip(cases, results))[:3]])


def replay(case):
    e, q = E_tuple(case["expr"]), E_tuple(case["query"])
    built, ans = E.run_expr_jit(e, [q]) if case.get("jit") else observe_all(e, [q])
    bad, checked, _ = oracle_case(e, [q], built, ans)
    print(f"expression {e}\nquery {q}: implementation {'raised ' + built if built else ans[0]}")
    for _, _, why in bad:
        print("  " + why)
    return not bad


def E_tuple(x):
    """JSON lists back to the tuples the engine uses (lists stay lists where the grammar has lists)"""
    if isinstance(x, list) and x and isinstance(x[0], str) and x[0] in (
            "empty", "choice", "entry", "setc", "d", "set", "updid", "updconst", "or", "mask", "filter", "extend", "switch", "sub", "vmap",
            "look", "sel", "s", "py", "ar", "vec", "hole", "v", "c"):
        if x[0] == "filter":
            return ("filter", E.tup(x[1]), E_tuple(x[2]))
        return tuple(E_tuple(y) for y in x)
    if isinstance(x, list):
        return [E_tuple(y) for y in x]
    return x
