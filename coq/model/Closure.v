(* Model of GenerativeFunctionClosure, IgnoreKwargs (core/generative/generative_function.py),
   StaticGenerativeFunction.partial_apply / handle_kwargs (generative_functions/static.py) and
   Closure.__call__ (core/pytree.py)  (C32).

   Part 1: a generic generative function as a record of its five primitive GFI methods over an
           abstract argument package X (and XD for argdiffs), the derived methods, and
           `closure g gk stored kw` written method by method as the class is.
   Part 2: the source level of the static language: partial_apply and handle_kwargs.
   Part 3: two executable instances used by the correspondence: closures over the probe
           distributions of Dist.v (fully predicted), and closures / partial applications over
           an underlying function given by a table of its observed behaviour. *)
From Coq Require Import List Bool ZArith NArith.
Import ListNotations.
From Model Require Import Kwargs Dist.
Open Scope Z_scope.

Definition is_empty {B} (l : list B) : bool := match l with [] => true | _ => false end.

(* ------------------------------------------------------------------------- *)
Section GFI.
(* key, constraint (choice map), selection, edit request, trace, whatever a method returns,
   argument value *)
Variables K C S Rq T O A : Type.

Definition kwargs := kwd A.
Definition dval := (A * tag)%type.           (* Diff(primal, tangent) *)
Definition dargs := list dval.
Definition dkwargs := kwd dval.

Record gfi (X XD : Type) := mkG {
  gsim : K -> X -> O;
  gassess : C -> X -> O;
  ggen : K -> C -> X -> O;
  gproject : K -> T -> S -> O;
  gedit : K -> T -> Rq -> XD -> O }.
Arguments gsim {X XD}. Arguments gassess {X XD}. Arguments ggen {X XD}.
Arguments gproject {X XD}. Arguments gedit {X XD}.

Variable mk_update : C -> Rq.       (* Update(constraint) *)
Variable un_update : O -> O.        (* (tr, w, rd, bwd) |-> (tr, w, rd, bwd.constraint) *)
Variable to_propose : O -> O.       (* tr |-> (tr.get_choices(), tr.get_score(), tr.get_retval()) *)
Variable to_retval : O -> O.        (* tr |-> tr.get_retval() *)

(* GenerativeFunction.importance / propose; `update` as GenerativeFunctionClosure.update
   defines it (through the object's own edit) *)
Definition gimportance {X XD} (g : gfi X XD) := ggen g.
Definition gpropose {X XD} (g : gfi X XD) (k : K) (x : X) : O := to_propose (gsim g k x).
Definition gupdate {X XD} (g : gfi X XD) (k : K) (t : T) (c : C) (ad : XD) : O :=
  un_update (gedit g k t (mk_update c) ad).

(* Diff.unknown_change(self.args), Diff.unknown_change(self.kwargs) *)
Definition unknown_change (l : list A) : dargs := map (fun a => (a, Unknown)) l.
Definition no_change (l : list A) : dargs := map (fun a => (a, NoChange)) l.
Definition unknown_kw (kw : kwargs) : dkwargs := map (fun p => (fst p, (snd p, Unknown))) kw.

Definition pos_gfi := gfi (list A) dargs.
Definition kw_gfi := gfi (list A * kwargs) (dargs * dkwargs).

(* GenerativeFunctionClosure(gen_fn, args, kwargs); gk = gen_fn.handle_kwargs().
   Every method: `full_args = self.args + args; if self.kwargs: kwarged.m(.., (full_args, self.kwargs))
   else: self.gen_fn.m(.., full_args)`; project forwards to gen_fn.project;
   edit prepends Diff.unknown_change(self.args) and tags the kwargs unknown_change. *)
Definition closure (g : pos_gfi) (gk : kw_gfi) (stored : list A) (kw : kwargs) : pos_gfi :=
  mkG _ _
    (fun k args => if is_empty kw then gsim g k (stored ++ args) else gsim gk k (stored ++ args, kw))
    (fun c args => if is_empty kw then gassess g c (stored ++ args) else gassess gk c (stored ++ args, kw))
    (fun k c args => if is_empty kw then ggen g k c (stored ++ args) else ggen gk k c (stored ++ args, kw))
    (fun k t s => gproject g k t s)
    (fun k t r ad =>
       let full := unknown_change stored ++ ad in
       if is_empty kw then gedit g k t r full else gedit gk k t r (full, unknown_kw kw)).

(* GenerativeFunctionClosure.__call__(key, *args, **kwargs): full_kwargs = self.kwargs | kwargs *)
Definition closure_call (g : pos_gfi) (gk : kw_gfi) (stored : list A) (kw : kwargs)
           (k : K) (args : list A) (kw2 : kwargs) : O :=
  let full_kw := merge kw kw2 in
  to_retval (if is_empty full_kw then gsim g k (stored ++ args) else gsim gk k (stored ++ args, full_kw)).

(* GenerativeFunctionClosure.__matmul__: what is handed to `trace(addr, gen_fn, args)` *)
Definition closure_callee (g : pos_gfi) (gk : kw_gfi) (stored : list A) (kw : kwargs)
  : (pos_gfi * list A) + (kw_gfi * (list A * kwargs)) :=
  if is_empty kw then inl (g, stored) else inr (gk, (stored, kw)).
Definition callee_sim (ce : (pos_gfi * list A) + (kw_gfi * (list A * kwargs))) (k : K) : O :=
  match ce with inl (g, a) => gsim g k a | inr (gk, x) => gsim gk k x end.

(* IgnoreKwargs(wrapped): the default handle_kwargs of every generative function that does not
   override it (combinators, closures): `(args, _kwargs) = args` *)
Definition ignore_kwargs (g : pos_gfi) : kw_gfi :=
  mkG _ _
    (fun k x => gsim g k (fst x))
    (fun c x => gassess g c (fst x))
    (fun k c x => ggen g k c (fst x))
    (fun k t s => gproject g k t s)
    (fun k t r xd => gedit g k t r (fst xd)).

(* a generative function whose stored arguments enter as constants of its source
   (StaticGenerativeFunction.partial_apply): no change tag is attached to them; in `edit`
   they behave as NoChange values *)
Definition papply_pos (g : pos_gfi) (dyn : list A) : pos_gfi :=
  mkG _ _
    (fun k args => gsim g k (dyn ++ args))
    (fun c args => gassess g c (dyn ++ args))
    (fun k c args => ggen g k c (dyn ++ args))
    (fun k t s => gproject g k t s)
    (fun k t r ad => gedit g k t r (no_change dyn ++ ad)).
Definition papply_kw (gk : kw_gfi) (dyn : list A) : kw_gfi :=
  mkG _ _
    (fun k x => gsim gk k (dyn ++ fst x, snd x))
    (fun c x => gassess gk c (dyn ++ fst x, snd x))
    (fun k c x => ggen gk k c (dyn ++ fst x, snd x))
    (fun k t s => gproject gk k t s)
    (fun k t r xd => gedit gk k t r (no_change dyn ++ fst xd, snd xd)).

End GFI.

Arguments gsim {K C S Rq T O X XD}. Arguments gassess {K C S Rq T O X XD}. Arguments ggen {K C S Rq T O X XD}.
Arguments gproject {K C S Rq T O X XD}. Arguments gedit {K C S Rq T O X XD}.
Arguments mkG {K C S Rq T O X XD}.
Arguments closure {K C S Rq T O A}. Arguments closure_call {K C S Rq T O A}.
Arguments closure_callee {K C S Rq T O A}. Arguments callee_sim {K C S Rq T O A}.
Arguments ignore_kwargs {K C S Rq T O A}. Arguments papply_pos {K C S Rq T O A}. Arguments papply_kw {K C S Rq T O A}.
Arguments gimportance {K C S Rq T O X XD}. Arguments gpropose {K C S Rq T O} to_propose {X XD}.
Arguments gupdate {K C S Rq T O} mk_update un_update {X XD}.
Arguments unknown_change {A}. Arguments no_change {A}. Arguments unknown_kw {A}.

(* ------------------------------------------------------------------------- *)
(* Part 2: the source of a static generative function.
   pytree.Closure(dyn_args, fn).__call__( *args, **kwargs) = fn( *dyn_args, *args, **kwargs)
   partial_apply( *args)        = gen(Closure(self.source.dyn_args + args, self.source.fn))
   handle_kwargs: kwarged_source(args, kwargs) = self.source( *args, **kwargs)           *)
Section Source.
Variables V B : Type.          (* argument values; what running the Python body yields *)
Variable sig : sigt V.         (* the Python function's parameters and defaults *)
Variable fn : list V -> B.     (* the body on fully bound parameters, in signature order *)
Variable type_error : B.

Definition src_call (dyn : list V) (args : list V) (kw : kwd V) : B :=
  match bind sig (dyn ++ args) kw with Some full => fn full | None => type_error end.
Definition partial_apply (dyn extra : list V) : list V := dyn ++ extra.
Definition kwarged_source (dyn : list V) (x : list V * kwd V) : B := src_call dyn (fst x) (snd x).
End Source.
Arguments src_call {V B}. Arguments partial_apply {V}. Arguments kwarged_source {V B}.

(* ------------------------------------------------------------------------- *)
(* Part 3a: closures over the probe distributions of Dist.v *)
Definition dtrace := @trace (list aval) (list Z).
Inductive dreq := RUpdate (c : @constraint (list Z)) | RRegen (selected : bool).
Inductive dobs :=
| OTr (t : dtrace)
| OAs (s : Z) (v : list Z)
| OGn (t : dtrace) (w : Z)
| OW (w : Z)
| OEd (e : @edit_out (list aval) (list Z))
| OPr (c : list Z) (s : Z) (r : list Z)
| ORet (r : list Z).

Definition all_nochange (ad : list (Z * tag)) : bool :=
  forallb (fun p => match snd p with NoChange => true | Unknown => false end) ad.

(* one probe distribution seen through the generic record: `pack` turns the record's argument
   package into the tuple the distribution's methods receive *)
Definition dist_methods {X XD} (d : nat) (pack : X -> list aval) (packd : XD -> list aval * bool)
  : gfi pkey (@constraint (list Z)) bool dreq dtrace (option dobs) X XD :=
  let Sm := pd_sample d in
  let Lg := pd_logprob d in
  mkG
    (fun k x => if args_ok d (pack x) then Some (OTr (simulate _ _ _ Sm Lg k (pack x))) else None)
    (fun c x => if args_ok d (pack x)
                then match assess _ _ Lg c (pack x) with Some (s, v) => Some (OAs s v) | None => None end
                else None)
    (fun k c x => if args_ok d (pack x)
                  then let '(t, w) := generate _ _ _ Sm Lg k c (pack x) in Some (OGn t w) else None)
    (fun k t s => Some (OW (project _ _ t s)))
    (fun k t r xd =>
       let '(a', nc) := packd xd in
       if args_ok d a' then
         match r with
         | RUpdate c => Some (OEd (edit_update _ _ _ Lg k t c a'))
         | RRegen s => Some (OEd (edit_regenerate _ _ _ Sm Lg k t s a' nc))
         end
       else None).

Definition dist_pos (d : nat) :=
  dist_methods d (fun a : list Z => map AZ a)
               (fun ad : list (Z * tag) => (map (fun p => AZ (fst p)) ad, all_nochange ad)).
(* handle_kwargs() of a distribution is the distribution: it receives (args tuple, kwargs dict) *)
Definition dist_kw (d : nat) :=
  dist_methods d (fun x : list Z * kwd Z => [ATup (fst x); ADict (snd x)])
               (fun xd : list (Z * tag) * kwd (Z * tag) =>
                  ([ATup (map fst (fst xd)); ADict (map (fun p => (fst p, fst (snd p))) (snd xd))],
                   all_nochange (fst xd) && all_nochange (map snd (snd xd)))).

Definition d_to_propose (o : option dobs) : option dobs :=
  match o with Some (OTr t) => Some (OPr (t_value t) (t_score t) (t_value t)) | _ => None end.
Definition d_to_retval (o : option dobs) : option dobs :=
  match o with Some (OTr t) => Some (ORet (t_value t)) | _ => None end.

Definition flat_dobs (o : dobs) : list Z :=
  match o with
  | OTr t => obs_trace t
  | OAs s v => s :: v
  | OGn t w => t_value t ++ [t_score t; w]
  | OW w => [w]
  | OEd e => obs_edit e
  | OPr c s r => c ++ [s] ++ r
  | ORet r => r
  end.

Inductive cop :=
| CSim | CPropose
| CAssess (c : @constraint (list Z)) | CGen (c : @constraint (list Z)) | CImp (c : @constraint (list Z))
| CProject (s : bool)
| CEdit (r : dreq) (ad : list (Z * tag))
| CUpdate (c : @constraint (list Z)) (ad : list (Z * tag))
| CCall (kw2 : kwd Z).

(* the closure d( *stored, **kw); trace-consuming operations start from closure.simulate(k0, args0) *)
Definition run_cdist (d : nat) (stored : list Z) (kw : kwd Z) (k0 : pkey) (args0 : list Z) (k : pkey) (op : cop)
  : option (list Z) :=
  let clo := closure (dist_pos d) (dist_kw d) stored kw in
  let out :=
    match op with
    | CSim => gsim clo k args0
    | CPropose => gpropose d_to_propose clo k args0
    | CAssess c => gassess clo c args0
    | CGen c => ggen clo k c args0
    | CImp c => gimportance clo k c args0
    | CCall kw2 => closure_call d_to_retval (dist_pos d) (dist_kw d) stored kw k args0 kw2
    | CProject _ | CEdit _ _ | CUpdate _ _ =>
        match gsim clo k0 args0 with
        | Some (OTr t0) =>
            match op with
            | CProject s => gproject clo k t0 s
            | CEdit r ad => gedit clo k t0 r ad
            | CUpdate c ad => gupdate RUpdate (fun o => o) clo k t0 c ad
            | _ => None
            end
        | _ => None
        end
    end in
  option_map flat_dobs out.

(* Part 3b: an underlying function given by the table of what the implementation returned for
   each way of calling it.  A call is (method, tagged positional arguments, packaged kwargs or
   None for the positional form); keys, constraint, selection, request and trace are those of the
   case and do not vary. *)
Definition tz (t : tag) : bool := match t with Unknown => true | NoChange => false end.
Definition ucall := (nat * list (Z * bool) * option (list (nat * (Z * bool))))%type.
Definition zb_eqb (a b : Z * bool) : bool := Z.eqb (fst a) (fst b) && Bool.eqb (snd a) (snd b).
Fixpoint list_eqb {B} (eq : B -> B -> bool) (a b : list B) : bool :=
  match a, b with [], [] => true | x :: r, y :: s => eq x y && list_eqb eq r s | _, _ => false end.
Definition kwzb_eqb (a b : nat * (Z * bool)) : bool := Nat.eqb (fst a) (fst b) && zb_eqb (snd a) (snd b).
Definition ucall_eqb (a b : ucall) : bool :=
  let '(m1, a1, k1) := a in let '(m2, a2, k2) := b in
  Nat.eqb m1 m2 && list_eqb zb_eqb a1 a2 &&
  match k1, k2 with
  | None, None => true
  | Some x, Some y => list_eqb kwzb_eqb (kw_sorted x) (kw_sorted y)
  | _, _ => false
  end.
(* an observation: Some leaves, None when the call raised; a call missing from the table is a
   third value that never equals an implementation result *)
Inductive tobs := TOut (o : option (list Z)) | TMissing.
Fixpoint tlookup (tab : list (ucall * option (list Z))) (c : ucall) : tobs :=
  match tab with
  | [] => TMissing
  | (c', o) :: r => if ucall_eqb c c' then TOut o else tlookup r c
  end.

(* methods: 0 simulate 1 assess 2 generate 3 project 4 edit; derived: 5 importance 6 update
   7 propose 8 call 9 callee.  The table stores the *primitive* the derived method runs
   (generate for importance, edit for update, simulate for propose/call/callee) already mapped
   through the projection the derived method applies, under the derived method's number. *)
Definition plainz (a : list Z) : list (Z * bool) := map (fun z => (z, false)) a.
Definition tagz (ad : list (Z * tag)) : list (Z * bool) := map (fun p => (fst p, tz (snd p))) ad.
Definition table_pos (tab : list (ucall * option (list Z))) (m_sim m_gen m_edit : nat)
  : gfi unit unit unit unit unit tobs (list Z) (list (Z * tag)) :=
  mkG (fun _ a => tlookup tab (m_sim, plainz a, None))
      (fun _ a => tlookup tab (1%nat, plainz a, None))
      (fun _ _ a => tlookup tab (m_gen, plainz a, None))
      (fun _ _ _ => tlookup tab (3%nat, [], None))
      (fun _ _ _ ad => tlookup tab (m_edit, tagz ad, None)).
Definition table_kw (tab : list (ucall * option (list Z))) (m_sim m_gen m_edit : nat)
  : gfi unit unit unit unit unit tobs (list Z * kwd Z) (list (Z * tag) * kwd (Z * tag)) :=
  mkG (fun _ x => tlookup tab (m_sim, plainz (fst x), Some (map (fun p => (fst p, (snd p, false))) (snd x))))
      (fun _ x => tlookup tab (1%nat, plainz (fst x), Some (map (fun p => (fst p, (snd p, false))) (snd x))))
      (fun _ _ x => tlookup tab (m_gen, plainz (fst x), Some (map (fun p => (fst p, (snd p, false))) (snd x))))
      (fun _ _ _ => tlookup tab (3%nat, [], None))
      (fun _ _ _ xd => tlookup tab (m_edit, tagz (fst xd), Some (map (fun p => (fst p, (fst (snd p), tz (snd (snd p))))) (snd xd)))).

(* f.partial_apply( *dyn)( *stored, **kw) . method(args / argdiffs [, kw2]) *)
Definition run_ctab (tab : list (ucall * option (list Z))) (dyn stored : list Z) (kw : kwd Z)
           (m : nat) (ad : list (Z * tag)) (kw2 : kwd Z) : tobs :=
  let args := map fst ad in
  let mk ms mg me := closure (papply_pos (table_pos tab ms mg me) dyn) (papply_kw (table_kw tab ms mg me) dyn) stored kw in
  match m with
  | 0%nat => gsim (mk 0 2 4)%nat tt args
  | 1%nat => gassess (mk 0 2 4)%nat tt args
  | 2%nat => ggen (mk 0 2 4)%nat tt tt args
  | 3%nat => gproject (mk 0 2 4)%nat tt tt tt
  | 4%nat => gedit (mk 0 2 4)%nat tt tt tt ad
  | 5%nat => gimportance (mk 0 5 4)%nat tt tt args
  | 6%nat => gupdate (fun _ => tt) (fun o => o) (mk 0 2 6)%nat tt tt tt ad
  | 7%nat => gpropose (fun o => o) (mk 7 2 4)%nat tt args
  | 8%nat => closure_call (fun o => o) (papply_pos (table_pos tab 8 2 4) dyn) (papply_kw (table_kw tab 8 2 4) dyn) stored kw tt args kw2
  | 9%nat => callee_sim (closure_callee (papply_pos (table_pos tab 9 2 4) dyn) (papply_kw (table_kw tab 9 2 4) dyn) (stored ++ args) kw) tt
  | _ => TMissing
  end.

(* ---- correspondence cases ---- *)
Inductive ccase :=
| CCDist (d : nat) (stored : list Z) (kw : kwd Z) (k0 : pkey) (args0 : list Z) (k : pkey) (op : cop)
         (want : option (list Z))
| CCTab (tab : list (ucall * option (list Z))) (dyn stored : list Z) (kw : kwd Z) (m : nat)
        (ad : list (Z * tag)) (kw2 : kwd Z) (want : option (list Z)).

Definition tobs_eqb (a : tobs) (w : option (list Z)) : bool :=
  match a with TOut o => oz_eqb o w | TMissing => false end.
Definition ccase_ok (c : ccase) : bool :=
  match c with
  | CCDist d stored kw k0 args0 k op want => oz_eqb (run_cdist d stored kw k0 args0 k op) want
  | CCTab tab dyn stored kw m ad kw2 want => tobs_eqb (run_ctab tab dyn stored kw m ad kw2) want
  end.
Fixpoint cmismatches_from (n : nat) (cs : list ccase) : list nat :=
  match cs with
  | [] => []
  | c :: r => if ccase_ok c then cmismatches_from (S n) r else n :: cmismatches_from (S n) r
  end.
Definition cmismatches := cmismatches_from 0.
