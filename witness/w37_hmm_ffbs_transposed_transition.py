"""defect witness (C37): DiscreteHMM's forward filter contracts prev[j] * transition_n[i, j]
(column index = previous state) while its backward pass and estimate_logpdf use
transition_n[prev, next].  When the transition table is not symmetric
(2 * adjacency_distance_trans > linear_grid_dim) random_weighted does not draw from the
posterior that estimate_logpdf defines: here x_T is drawn from exp(forward_filters[-1]),
which differs from the posterior marginal of x_T.  exit 1 = defect shows, 0 = consistent."""
import sys, itertools, numpy as np, jax, jax.numpy as jnp
from genjax._src.generative_functions.distributions.custom.discrete_hmm import (
    DiscreteHMM, DiscreteHMMConfiguration, forward_filtering_backward_sampling)

cfg = DiscreteHMMConfiguration(jnp.array(3), jnp.array(2), jnp.array(1), jnp.array(2.0), jnp.array(0.5))
obs = jnp.array([0, 0, 0])
lats = jnp.array(list(itertools.product(range(3), repeat=3)))
post = np.exp(np.asarray(jax.vmap(lambda l: DiscreteHMM.estimate_logpdf(jax.random.key(0), l, cfg, obs))(lats)))
marg_last = np.array([post[np.asarray(lats)[:, -1] == i].sum() for i in range(3)])   # p(x_T = i | y) from the density
_, (_, filters) = forward_filtering_backward_sampling(jax.random.key(1), cfg, obs)
drawn_from = np.exp(np.asarray(filters[-1]))                                        # what x_T is sampled from
bad = float(np.abs(drawn_from - marg_last).max())
print("FAIL" if bad > 1e-3 else "OK", "sampler's law of x_T", drawn_from.round(4), "posterior marginal of x_T", marg_last.round(4), "sum post", post.sum().round(5))
sys.exit(1 if bad > 1e-3 else 0)
