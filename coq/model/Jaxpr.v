(* Jaxprs, the interpreter Environment of genjax, and ordinary evaluation.

   Syntax: a jaxpr is `{ lambda constvars ; invars . let eqns in outvars }`; each
   equation is `outvars := prim[params] invars`.  Atoms are jax.core.Var
   (identified, as genjax's Environment does, by `var.count`), jax.core.Literal
   (carrying `.val`) and jax.core.DropVar (`_`).  A primitive's static params
   (including sub-jaxprs of cond/scan/while/pjit) are part of `prim`.

   Environment: genjax/_src/core/compiler/interpreters/environment.py.
   Reference evaluator: jax.core.eval_jaxpr ("ordinary evaluation"), written
   with a *functional* environment so that it shares no code with the
   interpreter models.

   No proofs in this file. *)
From Coq Require Import List Bool ZArith.
Import ListNotations.

(* ---- option monad helpers ---- *)
Definition obind {A B} (x : option A) (f : A -> option B) : option B :=
  match x with Some a => f a | None => None end.
Fixpoint mapM {A B} (f : A -> option B) (l : list A) : option (list B) :=
  match l with
  | [] => Some []
  | a :: r => match f a with
              | Some b => match mapM f r with Some bs => Some (b :: bs) | None => None end
              | None => None
              end
  end.

(* ---- syntax ---- *)
Section Syntax.
  Variables prim val : Type.
  Inductive atom := AVar (n : nat) | ALit (v : val) | ADrop.
  Record eqn := mkEqn { e_prim : prim; e_in : list atom; e_out : list atom }.
  Record jaxpr := mkJaxpr { j_const : list atom; j_in : list atom; j_eqns : list eqn; j_out : list atom }.
End Syntax.
Arguments AVar {val} n.
Arguments ALit {val} v.
Arguments ADrop {val}.
Arguments mkEqn {prim val} _ _ _.
Arguments e_prim {prim val} _.
Arguments e_in {prim val} _.
Arguments e_out {prim val} _.
Arguments mkJaxpr {prim val} _ _ _ _.
Arguments j_const {prim val} _.
Arguments j_in {prim val} _.
Arguments j_eqns {prim val} _.
Arguments j_out {prim val} _.

(* ---- environment.py: class Environment ---- *)
Section Environment.
  Variables val C : Type.
  (* what `read` returns for a Literal: `var.val` seen as a cell *)
  Variable of_lit : val -> C.

  (* `env: dict[int, Any]`, keyed by `var.count`; insertion-ordered dict *)
  Definition env := list (nat * C).
  Fixpoint env_get (e : env) (n : nat) : option C :=
    match e with
    | [] => None
    | (m, c) :: r => if Nat.eqb m n then Some c else env_get r n
    end.
  (* `self.env[var.count] = cell` *)
  Fixpoint env_set (e : env) (n : nat) (c : C) : env :=
    match e with
    | [] => [(n, c)]
    | (m, d) :: r => if Nat.eqb m n then (m, c) :: r else (m, d) :: env_set r n c
    end.

  (* Environment.get / Environment.read: a Literal gives `var.val`; a Var its cell
     or ValueError("Unbound variable") = None.  A DropVar is a Var with a count of
     its own that `write` never stores, hence unbound. *)
  Definition read (e : env) (a : atom val) : option C :=
    match a with
    | ALit v => Some (of_lit v)
    | AVar n => env_get e n
    | ADrop => None
    end.
  (* Environment.write: `if isinstance(var, Literal): return cell`;
     `if isinstance(var, jc.DropVar): return cur_cell`; else store *)
  Definition write (e : env) (a : atom val) (c : C) : env :=
    match a with
    | ALit _ => e
    | ADrop => e
    | AVar n => env_set e n c
    end.

  (* jax_util.safe_map(env.write, vars, cells): lengths must agree *)
  Fixpoint write_many (e : env) (vs : list (atom val)) (cs : list C) : option env :=
    match vs, cs with
    | [], [] => Some e
    | v :: vs', c :: cs' => write_many (write e v c) vs' cs'
    | _, _ => None
    end.
  (* jax_util.safe_map(env.read, vars) *)
  Definition read_many (e : env) (vs : list (atom val)) : option (list C) := mapM (read e) vs.
End Environment.
Arguments env_get {C} e n.
Arguments env_set {C} e n c.
Arguments read {val C} of_lit e a.
Arguments write {val C} e a c.
Arguments write_many {val C} e vs cs.
Arguments read_many {val C} of_lit e vs.

(* ---- ordinary evaluation: jax.core.eval_jaxpr ---- *)
Section Reference.
  Variables prim val : Type.
  (* the meaning of `prim.bind( *args, **params)`: None = the primitive raises *)
  Variable psem : prim -> list val -> option (list val).

  Definition renv := nat -> option val.
  Definition rempty : renv := fun _ => None.
  (* `read(v) = v.val if type(v) is Literal else env[v]` *)
  Definition rread (r : renv) (a : atom val) : option val :=
    match a with ALit v => Some v | AVar n => r n | ADrop => None end.
  (* `env[v] = val`; a DropVar is a key nothing reads *)
  Definition rwrite (r : renv) (a : atom val) (v : val) : renv :=
    match a with
    | AVar n => fun m => if Nat.eqb m n then Some v else r m
    | _ => r
    end.
  Fixpoint rwrite_many (r : renv) (vs : list (atom val)) (xs : list val) : option renv :=
    match vs, xs with
    | [], [] => Some r
    | v :: vs', x :: xs' => rwrite_many (rwrite r v x) vs' xs'
    | _, _ => None
    end.
  Definition ref_eqn (r : renv) (q : eqn prim val) : option renv :=
    obind (mapM (rread r) (e_in q)) (fun ins =>
    obind (psem (e_prim q) ins) (fun outs =>
    rwrite_many r (e_out q) outs)).
  Fixpoint ref_eqns (r : renv) (qs : list (eqn prim val)) : option renv :=
    match qs with
    | [] => Some r
    | q :: qs' => obind (ref_eqn r q) (fun r' => ref_eqns r' qs')
    end.
  Definition eval_ref (j : jaxpr prim val) (consts args : list val) : option (list val) :=
    obind (rwrite_many rempty (j_const j) consts) (fun r1 =>
    obind (rwrite_many r1 (j_in j) args) (fun r2 =>
    obind (ref_eqns r2 (j_eqns j)) (fun r3 =>
    mapM (rread r3) (j_out j)))).
End Reference.
Arguments rread {val} r a.
Arguments rwrite {val} r a v.
Arguments rwrite_many {val} r vs xs.
Arguments ref_eqn {prim val} psem r q.
Arguments ref_eqns {prim val} psem r qs.
Arguments eval_ref {prim val} psem j consts args.
