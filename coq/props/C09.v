(* C09 — the incremental interpreter computes the same values with sound change tags.
   Model: coq/model/Jaxpr.v (jaxprs, genjax's Environment, ordinary evaluation = jax.core.eval_jaxpr),
   coq/model/Incr.v (incremental.py: Diff, default_propagation_rule, eval_jaxpr_incremental).
   Every theorem holds for EVERY jaxpr (any number of equations, Var / Literal / DropVar atoms,
   constvars, multi-result equations) and EVERY primitive semantics `psem` -- cond, scan, while and
   call primitives are primitives whose params hold sub-jaxprs; the interpreter binds them whole. *)
From Coq Require Import List Bool ZArith.
Import ListNotations.
From Model Require Import Jaxpr Stateful Incr JaxPrims.
From Proofs Require Import JaxprProofs JaxprExamples.

(* primal outputs = ordinary evaluation (and the interpreter fails exactly when evaluation fails) *)
Theorem C09_incr_primal :
  forall (prim val : Type) (psem : prim -> list val -> option (list val))
         (h : handler prim val) (j : jaxpr prim val) (consts xs : list val) (ts : list tag),
  null_handler h j -> length ts = length xs ->
  option_map (map primal) (eval_incr psem h j consts xs ts) = eval_ref psem j consts xs.
Proof. exact (@incr_primal). Qed.
Print Assumptions C09_incr_primal.
Example C09_incr_primal_nonvacuous :
  null_handler None ex_j /\ length ex_tags = length ex_xs /\
  eval_incr psem0 None ex_j ex_consts ex_xs ex_tags = Some ex_outs.
Proof. split; [intros q _; reflexivity|]. split; vm_compute; reflexivity. Qed.

(* noninterference: two runs whose inputs agree wherever the tag is NoChange return the same tags,
   and equal values at every output tagged NoChange (or not tagged at all: a literal) *)
Theorem C09_incr_noninterference :
  forall (prim val : Type) (psem : prim -> list val -> option (list val))
         (h : handler prim val) (j : jaxpr prim val) (consts xs xs' : list val) (ts : list tag)
         (outs outs' : list (cell val)),
  null_handler h j ->
  length xs = length ts -> length xs' = length ts ->
  (forall i, nth_error ts i = Some NoChange -> nth_error xs i = nth_error xs' i) ->
  eval_incr psem h j consts xs ts = Some outs ->
  eval_incr psem h j consts xs' ts = Some outs' ->
  map shape_of outs = map shape_of outs' /\
  forall k, option_map tangent (nth_error outs k) = Some NoChange ->
            option_map primal (nth_error outs k) = option_map primal (nth_error outs' k).
Proof. exact (@incr_noninterference). Qed.
Print Assumptions C09_incr_noninterference.
Example C09_incr_noninterference_nonvacuous :
  null_handler None ex_j /\ length ex_xs = length ex_tags /\ length ex_xs' = length ex_tags /\
  (forall i, nth_error ex_tags i = Some NoChange -> nth_error ex_xs i = nth_error ex_xs' i) /\
  eval_incr psem0 None ex_j ex_consts ex_xs ex_tags = Some ex_outs /\
  eval_incr psem0 None ex_j ex_consts ex_xs' ex_tags = Some ex_outs' /\
  ex_xs <> ex_xs' /\ map primal ex_outs <> map primal ex_outs' /\
  option_map tangent (nth_error ex_outs 2) = Some NoChange.
Proof.
  split; [intros q _; reflexivity|]. split; [reflexivity|]. split; [reflexivity|].
  split. { intros [|[|[|[|i]]]]; simpl; intros H; try discriminate; reflexivity. }
  split; [vm_compute; reflexivity|]. split; [vm_compute; reflexivity|].
  split; [discriminate|]. split; [discriminate|reflexivity].
Qed.

(* which outputs are Diffs, and their tags, are decided by the jaxpr's structure and the input tags
   alone: an equation's outputs are NoChange iff all its inputs are (literals and constants are) *)
Theorem C09_incr_tags_static :
  forall (prim val : Type) (psem : prim -> list val -> option (list val))
         (h : handler prim val) (j : jaxpr prim val) (consts xs : list val) (ts : list tag)
         (outs : list (cell val)),
  null_handler h j -> eval_incr psem h j consts xs ts = Some outs ->
  tags_static j ts = Some (map shape_of outs).
Proof. exact (@incr_tags_static). Qed.
Print Assumptions C09_incr_tags_static.
Example C09_incr_tags_static_nonvacuous :
  tags_static ex_j ex_tags =
  Some [SDiff NoChange; SDiff UnknownChange; SDiff NoChange; SRaw; SDiff NoChange; SDiff UnknownChange].
Proof. vm_compute. reflexivity. Qed.
