"""C21 — Diff and Pytree utilities are structure-preserving round trips.  Engine A-diff.

Model coq/model/DiffTree.v, theorems coq/props/C21.v.  Every generated case is run on
the implementation (Diff.* of incremental.py, Pytree.* / Const / Closure of pytree.py,
jax.tree_util, jax.jit, jax.vmap), its canonical output is shipped to Coq next to the
input and compared there with the model's vm_compute result.  The direct oracle
evaluates the property's round trips on the implementation without the model."""
import copy
import json

from . import core
from . import difftree as D
from .difftree import (canon, canon_def, build, build_leaf, c_tree, c_otree, c_leaf, c_def, CanonError,
                       spec_primal, spec_tangent, spec_tangents, spec_raw_leaves, dyn_leaves, statics,
                       has, nested_diff, map_leaves, as_array, structure, is_node)
from .core import clist, cz, cbool

OPS = {"id": "OId", "roundtrip": "ORoundtrip", "primal": "OPrimal", "tangent": "OTangent",
       "no_change": "ONoChange", "unknown_change": "OUnknownChange", "tree_const": "OTreeConst",
       "const_unwrap": "OConstUnwrap", "const": "OConst"}
MODES = {"eager": "Eager", "jit": "Jit", "jitclosed": "JitClosed", "vmap": "Vmap"}
BAD = ["F", -999]      # an output the harness could not read: never equal to a model answer


# ----------------------------------------------------------------------------
# implementation side
# ----------------------------------------------------------------------------
def impl_fn(o):
    import jax.tree_util as jtu
    from genjax._src.core.compiler.interpreters.incremental import Diff
    from genjax._src.core.pytree import Pytree

    def roundtrip(t):
        ls, td = jtu.tree_flatten(t)
        return jtu.tree_unflatten(td, ls)
    return {"id": lambda t: t, "roundtrip": roundtrip, "primal": Diff.tree_primal, "tangent": Diff.tree_tangent,
            "no_change": Diff.no_change, "unknown_change": Diff.unknown_change,
            "tree_const": Pytree.tree_const, "const_unwrap": Pytree.tree_const_unwrap, "const": Pytree.const}[o]


def run_mode(mode, f, obj):
    import jax
    import jax.tree_util as jtu
    if mode == "eager":
        return f(obj)
    # a fresh function object per call: jax.jit caches per function and treedefs whose static
    # values merely compare equal (119 == Array(119)) would otherwise share a cache entry across cases
    if mode == "jit":
        return jax.jit(lambda x: f(x))(obj)
    if mode == "vmap":
        return jax.vmap(lambda x: f(x))(obj)
    if mode == "jitclosed":
        ls, td = jtu.tree_flatten(obj)
        idx = [i for i, l in enumerate(ls) if isinstance(l, jax.Array)]

        def g(dyn):
            full = list(ls)
            for i, v in zip(idx, dyn):
                full[i] = v
            return f(jtu.tree_unflatten(td, full))
        return jax.jit(g)([ls[i] for i in idx])
    raise ValueError(mode)


class BuildError(Exception):
    pass


def guarded(thunk, read=None):
    """run the implementation: -> canonical output, None when it raised, {'uncanon': why}
    when its result cannot be read back"""
    try:
        r = thunk()
    except Exception as e:   # noqa: BLE001 - any exception of the implementation is the observable "raised"
        guarded.last = f"{type(e).__name__}: {str(e)[:160]}"
        return None
    try:
        return (read or canon)(r)
    except CanonError as e:
        return {"uncanon": str(e)}


def run_impl(case):
    import jax.tree_util as jtu
    from genjax._src.core.compiler.interpreters.incremental import Diff
    from genjax._src.core.pytree import Pytree
    table = {int(k): v for k, v in case["table"].items()}
    k = case["k"]

    def B(t):
        try:
            return build(t, table)
        except Exception as e:   # noqa: BLE001
            raise BuildError(f"{type(e).__name__}: {str(e)[:200]}")
    if k == "apply":
        obj = B(case["t"])
        return guarded(lambda: run_mode(case["mode"], impl_fn(case["op"]), obj))
    if k == "tree_diff":
        t, tn = B(case["t"]), B(case["tn"])
        return guarded(lambda: Diff.tree_diff(t, tn))
    if k == "checks":
        o = B(case["t"])
        return guarded(lambda: [bool(Diff.static_check_tree_diff(o)), bool(Diff.static_check_no_change(o))], read=lambda r: r)
    if k == "flatten":
        o = B(case["t"])
        return guarded(lambda: jtu.tree_flatten(o), read=lambda r: [[D.canon_leaf(l) for l in r[0]], canon_def(r[1])])
    if k == "unflatten":
        o = B(case["t"])
        ls = [build_leaf(l) for l in case["ls"]]
        return guarded(lambda: jtu.tree_unflatten(jtu.tree_structure(o), ls))
    if k == "closure":
        dyn = [B(d) for d in case["dyn"]]
        args = [B(a) for a in case["args"]]

        def th():
            cl = Pytree.partial(*dyn)(D.FN[case["fn"]])
            return run_mode(case["mode"], lambda c: c(*args), cl)
        return guarded(th)
    if k == "const_call":
        c = B(case["c"])
        args = [B(a) for a in case["args"]]
        return guarded(lambda: c(*args))
    if k == "equiv":
        ts = [B(t) for t in case["ts"]]
        return guarded(lambda: bool(Pytree.static_check_tree_structure_equivalence(ts)), read=lambda r: r)
    raise ValueError(k)


def treedef_of(case):
    """canonical def of the treedef an unflatten case uses (None if it cannot be read)"""
    import jax.tree_util as jtu
    table = {int(k): v for k, v in case["table"].items()}
    try:
        return canon_def(jtu.tree_structure(build(case["t"], table)))
    except CanonError:
        return None


# ----------------------------------------------------------------------------
# Coq case terms
# ----------------------------------------------------------------------------
def c_out_tree(out):
    if isinstance(out, dict):
        return f"(Some (Leaf {c_leaf(BAD)}))"
    return c_otree(out)


def c_case(case, out):
    k = case["k"]
    if k == "apply":
        return f"CApply {MODES[case['mode']]} {OPS[case['op']]} {c_tree(case['t'])} {c_out_tree(out)}"
    if k == "tree_diff":
        return f"CTreeDiff {c_tree(case['t'])} {c_tree(case['tn'])} {c_out_tree(out)}"
    if k == "checks":
        if not isinstance(out, list):
            return f"CChecks (Leaf {c_leaf(BAD)}) false false"      # raised: mismatch by construction
        return f"CChecks {c_tree(case['t'])} {cbool(out[0])} {cbool(out[1])}"
    if k == "flatten":
        if not isinstance(out, list):
            return f"CFlatten {c_tree(case['t'])} [{c_leaf(BAD)}] DLeaf"
        return f"CFlatten {c_tree(case['t'])} {clist([c_leaf(l) for l in out[0]])} {c_def(out[1])}"
    if k == "unflatten":
        d = case.get("_def")
        return f"CUnflatten {c_def(d) if d is not None else 'DLeaf'} {clist([c_leaf(l) for l in case['ls']])} {c_out_tree(out)}"
    if k == "closure":
        return (f"CClosure {MODES[case['mode']]} {cz(case['fn'])} {clist([c_tree(t) for t in case['dyn']])} "
                f"{clist([c_tree(t) for t in case['args']])} {c_out_tree(out)}")
    if k == "const_call":
        return f"CConstCall {c_tree(case['c'])} {clist([c_tree(t) for t in case['args']])} {c_out_tree(out)}"
    if k == "equiv":
        if not isinstance(out, bool):
            return "CEquiv [] false"
        return f"CEquiv {clist([c_tree(t) for t in case['ts']])} {cbool(out)}"
    raise ValueError(k)


# ----------------------------------------------------------------------------
# direct oracle: the property's round trips, on the implementation, no model
# ----------------------------------------------------------------------------
def with_(case, **kw):
    c = dict(case)
    c.update(kw)
    return c


def leaf_is(t):
    return not is_node(t)


def diffs_ok(t, tag):
    """every Diff of t wraps a leaf and carries `tag`"""
    if not is_node(t):
        return True
    if is_node(t, "diff"):
        return leaf_is(t[2][0]) and t[2][1] == ["N", ["tan", tag], []]
    return all(diffs_ok(c, tag) for c in t[2])


def spec_tree_const(t, closed):
    """tree_const: every concrete leaf becomes a Const, tracers (arguments of the jitted function) stay"""
    def g(l):
        if closed and l[0] == "L" and l[1] == "py":
            return ["N", ["const", l], []]
        if closed and l[0] == "F":
            return ["N", ["const", l], []]
        if closed:
            return l
        return ["N", ["const", l], []]
    return map_leaves(t, g)


def broadcast(t, n):
    return map_leaves(t, lambda l: ["V", "ar", [l[2]] * n] if l[0] == "L" else l)


def oracle(case, out):
    """None when the property holds on this case (or the case is outside its region),
    else a description of the violation"""
    if isinstance(out, dict):
        return f"the implementation's result cannot be read back: {out['uncanon']}"
    k = case["k"]
    if k == "apply":
        return oracle_apply(case, out)
    if k == "tree_diff":
        if not case.get("valid"):
            return None
        t, tn = case["t"], case["tn"]
        if out is None:
            return "tree_diff raised on a tangent tree of exactly the primal tree's shape"
        if spec_primal(out) != t:
            return f"tree_primal(tree_diff(v, t)) is not v: primal side reads {spec_primal(out)}"
        if spec_tangent(out) != tn:
            return f"tree_tangent(tree_diff(v, t)) is not t: tangent side reads {spec_tangent(out)}"
        p = run_impl(with_(case, k="apply", mode="eager", op="primal", t=out))
        g = run_impl(with_(case, k="apply", mode="eager", op="tangent", t=out))
        if p != t:
            return f"Diff.tree_primal(Diff.tree_diff(v, t)) = {p}, not v"
        if g != tn:
            return f"Diff.tree_tangent(Diff.tree_diff(v, t)) = {g}, not t"
        return None
    if k == "checks":
        if not isinstance(out, list):
            return "a static check raised"
        t = case["t"]
        want_nc = all(x == "N" for x in spec_tangents(t))
        want_td = spec_raw_leaves(t) == 0
        if out[1] != want_nc:
            return f"static_check_no_change = {out[1]} but the tangents are {spec_tangents(t)}"
        if out[0] != want_td:
            return f"static_check_tree_diff = {out[0]} but {spec_raw_leaves(t)} leaves are not Diffs"
        return None
    if k == "flatten":
        t = case["t"]
        if not isinstance(out, list):
            return "tree_flatten raised"
        ls, d = out
        if ls != dyn_leaves(t):
            extra = [l for l in ls if l[0] != "F" and any(isinstance(v, int) and v >= D.STAT_LO for v in ([l[2]] if l[0] == "L" else l[2]))]
            return f"leaves {ls} are not the dynamic leaves {dyn_leaves(t)}" + (f" (static values among the leaves: {extra})" if extra else "")
        if d != structure(t):
            return f"treedef {d} does not carry the tree's node data {structure(t)}"
        back = run_impl(with_(case, k="apply", mode="eager", op="roundtrip"))
        if back != t:
            return f"tree_unflatten(tree_flatten(t)) = {back}, not t"
        return None
    if k == "unflatten":
        t, ls = case["t"], case["ls"]
        if len(ls) != len(dyn_leaves(t)):
            return None if out is None else "tree_unflatten accepted a wrong number of leaves"
        if out is None:
            return "tree_unflatten raised"
        it = iter(ls)
        want = map_leaves(t, lambda _: next(it))
        if out != want:
            return f"tree_unflatten gave {out}, the tree with its leaves replaced is {want}"
        if statics(out) != statics(t):
            return "static fields changed across unflatten"
        return None
    if k == "closure":
        fn, dyn, args, mode = case["fn"], case["dyn"], case["args"], case["mode"]
        want = ["N", ["tuple"], [["L", "py", fn]] + dyn + args]
        if mode in ("jit", "jitclosed"):
            if any(l[0] == "F" for t in dyn + args for l in dyn_leaves(t)):
                return None
            want = map_leaves(want, as_array)
        if mode == "vmap":
            if not case.get("valid"):
                return None
            want = broadcast(want, case["n"])
        if out != want:
            return f"closure call gave {out}; fn(*dyn_args, *args) is {want}"
        return None
    if k == "const_call":
        c = case["c"]
        if is_node(c, "const") and c[1][1][0] == "F":
            want = ["N", ["tuple"], [["L", "py", c[1][1][1]]] + case["args"]]
            return None if out == want else f"Const(fn)(*args) gave {out}, want {want}"
        return None if out is None else "calling a Const that holds no callable did not raise"
    if k == "equiv":
        ts = case["ts"]
        want = all(structure(t) == structure(ts[0]) for t in ts[1:]) if ts else True
        return None if out == want else f"static_check_tree_structure_equivalence = {out}, structures equal = {want}"
    return None


def oracle_apply(case, out):
    o, mode, t = case["op"], case["mode"], case["t"]
    region = not nested_diff(t)
    eager = lambda op, tree: run_impl(with_(case, k="apply", mode="eager", op=op, t=tree))
    if mode == "eager":
        if o in ("id", "roundtrip"):
            return None if out == t else f"{o}: got {out}"
        if o == "primal":
            if not region: return None
            return None if out == spec_primal(t) else f"tree_primal gave {out}, the primal values are {spec_primal(t)}"
        if o == "tangent":
            if not region: return None
            return None if out == spec_tangent(t) else f"tree_tangent gave {out}, the tangents are {spec_tangent(t)}"
        if o in ("no_change", "unknown_change"):
            if not region: return None
            tag = "N" if o == "no_change" else "U"
            if out is None:
                return f"{o} raised"
            if spec_primal(out) != spec_primal(t):
                return f"{o} changed structure or primal values: primal side of the result is {spec_primal(out)}, of the input {spec_primal(t)}"
            if spec_raw_leaves(out) != 0 or not diffs_ok(out, tag):
                return f"{o}: not every leaf of the result is a Diff of a leaf tagged {tag}: {out}"
            if eager("primal", out) != eager("primal", t):
                return f"Diff.tree_primal({o}(t)) differs from Diff.tree_primal(t)"
            again = eager(o, out)
            if again != out:
                return f"{o} is not idempotent: second application gives {again}"
            if eager("no_change" if o == "unknown_change" else "unknown_change", out) != eager("no_change" if o == "unknown_change" else "unknown_change", t):
                return "retagging depends on the previous tags"
            if not has(t, "tan"):
                chk = run_impl(with_(case, k="checks", t=out))
                want = (tag == "N") or len(dyn_leaves(spec_primal(t))) == 0
                if not isinstance(chk, list) or chk[1] != want or chk[0] is not True:
                    return f"static checks on {o}(t) are {chk}, expected [True, {want}]"
            return None
        if o == "tree_const":
            want = spec_tree_const(t, closed=False)
            if out != want:
                return f"tree_const gave {out}; wrapping every concrete leaf gives {want}"
            if dyn_leaves(out):
                return "tree_const left concrete leaves among the dynamic leaves"
            if eager("tree_const", out) != out:
                return "tree_const is not idempotent"
            if not has(t, "const") and eager("const_unwrap", out) != t:
                return f"tree_const_unwrap(tree_const(t)) = {eager('const_unwrap', out)}, not t"
            return None
        if o == "const_unwrap":
            if out is None:
                return "tree_const_unwrap raised"
            if has(out, "const"):
                return f"a Const survived tree_const_unwrap: {out}"
            if not has(t, "const") and out != t:
                return "tree_const_unwrap changed a tree without Const"
            if eager("tree_const", out) != eager("tree_const", t):
                return "tree_const(tree_const_unwrap(t)) differs from tree_const(t)"
            return None
        if o == "const":
            if not (leaf_is(t) or is_node(t, "const")):
                return None
            want = t if is_node(t, "const") else ["N", ["const", t], []]
            if out != want:
                return f"Pytree.const gave {out}, want {want}"
            return None if eager("const", out) == out else "Pytree.const is not idempotent"
        return None
    # ---- jit / vmap: a round trip through the transformation ----
    has_fn = any(l[0] == "F" for l in dyn_leaves(t))
    if mode in ("jit", "jitclosed"):
        if mode == "jit" and has_fn:
            return None if out is None else "a callable leaf went through jit"
        if o == "tree_const":
            want = map_leaves(spec_tree_const(t, closed=(mode == "jitclosed")), as_array) if mode == "jitclosed" else map_leaves(t, as_array)
        elif o in ("const",):
            return None
        else:
            e = eager(o, t)
            if e is None or isinstance(e, dict):
                return None
            if any(l[0] == "F" for l in dyn_leaves(e)):
                return None
            want = map_leaves(e, as_array)
        if out != want:
            return f"{o} under {mode} gave {out}; eagerly (leaves as arrays) it gives {want}"
        if statics(out) != statics(want):
            return "static fields changed across jit"
        if o == "id" and mode == "jit":
            why = inspect_inside_jit(case)
            if why:
                return why
        return None
    if mode == "vmap":
        if not case.get("valid"):
            return None
        if o == "tree_const":
            want = t
        elif o == "const":
            return None
        else:
            e = eager(o, t)
            if e is None or isinstance(e, dict):
                return None
            want = map_leaves(e, as_array)
        if out != want:
            return f"{o} under vmap gave {out}; on the batched tree directly it gives {want}"
        return None
    return None


def inspect_inside_jit(case):
    """inside the traced function: every dynamic leaf is a tracer, every static field is
    still the Python value it was given"""
    import jax
    table = {int(k): v for k, v in case["table"].items()}
    seen = {}

    def f(obj):
        try:
            import jax.core as jc
            orig = D.canon_leaf
            D.canon_leaf = lambda x: ["L", "tr", 0] if isinstance(x, jc.Tracer) else orig(x)
            try:
                seen["c"] = canon(obj)
            finally:
                D.canon_leaf = orig
        except CanonError as e:
            seen["err"] = str(e)
        return obj
    try:
        jax.jit(f)(build(case["t"], table))
    except Exception as e:   # noqa: BLE001
        return f"jit of the identity raised {type(e).__name__}"
    if "err" in seen:
        return f"inside jit: {seen['err']}"
    c = seen["c"]
    if any(l[1] != "tr" for l in dyn_leaves(c) if l[0] != "F"):
        return "inside jit a dynamic leaf is not a tracer"
    if statics_nonconst(c) != statics_nonconst(case["t"]) or len(dyn_leaves(c)) != len(dyn_leaves(case["t"])):
        return f"inside jit the static fields read {statics(c)}, they were {statics(case['t'])}"
    return None


def statics_nonconst(t):
    return [s for s in statics(t)]


# ----------------------------------------------------------------------------
# case generation
# ----------------------------------------------------------------------------
def gen_cases(ctx):
    rng = ctx.rng
    table = D.gen_table(rng)
    cases = []
    add = lambda **kw: cases.append(dict(kw))
    G = D.Gen
    # --- A: argdiff-like trees (Diffs at leaves, sometimes of small subtrees), eager ---
    g = G(rng, table)
    for _ in range(ctx.n(200, 2600)):
        t = g.tree(rng.choice((0, 1, 2, 2, 3, 3, 3)))
        for o in ("primal", "tangent", "no_change", "unknown_change"):
            add(k="apply", mode="eager", op=o, t=t)
        add(k="checks", t=t)
        add(k="flatten", t=t)
        if rng.random() < 0.3:
            add(k="apply", mode="eager", op="roundtrip", t=t)
    # all-NoChange / all-Diff trees (so the checks are true often enough)
    for _ in range(ctx.n(60, 600)):
        t = G(rng, table, diffs=0.0).tree(rng.randint(1, 3))
        tag = rng.choice("NNU")
        def wrap(l):
            return ["N", ["diff"], [l, ["N", ["tan", tag if rng.random() < 0.9 else rng.choice("NU")], []]]]
        t2 = map_leaves(t, wrap if rng.random() < 0.85 else (lambda l: wrap(l) if rng.random() < 0.8 else l))
        add(k="checks", t=t2)
    # bare tangent objects inside trees
    for _ in range(ctx.n(40, 400)):
        t = G(rng, table, tans=0.12).tree(rng.randint(1, 3))
        add(k="checks", t=t)
        add(k="apply", mode="eager", op=rng.choice(["no_change", "unknown_change", "tangent"]), t=t)
    # --- B: tree_diff, valid and damaged ---
    for _ in range(ctx.n(160, 1600)):
        p = G(rng, table, diffs=0.0, tans=0.03).tree(rng.choice((0, 1, 2, 2, 3, 3, 3)))
        tn = D.tangent_tree_for(rng, p)
        add(k="tree_diff", t=p, tn=tn, valid=True)
        if rng.random() < 0.45:
            add(k="tree_diff", t=p, tn=D.damage(rng, tn), valid=False)
        if rng.random() < 0.15:
            add(k="tree_diff", t=D.damage(rng, p), tn=tn, valid=False)
    # --- C: outside Diff's contract (nested Diffs): compared with the model for information only ---
    g = G(rng, table, diffs=0.3, nested=0.6)
    n_nested = 0
    for _ in range(ctx.n(60, 600)):
        t = g.tree(rng.randint(1, 3))
        if not nested_diff(t):
            continue
        n_nested += 1
        for o in ("primal", "tangent", "no_change", "unknown_change"):
            add(k="apply", mode="eager", op=o, t=t, info=True)
        add(k="checks", t=t, info=True)
    # --- D: Const / tree_const ---
    g = G(rng, table, diffs=0.05, consts=0.2, fns=0.06)
    for _ in range(ctx.n(120, 1200)):
        t = g.tree(rng.choice((0, 1, 2, 2, 3, 3, 3)))
        add(k="apply", mode="eager", op="tree_const", t=t)
        add(k="apply", mode="eager", op="const_unwrap", t=t)
        if rng.random() < 0.3:
            add(k="flatten", t=t)
    for _ in range(ctx.n(30, 200)):
        add(k="apply", mode="eager", op="const", t=g.leaf() if rng.random() < 0.6 else g.const())
    for _ in range(ctx.n(20, 100)):
        c = g.const() if rng.random() < 0.8 else ["N", ["const", ["F", rng.randrange(D.NFN)]], []]
        add(k="const_call", c=c, args=[G(rng, table).tree(rng.randint(0, 1)) for _ in range(rng.choice((0, 1, 2, 2, 3, 3, 3)))])
    # --- E: unflatten with other leaves / wrong counts ---
    g = G(rng, table, consts=0.1)
    for _ in range(ctx.n(80, 800)):
        t = g.tree(rng.choice((0, 1, 2, 2, 3, 3, 3)))
        n = len(dyn_leaves(t))
        m = n if rng.random() < 0.7 else max(0, n + rng.choice([-1, 1, 2]))
        add(k="unflatten", t=t, ls=[g.leaf() for _ in range(m)])
    # --- F: structure equivalence ---
    for _ in range(ctx.n(40, 400)):
        t = g.tree(rng.randint(0, 2))
        ts = [t]
        for _ in range(rng.randint(0, 2)):
            x = rng.random()
            if x < 0.5:
                it = None
                ts.append(map_leaves(t, lambda l: g.leaf()))
            else:
                ts.append(D.damage(rng, t))
        if rng.random() < 0.05:
            ts = []
        add(k="equiv", ts=ts)
    # --- G: jit ---
    g = G(rng, table, consts=0.08, vecs=0.15)
    for _ in range(ctx.n(70, 500)):
        t = g.tree(rng.choice((0, 1, 2, 2, 3, 3, 3)))
        add(k="apply", mode="jit", op="id", t=t)
        add(k="apply", mode="jit", op=rng.choice(["no_change", "unknown_change", "primal", "tangent", "roundtrip"]), t=t)
        add(k="apply", mode=rng.choice(["jit", "jitclosed", "jitclosed"]), op="tree_const", t=t)
    for _ in range(ctx.n(6, 40)):
        add(k="apply", mode="jit", op="id", t=G(rng, table, fns=0.3).tree(rng.randint(0, 2)))
    # --- H: vmap ---
    for _ in range(ctx.n(50, 400)):
        n = rng.randint(1, 3)
        t = G(rng, table, vec=n, consts=0.08).tree(rng.choice((0, 1, 2, 2, 3, 3, 3)))
        valid = len(dyn_leaves(t)) > 0
        add(k="apply", mode="vmap", op="id", t=t, valid=valid)
        add(k="apply", mode="vmap", op=rng.choice(["no_change", "unknown_change", "primal", "tangent", "roundtrip", "tree_const"]), t=t, valid=valid)
    for _ in range(ctx.n(12, 100)):
        n = rng.randint(1, 3)
        t = G(rng, table, vec=n).tree(rng.randint(1, 2))
        subs = [(p, s) for p, s in D.subterms(t) if not is_node(s)]
        if not subs:
            continue
        p, s = rng.choice(subs)
        bad = rng.choice([["L", "py", 3], ["L", "ar", 2], ["V", "ar", [1] * (n + 1)]])
        add(k="apply", mode="vmap", op="id", t=D.replace_at(t, p, bad), valid=False)
    # --- I: closures ---
    g = G(rng, table, diffs=0.05)
    for _ in range(ctx.n(50, 400)):
        mode = rng.choice(["eager", "eager", "jit", "vmap"])
        if mode == "vmap":
            n = rng.randint(1, 3)
            gv = G(rng, table, vec=n, diffs=0.05)
            dyn = [gv.tree(rng.randint(0, 2)) for _ in range(rng.choice((0, 1, 2, 2, 3, 3, 3)))]
            args = [["L", rng.choice(["py", "ar"]), rng.randint(D.DYN_LO, D.DYN_HI)] for _ in range(rng.randint(0, 2))]
            add(k="closure", mode=mode, fn=rng.randrange(D.NFN), dyn=dyn, args=args, n=n,
                valid=sum(len(dyn_leaves(d)) for d in dyn) > 0)
        else:
            dyn = [g.tree(rng.randint(0, 2)) for _ in range(rng.choice((0, 1, 2, 2, 3, 3, 3)))]
            args = [g.tree(rng.randint(0, 1)) for _ in range(rng.choice((0, 1, 2, 2, 3, 3, 3)))]
            add(k="closure", mode=mode, fn=rng.randrange(D.NFN), dyn=dyn, args=args)
    for c in cases:
        c["table"] = {str(k): v for k, v in table.items()}
    return cases, table, n_nested


def nested_witness():
    """the witness of C21_no_change_nested_refuted, on the implementation"""
    from genjax._src.core.compiler.interpreters.incremental import Diff, NoChange, UnknownChange
    try:
        t = Diff(Diff(1, UnknownChange), NoChange)
        r = Diff.no_change(t)
        return {"input": "Diff(Diff(1, UnknownChange), NoChange)", "no_change": canon(r),
                "static_check_no_change": bool(Diff.static_check_no_change(r)),
                "reproduces": (not Diff.static_check_no_change(r)) and canon(Diff.tree_primal(r)) != canon(Diff.tree_primal(t))}
    except Exception as e:   # noqa: BLE001
        return {"raised": f"{type(e).__name__}: {str(e)[:120]}", "reproduces": False}


def neighbourhood(case):
    """cases around a correspondence mismatch: every subterm of its trees through every eager operation"""
    out = []
    trees = [case[f] for f in ("t", "tn", "c") if f in case] + list(case.get("dyn", [])) + list(case.get("args", [])) + list(case.get("ts", []))
    for t in trees:
        for _, s in list(D.subterms(t))[:40]:
            for o in ("primal", "tangent", "no_change", "unknown_change", "tree_const", "const_unwrap", "roundtrip"):
                out.append({"k": "apply", "mode": "eager", "op": o, "t": s, "table": case["table"]})
            out.append({"k": "checks", "t": s, "table": case["table"]})
            out.append({"k": "flatten", "t": s, "table": case["table"]})
            out.append({"k": "apply", "mode": "jit", "op": "id", "t": s, "table": case["table"]})
    return out


def public(case):
    return {k: v for k, v in case.items() if not k.startswith("_")}


def run(ctx):
    ctx.proofs()
    import genjax
    ctx.cov["genjax_file"] = genjax.__file__
    cases, table, n_nested = gen_cases(ctx)
    terms, outs, nbad, kept, dropped, info_terms = [], [], 0, [], 0, []
    for c in cases:
        try:
            if c["k"] == "unflatten":
                c["_def"] = treedef_of(c)
            out = run_impl(c)
            why = oracle(c, out)
        except BuildError:
            dropped += 1       # the generated input itself is not constructible (checked constructors)
            continue
        if c.get("info"):
            info_terms.append(c_case(c, out))
            continue
        kept.append(c)
        if why is not None:
            nbad += 1
            if nbad <= 3:
                ctx.fail("oracle", f"{describe(c)}: {why}", case=public(c))
        terms.append(c_case(c, out))
        outs.append(out)
    cases = kept
    mism, errs = core.coq_mismatches("C21", "From Coq Require Import List Bool ZArith.\nFrom Model Require Import DiffTree.",
                                     terms, "dcase", fn="dmismatches", shard=ctx.n(380, 600))
    for e in errs[:2]:
        ctx.fail("correspondence", "A-diff case file did not evaluate: " + e)
    # outside the region: nested Diffs.  Not part of the verdict.
    imism, ierrs = core.coq_mismatches("C21info", "From Coq Require Import List Bool ZArith.\nFrom Model Require Import DiffTree.",
                                       info_terms, "dcase", fn="dmismatches", shard=ctx.n(380, 600))
    if imism or ierrs:
        ctx.log(f"note: on nested Diffs (outside Diff's documented contract) the implementation no longer behaves as modelled "
                f"({len(imism)} of {len(info_terms)} cases differ); C21_no_change_nested_refuted may no longer describe /repo")
    ctx.cov["nested_diff_cases_info_only"] = len(info_terms)
    w = nested_witness()
    ctx.cov["nested_witness"] = w
    if not w["reproduces"]:
        ctx.log("note: the nested-Diff witness of C21_no_change_nested_refuted no longer reproduces on the implementation: " + json.dumps(w))
    searched = 0
    for i in mism[:3]:
        c, out = cases[i], outs[i]
        ctx.fail("correspondence", f"model coq/model/DiffTree.v and implementation disagree on {describe(c)}: implementation gives {json.dumps(out)[:400]}",
                 case=public(c))
    if mism and nbad == 0:
        # look for a concrete failing input of the property near the disagreement
        for i in mism[:6]:
            for nc in neighbourhood(cases[i]):
                searched += 1
                why = oracle(nc, run_impl(nc))
                if why is not None:
                    ctx.fail("oracle", f"{describe(nc)}: {why}", case=public(nc))
                    nbad += 1
                    break
            if nbad:
                break
    kinds = {}
    for c in cases:
        key = c["k"] if c["k"] != "apply" else f"{c['mode']}:{c['op']}"
        kinds[key] = kinds.get(key, 0) + 1
    nontrivial = {json.dumps(public(c), sort_keys=True) for c, o in zip(cases, outs)
                  if o is not None and not isinstance(o, dict) and max((len(list(D.subterms(c[f]))) for f in ("t", "c") if f in c), default=3) >= 3}
    ctx.cov["evaluations"] = len(cases)
    ctx.cov["traces_validated_against_impl"] = len(cases) - len(mism)
    ctx.cov["distinct_nontrivial"] = len(nontrivial)
    ctx.cov["errors_compared"] = sum(1 for o in outs if o is None)
    ctx.cov["by_kind"] = kinds
    ctx.cov["class_table"] = {str(k): v for k, v in table.items()}
    ctx.cov["nested_diff_trees"] = n_nested
    ctx.cov["neighbourhood_searched"] = searched
    ctx.cov["oracle_failures"] = nbad
    ctx.cov["inputs_not_constructible"] = dropped
    ctx.cov["rule"] = ("random pytrees of depth <= 3, width <= 3 over tuple/list/dict/None/6 runtime-generated Pytree.dataclass classes "
                      "(random static/dynamic field patterns, Pytree.static(), Pytree.field(), static defaults)/Const/Closure/Diff/bare tangents, "
                      "leaves Python ints, 0-d and 1-d int32 arrays in [-9,9], static values in [100,120]; all Diff static helpers eagerly, "
                      "tree_diff with exact-shape and damaged tangent trees, a malformed stream with nested Diffs, flatten/unflatten with right and "
                      "wrong leaf counts, tree_const/const/unwrap, Closure and Const calls, and identity + helpers under jax.jit (all leaves traced, "
                      "or Python leaves closed over) and jax.vmap; non-trivial = the implementation returned a value and the tree has >= 3 nodes")
    ctx.add_samples([{"case": public(c), "impl": o} for c, o in list(zip(cases, outs))[:1] + list(zip(cases, outs))[len(cases) // 2: len(cases) // 2 + 1] + list(zip(cases, outs))[-1:]])


def describe(c):
    k = c["k"]
    if k == "apply":
        return f"{c['op']} ({c['mode']}) on {json.dumps(c['t'])[:300]}"
    if k == "tree_diff":
        return f"tree_diff({json.dumps(c['t'])[:200]}, {json.dumps(c['tn'])[:200]})"
    if k == "closure":
        return f"closure fn{c['fn']} ({c['mode']}) dyn={json.dumps(c['dyn'])[:200]} args={json.dumps(c['args'])[:100]}"
    return f"{k} on {json.dumps(c.get('t', c.get('ts', c.get('c'))))[:300]}"


def replay(case):
    case = copy.deepcopy(case)
    out = run_impl(case)
    why = oracle(case, out)
    print(f"{describe(case)}\n  implementation: {json.dumps(out)[:500]}\n  {why or 'ok'}")
    return why is None
