"""C05/C14: a masked masked function cannot be edited: MaskCombinator.edit wraps the inner return diff (already a
Mask whose flag is a Diff) with Mask.build, which asserts that neither flag is a Diff -> AssertionError on every
update.   exit 0 = property holds, exit 1 = defect shows."""
import sys, os
os.environ.setdefault("JAX_PLATFORMS", "cpu")
import jax, jax.numpy as jnp, genjax
from genjax import ChoiceMapBuilder as C, Diff, Update

@genjax.gen
def f(x):
    return genjax.normal(x, 1.0) @ "x"

m = f.mask().mask()
args = (jnp.array(True), jnp.array(True), 1.0)
tr = m.simulate(jax.random.key(0), args)
try:
    new, w, rd, bwd = Update(C["x"].set(0.5)).edit(jax.random.key(1), tr, Diff.unknown_change(args))
    ok = bool(jnp.allclose(w, new.get_score() - tr.get_score()))
    print("update weight", float(w), "OK" if ok else "WRONG"); sys.exit(0 if ok else 1)
except Exception as e:
    print("update raised", type(e).__name__, str(e)[:80]); sys.exit(1)
