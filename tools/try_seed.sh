#!/bin/bash
# tools/try_seed.sh <name> <ID> [ID...] : apply a kept seeded change to /repo, run the quick checks, undo.
name=$1; shift
cd /verif
git -C /repo apply /verif/seeded/$name/patch.diff || exit 2
for id in "$@"; do
  ./check $id --tier quick > out/seed_$name.$id.log 2>&1; rc=$?
  echo "seed $name check $id: exit $rc $(grep -c '^VIOLATION' out/seed_$name.$id.log) VIOLATION lines; $(grep '^VIOLATION' out/seed_$name.$id.log | head -1)"
done
git -C /repo checkout -- .
