(* C24 — distribution wrappers agree with their densities.
   Model: coq/model/Dist.v (Distribution / ExactDensity / exact_density of distribution.py, written
   branch by branch) and coq/model/Kwargs.v (Python keyword binding).  The sampler `S` and the per-leaf
   log-density `L` are arbitrary (TFP's sample / log_prob for the exported wrappers): every statement
   holds for all of them, all keys, parameters, values and constraints. *)
From Coq Require Import List Bool ZArith NArith.
Import ListNotations.
From Model Require Import Kwargs Dist.
From Proofs Require Import DistProofs.
Open Scope Z_scope.

(* estimate_logpdf: the SUM of the leaves of log_prob *)
Theorem C24_estimate_is_sum_of_leaves : forall w, est w = zsum (leaves w).
Proof. exact est_sum. Qed.
Print Assumptions C24_estimate_is_sum_of_leaves.

(* simulate / assess / generate = importance / update / regenerate / project: every score is the sum of
   the leaves of L at the trace's value and arguments, every weight the stated difference *)
Theorem C24_wrapper_scores : forall (key params value : Type) (S : key -> params -> value) (L : value -> params -> lp),
  (forall k a, t_value (simulate key params value S L k a) = S k a /\
               t_score (simulate key params value S L k a) = zsum (leaves (L (S k a) a))) /\
  (forall c a s v, assess params value L c a = Some (s, v) -> s = zsum (leaves (L v a))) /\
  (forall k v a, generate key params value S L k (CVal v) a = (mkTr a v (zsum (leaves (L v a))), zsum (leaves (L v a)))) /\
  (forall k c a, importance key params value S L k c a = generate key params value S L k c a) /\
  (forall k c a, trace_ok params value L (fst (generate key params value S L k c a)) /\
                 snd (generate key params value S L k c a)
                 = match c with
                   | CVal _ | CMask true _ => t_score (fst (generate key params value S L k c a))
                   | CNone | CMask false _ => 0 end) /\
  (forall k tr c a', let e := edit_update key params value L k tr c a' in
                     t_args (e_trace e) = a' /\ t_value (e_trace e) = upd_value params value tr c /\
                     t_score (e_trace e) = zsum (leaves (L (upd_value params value tr c) a')) /\
                     e_weight e = zsum (leaves (L (upd_value params value tr c) a')) - t_score tr) /\
  (forall k tr sel a' nc, trace_ok params value L tr ->
                     let e := edit_regenerate key params value S L k tr sel a' nc in
                     trace_ok params value L (e_trace e) /\ e_weight e = t_score (e_trace e) - t_score tr) /\
  (forall tr sel, project params value tr sel = if sel then t_score tr else 0).
Proof. exact wrapper_scores. Qed.
Print Assumptions C24_wrapper_scores.
Example C24_wrapper_scores_nonvacuous :
  (* the vector probe: three leaves, and the score is their sum 28+29+30, not their mean *)
  let tr := simulate _ _ _ (pd_sample 2) (pd_logprob 2) (0%N, 7%N) [AZ 1; AZ 2] in
  trace_ok _ _ (pd_logprob 2) tr /\ t_value tr = [7; 7; 7] /\ t_score tr = 87 /\ length (leaves (pd_logprob 2 (t_value tr) (t_args tr))) = 3%nat.
Proof. vm_compute. repeat split. Qed.

Theorem C24_generate_masked_true_is_constraint : forall key params value S L k v a,
  generate key params value S L k (CMask true v) a = generate key params value S L k (CVal v) a.
Proof. exact generate_masked_true. Qed.
Print Assumptions C24_generate_masked_true_is_constraint.

Theorem C24_generate_masked_false_is_absent : forall key params value S L k v a,
  generate key params value S L k (CMask false v) a = generate key params value S L k CNone a.
Proof. exact generate_masked_false. Qed.
Print Assumptions C24_generate_masked_false_is_absent.

Theorem C24_update_masked_true_is_constraint : forall key params value L k tr v a',
  let e := edit_update key params value L k tr (CMask true v) a' in
  let e' := edit_update key params value L k tr (CVal v) a' in
  e_trace e = e_trace e' /\ e_weight e = e_weight e'.
Proof. exact update_masked_true. Qed.
Print Assumptions C24_update_masked_true_is_constraint.

Theorem C24_update_masked_false_is_absent : forall key params value L k tr v a',
  let e := edit_update key params value L k tr (CMask false v) a' in
  let e' := edit_update key params value L k tr CNone a' in
  e_trace e = e_trace e' /\ e_weight e = e_weight e'.
Proof. exact update_masked_false. Qed.
Print Assumptions C24_update_masked_false_is_absent.

(* no constraint, same arguments: nothing changes and the weight is 0 *)
Theorem C24_update_unconstrained_unchanged : forall key params value L k tr,
  trace_ok params value L tr ->
  let e := edit_update key params value L k tr CNone (t_args tr) in
  e_weight e = 0 /\ t_value (e_trace e) = t_value tr /\ t_score (e_trace e) = t_score tr.
Proof. exact update_unconstrained_unchanged. Qed.
Print Assumptions C24_update_unconstrained_unchanged.
Example C24_update_unconstrained_unchanged_nonvacuous :
  exists tr, trace_ok _ _ (pd_logprob 3) tr /\ t_score tr <> 0 /\ tr = simulate _ _ _ (pd_sample 3) (pd_logprob 3) (5%N, 9%N) [AZ 1; AZ (-2)].
Proof. eexists. split; [| split; [| reflexivity]]; vm_compute; [reflexivity | discriminate]. Qed.

(* keyword invocation = positional invocation listing the bound parameters in signature order *)
Theorem C24_kwargs_positional_equiv : forall (key value : Type) (sig : sigt Z) (fS : key -> list Z -> value)
    (fL : value -> list Z -> lp) (dS : value) pos kw full,
  kw_bind sig [ATup pos; ADict kw] = Some full ->
  let P := list aval in let Sk := kS key value sig fS dS in let Lk := kL value sig fL in
  let a := [ATup pos; ADict kw] in let b := map AZ full in
  (forall k, t_value (simulate key P value Sk Lk k a) = t_value (simulate key P value Sk Lk k b) /\
             t_score (simulate key P value Sk Lk k a) = t_score (simulate key P value Sk Lk k b)) /\
  (forall c, option_map fst (assess P value Lk c a) = option_map fst (assess P value Lk c b) /\
             option_map snd (assess P value Lk c a) = option_map snd (assess P value Lk c b)) /\
  (forall k c, t_value (fst (generate key P value Sk Lk k c a)) = t_value (fst (generate key P value Sk Lk k c b)) /\
               t_score (fst (generate key P value Sk Lk k c a)) = t_score (fst (generate key P value Sk Lk k c b)) /\
               snd (generate key P value Sk Lk k c a) = snd (generate key P value Sk Lk k c b)) /\
  (forall k tr c, t_value (e_trace (edit_update key P value Lk k tr c a)) = t_value (e_trace (edit_update key P value Lk k tr c b)) /\
                  t_score (e_trace (edit_update key P value Lk k tr c a)) = t_score (e_trace (edit_update key P value Lk k tr c b)) /\
                  e_weight (edit_update key P value Lk k tr c a) = e_weight (edit_update key P value Lk k tr c b) /\
                  e_retdiff (edit_update key P value Lk k tr c a) = e_retdiff (edit_update key P value Lk k tr c b) /\
                  e_bwd (edit_update key P value Lk k tr c a) = e_bwd (edit_update key P value Lk k tr c b)) /\
  (forall k tr sel nc, t_value (e_trace (edit_regenerate key P value Sk Lk k tr sel a nc)) = t_value (e_trace (edit_regenerate key P value Sk Lk k tr sel b nc)) /\
                  t_score (e_trace (edit_regenerate key P value Sk Lk k tr sel a nc)) = t_score (e_trace (edit_regenerate key P value Sk Lk k tr sel b nc)) /\
                  e_weight (edit_regenerate key P value Sk Lk k tr sel a nc) = e_weight (edit_regenerate key P value Sk Lk k tr sel b nc)).
Proof. exact kwargs_positional_equiv. Qed.
Print Assumptions C24_kwargs_positional_equiv.
Example C24_kwargs_positional_equiv_nonvacuous :
  (* one positional, one keyword out of order, one default *)
  kw_bind (ps_sig (probe 5)) [ATup [4]; ADict [(1%nat, 7)]] = Some [4; 7; 1] /\
  kw_bind (ps_sig (probe 1)) [ATup []; ADict [(1%nat, 7); (0%nat, 3)]] = Some [3; 7].
Proof. vm_compute. split; reflexivity. Qed.

Theorem C24_keyword_score : forall (key value : Type) (sig : sigt Z) (fS : key -> list Z -> value)
    (fL : value -> list Z -> lp) (dS : value) pos kw full k,
  kw_bind sig [ATup pos; ADict kw] = Some full ->
  let tr := simulate key (list aval) value (kS key value sig fS dS) (kL value sig fL) k [ATup pos; ADict kw] in
  t_value tr = fS k full /\ t_score tr = zsum (leaves (fL (fS k full) full)).
Proof. exact keyword_score. Qed.
Print Assumptions C24_keyword_score.

Theorem C24_handle_kwargs_self : forall (key value : Type) (sig : sigt Z) (fS : key -> list Z -> value)
    (fL : value -> list Z -> lp) (dS : value) pos kw full k,
  kw_bind sig [ATup pos; ADict kw] = Some full ->
  let sim := simulate key (list aval) value (kS key value sig fS dS) (kL value sig fL) in
  let hk := handle_kwargs sim in
  t_value (hk k [ATup pos; ADict kw]) = t_value (sim k (map AZ full)) /\
  t_score (hk k [ATup pos; ADict kw]) = t_score (sim k (map AZ full)).
Proof. exact handle_kwargs_self. Qed.
Print Assumptions C24_handle_kwargs_self.

(* the order in which keyword arguments are written is irrelevant *)
Theorem C24_keyword_order_irrelevant : forall (V : Type) (sig : sigt V) pos (kw kw' : kwd V),
  (forall n, kw_lookup kw n = kw_lookup kw' n) -> bind sig pos kw = bind sig pos kw'.
Proof. exact bind_kw_order. Qed.
Print Assumptions C24_keyword_order_irrelevant.
Example C24_keyword_order_irrelevant_nonvacuous :
  bind [(0%nat, None); (1%nat, None)] [] [(1%nat, 7); (0%nat, 3)] = Some [3; 7] /\
  bind [(0%nat, None); (1%nat, None)] [] [(0%nat, 3); (1%nat, 7)] = Some [3; 7].
Proof. vm_compute. split; reflexivity. Qed.
