"""C11 — engine B-gfi (harness/bgfi.py); theorems in coq/props/C11.v."""
from . import bgfi


def run(ctx):
    bgfi.run_property(ctx, "C11", oracles=bgfi.PROP_ORACLES.get("C11"))


def replay(case):
    return bgfi.replay(case)
