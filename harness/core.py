"""Shared machinery of the /verif checks: Coq build, case-file evaluation,
evidence, known findings, verdict protocol (DESIGN.md section 3)."""
import fcntl
import hashlib
import json
import os
import random
import re
import subprocess
import sys
import time
from concurrent.futures import ThreadPoolExecutor
from pathlib import Path

VERIF = Path(__file__).resolve().parent.parent
COQ = VERIF / "coq"
REPO = Path(os.environ.get("VERIF_REPO", "/repo"))
SRC = REPO / "src"
OUT = VERIF / "out"
# evidence describes runs against /repo itself; a run against a scratch copy (VERIF_REPO, used to try seeded changes)
# writes its evidence under out/ instead
EVID = VERIF / "evidence" if REPO == Path("/repo") else VERIF / "out" / "evidence_scratch"
PY = "/venv/bin/python"
QFLAGS = ["-Q", "gen", "Gen", "-Q", "model", "Model", "-Q", "proofs", "Proofs", "-Q", "props", "Props"]
FORBIDDEN = re.compile(r"\b(Admitted|admit|Axiom|Parameter|Conjecture|Unset\s+Guard|bypass_check|type-in-type|impredicative-set|Admit\s+Obligations)\b")

CHILD_ENV = dict(os.environ)
CHILD_ENV.update({
    "PYTHONPATH": str(SRC) + ":" + str(VERIF),
    "PYTHONHASHSEED": "0",
    "JAX_PLATFORMS": "cpu",
    "GENJAX_VERIF": "1",
    "XLA_FLAGS": os.environ.get("XLA_FLAGS", "") + " --xla_force_host_platform_device_count=1",
    "TF_CPP_MIN_LOG_LEVEL": "3",
})


def sh(cmd, timeout=600, cwd=None, env=None):
    try:
        p = subprocess.run(cmd, cwd=cwd, env=env or CHILD_ENV, timeout=timeout,
                           stdout=subprocess.PIPE, stderr=subprocess.STDOUT, text=True)
        return p.returncode, p.stdout
    except subprocess.TimeoutExpired as e:
        return 124, (e.stdout or "") + "\nTIMEOUT"


# ----------------------------------------------------------------------------
# Coq build
# ----------------------------------------------------------------------------
def coq_sources():
    files = []
    for d in ("gen", "model", "proofs", "props"):
        files += sorted(str(p.relative_to(COQ)) for p in (COQ / d).glob("*.v"))
    return files


def scan_forbidden():
    bad = []
    for f in coq_sources():
        txt = (COQ / f).read_text()
        # strip comments (non-nested is enough for our files; nested handled conservatively)
        depth, out, i = 0, [], 0
        while i < len(txt):
            if txt.startswith("(*", i):
                depth += 1; i += 2; continue
            if txt.startswith("*)", i) and depth:
                depth -= 1; i += 2; continue
            if depth == 0:
                out.append(txt[i])
            i += 1
        code = "".join(out)
        for m in FORBIDDEN.finditer(code):
            bad.append(f"{f}: {m.group(0)}")
    return bad


def regen():
    """regenerate gen/*.v from /repo's current source (translator, fail-closed)"""
    rc, out = sh([PY, str(VERIF / "harness" / "translate_sel.py"),
                  str(SRC / "genjax/_src/core/generative/choice_map.py"), str(COQ / "gen" / "SelGen.v")], timeout=60)
    return rc == 0, out


def build(timeout=1500, regen_first=True):
    """full .vo build of the development under a lock; returns (ok, log, regen_ok, regen_log)"""
    OUT.mkdir(exist_ok=True)
    with open(OUT / ".build.lock", "w") as lk:
        fcntl.flock(lk, fcntl.LOCK_EX)
        rok, rlog = (True, "")
        if regen_first:
            rok, rlog = regen()
            if not rok and not (COQ / "gen" / "SelGen.v").exists():
                return False, rlog, rok, rlog
        files = coq_sources()
        proj = "\n".join(["-Q gen Gen", "-Q model Model", "-Q proofs Proofs", "-Q props Props"] + files) + "\n"
        pf = COQ / "_CoqProject"
        if not pf.exists() or pf.read_text() != proj:
            pf.write_text(proj)
            rc, out = sh(["coq_makefile", "-f", "_CoqProject", "-o", "Makefile"], cwd=COQ, timeout=60)
            if rc != 0:
                return False, out, rok, rlog
        elif not (COQ / "Makefile").exists():
            rc, out = sh(["coq_makefile", "-f", "_CoqProject", "-o", "Makefile"], cwd=COQ, timeout=60)
            if rc != 0:
                return False, out, rok, rlog
        rc, out = sh(["make", "-j16", "-k"], cwd=COQ, timeout=timeout)
        return rc == 0, out, rok, rlog


def coqc(path, timeout=300, extra=()):
    return sh(["coqc", *QFLAGS, *extra, str(path)], cwd=COQ, timeout=timeout)


def theorems_of(pid):
    """names of the Theorem statements in props/<pid>.v"""
    f = COQ / "props" / f"{pid}.v"
    if not f.exists():
        return []
    return re.findall(r"^\s*Theorem\s+(\w+)", f.read_text(), flags=re.M)


def check_props(pid):
    """compile props/<pid>.v, return (ok, {theorem: assumptions}, raw)"""
    f = COQ / "props" / f"{pid}.v"
    rc, out = coqc(f.relative_to(COQ))
    thms = theorems_of(pid)
    # Print Assumptions outputs appear in order
    blocks = re.split(r"(?m)^(?=Closed under the global context|Axioms:)", out)
    blocks = [b.strip() for b in blocks if b.strip().startswith(("Closed under", "Axioms:"))]
    assum = {}
    for i, t in enumerate(thms):
        assum[t] = blocks[i] if i < len(blocks) else "(no Print Assumptions output)"
    return rc == 0, assum, out


def failing_theorems(make_log):
    """best effort: which files failed in a make -k log"""
    return sorted(set(re.findall(r'File "\./([\w/]+\.v)", line \d+', make_log)))


# ----------------------------------------------------------------------------
# evaluating case files inside Coq
# ----------------------------------------------------------------------------
def _parse_nat_list(out):
    m = re.search(r"=\s*(\[[^\]]*\])", out, flags=re.S)
    if not m:
        return None
    return [int(x) for x in re.findall(r"\d+", m.group(1))]


def coq_mismatches(name, header, case_terms, ctype, fn="mismatches", shard=400, timeout=600):
    """writes cases/<name>_<k>.v with `Definition cases : list <ctype> := [...]`
    and evaluates `<fn> cases` by vm_compute.  Returns (list of global indices
    that mismatch, errors)."""
    cdir = COQ / "cases"
    cdir.mkdir(exist_ok=True)
    shards = [case_terms[i:i + shard] for i in range(0, len(case_terms), shard)] or [[]]
    jobs = []
    for k, sh_cases in enumerate(shards):
        body = [header, "Import ListNotations.", "Open Scope Z_scope." if "ZArith" in header else "",
                f"Definition cases : list ({ctype}) := ["]
        body.append(";\n".join(sh_cases))
        body.append("].")
        body.append(f"Eval vm_compute in ({fn} cases).")
        path = cdir / f"{name}_{k}.v"
        path.write_text("\n".join(body) + "\n")
        jobs.append((k, path))

    def run(job):
        k, path = job
        rc, out = sh(["coqc", *QFLAGS, "-Q", "cases", "Cases", str(path.relative_to(COQ))], cwd=COQ, timeout=timeout)
        return k, rc, out

    mism, errors = [], []
    with ThreadPoolExecutor(max_workers=8) as ex:
        for k, rc, out in ex.map(run, jobs):
            if rc != 0:
                errors.append(f"shard {k}: coqc failed: {out[-800:]}")
                continue
            lst = _parse_nat_list(out)
            if lst is None:
                errors.append(f"shard {k}: unparsable output: {out[-300:]}")
                continue
            mism += [k * shard + i for i in lst]
    return mism, errors


def coq_eval(name, text, timeout=600):
    """compile an arbitrary generated file under cases/, return (rc, out)"""
    cdir = COQ / "cases"
    cdir.mkdir(exist_ok=True)
    path = cdir / f"{name}.v"
    path.write_text(text)
    return sh(["coqc", *QFLAGS, "-Q", "cases", "Cases", str(path.relative_to(COQ))], cwd=COQ, timeout=timeout)


# ----------------------------------------------------------------------------
# Coq literal printers
# ----------------------------------------------------------------------------
def cz(z):
    z = int(z)
    return f"({z})" if z < 0 else str(z)


def cnat(n):
    return f"{int(n)}%nat"


def cbool(b):
    return "true" if b else "false"


def clist(xs):
    return "[" + "; ".join(xs) + "]"


def copt(x):
    return "None" if x is None else f"(Some {x})"


# ----------------------------------------------------------------------------
# known findings
# ----------------------------------------------------------------------------
def load_findings():
    p = VERIF / "known_findings.json"
    if not p.exists():
        return []
    return json.loads(p.read_text())["findings"]


def run_witness(rel):
    rc, out = sh([PY, str(VERIF / rel)], timeout=600, cwd="/tmp")
    return rc, out.strip().splitlines()[-1] if out.strip() else ""


# ----------------------------------------------------------------------------
# the check context
# ----------------------------------------------------------------------------
class Ctx:
    def __init__(self, pid, tier, seed):
        self.pid, self.tier, self.seed = pid, tier, seed
        self.rng = random.Random(seed * 1000003 + int(hashlib.sha256(pid.encode()).hexdigest()[:6], 16))
        self.t0 = time.time()
        self.failures = []       # dicts: kind, what, case, signature
        self.known_seen = []
        self.info = []
        self.cov = {"evaluations": 0, "distinct_nontrivial": 0, "rule": "", "samples": [],
                    "obligations": 0, "discharged": 0, "checker_cmd": "", "trusted_base": [],
                    "traces_validated_against_impl": 0}
        self.assumptions = []
        self.findings = [f for f in load_findings() if pid in f.get("properties", [f.get("property")])]

    @property
    def quick(self):
        return self.tier == "quick"

    def n(self, quick, thorough):
        return quick if self.quick else thorough

    def log(self, msg):
        print(msg, flush=True)
        self.info.append(msg)

    def fail(self, kind, what, case=None, signature=None):
        """kind: proof | correspondence | oracle | tie | regression"""
        self.failures.append({"kind": kind, "what": what, "case": case, "signature": signature})

    # -- proofs ---------------------------------------------------------------
    def proofs(self, pids=None, timeout=1500):
        """build everything, then compile props/<pid>.v and collect assumptions"""
        pids = pids or [self.pid]
        bad = scan_forbidden()
        if bad:
            self.fail("proof", "forbidden vernacular in the development: " + "; ".join(bad[:5]))
        ok, log, rok, rlog = build(timeout=timeout)
        self.build_ok, self.build_log, self.regen_ok, self.regen_log = ok, log, rok, rlog
        nthm = 0
        for pid in pids:
            thms = theorems_of(pid)
            nthm += len(thms)
            pok, assum, raw = check_props(pid)
            if pok:
                self.cov["discharged"] += len(thms)
                for t, a in assum.items():
                    self.cov["trusted_base"].append(f"Print Assumptions {t}: {a}")
                    if not a.startswith("Closed under"):
                        self.assumptions.append(f"{t}: {a}")
            else:
                blocks = re.findall(r'File "\./([\w/.]+)", line (\d+), characters [\d-]+:\n(Error:.*?)(?=\n\S*make|\nFile |\Z)', (log or "") + "\n" + raw, flags=re.S)
                blocks = [b for b in blocks if "inconsistent assumptions" not in b[2]] or blocks
                where = " | ".join(f"{b[0]}:{b[1]} {self.lemma_at(b[0], int(b[1]))} {b[2][:300].strip()}" for b in blocks[:2]) if blocks else raw[-400:]
                self.fail("proof", f"props/{pid}.v does not check: {where}", signature=f"proof:{pid}")
        self.cov["obligations"] += nthm
        self.cov["checker_cmd"] = "make -j16 (coq_makefile, full .vo) in /verif/coq; coqc props/%s.v" % ",".join(pids)
        self.cov["trusted_base"] = ["Coq 8.16.1 kernel + vm_compute (no native_compute, no extraction)"] + self.cov["trusted_base"]
        if not ok and not any(f["kind"] == "proof" for f in self.failures):
            files = failing_theorems(log)
            # a failure elsewhere in the development does not concern this property
            self.log(f"note: development has files that do not build: {files}")
        return ok

    @staticmethod
    def lemma_at(relfile, line):
        """name of the Lemma/Theorem enclosing a line of a .v file"""
        try:
            txt = (COQ / relfile).read_text().splitlines()[:line]
        except OSError:
            return ""
        for l in reversed(txt):
            m = re.match(r"\s*(Lemma|Theorem|Example|Corollary|Fixpoint|Definition)\s+(\w+)", l)
            if m:
                return f"[{m.group(1)} {m.group(2)}]"
        return ""

    # -- evidence / verdict ------------------------------------------------------
    def add_samples(self, samples, k=3):
        for s in samples[:k]:
            if len(self.cov["samples"]) < 8:
                self.cov["samples"].append(s)

    def finish(self):
        # witnesses of known / fixed findings
        wl = [f for f in self.findings if f.get("witness")]
        with ThreadPoolExecutor(max_workers=6) as ex:
            wres = list(ex.map(lambda f: run_witness(f["witness"]), wl))
        for f, (rc, last) in zip(wl, wres):
            w = f["witness"]
            if f["status"] == "fixed":
                if rc != 0:
                    self.fail("regression", f"fixed defect is back: {f['what']} ({last})", case={"witness": w}, signature=None)
            else:
                if rc != 0:
                    if f["id"] not in [k["id"] for k in self.known_seen]:
                        self.known_seen.append(f)
                else:
                    self.log(f"note: known finding {f['id']} no longer reproduces ({last})")
        OUT.mkdir(exist_ok=True)
        (OUT / "replay").mkdir(exist_ok=True)
        viol = []
        known_sigs = {s for f in self.findings if f["status"] == "known" for s in f.get("signatures", [])}
        for i, f in enumerate(self.failures):
            if f["signature"] and f["signature"] in known_sigs:
                kf = next(k for k in self.findings if f["signature"] in k.get("signatures", []))
                if kf["id"] not in [k["id"] for k in self.known_seen]:
                    self.known_seen.append(kf)
                continue
            viol.append(f)
        for f in self.known_seen:
            print(f"KNOWN-FINDING: property={self.pid} {f['id']}: {f['what']}")
        # a failing input on the implementation (direct oracle / returned defect) is the replay;
        # broken proofs or correspondences without one are reported as no-failing-input-found
        concrete = [f for f in viol if f["kind"] in ("oracle", "regression") and f["case"] is not None]
        broken = [f for f in viol if f not in concrete]
        lines = []
        for f in viol[:8]:
            print(f"  {f['kind']}: {f['what'][:700]}")
        if concrete:
            for i, f in enumerate(concrete[:3]):
                path = OUT / "replay" / f"{self.pid}-{i}.json"
                path.write_text(json.dumps({"property": self.pid, "kind": f["kind"], "what": f["what"], "case": f["case"],
                                            "also_broken": [b["what"][:400] for b in broken[:5]],
                                            "seed": self.seed, "tier": self.tier}, indent=1, default=str))
                lines.append(f"VIOLATION property={self.pid} replay={path}")
        elif broken:
            path = OUT / "replay" / f"{self.pid}-0.json"
            path.write_text(json.dumps({"property": self.pid, "kind": broken[0]["kind"], "case": broken[0]["case"],
                                        "no_longer_checks": [b["what"] for b in broken[:8]],
                                        "seed": self.seed, "tier": self.tier}, indent=1, default=str))
            lines.append(f"VIOLATION property={self.pid} replay={path} no-failing-input-found")
        self.write_evidence(len(viol))
        for l in lines:
            print(l)
        print(f"[{self.pid}] {self.tier} done in {time.time() - self.t0:.1f}s: "
              f"{self.cov['discharged']}/{self.cov['obligations']} theorems, "
              f"{self.cov['evaluations']} cases ({self.cov['traces_validated_against_impl']} vs implementation), "
              f"{len(viol)} violations, {len(self.known_seen)} known findings")
        return 1 if viol else 0

    def write_evidence(self, nviol):
        EVID.mkdir(parents=True, exist_ok=True)
        cov = dict(self.cov)
        cov["known_findings_seen"] = [f["id"] for f in self.known_seen]
        cov["notes"] = self.info[-20:]
        ev = {
            "property_id": self.pid, "tier": self.tier, "seed": self.seed, "level": "proof",
            "coverage": cov,
            "assumptions": [
                "model <-> code tie: the correspondence harness (harness/*.py) realises each generated case on /repo's current tree and Coq compares the model's vm_compute result with the implementation's canonical output",
                "float32 arithmetic is exact on the small integers the probe distributions produce",
            ] + self.assumptions,
            "wall_s": round(time.time() - self.t0, 2),
            "violations": nviol,
        }
        (EVID / f"{self.pid}.json").write_text(json.dumps(ev, indent=1, default=str))


def run_pool(fn, items, procs=8, initializer=None, on_dead=None, tasks_per_child=12):
    """fn over items in spawned worker processes, in order.  Items are processed in batches, each batch by a fresh pool
    (workers are thereby recycled: JAX's compilation caches grow; `max_tasks_per_child` is not used, it can deadlock
    in CPython 3.12.1).  A worker that dies (the kernel's OOM killer under memory pressure) does not hang the run: the
    unfinished items of the batch are run again with fewer workers; an item whose worker died three times gets
    on_dead(item)."""
    import multiprocessing as mp
    from concurrent.futures import ProcessPoolExecutor
    from concurrent.futures.process import BrokenProcessPool
    n = len(items)
    results = [None] * n
    done = [False] * n
    batch = max(1, procs * tasks_per_child)
    for start in range(0, n, batch):
        todo = list(range(start, min(n, start + batch)))
        p = procs
        for attempt in range(3):
            if not todo:
                break
            ex = ProcessPoolExecutor(max_workers=min(p, len(todo)), mp_context=mp.get_context("spawn"), initializer=initializer)
            futs = {i: ex.submit(fn, items[i]) for i in todo}
            try:
                for i, f in futs.items():
                    try:
                        results[i] = f.result(timeout=3600)
                        done[i] = True
                    except BrokenProcessPool:
                        pass
            finally:
                ex.shutdown(wait=True, cancel_futures=True)
            todo = [i for i in todo if not done[i]]
            p = max(2, p // 2)
        for i in todo:
            results[i] = on_dead(items[i]) if on_dead else None
    return results
