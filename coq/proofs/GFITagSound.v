(* C08, first clause, for the static language's expressions: the change tag the model computes for an expression
   (tag_eval: what the incremental interpreter does to the jaxpr of an argument / return expression — a constant is
   NoChange, an arithmetic result is NoChange iff all operands are, tuples are tagged leaf by leaf, a projection takes
   the component's tag) is SOUND: wherever the tag says NoChange, the value computed from the new environment equals
   the value computed from the old one, provided the environment's own tags are sound. *)
From Coq Require Import List Bool ZArith NArith Lia Arith.
Import ListNotations.
From Gen Require Import SelGen.
From Model Require Import Key Sel GFI GFIEdit.
From Proofs Require Import GFIBase.
Open Scope Z_scope.

(* v (new) and v' (old) agree wherever t says NoChange *)
Fixpoint agree (t : tagt) (v v' : val) {struct t} : Prop :=
  match t with
  | TgLeaf b => b = false -> v = v'
  | TgNode l =>
      match v, v' with
      | VT vs, VT vs' =>
          (fix go (l : list tagt) (vs vs' : list val) {struct l} : Prop :=
             match l, vs, vs' with
             | [], [], [] => True
             | t0 :: lr, x :: xr, y :: yr => agree t0 x y /\ go lr xr yr
             | _, _, _ => False
             end) l vs vs'
      | _, _ => existsb tg_any l = false -> v = v'
      end
  end.
Definition agree_list := fix go (l : list tagt) (vs vs' : list val) {struct l} : Prop :=
  match l, vs, vs' with
  | [], [], [] => True
  | t0 :: lr, x :: xr, y :: yr => agree t0 x y /\ go lr xr yr
  | _, _, _ => False
  end.
Lemma agree_node_tuple l vs vs' : agree (TgNode l) (VT vs) (VT vs') = agree_list l vs vs'.
Proof. reflexivity. Qed.

(* a tag without any change forces equality *)
Lemma agree_nochange : forall t v v', agree t v v' -> tg_any t = false -> v = v'.
Proof.
  fix IH 1. intros [b|l] v v' H Hn.
  - simpl in *. apply H. exact Hn.
  - simpl in Hn. destruct v; try (apply H; exact Hn). destruct v'; try (apply H; exact Hn).
    rewrite agree_node_tuple in H. f_equal.
    revert l0 l1 H Hn. induction l as [|t0 lr IHl]; intros [|x xr] [|y yr] H Hn; simpl in H; try contradiction; [reflexivity|].
    simpl in Hn. apply orb_false_iff in Hn. destruct Hn as [H0 Hr]. destruct H as [Ha Hl].
    f_equal; [apply (IH t0 x y Ha H0) | apply (IHl xr yr Hl Hr)].
Qed.

Definition env_agree (envt : list tagt) (env env' : list val) : Prop :=
  length env = length env' /\
  forall i v v', nth_error env i = Some v -> nth_error env' i = Some v' -> agree (nth i envt tg_unknown) v v'.

Lemma agree_unknown v v' : agree tg_unknown v v'.
Proof. simpl. discriminate. Qed.

Lemma nth_agree_list : forall l vs vs' i x y,
  agree_list l vs vs' -> nth_error vs i = Some x -> nth_error vs' i = Some y -> agree (nth i l tg_unknown) x y.
Proof.
  induction l as [|t0 lr IH]; intros [|a ar] [|b br] i x y H Hx Hy; simpl in H; try contradiction.
  - destruct i; discriminate.
  - destruct H as [H0 Hr]. destruct i as [|i]; simpl in *.
    + inversion Hx; inversion Hy; subst. exact H0.
    + apply (IH ar br i x y Hr Hx Hy).
Qed.

(* induction over expressions with the nested list of ETup *)
Section ExprInd.
  Variable P : expr -> Prop.
  Hypothesis Hvar : forall i, P (EVar i).
  Hypothesis Hconst : forall z, P (EConst z).
  Hypothesis Hadd : forall a b, P a -> P b -> P (EAdd a b).
  Hypothesis Hmul : forall a b, P a -> P b -> P (EMul a b).
  Hypothesis Htup : forall l, Forall P l -> P (ETup l).
  Hypothesis Hproj : forall i e, P e -> P (EProj i e).
  Hypothesis Hnone : P ENone.
  Hypothesis Hzeros : forall n, P (EZeros n).
  Hypothesis Hnot : forall e, P e -> P (ENotIdx e).
  Hypothesis Hcons : forall a b, P a -> P b -> P (ECons a b).
  Hypothesis Hunmask : forall a b, P a -> P b -> P (EUnmask a b).
  Hypothesis Hmv : forall e, P e -> P (EMaskValue e).
  Fixpoint expr_ind_nested (e : expr) : P e :=
    match e with
    | EVar i => Hvar i
    | EConst z => Hconst z
    | EAdd a b => Hadd a b (expr_ind_nested a) (expr_ind_nested b)
    | EMul a b => Hmul a b (expr_ind_nested a) (expr_ind_nested b)
    | ETup l => Htup l ((fix go (l : list expr) : Forall P l :=
                           match l with [] => Forall_nil P | x :: r => Forall_cons x (expr_ind_nested x) (go r) end) l)
    | EProj i e' => Hproj i e' (expr_ind_nested e')
    | ENone => Hnone
    | EZeros n => Hzeros n
    | ENotIdx e' => Hnot e' (expr_ind_nested e')
    | ECons a b => Hcons a b (expr_ind_nested a) (expr_ind_nested b)
    | EUnmask a b => Hunmask a b (expr_ind_nested a) (expr_ind_nested b)
    | EMaskValue e' => Hmv e' (expr_ind_nested e')
    end.
End ExprInd.

Definition eval_tup (env : list val) := fix go (l : list expr) : res (list val) :=
  match l with [] => Ok [] | x :: r => do v <- eval env x; do vs <- go r; Ok (v :: vs) end.
Lemma eval_tup_eq env l : eval env (ETup l) = (do vs <- eval_tup env l; Ok (VT vs)).
Proof. reflexivity. Qed.

(* leaves: an expression whose tag is a leaf without change evaluates to the same value *)
Ltac leaf_case IHa IHb Hx Hy Hn :=
  simpl in Hn; apply orb_false_iff in Hn; destruct Hn as [Hn1 Hn2].

Theorem tag_eval_sound : forall e envt env env' v v',
  env_agree envt env env' -> eval env e = Ok v -> eval env' e = Ok v' -> agree (tag_eval envt e) v v'.
Proof.
  induction e using expr_ind_nested; intros envt env env' v v' Henv Hv Hv'.
  - (* EVar *) simpl in *. destruct (nth_error env i) as [x|] eqn:E1; [|discriminate].
    destruct (nth_error env' i) as [y|] eqn:E2; [|discriminate]. inversion Hv; inversion Hv'; subst.
    apply (proj2 Henv i v v' E1 E2).
  - (* EConst *) simpl in *. inversion Hv; inversion Hv'; subst. intros _. reflexivity.
  - (* EAdd *) simpl in *. bind_inv Hv as x Hx. bind_inv Hv as y Hy. bind_inv Hv' as x' Hx'. bind_inv Hv' as y' Hy'.
    intros Hn. apply orb_false_iff in Hn. destruct Hn as [Hn1 Hn2].
    rewrite (agree_nochange _ _ _ (IHe1 _ _ _ _ _ Henv Hx Hx') Hn1), (agree_nochange _ _ _ (IHe2 _ _ _ _ _ Henv Hy Hy') Hn2) in Hv.
    rewrite Hv in Hv'. inversion Hv'. reflexivity.
  - (* EMul *) simpl in *. bind_inv Hv as x Hx. bind_inv Hv as y Hy. bind_inv Hv' as x' Hx'. bind_inv Hv' as y' Hy'.
    intros Hn. apply orb_false_iff in Hn. destruct Hn as [Hn1 Hn2].
    rewrite (agree_nochange _ _ _ (IHe1 _ _ _ _ _ Henv Hx Hx') Hn1), (agree_nochange _ _ _ (IHe2 _ _ _ _ _ Henv Hy Hy') Hn2) in Hv.
    rewrite Hv in Hv'. inversion Hv'. reflexivity.
  - (* ETup *) rewrite eval_tup_eq in Hv, Hv'. bind_inv Hv as vs Hvs. bind_inv Hv' as vs' Hvs'. inversion Hv; inversion Hv'; subst.
    simpl tag_eval. rewrite agree_node_tuple. clear Hv Hv'.
    revert vs vs' Hvs Hvs'. induction H as [|x r Hx Hr IHr]; intros vs vs' Hvs Hvs'; simpl in *.
    + inversion Hvs; inversion Hvs'; subst. exact I.
    + bind_inv Hvs as a Ha. bind_inv Hvs as ar Har. bind_inv Hvs' as b Hb. bind_inv Hvs' as br Hbr.
      inversion Hvs; inversion Hvs'; subst. simpl. split; [apply (Hx _ _ _ _ _ Henv Ha Hb) | apply (IHr _ _ Har Hbr)].
  - (* EProj *) simpl in Hv, Hv'. bind_inv Hv as x Hx. bind_inv Hv' as x' Hx'.
    pose proof (IHe _ _ _ _ _ Henv Hx Hx') as Ha. simpl tag_eval.
    destruct x as [| |l| | |]; try discriminate. destruct x' as [| |l'| | |]; try discriminate.
    destruct (nth_error l i) as [y|] eqn:E1; [|discriminate]. destruct (nth_error l' i) as [y'|] eqn:E2; [|discriminate].
    inversion Hv; inversion Hv'; subst.
    destruct (tag_eval envt e) as [b|tl] eqn:Et.
    + simpl in Ha. simpl. intros Hb. specialize (Ha Hb). inversion Ha; subst. rewrite E1 in E2. inversion E2. reflexivity.
    + rewrite agree_node_tuple in Ha. apply (nth_agree_list tl l l' i v v' Ha E1 E2).
  - (* ENone *) simpl in *. inversion Hv; inversion Hv'; subst. simpl. intros _. reflexivity.
  - (* EZeros *) simpl in *. inversion Hv; inversion Hv'; subst. intros _. reflexivity.
  - (* ENotIdx *) simpl in *. bind_inv Hv as x Hx. bind_inv Hv' as x' Hx'. intros Hn.
    rewrite (agree_nochange _ _ _ (IHe _ _ _ _ _ Henv Hx Hx') Hn) in Hv. rewrite Hv in Hv'. inversion Hv'. reflexivity.
  - (* ECons *) simpl in *. bind_inv Hv as x Hx. bind_inv Hv as y Hy. bind_inv Hv' as x' Hx'. bind_inv Hv' as y' Hy'.
    intros Hn. apply orb_false_iff in Hn. destruct Hn as [Hn1 Hn2].
    rewrite (agree_nochange _ _ _ (IHe1 _ _ _ _ _ Henv Hx Hx') Hn1), (agree_nochange _ _ _ (IHe2 _ _ _ _ _ Henv Hy Hy') Hn2) in Hv.
    rewrite Hv in Hv'. inversion Hv'. reflexivity.
  - (* EUnmask *) simpl in *. bind_inv Hv as x Hx. bind_inv Hv as y Hy. bind_inv Hv' as x' Hx'. bind_inv Hv' as y' Hy'.
    intros Hn. apply orb_false_iff in Hn. destruct Hn as [Hn1 Hn2].
    rewrite (agree_nochange _ _ _ (IHe1 _ _ _ _ _ Henv Hx Hx') Hn1), (agree_nochange _ _ _ (IHe2 _ _ _ _ _ Henv Hy Hy') Hn2) in Hv.
    rewrite Hv in Hv'. inversion Hv'. reflexivity.
  - (* EMaskValue *) simpl in *. bind_inv Hv as x Hx. bind_inv Hv' as x' Hx'. intros Hn.
    rewrite (agree_nochange _ _ _ (IHe _ _ _ _ _ Henv Hx Hx') Hn) in Hv. rewrite Hv in Hv'. inversion Hv'. reflexivity.
Qed.

(* the statement in the property's words: an expression tagged NoChange everywhere has the value it had *)
Corollary nochange_means_unchanged e envt env env' v v' :
  env_agree envt env env' -> eval env e = Ok v -> eval env' e = Ok v' -> tg_any (tag_eval envt e) = false -> v = v'.
Proof. intros He Hv Hv' Hn. exact (agree_nochange _ _ _ (tag_eval_sound e envt env env' v v' He Hv Hv') Hn). Qed.

(* environments extended with a sound tag stay sound (a site's return value joins the environment) *)
Lemma env_agree_snoc envt env env' t v v' :
  length envt = length env -> env_agree envt env env' -> agree t v v' -> env_agree (envt ++ [t]) (env ++ [v]) (env' ++ [v']).
Proof.
  intros Hl [Hlen H] Ha. split; [rewrite !app_length; simpl; lia|].
  intros i x y Hx Hy. destruct (Nat.lt_ge_cases i (length env)) as [Hlt|Hge].
  - rewrite nth_error_app1 in Hx by exact Hlt. rewrite nth_error_app1 in Hy by lia.
    rewrite app_nth1 by lia. apply (H i x y Hx Hy).
  - rewrite nth_error_app2 in Hx by exact Hge. rewrite nth_error_app2 in Hy by lia.
    destruct (i - length env)%nat as [|k] eqn:Ek.
    + replace (i - length env')%nat with 0%nat in Hy by lia. simpl in Hx, Hy. inversion Hx; inversion Hy; subst.
      rewrite app_nth2 by lia. replace (i - length envt)%nat with 0%nat by lia. simpl. exact Ha.
    + simpl in Hx. destruct k; discriminate.
Qed.
