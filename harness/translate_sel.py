#!/usr/bin/env python3
"""Fail-closed Python-ast -> Gallina translator for the selection algebra of
genjax/_src/core/generative/choice_map.py  (property C18).

Regenerates coq/gen/SelGen.v from the *current* source on every run.  It knows a
small set of AST shapes (class patterns in `match`, if/else, return, local
assignment, the Boolean operators, the selection operators ~ & |, the
constructors, field access).  Anything else is an error, never a guess.

The glue methods of `Selection` and `_SelectionBuilder` (`__call__`,
`__getitem__`, `__contains__`, `extend`, `__or__`, `__and__`, `__invert__`,
`all/none/leaf`) are *pinned*: their normalised AST must equal the text recorded
below, which is what coq/model/Sel.v transcribes by hand (fold of
get_subselection / fold of StaticSel_build).  A change there stops the
translation (the check then reports the broken tie and searches for a failing
input with the direct oracle).
"""
import ast
import sys
import os

CLASSES = ["AllSel", "NoneSel", "LeafSel", "ComplementSel", "StaticSel", "AndSel", "OrSel"]

PINNED = {
    ("Selection", "all"): "return AllSel()",
    ("Selection", "none"): "return NoneSel()",
    ("Selection", "leaf"): "return LeafSel()",
    ("Selection", "__or__"): "return OrSel.build(self, other)",
    ("Selection", "__and__"): "return AndSel.build(self, other)",
    ("Selection", "__invert__"): "return ComplementSel.build(self)",
    ("Selection", "complement"): "return ~self",
    ("Selection", "extend"): "acc = self\nfor addr in reversed(addrs):\n    acc = StaticSel.build(acc, addr)\nreturn acc",
    ("Selection", "__call__"): "addr = addr if isinstance(addr, tuple) else (addr,)\nsubselection = self\nfor comp in addr:\n    subselection = subselection.get_subselection(comp)\nreturn subselection",
    ("Selection", "__getitem__"): "return self(addr).check()",
    ("Selection", "__contains__"): "return self[addr]",
    ("_SelectionBuilder", "__getitem__"): "addr = addr if isinstance(addr, tuple) else (addr,)\nif addr == ():\n    return Selection.leaf()\nelse:\n    return Selection.all().extend(*addr)",
}


class TranslateError(Exception):
    pass


def strip_doc(body):
    if body and isinstance(body[0], ast.Expr) and isinstance(body[0].value, ast.Constant) and isinstance(body[0].value.value, str):
        return body[1:]
    return body


def body_text(fn):
    return "\n".join(ast.unparse(s) for s in strip_doc(fn.body))


class Tr:
    def __init__(self, tree):
        self.tree = tree
        self.classes = {n.name: n for n in tree.body if isinstance(n, ast.ClassDef)}
        self.fields = {}

    def fail(self, node, why):
        raise TranslateError(f"line {getattr(node, 'lineno', '?')}: {why}: {ast.unparse(node) if isinstance(node, ast.AST) else node}")

    # -- pins ---------------------------------------------------------------
    def check_pins(self):
        for (cls, meth), want in PINNED.items():
            c = self.classes.get(cls)
            if c is None:
                raise TranslateError(f"class {cls} missing")
            fns = [n for n in c.body if isinstance(n, ast.FunctionDef) and n.name == meth]
            if len(fns) != 1:
                raise TranslateError(f"{cls}.{meth}: expected exactly one definition")
            got = body_text(fns[0])
            if got != want:
                raise TranslateError(f"pinned glue {cls}.{meth} changed:\n--- expected\n{want}\n--- found\n{got}")

    # -- data ----------------------------------------------------------------
    def class_fields(self, name):
        c = self.classes[name]
        out = []
        for n in c.body:
            if isinstance(n, ast.AnnAssign) and isinstance(n.target, ast.Name):
                ann = ast.unparse(n.annotation)
                if ann == "Selection":
                    ty = "sel"
                elif ann == "ExtendedStaticAddressComponent":
                    ty = "ecomp"
                else:
                    self.fail(n, "unknown field type")
                out.append((n.target.id, ty))
        bases = [ast.unparse(b) for b in c.bases]
        if bases != ["Selection"]:
            self.fail(c, "unexpected bases")
        return out

    def method(self, cls, name):
        fns = [n for n in self.classes[cls].body if isinstance(n, ast.FunctionDef) and n.name == name]
        if len(fns) != 1:
            raise TranslateError(f"{cls}.{name}: expected exactly one definition")
        return fns[0]

    # -- expressions ---------------------------------------------------------
    def expr(self, e, env, rec=None):
        """env: python name -> coq term.  rec: name of the recursive function
        being defined for method calls on sub-selections."""
        if isinstance(e, ast.Name):
            if e.id in env:
                return env[e.id]
            self.fail(e, "unbound name")
        if isinstance(e, ast.Constant):
            if e.value is True:
                return "true"
            if e.value is False:
                return "false"
            self.fail(e, "unsupported constant")
        if isinstance(e, ast.Attribute):
            # self.f  or  v.f for a variable known to be of a given class
            base = e.value
            if isinstance(base, ast.Name) and (base.id + "." + e.attr) in env:
                return env[base.id + "." + e.attr]
            self.fail(e, "unsupported attribute")
        if isinstance(e, ast.UnaryOp):
            if isinstance(e.op, ast.Not):
                return f"(negb {self.expr(e.operand, env, rec)})"
            if isinstance(e.op, ast.Invert):
                return f"(ComplementSel_build {self.expr(e.operand, env, rec)})"
            self.fail(e, "unsupported unary op")
        if isinstance(e, ast.BoolOp):
            op = "andb" if isinstance(e.op, ast.And) else "orb"
            acc = self.expr(e.values[0], env, rec)
            for v in e.values[1:]:
                acc = f"({op} {acc} {self.expr(v, env, rec)})"
            return acc
        if isinstance(e, ast.BinOp):
            if isinstance(e.op, ast.BitAnd):
                return f"(AndSel_build {self.expr(e.left, env, rec)} {self.expr(e.right, env, rec)})"
            if isinstance(e.op, ast.BitOr):
                return f"(OrSel_build {self.expr(e.left, env, rec)} {self.expr(e.right, env, rec)})"
            self.fail(e, "unsupported binary op")
        if isinstance(e, ast.Compare):
            if len(e.ops) == 1 and isinstance(e.ops[0], ast.Eq):
                l, r = e.left, e.comparators[0]
                lt, rt = self.expr(l, env, rec), self.expr(r, env, rec)
                tyl = env.get("type:" + ast.unparse(l))
                tyr = env.get("type:" + ast.unparse(r))
                if tyl == "sel" and tyr == "sel":
                    return f"(sel_eqb {lt} {rt})"
                if {tyl, tyr} == {"comp", "ecomp"}:
                    (c, ec) = (lt, rt) if tyl == "comp" else (rt, lt)
                    return f"(ecomp_is {ec} {c})"
                self.fail(e, f"equality at unknown types {tyl} {tyr}")
            self.fail(e, "unsupported comparison")
        if isinstance(e, ast.Call):
            f = e.func
            src = ast.unparse(f)
            args = e.args
            if e.keywords:
                self.fail(e, "keywords")
            if src == "Selection.none" and not args:
                return "NoneSel"
            if src == "Selection.all" and not args:
                return "AllSel"
            if src == "Selection.leaf" and not args:
                return "LeafSel"
            if src == "isinstance" and len(args) == 2 and ast.unparse(args[1]) == "EllipsisType":
                if env.get("type:" + ast.unparse(args[0])) != "ecomp":
                    self.fail(e, "isinstance on non-ecomp")
                return f"(ecomp_is_ellipsis {self.expr(args[0], env, rec)})"
            if isinstance(f, ast.Name) and f.id in CLASSES:
                flds = self.fields[f.id]
                if len(args) != len(flds):
                    self.fail(e, "constructor arity")
                return "(" + " ".join([f.id] + [self.expr(a, env, rec) for a in args]) + ")"
            if isinstance(f, ast.Attribute) and f.attr == "check" and not args:
                return f"(check {self.expr(f.value, env, rec)})"
            # sub(addr): Selection.__call__ on a single StaticAddressComponent
            if len(args) == 1 and env.get("type:" + ast.unparse(args[0])) == "comp" and env.get("type:" + src) == "sel":
                return f"(get_subselection {self.expr(f, env, rec)} {self.expr(args[0], env, rec)})"
            self.fail(e, "unsupported call")
        self.fail(e, "unsupported expression")

    # -- statements -> a Coq term (the returned value) ------------------------
    def block(self, stmts, env, rec=None):
        stmts = strip_doc(stmts)
        if not stmts:
            raise TranslateError("block falls through without return")
        s, rest = stmts[0], stmts[1:]
        if isinstance(s, ast.Return):
            if s.value is None:
                self.fail(s, "bare return")
            return self.expr(s.value, env, rec)
        if isinstance(s, ast.Assign):
            if len(s.targets) != 1 or not isinstance(s.targets[0], ast.Name):
                self.fail(s, "assignment target")
            name = s.targets[0].id
            val = self.expr(s.value, env, rec)
            env2 = dict(env)
            env2[name] = name + "_"
            env2["type:" + name] = "sel"   # only selections are ever bound locally
            return f"(let {name}_ := {val} in {self.block(rest, env2, rec)})"
        if isinstance(s, ast.If):
            c = self.expr(s.test, env, rec)
            # if without else followed by more statements
            t = self.block(s.body + ([] if self.returns(s.body) else rest), env, rec)
            f = self.block((s.orelse if s.orelse else []) + ([] if (s.orelse and self.returns(s.orelse)) else rest), env, rec)
            return f"(if {c} then {t} else {f})"
        if isinstance(s, ast.Match):
            return self.match(s, rest, env, rec)
        self.fail(s, "unsupported statement")

    def returns(self, stmts):
        return bool(stmts) and isinstance(stmts[-1], ast.Return)

    def pattern(self, p, env):
        """returns (coq pattern, env additions) for a class / wildcard / capture pattern."""
        if isinstance(p, ast.MatchClass):
            cls = ast.unparse(p.cls)
            if cls not in CLASSES:
                self.fail(p, "unknown class pattern")
            if p.kwd_attrs:
                self.fail(p, "keyword patterns")
            flds = self.fields[cls]
            if p.patterns:
                self.fail(p, "positional sub-patterns not supported")
            names = [f"_{cls}_{n}" for n, _ in flds]
            return "(" + " ".join([cls] + ["_" for _ in flds]) + ")" if flds else cls, {}
        if isinstance(p, ast.MatchAs) and p.pattern is None:
            if p.name is None:
                return "_", {}
            return "_", {"capture": p.name}
        self.fail(p, "unsupported pattern")

    def match(self, m, rest, env, rec):
        subj = m.subject
        if isinstance(subj, ast.Tuple):
            subjects = [self.expr(x, env, rec) for x in subj.elts]
            subj_src = [ast.unparse(x) for x in subj.elts]
        else:
            subjects = [self.expr(subj, env, rec)]
            subj_src = [ast.unparse(subj)]

        def go(cases):
            if not cases:
                if rest:
                    return self.block(rest, env, rec)
                raise TranslateError(f"line {m.lineno}: match may fall through")
            c, more = cases[0], cases[1:]
            pats = c.pattern
            if len(subjects) > 1:
                if not isinstance(pats, ast.MatchSequence) or len(pats.patterns) != len(subjects):
                    self.fail(pats, "sequence pattern arity")
                plist = pats.patterns
            else:
                plist = [pats]
            env2 = dict(env)
            cps = []
            for sp, ss, p in zip(subjects, subj_src, plist):
                cp, add = self.pattern(p, env)
                cps.append(cp)
                if "capture" in add:
                    env2[add["capture"]] = sp
                    env2["type:" + add["capture"]] = env.get("type:" + ss, "sel")
                elif isinstance(p, ast.MatchClass):
                    # field access on the subject variable is now known: v.f
                    pass
            body = self.block(c.body, env2, rec)
            irrefutable = all(cp == "_" for cp in cps)
            if c.guard is not None:
                g = self.expr(c.guard, env2, rec)
                body = f"(if {g} then {body} else {go(more)})"
                if irrefutable:
                    return body
            elif irrefutable:
                return body
            return f"(match {', '.join(subjects)} with | {', '.join(cps)} => {body} | {', '.join('_' for _ in cps)} => {go(more)} end)"

        return go(m.cases)


def translate(src_path):
    src = open(src_path).read()
    tree = ast.parse(src)
    t = Tr(tree)
    t.check_pins()
    for c in CLASSES:
        if c not in t.classes:
            raise TranslateError(f"class {c} missing")
        t.fields[c] = t.class_fields(c)
    # selection subclasses must be exactly CLASSES + ChmSel
    subs = [n.name for n in tree.body if isinstance(n, ast.ClassDef) and [ast.unparse(b) for b in n.bases] == ["Selection"]]
    if sorted(subs) != sorted(CLASSES + ["ChmSel"]):
        raise TranslateError(f"Selection subclasses changed: {subs}")

    out = []
    w = out.append
    w("(* GENERATED by /verif/harness/translate_sel.py from")
    w("   src/genjax/_src/core/generative/choice_map.py -- do not edit. *)")
    w("From Coq Require Import List Bool Arith.")
    w("Import ListNotations.")
    w("")
    w("(* static address components are interned as naturals; `...` is CEllipsis *)")
    w("Inductive ecomp := CName (n : nat) | CEllipsis.")
    w("Definition ecomp_is_ellipsis (e : ecomp) : bool := match e with CEllipsis => true | _ => false end.")
    w("(* python `addr == self.addr` for a str `addr`: Ellipsis never equals a str *)")
    w("Definition ecomp_is (e : ecomp) (a : nat) : bool := match e with CName n => Nat.eqb a n | CEllipsis => false end.")
    w("Definition ecomp_eqb (a b : ecomp) : bool := match a, b with CName n, CName m => Nat.eqb n m | CEllipsis, CEllipsis => true | _, _ => false end.")
    w("")
    ctors = []
    for c in CLASSES:
        flds = t.fields[c]
        ctors.append("| " + c + "".join(f" ({n} : {ty})" for n, ty in flds))
    w("Inductive sel :=\n" + "\n".join(ctors) + ".")
    w("")
    # structural equality of dataclasses (python ==): field-wise
    w("Fixpoint sel_eqb (a b : sel) : bool :=")
    w("  match a, b with")
    for c in CLASSES:
        flds = t.fields[c]
        if not flds:
            w(f"  | {c}, {c} => true")
        else:
            la = " ".join(f"a_{n}" for n, _ in flds)
            lb = " ".join(f"b_{n}" for n, _ in flds)
            conj = " && ".join((f"sel_eqb a_{n} b_{n}" if ty == "sel" else f"ecomp_eqb a_{n} b_{n}") for n, ty in flds)
            w(f"  | {c} {la}, {c} {lb} => {conj}")
    w("  | _, _ => false")
    w("  end.")
    w("")
    # smart constructors: ComplementSel, StaticSel first (And/Or do not depend on them, but get_subselection does)
    for c in ["ComplementSel", "StaticSel", "AndSel", "OrSel"]:
        fn = t.method(c, "build")
        if not any(isinstance(d, ast.Name) and d.id == "staticmethod" for d in fn.decorator_list):
            raise TranslateError(f"{c}.build is not a staticmethod")
        params = [a.arg for a in fn.args.args]
        env = {}
        sig = []
        for a in fn.args.args:
            ann = ast.unparse(a.annotation) if a.annotation else None
            ty = {"Selection": "sel", "ExtendedStaticAddressComponent": "ecomp"}.get(ann)
            if ty is None:
                raise TranslateError(f"{c}.build: parameter {a.arg} has unknown type {ann}")
            env[a.arg] = a.arg
            env["type:" + a.arg] = ty
            sig.append(f"({a.arg} : {ty})")
        # field access on a parameter matched by class: s.s inside `case ComplementSel()`
        for cls in CLASSES:
            for (fname, fty) in t.fields[cls]:
                pass
        body = TrBuild(t).build_body(c, fn, env)
        w(f"Definition {c}_build {' '.join(sig)} : sel :=\n  {body}.")
        w("")
    # check
    w("Fixpoint check (self : sel) : bool :=")
    w("  match self with")
    for c in CLASSES:
        fn = t.method(c, "check")
        flds = t.fields[c]
        env = {"self": "self"}
        for n, ty in flds:
            env["self." + n] = "self_" + n
            env["type:self." + n] = ty
        pat = " ".join([c] + ["self_" + n for n, _ in flds])
        w(f"  | {pat} => {t.block(fn.body, env)}")
    w("  end.")
    w("")
    w("Fixpoint get_subselection (self : sel) (addr : nat) : sel :=")
    w("  match self with")
    for c in CLASSES:
        fn = t.method(c, "get_subselection")
        params = [a.arg for a in fn.args.args]
        if params != ["self", "addr"] or ast.unparse(fn.args.args[1].annotation) != "StaticAddressComponent":
            raise TranslateError(f"{c}.get_subselection signature changed")
        flds = t.fields[c]
        env = {"self": f"({' '.join([c] + ['self_' + n for n, _ in flds])})" if flds else c, "type:self": "sel", "addr": "addr", "type:addr": "comp"}
        for n, ty in flds:
            env["self." + n] = "self_" + n
            env["type:self." + n] = ty
        pat = " ".join([c] + ["self_" + n for n, _ in flds])
        w(f"  | {pat} => {t.block(fn.body, env)}")
    w("  end.")
    w("")
    return "\n".join(out) + "\n"


class TrBuild:
    """`build` bodies pattern-match on parameters and then use `s.s` on a
    parameter known (by the enclosing case) to be a ComplementSel.  We translate
    `case ComplementSel(): return s.s` by binding the field in the Coq pattern."""

    def __init__(self, t):
        self.t = t

    def build_body(self, cname, fn, env):
        t = self.t
        stmts = strip_doc(fn.body)
        if len(stmts) != 1 or not isinstance(stmts[0], ast.Match):
            raise TranslateError(f"{cname}.build: expected a single match statement")
        m = stmts[0]
        subj = m.subject
        elts = subj.elts if isinstance(subj, ast.Tuple) else [subj]
        for x in elts:
            if not isinstance(x, ast.Name) or x.id not in env:
                t.fail(x, "build matches on a non-parameter")
        subjects = [x.id for x in elts]

        def go(cases):
            if not cases:
                raise TranslateError(f"{cname}.build: match may fall through")
            c, more = cases[0], cases[1:]
            if len(subjects) > 1:
                if not isinstance(c.pattern, ast.MatchSequence) or len(c.pattern.patterns) != len(subjects):
                    if isinstance(c.pattern, ast.MatchAs) and c.pattern.pattern is None and c.pattern.name is None:
                        plist = [c.pattern] * len(subjects)
                    else:
                        t.fail(c.pattern, "sequence pattern arity")
                else:
                    plist = c.pattern.patterns
            else:
                plist = [c.pattern]
            env2 = dict(env)
            cps = []
            for s, p in zip(subjects, plist):
                if isinstance(p, ast.MatchClass):
                    cls = ast.unparse(p.cls)
                    if cls not in CLASSES or p.patterns or p.kwd_attrs:
                        t.fail(p, "unsupported class pattern")
                    flds = t.fields[cls]
                    binders = [f"{s}_{n}" for n, _ in flds]
                    for (n, ty), b in zip(flds, binders):
                        env2[s + "." + n] = b
                        env2["type:" + s + "." + n] = ty
                    cps.append("(" + " ".join([cls] + binders) + ")" if flds else cls)
                elif isinstance(p, ast.MatchAs) and p.pattern is None:
                    if p.name is not None:
                        env2[p.name] = s
                        env2["type:" + p.name] = env["type:" + s]
                    cps.append("_")
                else:
                    t.fail(p, "unsupported pattern")
            body = t.block(c.body, env2)
            irrefutable = all(cp == "_" for cp in cps)
            if c.guard is not None:
                g = t.expr(c.guard, env2)
                body = f"(if {g} then {body} else {go(more)})"
                return body if irrefutable else f"(match {', '.join(subjects)} with | {', '.join(cps)} => {body} | {', '.join('_' for _ in cps)} => {go(more)} end)"
            if irrefutable:
                return body
            return f"(match {', '.join(subjects)} with | {', '.join(cps)} => {body} | {', '.join('_' for _ in cps)} => {go(more)} end)"

        return go(m.cases)


def main():
    src = sys.argv[1] if len(sys.argv) > 1 else "/repo/src/genjax/_src/core/generative/choice_map.py"
    dst = sys.argv[2] if len(sys.argv) > 2 else os.path.join(os.path.dirname(__file__), "..", "coq", "gen", "SelGen.v")
    try:
        text = translate(src)
    except TranslateError as e:
        print(f"TRANSLATE-ERROR {e}", file=sys.stderr)
        sys.exit(2)
    os.makedirs(os.path.dirname(dst), exist_ok=True)
    old = open(dst).read() if os.path.exists(dst) else None
    if old != text:
        with open(dst, "w") as f:
            f.write(text)
        print("SelGen.v updated")
    else:
        print("SelGen.v unchanged")


if __name__ == "__main__":
    main()
