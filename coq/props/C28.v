(* C28 — HMC proposals follow leapfrog dynamics and return the MH log ratio.
   Model: coq/model/Hmc.v (HMC.edit, selection_gradient, assess_momenta) over coq/model/FlatQ.v.
   `hmc_edit true` is the code as it stands (the scan carry returns the OLD gradient: known
   finding K08), `hmc_edit false` the one-identifier repair.  The gradient `gradf`, the model's
   densities and the constant `lnorm` of the normal density are arbitrary, so every statement
   holds for every differentiable flat model.  Specification: `leap G eps` (kick eps/2 with the
   gradient at the current position, drift eps, kick eps/2 with the gradient at the new position),
   `G = G_of gradf sel t` the gradient in the selected coordinates with the other choices of t fixed.
   Vectors are compared up to Qeq (`veq`). *)
From Coq Require Import List Bool ZArith NArith QArith Morphisms.
Import ListNotations.
From Model Require Import Key FlatQ Hmc.
From Proofs Require Import FlatQProofs HmcProofs.
Open Scope Q_scope.

(* the specification's integrator is reversible: flip o leap o flip o leap = id *)
Theorem C28_leapfrog_reversible : forall (G : list Q -> list Q) eps (q p : list Q),
  Proper (veq ==> veq) G -> (forall x, length (G x) = length x) -> length p = length q ->
  let s2 := flip (leap G eps (flip (leap G eps (q, p)))) in
  veq (fst s2) q /\ veq (snd s2) p.
Proof. exact leapfrog_reversible_lemma. Qed.
Print Assumptions C28_leapfrog_reversible.

Example C28_leapfrog_reversible_nonvacuous :
  let G := map Qopp in
  Proper (veq ==> veq) G /\ (forall x : list Q, length (G x) = length x) /\
  length [1 # 2] = length [1] /\ ~ veq (fst (leap G (1 # 2) ([1], [1 # 2]))) [1].
Proof. exact leapfrog_reversible_nonvacuous_lemma. Qed.

(* exactly what the code computes: L leapfrog steps whose FIRST half-kick always uses the gradient
   at the start position *)
Theorem C28_hmc_stale_form : forall p gradf lnorm sel eps L mom0 t ft alpha fm,
  wf_trace p t -> length mom0 = length (selkeys sel (choices t)) ->
  hmc_edit true p gradf lnorm sel eps L mom0 t = Ok (ft, alpha, fm) ->
  let G := G_of gradf sel t in let q0 := selvals sel (choices t) in
  selvals sel (choices ft) = fst (iter L (stale_leap G (G q0) eps) (q0, mom0))
  /\ fm = snd (iter L (stale_leap G (G q0) eps) (q0, mom0)).
Proof. exact hmc_stale_form. Qed.
Print Assumptions C28_hmc_stale_form.

(* region R = stale_ok: before every step of the leapfrog trajectory the gradient equals the start
   gradient.  Inside R the code follows the leapfrog integrator. *)
Theorem C28_hmc_is_leapfrog : forall p gradf lnorm sel eps L mom0 t ft alpha fm,
  wf_trace p t -> length mom0 = length (selkeys sel (choices t)) ->
  let G := G_of gradf sel t in let q0 := selvals sel (choices t) in
  Proper (veq ==> veq) G ->
  stale_ok G (G q0) eps L q0 mom0 ->
  hmc_edit true p gradf lnorm sel eps L mom0 t = Ok (ft, alpha, fm) ->
  veq (selvals sel (choices ft)) (fst (iter L (leap G eps) (q0, mom0)))
  /\ veq fm (snd (iter L (leap G eps) (q0, mom0))).
Proof. exact hmc_is_leapfrog. Qed.
Print Assumptions C28_hmc_is_leapfrog.

(* R contains L = 1 and every model whose gradient does not depend on the selected coordinates *)
Theorem C28_R_one_step : forall (G : list Q -> list Q) eps q p, stale_ok G (G q) eps 1 q p.
Proof. exact stale_ok_one. Qed.
Print Assumptions C28_R_one_step.
Theorem C28_R_constant_gradient : forall (G : list Q -> list Q) eps n q p,
  (forall x, veq (G x) (G q)) -> stale_ok G (G q) eps n q p.
Proof. exact stale_ok_const. Qed.
Print Assumptions C28_R_constant_gradient.
(* and R is sharp step by step: one stale step equals one leapfrog step iff the two gradients give
   the same half-kick *)
Theorem C28_R_step_sharp : forall (G : list Q -> list Q) (g0 : list Q) eps (q p : list Q),
  length p = length q -> length g0 = length q -> length (G q) = length q ->
  (veq (kick eps p g0) (kick eps p (G q)) <->
   forall i, (i < length q)%nat -> eps * (1 # 2) * nth i g0 0 == eps * (1 # 2) * nth i (G q) 0).
Proof. exact stale_step_eq_iff. Qed.
Print Assumptions C28_R_step_sharp.
(* the Proper hypothesis holds for every polynomial model *)
Theorem C28_polynomial_gradient_proper : forall P sel t, Proper (veq ==> veq) (G_of (gradf_of P) sel t).
Proof. exact gradf_of_proper. Qed.
Print Assumptions C28_polynomial_gradient_proper.

Example C28_hmc_is_leapfrog_nonvacuous :
  let P := hx_lin in let sel := [0%nat] in let t := trace_at (prog_of P) [] [1 # 2; 1] in
  let G := G_of (gradf_of P) sel t in let q0 := selvals sel (choices t) in
  wf_trace (prog_of P) t /\ length [3 # 4] = length (selkeys sel (choices t)) /\
  Proper (veq ==> veq) G /\ stale_ok G (G q0) (1 # 2) 3 q0 [3 # 4] /\
  exists ft alpha fm, hmc_edit true (prog_of P) (gradf_of P) 0 sel (1 # 2) 3 [3 # 4] t = Ok (ft, alpha, fm)
                      /\ chm_eqb (choices ft) (choices t) = false.
Proof. exact hmc_is_leapfrog_nonvacuous_lemma. Qed.

(* outside R the statement fails (known finding K08): x ~ exp(-x^2/2), eps = 1/2, L = 3, x = p = 1 *)
Theorem C28_hmc_stale_gradient_refuted :
  exists P sel eps L mom0 t ft alpha fm,
    wf_trace (prog_of P) t /\ length mom0 = length (selkeys sel (choices t)) /\
    Proper (veq ==> veq) (G_of (gradf_of P) sel t) /\
    hmc_edit true (prog_of P) (gradf_of P) 0 sel eps L mom0 t = Ok (ft, alpha, fm) /\
    ~ veq (selvals sel (choices ft))
          (fst (iter L (leap (G_of (gradf_of P) sel t) eps) (selvals sel (choices t), mom0))).
Proof. exact hmc_stale_gradient_refuted_lemma. Qed.
Print Assumptions C28_hmc_stale_gradient_refuted.

(* the repaired carry follows the leapfrog integrator for all models, step sizes and step counts *)
Theorem C28_hmc_fixed_is_leapfrog : forall p gradf lnorm sel eps L mom0 t ft alpha fm,
  wf_trace p t -> length mom0 = length (selkeys sel (choices t)) ->
  hmc_edit false p gradf lnorm sel eps L mom0 t = Ok (ft, alpha, fm) ->
  let G := G_of gradf sel t in let q0 := selvals sel (choices t) in
  selvals sel (choices ft) = fst (iter L (leap G eps) (q0, mom0))
  /\ fm = snd (iter L (leap G eps) (q0, mom0)).
Proof. exact hmc_fixed_is_leapfrog. Qed.
Print Assumptions C28_hmc_fixed_is_leapfrog.

Example C28_hmc_fixed_nonvacuous :
  let P := hx_quad in let t := trace_at (prog_of P) [] [1] in
  wf_trace (prog_of P) t /\ length [1] = length (selkeys [0%nat] (choices t)) /\
  exists ft alpha fm ft' alpha' fm',
    hmc_edit false (prog_of P) (gradf_of P) 0 [0%nat] (1 # 2) 3 [1] t = Ok (ft, alpha, fm) /\
    hmc_edit true (prog_of P) (gradf_of P) 0 [0%nat] (1 # 2) 3 [1] t = Ok (ft', alpha', fm') /\
    chm_eqb (choices ft) (choices ft') = false.
Proof. exact hmc_fixed_nonvacuous_lemma. Qed.

(* independent of the defect: alpha = H(start) - H(end) at the positions and momenta actually reached,
   H(x, m) = -log p(x) + |m|^2/2, log p = the model's own `assess` *)
Theorem C28_hmc_alpha : forall p gradf lnorm sel eps L mom0 t ft alpha fm stale,
  wf_trace p t -> length mom0 = length (selkeys sel (choices t)) ->
  hmc_edit stale p gradf lnorm sel eps L mom0 t = Ok (ft, alpha, fm) ->
  exists lp0 lp1,
    assess p (choices t) (t_args t) = Ok lp0 /\
    assess p (choices ft) (t_args t) = Ok lp1 /\
    alpha == (- lp0 + kinetic mom0) - (- lp1 + kinetic fm).
Proof. exact hmc_alpha_thm. Qed.
Print Assumptions C28_hmc_alpha.

(* independent of the defect: only the selected choices move, the address set is unchanged *)
Theorem C28_hmc_moves_only_selection : forall p gradf lnorm sel eps L mom0 t ft alpha fm stale,
  wf_trace p t -> length mom0 = length (selkeys sel (choices t)) ->
  hmc_edit stale p gradf lnorm sel eps L mom0 t = Ok (ft, alpha, fm) ->
  keys (choices ft) = keys (choices t) /\
  forall a, ~ In a sel -> get (choices ft) a = get (choices t) a.
Proof. exact hmc_moves_only_selection_thm. Qed.
Print Assumptions C28_hmc_moves_only_selection.

(* the start traces of the correspondence are well-formed *)
Theorem C28_trace_at_wf : forall p args vals,
  nodupb (addrs p) = true -> length vals = length p -> wf_trace p (trace_at p args vals).
Proof. exact trace_at_wf. Qed.
Print Assumptions C28_trace_at_wf.
