"""C25 -- Marginal is an unbiased density sampler for the selected choices.  Engine C-inf.

Tie: Marginal(model, selection[, algorithm]).random_weighted / estimate_logpdf of /repo are run on
enumerable discrete programs built from real genjax.flip / genjax.categorical sites with dyadic
probabilities; returned choices and exp(weight) are shipped to Coq, where coq/model/Infer.v
recomputes the weight as an exact rational (tolerance 1e-5 relative, float32 log-densities).
Direct oracle (no model): weights recomputed from `assess` calls on the real distribution
objects, `model.assess`, estimate_logpdf of the same sample, numpy float64 enumeration."""
import math

import numpy as np

from . import core, inf
from .core import clist

N_TOL = inf.TOL


# ---- implementation runs -----------------------------------------------------------------
def run_rw(spec, b, seed, alg=None):
    """Marginal.random_weighted -> dict(o, logw, t) ; t = full simulated trace when recoverable"""
    from genjax._src.inference.sp import Marginal
    from genjax import Selection
    model = inf.model_of(spec)
    n = len(spec["sites"])
    key = inf.key_of(seed)
    a = inf.build_alg(alg) if alg is not None else None
    w, chm = Marginal(model, inf.selection_of(b), a).random_weighted(key)
    o = inf.from_chm(chm, n)
    # the same key with everything selected exposes the trace simulate built (public API only)
    _, chm_all = Marginal(model, Selection.all(), None).random_weighted(key)
    t = inf.from_chm(chm_all, n)
    if any(v is None for v in t) or any(o[i] is not None and o[i] != t[i] for i in range(n)):
        t = None
    return {"o": o, "logw": float(w), "t": t}


def run_est(spec, v, seed, alg=None):
    """Marginal.estimate_logpdf(key, v) and the trace `importance` builds with that key"""
    from genjax._src.inference.sp import Marginal
    from genjax import Selection
    model = inf.model_of(spec)
    n = len(spec["sites"])
    key = inf.key_of(seed)
    a = inf.build_alg(alg) if alg is not None else None
    chm = inf.to_chm(v, spec)
    e = Marginal(model, Selection.all(), a).estimate_logpdf(key, chm)
    t = None
    if alg is None:
        tr, _ = model.importance(key, chm, ())
        t = inf.from_chm(tr.get_choices(), n)
        if any(x is None for x in t) or any(v[i] is not None and v[i] != t[i] for i in range(n)):
            t = None
    return {"loge": float(e), "t": t}


def sel_independent(spec, b):
    """does the density of the selected sites depend only on the selected values? (numpy)"""
    seen = {}
    for t in inf.traces(spec):
        k = tuple(t[i] for i in range(len(t)) if b[i])
        w = inf.ref_logdens(spec, t, b)
        if k in seen and abs(seen[k] - w) > 1e-12:
            return False
        seen[k] = w
    return True


# ---- direct oracle: the property on the implementation, without the model -------------------
def oracle_rw(spec, b, seed):
    """returns (None | description, observation)"""
    r = run_rw(spec, b, seed)
    n = len(spec["sites"])
    o, w, t = r["o"], r["logw"], r["t"]
    for i in range(n):
        if (o[i] is not None) != bool(b[i]):
            return f"returned choices {o} are not exactly the selected addresses {b}", r
    if t is not None:
        want = sum(inf.site_dist_assess(spec, i, t) for i in range(n) if b[i])
        if abs(w - want) > N_TOL:
            return (f"weight {w} but the selected sites' log-densities at the simulated trace {t} "
                    f"(assess on the distribution objects) sum to {want}"), r
    if all(b):
        from genjax._src.inference.sp import Marginal
        from genjax import Selection
        model = inf.model_of(spec)
        chm = inf.to_chm(o, spec)
        exact = float(model.assess(chm, ())[0])
        if abs(w - exact) > N_TOL:
            return f"everything selected: weight {w}, model.assess of the sample {exact}", r
        e = float(Marginal(model, Selection.all(), None).estimate_logpdf(inf.key_of(seed + 7), chm))
        if abs(w - e) > N_TOL:
            return f"everything selected: weight {w}, estimate_logpdf of the same sample {e}", r
    elif any(b) and sel_independent(spec, b):
        from genjax._src.inference.sp import Marginal
        exact = math.log(inf.ref_evidence(spec, o))
        if abs(w - exact) > N_TOL:
            return f"unselected choices do not influence the selected ones: weight {w}, exact log marginal {exact}", r
        e = run_est(spec, o, seed + 7)["loge"]
        if abs(w - e) > N_TOL:
            return f"independent selection: weight {w}, estimate_logpdf of the same sample {e}", r
    return None, r


def oracle_est(spec, v, seed):
    r = run_est(spec, v, seed)
    n = len(spec["sites"])
    if r["t"] is not None:
        want = sum(inf.site_dist_assess(spec, i, r["t"]) for i in range(n) if v[i] is not None)
        if abs(r["loge"] - want) > N_TOL:
            return (f"estimate_logpdf {r['loge']} but the constrained sites' log-densities at the trace "
                    f"{r['t']} sum to {want}"), r
    if all(x is not None for x in v):
        exact = inf.ref_logdens(spec, v)
        if abs(r["loge"] - exact) > N_TOL:
            return f"estimate_logpdf of a complete sample {r['loge']}, joint log-density {exact}", r
    return None, r


def mc_unbiased(spec, b, n_keys, seed0):
    """supporting evidence only: mean of 1/w over the runs that return x against 1/p(x), 6 sigma"""
    import jax
    import jax.numpy as jnp
    from genjax._src.inference.sp import Marginal
    model = inf.model_of(spec)
    m = Marginal(model, inf.selection_of(b), None)
    keys = jax.random.split(inf.key_of(seed0), n_keys)
    ws, chms = jax.jit(jax.vmap(lambda k: m.random_weighted(k)))(keys)
    n = len(spec["sites"])
    cols = {i: np.asarray(chms[inf.site_name(i)]).astype(int) for i in range(n) if b[i]}
    ws = np.asarray(ws, dtype=np.float64)
    bad = []
    groups = {}
    for k in range(n_keys):
        x = tuple(int(cols[i][k]) if b[i] else None for i in range(n))
        groups.setdefault(x, []).append(math.exp(-ws[k]))
    for x, invs in groups.items():
        if len(invs) < 200:
            continue
        want = 1.0 / inf.ref_evidence(spec, list(x))
        mean, sd = float(np.mean(invs)), float(np.std(invs)) / math.sqrt(len(invs))
        if abs(mean - want) > 6 * sd + 1e-4 * want:
            bad.append((x, mean, want, sd, len(invs)))
    return bad


# ---- cases ---------------------------------------------------------------------------------
def gen_cases(ctx):
    rng = ctx.rng
    cases = []
    nmodels = ctx.n(10, 120)
    for mi in range(nmodels):
        nsites = rng.choice([1, 2, 2, 3, 3])
        spec = inf.gen_spec(rng, nsites, p_cat=0.3 if mi % 3 else 0.0)
        sels = [[True] * nsites]
        pool = [list(bits) for bits in __import__("itertools").product([False, True], repeat=nsites)
                if any(bits) and not all(bits)]
        rng.shuffle(pool)
        sels += pool[: ctx.n(2, 4)]
        if rng.random() < 0.15:
            sels.append([False] * nsites)
        for b in sels:
            for _ in range(ctx.n(1, 2)):
                cases.append({"kind": "rw", "spec": spec, "b": b, "seed": rng.randrange(10 ** 6)})
        # estimate_logpdf on partial and complete samples
        for _ in range(ctx.n(1, 3)):
            full = [rng.randrange(s["n"]) for s in spec["sites"]]
            v = [x if rng.random() < 0.6 else None for x in full]
            cases.append({"kind": "est", "spec": spec, "v": v, "seed": rng.randrange(10 ** 6)})
        cases.append({"kind": "est", "spec": spec, "v": [rng.randrange(s["n"]) for s in spec["sites"]],
                      "seed": rng.randrange(10 ** 6)})
    # with an inference algorithm (known finding K62: modelled as the code behaves, no oracle)
    for mi in range(ctx.n(4, 40)):
        nsites = rng.choice([2, 2, 3])
        spec = inf.gen_spec(rng, nsites, p_cat=0.0)     # flips only: ImportanceK.run_csmc stacks scalar leaves only
        b = [rng.random() < 0.5 for _ in range(nsites)]
        if not any(b):
            b[rng.randrange(nsites)] = True
        c0 = [rng.randrange(2) if b[i] else None for i in range(nsites)]
        K = 1 + mi % 2
        alg = ["imp", {"spec": spec, "c": c0}, None] if K == 1 else ["impk", {"spec": spec, "c": c0}, None, K]
        cases.append({"kind": "rw_alg", "spec": spec, "b": b, "alg": alg, "seed": rng.randrange(10 ** 6)})
        v = [rng.randrange(2) if b[i] else None for i in range(nsites)]
        cases.append({"kind": "est_alg", "spec": spec, "alg": alg, "v": v, "seed": rng.randrange(10 ** 6)})
    return cases


def run_case(c):
    """-> (coq term, oracle failure or None, observation)"""
    k = c["kind"]
    spec = c["spec"]
    M = inf.c_model(spec)
    if k == "rw":
        why, r = oracle_rw(spec, c["b"], c["seed"])
        t = "None" if r["t"] is None else f"(Some {inf.c_trace(r['t'])})"
        return f"CMargRW {M} {inf.c_bools(c['b'])} {t} {inf.c_cmap(r['o'])} {inf.cq_exp(r['logw'])}", why, r
    if k == "est":
        why, r = oracle_est(spec, c["v"], c["seed"])
        t = "None" if r["t"] is None else f"(Some {inf.c_trace(r['t'])})"
        return f"CMargEst {M} {inf.c_cmap(c['v'])} {t} {inf.cq_exp(r['loge'])}", why, r
    if k == "rw_alg":
        r = run_rw(spec, c["b"], c["seed"], alg=c["alg"])
        return (f"CMargRWAlg {M} {inf.c_bools(c['b'])} {inf.c_alg(c['alg'])} {inf.c_cmap(r['o'])} "
                f"{inf.cq_exp(r['logw'])}"), None, r
    if k == "est_alg":
        r = run_est(spec, c["v"], c["seed"], alg=c["alg"])
        return f"CMargEstAlg {M} {inf.c_alg(c['alg'])} {inf.c_cmap(c['v'])} {inf.cq_exp(r['loge'])}", None, r
    raise ValueError(k)


def probe_known(ctx):
    """in-process replay of K62 (Marginal with an algorithm) and K63 (estimate_logpdf signature)"""
    import jax.numpy as jnp
    import genjax
    from genjax._src.inference.sp import Marginal
    from genjax import Selection
    spec = {"sites": [{"n": 2, "tab": [0.5, 0.5]}, {"n": 2, "tab": [[0.75, 0.25], [0.25, 0.75]]}]}
    model = inf.model_of(spec)
    alg = inf.build_alg(["imp", {"spec": spec, "c": [0, 0]}, None])
    seen = False
    for seed in range(4):
        w, chm = Marginal(model, Selection.all(), alg).random_weighted(inf.key_of(seed))
        exact = float(model.assess(chm, ())[0])
        if abs(float(w) - exact) > N_TOL:
            seen = True
            ctx.fail("oracle", f"Marginal with an algorithm, everything selected: weight {float(w)}, assess of the sample {exact}",
                     case={"witness": "witness/w62_marginal_algorithm_weight.py"}, signature="marginal-algorithm-weight")
            break
    if not seen:
        ctx.log("note: known finding K62 (Marginal.random_weighted with an algorithm) no longer reproduces")

    @genjax.gen
    def with_arg(p):
        return genjax.flip(p) @ "s0"
    try:
        Marginal(with_arg, Selection.all(), None).estimate_logpdf(inf.key_of(0), inf.to_chm([1]), jnp.array(0.25))
        ctx.log("note: Marginal.estimate_logpdf accepts a non-tuple program argument (K63 no longer reproduces)")
    except TypeError:
        ctx.fail("oracle", "Marginal.estimate_logpdf(key, v, 0.25) raises TypeError (argument annotation)",
                 case={"witness": "witness/w63_estimate_logpdf_signature.py"}, signature="estimate-logpdf-signature")


def run_one(c):
    term, why, r = run_case(c)
    return {"term": term, "why": why, "sig": None, "obs": r}


def run(ctx):
    import genjax
    ctx.proofs()
    ctx.log(f"implementation under test: {genjax.__file__}")
    cases = gen_cases(ctx)
    terms, kept, nbad = [], [], 0
    for c, out in zip(cases, inf.pmap("harness.p_C25", "run_one", cases, workers=ctx.n(1, 6))):
        term, why, r = out["term"], out["why"], out["obs"]
        if why is not None:
            nbad += 1
            if nbad <= 3:
                ctx.fail("oracle", f"{c['kind']} sel={c.get('b')} seed={c['seed']}: {why}", case=c)
        if term is not None:
            terms.append(term)
            kept.append((c, r))
    mism, errs = core.coq_mismatches("C25", inf.HEADER, terms, "icase", fn="imismatches", shard=60)
    for e in errs[:2]:
        ctx.fail("correspondence", "C-inf case file did not evaluate: " + e)
    for i in mism[:3]:
        c, r = kept[i]
        ctx.fail("correspondence", f"model coq/model/Infer.v and implementation disagree on {c['kind']} "
                 f"(sel={c.get('b')}, v={c.get('v')}, seed={c['seed']}): implementation returned {r}", case=dict(c, tie=True))
    try:
        probe_known(ctx)
    except Exception as e:
        ctx.log(f"note: the in-process replay of the recorded findings K62/K63 raised {type(e).__name__}: {str(e)[:200]}")
    if mism and not any(f["kind"] == "oracle" and not f["signature"] for f in ctx.failures):
        # search around the mismatches for a failing input of the direct oracle
        for i in mism[:5]:
            c, _ = kept[i]
            for d in range(1, 6):
                c2 = dict(c, seed=c["seed"] + d)
                if c2["kind"] in ("rw", "est"):
                    why = (oracle_rw(c2["spec"], c2["b"], c2["seed"]) if c2["kind"] == "rw"
                           else oracle_est(c2["spec"], c2["v"], c2["seed"]))[0]
                    if why:
                        ctx.fail("oracle", f"{c2['kind']} seed={c2['seed']}: {why}", case=c2)
                        break
    if not ctx.quick:
        rng = ctx.rng
        for _ in range(4):
            spec = inf.gen_spec(rng, 3, p_cat=0.0)
            b = [True, False, True] if rng.random() < 0.5 else [False, True, False]
            bad = mc_unbiased(spec, b, 40000, rng.randrange(10 ** 6))
            ctx.cov["evaluations"] += 40000
            if bad:
                ctx.log(f"supporting Monte-Carlo check: mean of 1/w deviates by more than 6 sigma: {bad[:2]}")
                ctx.fail("oracle", f"Monte-Carlo mean of exp(-w) given the sample differs from 1/p(sample): {bad[:2]}",
                         case={"kind": "mc", "spec": spec, "b": b})
    by_kind = {}
    for c, _ in kept:
        by_kind[c["kind"]] = by_kind.get(c["kind"], 0) + 1
    nontrivial = {(repr(c["spec"]), repr(c.get("b") or c.get("v"))) for c, r in kept
                  if (c["kind"] in ("rw", "rw_alg") and any(c["b"]) and not all(c["b"]) and not sel_independent(c["spec"], c["b"]))
                  or (c["kind"] in ("est", "est_alg") and any(x is None for x in c["v"]) and any(x is not None for x in c["v"]))}
    ctx.cov["evaluations"] += len(kept)
    ctx.cov["traces_validated_against_impl"] = len(kept) - len(mism)
    ctx.cov["distinct_nontrivial"] = len(nontrivial)
    ctx.cov["by_kind"] = by_kind
    ctx.cov["trace_recovered"] = sum(1 for c, r in kept if r and r.get("t") is not None)
    ctx.cov["genjax_file"] = genjax.__file__
    ctx.cov["rule"] = ("random programs of 1-3 sites (flip / 3-way categorical, dyadic conditional tables, 75% of later sites "
                       "depend on earlier values) x selections (all, proper subsets, none) x keys; estimate_logpdf on partial "
                       "and complete samples; Marginal with Importance(K=1)/ImportanceK(K=2) as algorithm; non-trivial = "
                       "proper selection whose weight depends on an unselected value, or a partial sample")
    ctx.cov["tolerance"] = "model: |exp(w_impl) - w_model| <= 1e-5 * w_model (exact rationals in Coq); oracle: |log w - ref| <= 2e-5"
    ctx.add_samples([{"case": {k: v for k, v in c.items() if k != "spec"}, "sites": [s["n"] for s in c["spec"]["sites"]], "impl": r}
                     for c, r in kept[:1] + kept[len(kept) // 2: len(kept) // 2 + 1] + kept[-1:]])


def replay(case):
    if "witness" in case:
        rc, last = core.run_witness(case["witness"])
        print(last)
        return rc == 0
    k = case["kind"]
    if k == "rw":
        why, r = oracle_rw(case["spec"], case["b"], case["seed"])
    elif k == "est":
        why, r = oracle_est(case["spec"], case["v"], case["seed"])
    elif k == "mc":
        bad = mc_unbiased(case["spec"], case["b"], 40000, 1)
        why, r = (str(bad[:2]) if bad else None), None
    else:
        why, r = None, None
    print(f"{k} sel={case.get('b')} v={case.get('v')} seed={case.get('seed')}: implementation {r}: {why or 'direct oracle ok'}")
    if why is None and (case.get("tie") or k in ("rw_alg", "est_alg")):
        # reported by the correspondence: re-run this one case against the Coq model
        term, _, r = run_case(case)
        ok = inf.tie_one("C25replay", inf.HEADER, term, "icase", "imismatches")
        print(f"model coq/model/Infer.v vs implementation {r}: {'agree' if ok else 'DISAGREE'}")
        return ok
    return why is None
