(* AdevPoly.v — polynomials over Q (coefficient lists): the first two coefficients of
   sums/products, evaluation is a ring homomorphism, c1 is the formal derivative at 0. *)
From Coq Require Import List ZArith QArith Qabs Bool Lia Setoid Morphisms.
Import ListNotations.
From Model Require Import Adev.
Open Scope Q_scope.

Lemma c0_nil : c0 [] = 0. Proof. reflexivity. Qed.
Lemma c1_nil : c1 [] = 0. Proof. reflexivity. Qed.

Lemma c0_padd a b : c0 (padd a b) == c0 a + c0 b.
Proof. destruct a, b; unfold c0; simpl; ring. Qed.
Lemma c1_padd a b : c1 (padd a b) == c1 a + c1 b.
Proof.
  destruct a as [|x a], b as [|y b]; unfold c1; simpl; try ring.
  destruct a, b; simpl; ring.
Qed.
Lemma c0_pscale c a : c0 (pscale c a) == c * c0 a.
Proof. destruct a; unfold c0; simpl; ring. Qed.
Lemma c1_pscale c a : c1 (pscale c a) == c * c1 a.
Proof. destruct a as [|x a]; unfold c1; simpl; try ring. destruct a; simpl; ring. Qed.
Lemma c0_pneg a : c0 (pneg a) == - c0 a.
Proof. unfold pneg. rewrite c0_pscale. ring. Qed.
Lemma c1_pneg a : c1 (pneg a) == - c1 a.
Proof. unfold pneg. rewrite c1_pscale. ring. Qed.
Lemma c0_psub a b : c0 (psub a b) == c0 a - c0 b.
Proof. unfold psub. rewrite c0_padd, c0_pneg. ring. Qed.
Lemma c1_psub a b : c1 (psub a b) == c1 a - c1 b.
Proof. unfold psub. rewrite c1_padd, c1_pneg. ring. Qed.
Lemma c0_pmul a b : c0 (pmul a b) == c0 a * c0 b.
Proof.
  destruct a as [|x a]; simpl. { unfold c0; simpl; ring. }
  rewrite c0_padd, c0_pscale. unfold c0; simpl. ring.
Qed.
Lemma c1_pmul a b : c1 (pmul a b) == c0 a * c1 b + c1 a * c0 b.
Proof.
  destruct a as [|x a]; simpl. { unfold c0, c1; simpl; ring. }
  rewrite c1_padd, c1_pscale.
  change (c1 (0 :: pmul a b)) with (c0 (pmul a b)). rewrite c0_pmul.
  change (c1 (x :: a)) with (c0 a). change (c0 (x :: a)) with x. ring.
Qed.
Lemma c0_pconst c : c0 (pconst c) = c. Proof. reflexivity. Qed.
Lemma c1_pconst c : c1 (pconst c) = 0. Proof. reflexivity. Qed.
Lemma c0_line x : c0 (line x) = fst x. Proof. reflexivity. Qed.
Lemma c1_line x : c1 (line x) = snd x. Proof. reflexivity. Qed.

(* evaluation *)
Lemma peval_padd a : forall b t, peval (padd a b) t == peval a t + peval b t.
Proof.
  induction a as [|x a IH]; intros b t; simpl. { ring. }
  destruct b as [|y b]; simpl. { ring. }
  rewrite IH. ring.
Qed.
Lemma peval_pscale c a t : peval (pscale c a) t == c * peval a t.
Proof. induction a as [|x a IH]; simpl. { ring. } unfold pscale in IH. rewrite IH. ring. Qed.
Lemma peval_pneg a t : peval (pneg a) t == - peval a t.
Proof. unfold pneg. rewrite peval_pscale. ring. Qed.
Lemma peval_psub a b t : peval (psub a b) t == peval a t - peval b t.
Proof. unfold psub. rewrite peval_padd, peval_pneg. ring. Qed.
Lemma peval_pmul a : forall b t, peval (pmul a b) t == peval a t * peval b t.
Proof.
  induction a as [|x a IH]; intros b t; simpl. { ring. }
  rewrite peval_padd, peval_pscale. simpl. rewrite IH. ring.
Qed.
Lemma peval_pconst c t : peval (pconst c) t == c.
Proof. simpl. ring. Qed.
Lemma peval_line x t : peval (line x) t == fst x + t * snd x.
Proof. simpl. ring. Qed.

(* c0 is the value at 0 and c1 the value of the formal derivative at 0 *)
Lemma c0_peval0 a : c0 a == peval a 0.
Proof. destruct a; unfold c0; simpl; ring. Qed.
Lemma c1_pderiv0 a : c1 a == peval (pderiv a) 0.
Proof.
  destruct a as [|x a]; simpl. { reflexivity. }
  destruct a as [|y a]; unfold c1; simpl. { reflexivity. }
  ring.
Qed.

(* agreement up to first order *)
Definition peq1 (a b : poly) : Prop := c0 a == c0 b /\ c1 a == c1 b.
Lemma peq1_refl a : peq1 a a. Proof. split; reflexivity. Qed.
Lemma peq1_sym a b : peq1 a b -> peq1 b a. Proof. intros [H1 H2]; split; symmetry; assumption. Qed.
Lemma peq1_trans a b c : peq1 a b -> peq1 b c -> peq1 a c.
Proof. intros [H1 H2] [H3 H4]; split; etransitivity; eassumption. Qed.
Lemma peq1_padd a a' b b' : peq1 a a' -> peq1 b b' -> peq1 (padd a b) (padd a' b').
Proof. intros [H1 H2] [H3 H4]; split; rewrite ?c0_padd, ?c1_padd, ?H1, ?H2, ?H3, ?H4; reflexivity. Qed.
Lemma peq1_psub a a' b b' : peq1 a a' -> peq1 b b' -> peq1 (psub a b) (psub a' b').
Proof. intros [H1 H2] [H3 H4]; split; rewrite ?c0_psub, ?c1_psub, ?H1, ?H2, ?H3, ?H4; reflexivity. Qed.
Lemma peq1_pmul a a' b b' : peq1 a a' -> peq1 b b' -> peq1 (pmul a b) (pmul a' b').
Proof. intros [H1 H2] [H3 H4]; split; rewrite ?c0_pmul, ?c1_pmul, ?H1, ?H2, ?H3, ?H4; reflexivity. Qed.
