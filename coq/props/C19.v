(* C19 — Mask algebra matches its truth tables for concrete and traced flags.
   Model: coq/model/MaskAlg.v + Flag.v (mirrors functional_types.py branch by branch:
   the `case [True, _]` identity patterns, _or_idx, tree_choose with wrap, build's AND,
   flatten's concrete_true/false).  Stated for scalar flags in every staging (Python
   bool / array) and arbitrary value pytrees; vectorised flags are covered by the
   correspondence run (all 16 pairs of 2-element flags) and by the non-vacuity
   example below, not yet by an elementwise theorem (C19_*_scalar is the proved part). *)
From Coq Require Import List Bool ZArith.
Import ListNotations.
From Model Require Import Flag MaskAlg.
From Proofs Require Import FlagProofs MaskProofs.
Open Scope Z_scope.

Theorem C19_or_table_scalar : forall a b r s1 x s2 y,
  mflag a = FS s1 x -> mflag b = FS s2 y -> mor a b = Some r ->
  obs (mflag r) = OS (x || y) /\ mobs_val r = if x then mobs_val a else mobs_val b.
Proof. exact or_table_scalar. Qed.
Print Assumptions C19_or_table_scalar.

Theorem C19_xor_table_scalar : forall a b r s1 x s2 y,
  mflag a = FS s1 x -> mflag b = FS s2 y -> mxor a b = Some r ->
  obs (mflag r) = OS (xorb x y) /\ (xorb x y = true -> mobs_val r = if x then mobs_val a else mobs_val b).
Proof. exact xor_table_scalar. Qed.
Print Assumptions C19_xor_table_scalar.

Theorem C19_not_table : forall a, mobs_flag (mnot a) = omap negb (mobs_flag a) /\ mval (mnot a) = mval a.
Proof. exact not_table. Qed.
Print Assumptions C19_not_table.

Theorem C19_build_is_and : forall m f r,
  build (Msk m) f = Some r ->
  mval r = mval m /\ Some (obs (mflag r)) = olift2 andb (obs f) (obs (mflag m)).
Proof. exact build_and. Qed.
Print Assumptions C19_build_is_and.

Theorem C19_flatten_cases : forall m,
  (mflag m = FS Py false /\ flatten m = FlNone) \/
  (mflag m = FS Py true /\ flatten m = FlVal (mval m)) \/
  (concrete_true (mflag m) = false /\ concrete_false (mflag m) = false /\ flatten m = FlMask m).
Proof. exact flatten_cases. Qed.
Print Assumptions C19_flatten_cases.

Theorem C19_unmask_default_scalar : forall m s b dflt r,
  mflag m = FS s b -> unmask_default m dflt = Some r ->
  map tv_num r = if b then map tv_num (mval m) else map tv_num dflt.
Proof. exact unmask_default_scalar. Qed.
Print Assumptions C19_unmask_default_scalar.

(* same observable result whether flags are Python booleans or arrays *)
Theorem C19_or_stage_erasure : forall a a' b b' r r' x y s1 s2 s1' s2',
  mflag a = FS s1 x -> mflag a' = FS s1' x -> mflag b = FS s2 y -> mflag b' = FS s2' y ->
  mobs_val a = mobs_val a' -> mobs_val b = mobs_val b' ->
  mor a b = Some r -> mor a' b' = Some r' ->
  obs (mflag r) = obs (mflag r') /\ mobs_val r = mobs_val r'.
Proof. exact or_stage_erasure. Qed.
Print Assumptions C19_or_stage_erasure.
Theorem C19_xor_stage_erasure : forall a a' b b' r r' x y s1 s2 s1' s2',
  mflag a = FS s1 x -> mflag a' = FS s1' x -> mflag b = FS s2 y -> mflag b' = FS s2' y ->
  mobs_val a = mobs_val a' -> mobs_val b = mobs_val b' ->
  mxor a b = Some r -> mxor a' b' = Some r' ->
  obs (mflag r) = obs (mflag r') /\ (xorb x y = true -> mobs_val r = mobs_val r').
Proof. exact xor_stage_erasure. Qed.
Print Assumptions C19_xor_stage_erasure.

Example C19_vector_nonvacuous :
  mor (MkMask [TVec DFloat [1; 2; 3]] (FV [true; false; false])) (MkMask [TVec DFloat [10; 20; 30]] (FV [false; true; false]))
  = Some (MkMask [TVec DFloat [1; 20; 30]] (FV [true; true; false])).
Proof. reflexivity. Qed.
