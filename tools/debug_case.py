"""tools/debug_case.py <seed> <depth> [flavour] : run one engine case on the implementation, evaluate the model on it
inside Coq, and print, for the first step on which they differ, what the model computed (the implementation's
observation is in the step).  Debugging aid only; not part of any registered check."""
import sys, json, subprocess, re
sys.path.insert(0, '/verif')
from harness import gfi_run, gfi, core, bgfi

if __name__ == "__main__":
    seed, depth = int(sys.argv[1]), int(sys.argv[2])
    flavour = sys.argv[3] if len(sys.argv) > 3 else "basic"
    c = gfi_run.make_case(seed, depth=depth, flavour=flavour)
    gfi_run.worker_init()
    o = gfi_run.run_case(c)

    if "skip" in o:
        print("skipped:", o["skip"]); sys.exit(0)
    term = gfi_run.c_case(c, o)
    ship = [i for (i, _, _, _) in gfi_run.shipped_steps(o)]
    body = [bgfi.HDR, "Import ListNotations.", "Open Scope Z_scope.", "Definition the_case : gcase := ", term, ".",
            "Definition g := desugar (fst the_case).",
            "Fixpoint states (sx : st) (ss : list step) : list st := match ss with [] => [sx] | s :: r => sx :: states (snd (run_step g sx s)) r end.",
            "Definition bad := first_bad g ([], []) (snd the_case) 0.",
            "Eval vm_compute in bad.",
            "Definition what := match bad with None => None | Some i => match nth_error (snd the_case) i, nth_error (states ([], []) (snd the_case)) i with",
            "  | Some s, Some sx => Some (match s with",
            "      | StEdit ti seed q args tags w => match nth_error (fst sx) ti with Some t => inl (req_edit g (key_of_seed seed) t (rbuild q) args tags) | None => inr 0%nat end",
            "      | StGen seed c args w => inr 1%nat",
            "      | _ => inr 2%nat end)",
            "  | _, _ => None end end.",
            "Eval vm_compute in what."]
    p = core.COQ / "cases" / "debug_case.v"
    p.write_text("\n".join(body) + "\n")
    r = subprocess.run(["coqc", *core.QFLAGS, "-Q", "cases", "Cases", "cases/debug_case.v"], cwd=core.COQ, capture_output=True, text=True)
    out = r.stdout + r.stderr
    m = re.search(r"= Some (\d+)", out)
    print(out[:6000])
    if m:
        si = ship[int(m.group(1))]
        print("implementation step", si, json.dumps(o["steps"][si], default=str)[:6000])
