"""known-finding witness (C30): IWELBO raises NotImplementedError for every guide built from ADEV
primitives: ImportanceK vmaps the proposal, and sample_p's batching rule
(adev/core.py batch_primitive) is `raise NotImplementedError`.  exit 1 while present."""
import sys, jax, jax.numpy as jnp, math
import genjax
from genjax import ChoiceMapBuilder as C

@genjax.gen
def model(th, a):
    x = genjax.flip(a) @ "x"
    _ = genjax.flip(jnp.where(x, 0.75, 0.25)) @ "y"

@genjax.marginal()
@genjax.gen
def guide(target):
    _ = genjax.vi.flip_enum(target.args[0]) @ "x"

mk = lambda th, a: genjax.Target(model, (th, a), C["y"].set(True))
bad = []
try:
    g = genjax.vi.IWELBO(guide, mk, 1)(jax.random.key(0), (0.25, 0.5))
    # N = 1: the IWELBO is the ELBO; d/dth of -ELBO in closed form
    want = -((math.log(0.375) - math.log(0.25)) - (math.log(0.125) - math.log(0.75)))
    if abs(float(g[0]) - want) > 1e-4:
        bad.append(("grad", float(g[0]), want))
except Exception as e:
    bad.append(("raises", type(e).__name__, str(e)[:90]))
print("FAIL" if bad else "OK", bad[:2])
sys.exit(1 if bad else 0)
