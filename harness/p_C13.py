"""C13 — engine B-gfi (harness/bgfi.py) for switch / or_else; harness/mixq.py for mix; theorems in coq/props/C13.v."""
from . import bgfi, mixq


def run(ctx):
    bgfi.run_property(ctx, "C13", oracles=bgfi.PROP_ORACLES.get("C13"))
    mixq.check(ctx)


def replay(case):
    if "mix_seed" in case:
        return mixq.replay(case["mix_seed"])
    return bgfi.replay(case)
