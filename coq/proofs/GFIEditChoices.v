(* C05 / C07: which choices an edit changes.  For an Update, every live random choice of the new
   trace whose address carries a valid constraint value takes that value; for an Update or a
   Regenerate, every live choice that is not constrained / not selected keeps the value the old
   trace held at that address. *)
From Coq Require Import List Bool ZArith NArith Lia Arith.
Import ListNotations.
From Gen Require Import SelGen.
From Model Require Import Key Sel GFI GFIEdit.
From Proofs Require Import SelProofs GFIBase GFIRef GFIWf GFIConsistent GFIProject GFISim GFIGen GFIEditProofs.
Open Scope Z_scope.

(* the value held at an address, whatever its mask flag *)
Definition leafval (c : chm) (p : path) : option Z := match cget c p with Some v => leaf_Z v | None => None end.
(* the choice is left alone by the request *)
Definition untouched (r : request) (tm : term) : bool :=
  match r with
  | RUpdate c => negb (con c tm)
  | RRegen s => negb (selected s tm)
  | _ => false
  end.
Definition installs (r : request) (tm : term) : Prop :=
  match r with RUpdate c => agrees_at c tm | _ => True end.
Definition keeps (r : request) (old : chm) (tm : term) : Prop :=
  untouched r tm = true -> leafval old (tm_path tm) = Some (tm_val tm).
Definition ChOk (r : request) (old : chm) (l : list term) : Prop := Forall (fun tm => installs r tm /\ keeps r old tm) l.

(* the request seen from below an address prefix *)
Definition req_under_static (r : request) (a : addr) : request :=
  match r with RUpdate c => RUpdate (csub_addr c a) | RRegen s => RRegen (sel_addr s a) | _ => r end.
Definition req_under_index (r : request) (i : nat) : request :=
  match r with RUpdate c => RUpdate (csub c (KI i)) | _ => r end.

Lemma leafval_csub_path c p q : leafval (csub_path c p) q = leafval c (p ++ q).
Proof. unfold leafval. rewrite cget_csub_path. reflexivity. Qed.
Lemma leafval_cmask f c p : leafval (cmask f c) p = leafval c p.
Proof. unfold leafval. rewrite cget_cmask. destruct (cget c p); simpl; [apply leaf_Z_vmask | reflexivity]. Qed.

Lemma ChOk_prefix_static r old a l :
  plain r -> ChOk (req_under_static r a) (csub_addr old a) l -> ChOk r old (map (tm_prefix (map KS a)) l).
Proof.
  intros Hp H. unfold ChOk in *. apply Forall_forall. intros x Hin. apply in_map_iff in Hin. destruct Hin as [tm [<- Hin]].
  pose proof (proj1 (Forall_forall _ _) H tm Hin) as [Hi Hk]. destruct r; simpl in Hp; try contradiction; simpl in *.
  - split.
    + apply agrees_prefix. exact Hi.
    + unfold keeps, untouched in *. rewrite con_prefix. intros Hu. simpl. rewrite <- leafval_csub_path. apply Hk. exact Hu.
  - split; [exact I|]. unfold keeps, untouched in *. rewrite selected_prefix_static. intros Hu. simpl.
    rewrite <- leafval_csub_path. apply Hk. exact Hu.
Qed.
Lemma ChOk_prefix_index r old i l :
  plain r -> ChOk (req_under_index r i) (csub old (KI i)) l -> ChOk r old (map (tm_prefix [KI i]) l).
Proof.
  intros Hp H. unfold ChOk in *. apply Forall_forall. intros x Hin. apply in_map_iff in Hin. destruct Hin as [tm [<- Hin]].
  pose proof (proj1 (Forall_forall _ _) H tm Hin) as [Hi Hk]. destruct r; simpl in Hp; try contradiction; simpl in *.
  - split.
    + apply (agrees_prefix c [KI i]). exact Hi.
    + unfold keeps, untouched in *. rewrite (con_prefix c [KI i]). intros Hu. simpl.
      change (leafval old (KI i :: tm_path tm)) with (leafval old ([KI i] ++ tm_path tm)). rewrite <- leafval_csub_path. apply Hk. exact Hu.
  - split; [exact I|]. unfold keeps, untouched in *. intros Hu. simpl.
    change (leafval old (KI i :: tm_path tm)) with (leafval old ([KI i] ++ tm_path tm)). rewrite <- leafval_csub_path. apply Hk. exact Hu.
Qed.

Lemma nth_error_iterms_ok r old : forall (news : list trace) s,
  plain r ->
  (forall j t', nth_error news j = Some t' -> ChOk (req_under_index r (s + j)) (csub old (KI (s + j))) (t_terms t')) ->
  ChOk r old (iterms s news).
Proof.
  induction news as [|t' rest IH]; intros s Hp H; [constructor|].
  rewrite iterms_cons. unfold ChOk. apply Forall_app. split.
  - apply ChOk_prefix_index; [exact Hp|]. specialize (H 0%nat t' eq_refl). rewrite Nat.add_0_r in H. exact H.
  - apply IH; [exact Hp|]. intros j t0 Hj. replace (S s + j)%nat with (s + S j)%nat by lia. apply H. exact Hj.
Qed.

Lemma heads_ok_of_wfb b env subs ret : heads_ok (body_addrs b) -> wfb b env subs ret -> heads_ok (map fst subs).
Proof. intros H Hw. rewrite (wfb_addrs _ _ _ _ Hw). exact H. Qed.

(* the old sub-trace found at an address is the one whose choices sit under that address *)
Lemma subs_get_choices olds a told :
  heads_ok (map fst olds) -> subs_get olds a = Some told -> csub_addr (choices_of olds) a = t_choices told.
Proof.
  intros Hh Hg.
  assert (exists pre post, olds = pre ++ (a, told) :: post) as [pre [post ->]].
  { clear Hh. induction olds as [|[a' t] r IH]; [discriminate|]. simpl in Hg. destruct (addr_eqb a a') eqn:E.
    - apply addr_eqb_eq in E. subst. inversion Hg; subst. exists [], r. reflexivity.
    - destruct (IH Hg) as [pre [post ->]]. exists ((a', t) :: pre), post. reflexivity. }
  apply csub_addr_own. exact Hh.
Qed.

Theorem edit_choices_all :
  (forall g, wfg g -> forall k t r a tg x, plain r -> wft g t -> edit g k t r a tg = Ok x ->
      ChOk r (t_choices t) (t_terms (fst (fst x)))) /\
  (forall b, wfg_body b -> forall k cnt olds r env envt acc w bw x,
      plain r -> olds_ok b olds -> heads_ok (map fst olds) ->
      edit_body b k cnt olds r env envt acc w bw = Ok x ->
      let '(v, subs, _, _) := x in
      exists subs', subs = acc ++ subs' /\ ChOk r (choices_of olds) (terms_of subs')) /\
  (forall bs, wfg_branches bs -> forall j k t r a tg x, plain r -> wf_branch bs j t -> edit_branch bs j k t r a tg = Ok x ->
      ChOk r (t_choices t) (t_terms (fst (fst x)))).
Proof.
  apply gf_sbody_gfs_ind.
  - (* GDist *) intros d _ k t r a tg x Hp Hw H. destruct t; simpl in Hw; try contradiction.
    destruct Hw as [-> [p0 [-> ->]]]. simpl in H.
    destruct a as [|[p| | | | |] [|? ?]]; try discriminate.
    destruct r; simpl in Hp; try contradiction.
    + unfold cvalue in H. destruct (cget c []) as [[z|b|l|l|f [z| | | | |]|]|] eqn:E; try discriminate; inversion H; subst;
        try destruct f;
        unfold ChOk; simpl; (constructor; [|constructor]); unfold installs, keeps, untouched, agrees_at, con, constrained, leafval; simpl; rewrite E; simpl;
        (split; [intros Hc0; try discriminate; eexists; split; reflexivity | intros Hu; try discriminate; reflexivity]).
    + destruct (check s) eqn:Ec; inversion H; subst; unfold ChOk; simpl; (constructor; [|constructor]);
        unfold installs, keeps, untouched, selected, leafval; simpl; rewrite mem_nil, Ec; split; auto; try discriminate.
  - (* GStatic *) intros b IH [Hheads Hwb] k t r a tg x Hp Hw H. destruct t; simpl in Hw; try contradiction.
    simpl in H.
    assert (Hnd : NoDup (body_addrs b)) by (apply NoDup_heads; apply Hheads).
    destruct (wfb_olds _ _ _ _ [] Hw Hnd) as [Hok _]. simpl in Hok.
    pose proof (heads_ok_of_wfb _ _ _ _ Hheads Hw) as Hh.
    destruct r; try (simpl in Hp; contradiction).
    + bind_inv H as y Hy. destruct y as [[[v subs'] w'] bw']. inversion H; subst.
      pose proof (IH Hwb _ _ _ _ _ _ _ _ _ _ Hp Hok Hh Hy) as IH'. simpl in IH'. destruct IH' as [subs'' [-> Hc]]. exact Hc.
    + bind_inv H as y Hy. destruct y as [[[v subs'] w'] bw']. inversion H; subst.
      pose proof (IH Hwb _ _ _ _ _ _ _ _ _ _ Hp Hok Hh Hy) as IH'. simpl in IH'. destruct IH' as [subs'' [-> Hc]]. exact Hc.
  - (* GVmap *) intros axes g IH Hg k t r a tg x Hp Hw H. destruct t; simpl in Hw; try contradiction.
    destruct Hw as [n [Hlen [Hn Hall]]]. simpl in H.
    destruct r; simpl in Hp; try contradiction; [|discriminate].
    destruct (vmap_len axes a) as [n'|]; simpl in H; [|discriminate].
    destruct (Nat.eqb n' (length inner)); simpl in H; [|discriminate].
    bind_inv H as xs Hxs. bind_inv H as cs Hcs. inversion H; subst. simpl.
    destruct (mapiM_ok _ _ _ _ Hxs) as [Hl Hnth].
    fold (iterms 0 (map (fun x0 => fst (fst x0)) xs)). fold (ichoices 0 inner).
    apply nth_error_iterms_ok; [exact I|]. intros j t' Hj. simpl.
    apply nth_error_map_inv in Hj. destruct Hj as [y [Hy ->]].
    assert (Hlt : (j < length inner)%nat) by (rewrite <- Hl; apply nth_error_Some; congruence).
    destruct (nth_error inner j) as [told|] eqn:Ht; [|apply nth_error_None in Ht; lia].
    destruct (Hnth _ _ Ht) as [y' [Hy' He]]. rewrite Hy in Hy'. inversion Hy'; subst. simpl in He.
    rewrite <- (Nat.add_0_l j) at 2. rewrite (csub_ichoices 0 inner j told Ht).
    apply (IH Hg _ _ (RUpdate (csub c (KI j))) _ _ _ I (proj1 (Hall j told Ht)) He).
  - (* GScan *) intros n g IH Hg k t r a tg x Hp Hw H. destruct t; simpl in Hw; try contradiction.
    destruct Hw as [carry0 [xs0 [len [cf0 [ys0 [-> [Hlen [Hn [Hok [-> ->]]]]]]]]]]. simpl in H.
    destruct a as [|carry [|xs [|? ?]]]; try discriminate.
    assert (Hin : forall told, In told inner -> wft g told).
    { clear - Hok. revert Hok. generalize 0%nat carry0 ys0. induction inner as [|t0 r IHr]; intros s c ys Hok told Hi; [contradiction|].
      simpl in Hok. destruct Hok as [Hw0 [_ [c' [y [ys' [_ [_ Hr]]]]]]]. destruct Hi as [<-|Hi]; [exact Hw0 | eapply IHr; eauto]. }
    assert (Hcore : forall r0, plain r0 -> forall olds s c rr,
       (forall told, In told olds -> wft g told) ->
       scanE (fun i told c => do x0 <- edit g (fold_in k (N.of_nat i)) told
                                             (match r0 with RUpdate c0 => RUpdate (csub c0 (KI i)) | _ => r0 end)
                                             [c; slice0 xs i] [tg_unknown; tg_unknown];
                                let '(t', w, b) := x0 in do cy <- split_ret (t_retval t'); Ok (t', w, b, fst cy, snd cy)) s olds c = Ok rr ->
       forall j t', nth_error (map (fun x => fst (fst x)) (fst (fst rr))) j = Some t' ->
         exists told, nth_error olds j = Some told /\ ChOk (req_under_index r0 (s + j)) (t_choices told) (t_terms t')).
    { intros r0 Hp0. induction olds as [|told rest IHo]; intros s c rr Hwf Hs j t' Hj; simpl in Hs.
      - inversion Hs; subst. destruct j; discriminate.
      - bind_inv Hs as y Hy. destruct y as [[[[t1 w1] b1] c1] y1]. bind_inv Hs as rr' Hrr. destruct rr' as [[xs' cf'] ys']. inversion Hs; subst.
        bind_inv Hy as x0 Hx0. destruct x0 as [[t2 w2] b2]. bind_inv Hy as cy Hcy. inversion Hy; subst.
        destruct j as [|j']; simpl in Hj.
        + inversion Hj; subst. exists told. split; [reflexivity|]. rewrite Nat.add_0_r.
          assert (Hp1 : plain (match r0 with RUpdate c0 => RUpdate (csub c0 (KI s)) | _ => r0 end)) by (destruct r0; simpl in *; auto).
          pose proof (IH Hg _ _ _ _ _ _ Hp1 (Hwf told (or_introl eq_refl)) Hx0) as Hc. simpl in Hc.
          destruct r0; simpl in Hp0; try contradiction; exact Hc.
        + destruct (IHo (S s) _ _ (fun t0 Hi => Hwf t0 (or_intror Hi)) Hrr j' t' Hj) as [told' [H1 H2]].
          exists told'. split; [exact H1|]. replace (s + S j')%nat with (S s + j')%nat by lia. exact H2. }
    assert (Hfin : forall r0, plain r0 -> forall rr,
       scanE (fun i told c => do x0 <- edit g (fold_in k (N.of_nat i)) told
                                             (match r0 with RUpdate c0 => RUpdate (csub c0 (KI i)) | _ => r0 end)
                                             [c; slice0 xs i] [tg_unknown; tg_unknown];
                                let '(t', w, b) := x0 in do cy <- split_ret (t_retval t'); Ok (t', w, b, fst cy, snd cy)) 0%nat inner carry = Ok rr ->
       ChOk r0 (ichoices 0 inner) (iterms 0 (map (fun x => fst (fst x)) (fst (fst rr))))).
    { intros r0 Hp0 rr Hs. apply nth_error_iterms_ok; [exact Hp0|]. intros j t' Hj.
      destruct (Hcore r0 Hp0 inner 0%nat carry rr Hin Hs j t' Hj) as [told [Ht Hc]].
      simpl. rewrite <- (Nat.add_0_l j) at 2. rewrite (csub_ichoices 0 inner j told Ht). exact Hc. }
    destruct r; simpl in Hp; try contradiction.
    + destruct (scan_len n xs) as [m|]; simpl in H; [|discriminate].
      destruct (Nat.eqb m (length inner)); simpl in H; [|discriminate].
      bind_inv H as rr Hrr. pose proof (Hfin (RUpdate c) I rr Hrr) as Hc. destruct rr as [[xs' cf] ys].
      bind_inv H as bw Hbw. inversion H; subst. simpl. exact Hc.
    + destruct (scan_len n xs) as [m|]; simpl in H; [|discriminate].
      destruct (Nat.eqb m (length inner)); simpl in H; [|discriminate].
      bind_inv H as rr Hrr. pose proof (Hfin (RRegen s) I rr Hrr) as Hc. destruct rr as [[xs' cf] ys].
      simpl in H. inversion H; subst. simpl. exact Hc.
  - (* GSwitch *) intros bs IH Hg k t r a tg x Hp Hw H. destruct t; simpl in Hw; try contradiction.
    destruct Hw as [idx0 [bargs0 [a0 [-> [-> [Hnth0 [Hbr [Ha0 [-> ->]]]]]]]]]. simpl in H.
    destruct a as [|[idx| | | | |] bargs]; try discriminate. destruct tg as [|tgi btags]; try discriminate.
    destruct r; simpl in Hp; try contradiction; [|discriminate].
    destruct (tg_any tgi); [discriminate|].
    destruct (Nat.eqb (clampZ idx0 (gfs_len bs)) (clampZ idx (gfs_len bs))) eqn:Ej; simpl in H; [|discriminate].
    apply Nat.eqb_eq in Ej.
    destruct (nth_error bargs (clampZ idx (gfs_len bs))) as [[| |ba| | |]|]; try discriminate.
    destruct (nth_error btags (clampZ idx (gfs_len bs))) as [[|bt]|]; try discriminate.
    bind_inv H as y Hy. destruct y as [[t' w] b]. inversion H; subst. rewrite Ej in Hbr. simpl.
    apply (IH Hg _ _ _ (RUpdate c) _ _ _ I Hbr Hy).
  - (* GMask *) intros g IH Hg k t r a tg x Hp Hw H. destruct t; simpl in Hw; try contradiction.
    destruct Hw as [Hw ->]. simpl in H.
    destruct a as [|[|post| | | |] ia]; try discriminate. destruct tg as [|tg0 itags]; try discriminate.
    destruct r; simpl in Hp; try contradiction; [|discriminate].
    bind_inv H as y Hy. destruct y as [[t' w] b]. bind_inv H as bc Hbc. inversion H; subst. simpl.
    pose proof (IH Hg _ _ (RUpdate c) _ _ _ I Hw Hy) as Hc. simpl in Hc.
    destruct post; [|constructor].
    unfold ChOk in *. eapply Forall_impl; [|exact Hc]. intros tm [Hi Hk]. split; [exact Hi|].
    unfold keeps in *. rewrite leafval_cmask. exact Hk.
  - (* GDimap *) intros pre g IH post Hg k t r a tg x Hp Hw H. destruct t; simpl in Hw; try contradiction.
    destruct Hw as [_ [Hw _]]. simpl in H. bind_inv H as ia Hia. bind_inv H as y Hy. destruct y as [[t' w] b].
    bind_inv H as rv Hrv. inversion H; subst. simpl. apply (IH Hg _ _ _ _ _ _ Hp Hw Hy).
  - (* SRet *) intros e _ k cnt olds r env envt acc w bw x Hp Hok Hh H. simpl in H. bind_inv H as v Hv. inversion H; subst.
    exists []. rewrite app_nil_r. split; [reflexivity | constructor].
  - (* SSite *) intros ad g IHg es rest IHr [Hg Hrest] k cnt olds r env envt acc w bw x Hp [Hold Hok] Hh H.
    simpl in H. bind_inv H as av Hav. destruct (subs_get olds ad) as [told|] eqn:Hget; [|discriminate].
    assert (Hsub : (do x0 <- edit g (fold_in k cnt) told (req_under_static r ad) av (map (tag_eval envt) es);
        let '(t', w', b') := x0 in
        if existsb (fun p => addr_eqb (fst p) ad) acc then Err EAddressReuse
        else edit_body rest k (cnt + 1)%N olds r (env ++ [t_retval t']) (envt ++ [tg_unknown]) (acc ++ [(ad, t')]) (w + w') (bw ++ [(ad, b')])) = Ok x).
    { destruct r; simpl in Hp; try contradiction; exact H. }
    clear H. bind_inv Hsub as y Hy. destruct y as [[t' w'] b'].
    destruct (existsb _ acc); [discriminate|].
    assert (Hps : plain (req_under_static r ad)) by (destruct r; simpl in *; auto).
    pose proof (IHg Hg _ _ _ _ _ _ Hps (Hold _ eq_refl) Hy) as Hc. simpl in Hc.
    specialize (IHr Hrest _ _ _ _ _ _ _ _ _ _ Hp Hok Hh Hsub). destruct x as [[[v subs] wf] bwf].
    destruct IHr as [subs' [-> Hc']]. exists ((ad, t') :: subs').
    split; [rewrite <- app_assoc; reflexivity|].
    unfold terms_of in *. simpl. unfold ChOk. apply Forall_app. split; [|exact Hc'].
    apply ChOk_prefix_static; [exact Hp|]. rewrite (subs_get_choices _ _ _ Hh Hget). exact Hc.
  - (* GNil *) intros _ j k t r a tg x Hp Hw. destruct j; contradiction.
  - (* GCons *) intros g IHg rest IHr [Hg Hr] j k t r a tg x Hp Hw H. destruct j; simpl in *.
    + apply (IHg Hg _ _ _ _ _ _ Hp Hw H).
    + eapply IHr; eauto.
Qed.

Theorem edit_choices g k t r a tg t' w b :
  wfg g -> plain r -> wft g t -> edit g k t r a tg = Ok (t', w, b) -> ChOk r (t_choices t) (t_terms t').
Proof. intros Hg Hp Hw H. exact (proj1 edit_choices_all g Hg k t r a tg (t', w, b) Hp Hw H). Qed.
