(* How GenJAX positions keyword arguments (C24, C32).

   Python call binding of positional and keyword arguments against a signature without star-parameters
   (TFP constructors, exact_density sampler / logpdf pairs, @gen sources), and the
   dict union `a | b` that GenerativeFunctionClosure.__call__ uses to merge the stored
   keyword arguments with the call-site ones.

   A keyword dict is an association list with distinct names (a Python dict); names
   are interned as nat.  `None` is the TypeError Python raises: too many positional
   arguments, unexpected keyword, multiple values for a parameter, missing required
   parameter. *)
From Coq Require Import List Bool Arith.
Import ListNotations.

Section Bind.
Variable V : Type.

Definition kwd := list (nat * V).
Definition sigt := list (nat * option V).        (* parameter name, default value *)

Fixpoint kw_lookup (kw : kwd) (n : nat) : option V :=
  match kw with
  | [] => None
  | (m, v) :: r => if Nat.eqb m n then Some v else kw_lookup r n
  end.
Definition kw_mem (kw : kwd) (n : nat) : bool :=
  match kw_lookup kw n with Some _ => true | None => false end.

(* parameters left to right: a positional value if one is left (then the same name
   must not also come by keyword), else the keyword value, else the default *)
Fixpoint bind_from (sig : sigt) (pos : list V) (kw : kwd) : option (list V) :=
  match sig with
  | [] => match pos with [] => Some [] | _ :: _ => None end
  | (n, dflt) :: rest =>
      match pos with
      | p :: pos' =>
          if kw_mem kw n then None
          else option_map (cons p) (bind_from rest pos' kw)
      | [] =>
          match kw_lookup kw n with
          | Some v => option_map (cons v) (bind_from rest [] kw)
          | None =>
              match dflt with
              | Some v => option_map (cons v) (bind_from rest [] kw)
              | None => None
              end
          end
      end
  end.

Definition names_known (sig : sigt) (kw : kwd) : bool :=
  forallb (fun p => existsb (Nat.eqb (fst p)) (map fst sig)) kw.

Definition bind (sig : sigt) (pos : list V) (kw : kwd) : option (list V) :=
  if names_known sig kw then bind_from sig pos kw else None.

(* Python `a | b` on dicts: a's keys in a's order with b's value where b has the key,
   then b's new keys in b's order *)
Definition merge (a b : kwd) : kwd :=
  map (fun p => (fst p, match kw_lookup b (fst p) with Some v => v | None => snd p end)) a
  ++ filter (fun p => negb (kw_mem a (fst p))) b.

End Bind.

Arguments kw_lookup {V}. Arguments kw_mem {V}. Arguments bind_from {V}. Arguments names_known {V}.
Arguments bind {V}. Arguments merge {V}.

(* insertion sort of a keyword dict by name: the order in which jax flattens a dict *)
Fixpoint kw_insert {V} (p : nat * V) (l : list (nat * V)) : list (nat * V) :=
  match l with
  | [] => [p]
  | q :: r => if Nat.leb (fst p) (fst q) then p :: q :: r else q :: kw_insert p r
  end.
Definition kw_sorted {V} (l : list (nat * V)) : list (nat * V) := fold_right kw_insert [] l.
