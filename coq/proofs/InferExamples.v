(* Concrete two-site models: non-vacuity of the hypotheses used in props/C25.v and
   props/C26.v, and witnesses for the `_refuted` statements (by vm_compute). *)
From Coq Require Import List ZArith QArith Qcanon Bool Lia.
From Model Require Import Prob Infer.
From Proofs Require Import ProbProofs InferProofs.
Import ListNotations.
Open Scope Qc_scope.

Definition q (n : Z) (d : positive) : Qc := Q2Qc (n # d).
Lemma Qc_neq_by_compute a b : Qeq_bool (this a) (this b) = false -> a <> b.
Proof. intros H E0. subst. rewrite Qeq_bool_refl in H. discriminate. Qed.
Lemma Qc_eq_by_compute a b : Qeq_bool (this a) (this b) = true -> a = b.
Proof. intros H. apply Qc_is_canon. now apply Qeq_bool_eq. Qed.

(* x ~ flip(1/2); y | x ~ flip(3/4) if x = 1 else flip(1/4) *)
Definition ex_s0 := mkSite [0; 1]%Z (fun _ _ => q 1 2).
Definition ex_s1 := mkSite [0; 1]%Z (fun env v =>
  if Z.eqb (hd 0%Z env) 1 then (if Z.eqb v 0 then q 1 4 else q 3 4)
  else (if Z.eqb v 0 then q 3 4 else q 1 4)).
Definition ex_m : model := [ex_s0; ex_s1].

Lemma nodup01 : NoDup [0; 1]%Z.
Proof. repeat constructor; simpl; intuition discriminate. Qed.
Ltac two_sites := constructor; [|constructor; [|constructor]].
Lemma ex_wf : m_wf ex_m.
Proof. two_sites; apply nodup01. Qed.
Lemma ex_normed : m_normed ex_m.
Proof.
  two_sites; intros env; simpl.
  - apply Qc_eq_by_compute; vm_compute; reflexivity.
  - destruct (Z.eqb (hd 0%Z env) 1); apply Qc_eq_by_compute; vm_compute; reflexivity.
Qed.
Lemma ex_pos : m_pos ex_m.
Proof.
  two_sites; intros env v Hv; simpl in *.
  - reflexivity.
  - destruct (Z.eqb (hd 0%Z env) 1); destruct Hv as [<-|[<-|[]]]; reflexivity.
Qed.

(* ---- C25 ---- *)
Example marginal_unbiased_nonvacuous :
  m_wf ex_m /\ m_normed ex_m /\ m_pos ex_m /\ In [None; Some 1%Z] (outs ex_m [false; true])
  /\ cond_inv_w cmap_eqb (marg_rw ex_m [false; true]) [None; Some 1%Z] = q 2 1
  /\ evidence ex_m [None; Some 1%Z] = q 1 2.
Proof.
  split; [apply ex_wf|]. split; [apply ex_normed|]. split; [apply ex_pos|].
  split; [simpl; auto|]. split; apply Qc_eq_by_compute; vm_compute; reflexivity.
Qed.

(* selecting x: y does not influence x *)
Example sel_indep_nonvacuous : sel_indep ex_m [true; false] /\ ~ sel_indep ex_m [false; true].
Proof.
  split.
  - intros t t' H H' He. simpl in H, H'.
    destruct H as [<-|[<-|[<-|[<-|[]]]]]; destruct H' as [<-|[<-|[<-|[<-|[]]]]]; try discriminate He; reflexivity.
  - intros H. specialize (H [0; 1]%Z [1; 1]%Z). simpl in H.
    assert (E0 : q 1 4 = q 3 4).
    { transitivity (1 * (q 1 4 * 1)); [apply Qc_eq_by_compute; vm_compute; reflexivity|].
      transitivity (1 * (q 3 4 * 1)); [|apply Qc_eq_by_compute; vm_compute; reflexivity]. apply H; auto. }
    revert E0. apply Qc_neq_by_compute; vm_compute; reflexivity.
Qed.

(* with a conditional of probability zero inside the listed support the sampler is not an
   unbiased density sampler: positivity is a necessary hypothesis *)
Definition ex_s1z := mkSite [0; 1]%Z (fun env v =>
  if Z.eqb (hd 0%Z env) 1 then (if Z.eqb v 0 then 0 else 1)
  else (if Z.eqb v 0 then q 3 4 else q 1 4)).
Lemma marginal_unbiased_needs_positivity :
  exists m b x, m_wf m /\ m_normed m /\ In x (outs m b) /\ E (inv_on cmap_eqb x) (marg_rw m b) <> 1.
Proof.
  exists [ex_s0; ex_s1z], [false; true], [None; Some 0%Z].
  split; [two_sites; apply nodup01|]. split.
  - two_sites; intros env; simpl; [apply Qc_eq_by_compute; vm_compute; reflexivity|].
    destruct (Z.eqb (hd 0%Z env) 1); apply Qc_eq_by_compute; vm_compute; reflexivity.
  - split; [simpl; auto|]. apply Qc_neq_by_compute; vm_compute; reflexivity.
Qed.

(* Marginal with an inference algorithm (Importance / ImportanceK over a target that constrains
   the selected address to a placeholder): the returned weight is not an unbiased density
   estimate, and with everything selected it is not the density of the sample *)
Definition ex_alg := AImp (mkTarget ex_m [None; Some 0%Z]) None.
Lemma marginal_alg_not_unbiased :
  exists m b a x, m_wf m /\ m_normed m /\ m_pos m /\ In x (outs m b)
    /\ E (inv_on cmap_eqb x) (marg_rw_alg m b a) <> 1.
Proof.
  exists ex_m, [false; true], ex_alg, [None; Some 1%Z].
  split; [apply ex_wf|]. split; [apply ex_normed|]. split; [apply ex_pos|].
  split; [simpl; auto|]. apply Qc_neq_by_compute; vm_compute; reflexivity.
Qed.
Lemma marginal_alg_K2_not_unbiased :
  exists m b a x, m_wf m /\ m_normed m /\ m_pos m /\ In x (outs m b)
    /\ E (inv_on cmap_eqb x) (marg_rw_alg m b a) <> 1.
Proof.
  exists ex_m, [false; true], (AImpK (mkTarget ex_m [None; Some 0%Z]) None 2), [None; Some 1%Z].
  split; [apply ex_wf|]. split; [apply ex_normed|]. split; [apply ex_pos|].
  split; [simpl; auto|]. apply Qc_neq_by_compute; vm_compute; reflexivity.
Qed.
Lemma marginal_alg_all_selected_not_exact :
  exists m a o w p, m_wf m /\ m_normed m /\ m_pos m
    /\ In ((o, w), p) (marg_rw_alg m (all_sel m) a) /\ p <> 0 /\ w <> evidence m o.
Proof.
  exists ex_m, (AImp (mkTarget ex_m [Some 0%Z; Some 0%Z]) None), [Some 0%Z; Some 1%Z].
  eexists. eexists.
  split; [apply ex_wf|]. split; [apply ex_normed|]. split; [apply ex_pos|].
  split; [vm_compute; right; left; reflexivity|].
  split; apply Qc_neq_by_compute; vm_compute; reflexivity.
Qed.

(* ---- C26 ---- *)
(* a proposal for x: flip(3/4), given by its random_weighted outcomes *)
Definition ex_q : proposal :=
  mkProp [(([Some 0%Z; None], q 1 4), q 1 4); (([Some 1%Z; None], q 3 4), q 3 4)]
         (fun v => match v with Some 0%Z :: _ => ret (q 1 4) | _ => ret (q 3 4) end).
Definition ex_tg := mkTarget ex_m [None; Some 1%Z].
Lemma ex_particle_ok : particle_ok ex_tg (Some ex_q) /\ q_positive (Some ex_q).
Proof.
  split.
  - exists [true; false]. split; [split; [|split]|].
    + intros ow p H. simpl in H. destruct H as [H|[H|[]]]; inversion H; subst; simpl; auto.
    + intros x Hx. simpl in Hx. destruct Hx as [<-|[<-|[]]]; apply Qc_eq_by_compute; vm_compute; reflexivity.
    + reflexivity.
    + apply Qc_eq_by_compute; vm_compute; reflexivity.
  - intros ow p H. simpl in H. destruct H as [H|[H|[]]]; inversion H; subst; reflexivity.
Qed.
Lemma ex_c_ok : c_ok ex_m [None; Some 1%Z].
Proof. simpl. auto. Qed.

Example importance_nonvacuous :
  m_wf (tm ex_tg) /\ m_normed (tm ex_tg) /\ m_pos (tm ex_tg) /\ c_ok (tm ex_tg) (tc ex_tg)
  /\ particle_ok ex_tg (Some ex_q) /\ q_positive (Some ex_q) /\ particle_ok ex_tg None
  /\ evidence (tm ex_tg) (tc ex_tg) = q 1 2
  /\ E lml (run_smc (AImpK ex_tg (Some ex_q) 3)) = q 1 2
  /\ In [1; 1]%Z (ctraces (tm ex_tg) (tc ex_tg)).
Proof.
  split; [apply ex_wf|]. split; [apply ex_normed|]. split; [apply ex_pos|]. split; [apply ex_c_ok|].
  split; [apply ex_particle_ok|]. split; [apply ex_particle_ok|]. split; [exact I|].
  split; [apply Qc_eq_by_compute; vm_compute; reflexivity|]. split; [apply Qc_eq_by_compute; vm_compute; reflexivity|]. simpl; auto.
Qed.

Definition ex_tg2 := mkTarget ex_m [None; Some 0%Z].
Example change_target_nonvacuous :
  same_shape (tm ex_tg) (tc ex_tg) (tm ex_tg2) (tc ex_tg2)
  /\ E lml (run_smc (AChange (AImpK ex_tg None 2) ex_tg2)) = q 1 2
  /\ evidence (tm ex_tg2) (tc ex_tg2) = q 1 2.
Proof.
  split; [simpl; auto|]. split; apply Qc_eq_by_compute; vm_compute; reflexivity.
Qed.

(* ChangeTarget to a target that constrains an address the old target treats as latent is not
   properly weighted (the hypothesis same_shape of change_target_evidence is needed) *)
Lemma change_target_needs_same_latents :
  exists ptg tg, m_wf (tm ptg) /\ m_normed (tm ptg) /\ m_pos (tm ptg) /\ c_ok (tm ptg) (tc ptg) /\ m_normed (tm tg)
    /\ E lml (run_smc (AChange (AImpK ptg None 1) tg)) <> evidence (tm tg) (tc tg).
Proof.
  exists (mkTarget ex_m []), ex_tg.
  split; [apply ex_wf|]. split; [apply ex_normed|]. split; [apply ex_pos|]. split; [simpl; auto|].
  split; [apply ex_normed|]. apply Qc_neq_by_compute; vm_compute; reflexivity.
Qed.

(* a proposal that also proposes the observed address (outside the contract of Importance's `q`,
   hypothesis `disj` of proper_q): merge keeps the observation but the weight is still divided by
   the proposal's density of its discarded value -- the evidence estimate is biased *)
Definition ex_q_overlap : proposal :=
  mkProp [(([Some 0%Z; Some 0%Z], q 1 4), q 1 4); (([Some 0%Z; Some 1%Z], q 1 4), q 1 4);
          (([Some 1%Z; Some 0%Z], q 1 4), q 1 4); (([Some 1%Z; Some 1%Z], q 1 4), q 1 4)]
         (fun _ => ret (q 1 4)).
Lemma proposal_overlap_biased :
  exists tg qq qb, m_wf (tm tg) /\ m_normed (tm tg)
    /\ (forall ow p, In (ow, p) (q_rw qq) -> In (fst ow) (outs (tm tg) qb))
    /\ uds cmap_eqb (outs (tm tg) qb) (q_rw qq) /\ mass (q_rw qq) = 1
    /\ disj qb (tc tg) = false
    /\ E lml (run_smc (AImp tg (Some qq))) <> evidence (tm tg) (tc tg).
Proof.
  exists ex_tg, ex_q_overlap, [true; true].
  split; [apply ex_wf|]. split; [apply ex_normed|]. split.
  - intros ow p H. simpl in H. destruct H as [H|[H|[H|[H|[]]]]]; inversion H; subst; simpl; auto.
  - split.
    + intros x Hx. simpl in Hx. destruct Hx as [<-|[<-|[<-|[<-|[]]]]]; apply Qc_eq_by_compute; vm_compute; reflexivity.
    + split; [apply Qc_eq_by_compute; vm_compute; reflexivity|]. split; [reflexivity|].
      apply Qc_neq_by_compute; vm_compute; reflexivity.
Qed.
