(* C07 — Regenerate resamples exactly the selected choices.  selected s tm: the static part of tm's
   address is a member of the selection (index levels transparent). *)
From Coq Require Import List ZArith.
Import ListNotations.
From Gen Require Import SelGen.
From Model Require Import Key Sel GFI GFIEdit Derived.
From Proofs Require Import GFIBase GFIRef GFIWf GFIConsistent GFIProject GFISim GFIGen GFIEditProofs GFIEditChoices GFIDerived GFICombinators GFIRegenIdentity.
Open Scope Z_scope.

Theorem C07_regenerate_weight : forall g k t s a tg t' w b,
  wfg g -> wft g t -> edit g k t (RRegen s) a tg = Ok (t', w, b) ->
  wft g t' /\ t_args t' = a /\ w = t_score t' - t_score t.
Proof. intros g k t s a tg t' w b Hg Hw H. exact (edit_ok g k t (RRegen s) a tg t' w b Hg I Hw H). Qed.
Print Assumptions C07_regenerate_weight.

Theorem C07_unselected_choices_keep_their_value : forall g k t s a tg t' w b,
  wfg g -> wft g t -> edit g k t (RRegen s) a tg = Ok (t', w, b) ->
  Forall (fun tm => selected s tm = false -> leafval (t_choices t) (tm_path tm) = Some (tm_val tm)) (t_terms t').
Proof.
  intros g k t s a tg t' w b Hg Hw H. pose proof (edit_choices g k t (RRegen s) a tg t' w b Hg I Hw H) as Hc.
  unfold ChOk in Hc. eapply Forall_impl; [|exact Hc]. intros tm [_ Hk] Hn. apply Hk. simpl. rewrite Hn. reflexivity.
Qed.
Print Assumptions C07_unselected_choices_keep_their_value.

(* a selected distribution site is redrawn from its prior at the current parameter, an unselected one is re-scored *)
Theorem C07_selected_site_redrawn_from_prior : forall d k p vold sold s tg,
  edit (GDist d) k (TDist d [VZ p] vold sold) (RRegen s) [VZ p] tg =
  if check s then Ok (TDist d [VZ p] (d_sample d k p) (d_logpdf d (d_sample d k p) p),
                      d_logpdf d (d_sample d k p) p - sold, RUpdate [([], VZ vold)])
  else Ok (TDist d [VZ p] vold (d_logpdf d vold p), d_logpdf d vold p - sold, RUpdate []).
Proof. intros. simpl. destruct (check s); reflexivity. Qed.
Print Assumptions C07_selected_site_redrawn_from_prior.

(* "With an empty selection and unchanged arguments it returns the same trace with weight 0": for every selection
   that selects nothing (Selection.none() is one), on every program that accepts Regenerate *)
Theorem C07_regenerate_nothing_is_identity : forall g k t s tg,
  wfg g -> rssimple g -> wft g t -> empty_sel s -> exists b, edit g k t (RRegen s) (t_args t) tg = Ok (t, 0, b).
Proof. exact regenerate_nothing_is_identity. Qed.
Print Assumptions C07_regenerate_nothing_is_identity.
Theorem C07_none_selects_nothing : empty_sel NoneSel.
Proof. exact none_is_empty. Qed.
Print Assumptions C07_none_selects_nothing.

(* ---- non-vacuity: concrete non-trivial programs and traces meeting the hypotheses above (proofs/GFIWitness.v) ---- *)
From Proofs Require Import GFIWitness.
Example C07_hypotheses_met : wfg ex_r /\ wft ex_r ex_rt /\
  exists t' w b, edit ex_r ex_k2 ex_rt (RRegen ex_s) [VZ 5] [tg_unknown] = Ok (t', w, b) /\ t' <> ex_rt /\ w <> 0.
Proof. exact (conj ex_r_wfg (conj ex_r_wft ex_regenerate_succeeds)). Qed.
Print Assumptions C07_hypotheses_met.
Example C07_identity_hypotheses_met :
  (wfg ex_r /\ rssimple ex_r /\ wft ex_r ex_rt) /\
  (wfg ex_scan /\ rssimple ex_scan /\ wft ex_scan (tr_of ex_scan ex_scan_a) /\ length (t_choices (tr_of ex_scan ex_scan_a)) = 3%nat).
Proof.
  split; [exact (conj ex_r_wfg (conj ex_r_rssimple ex_r_wft))|].
  destruct ex_scan_rssimple as [H1 H2]. destruct ex_scan_wft as [H3 H4]. exact (conj H2 (conj H1 (conj H3 H4))).
Qed.
Print Assumptions C07_identity_hypotheses_met.
