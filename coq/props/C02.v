(* C02 — scores are the exact joint log-density the program defines.
   `ref g c args` (coq/model/GFI.v) runs the program text over a finite map of choice
   values and lists the random choices it makes (Python loop for scan, branches[clamp idx]
   for switch, `if flag` for mask); `tsum` adds their log-densities. *)
From Coq Require Import List ZArith.
Import ListNotations.
From Model Require Import Key Sel GFI.
From Model Require Import GFIEdit.
From Proofs Require Import GFIBase GFIRef GFIWf GFIConsistent GFIProject GFISim GFIGen GFIEditProofs.

Theorem C02_assess_is_sum_of_log_densities : forall g c a,
  assess g c a = match ref g c a with Ok (l, v) => Ok (tsum l, v) | Err e => Err e end.
Proof. exact assess_is_ref_sum. Qed.
Print Assumptions C02_assess_is_sum_of_log_densities.

Theorem C02_trace_score_is_sum_of_log_densities : forall g k a t,
  wfg g -> simulate g k a = Ok t -> sites_live t ->
  ref g (t_choices t) (t_args t) = Ok (t_terms t, t_retval t) /\ t_score t = tsum (t_terms t).
Proof.
  intros g k a t Hg H Hl. destruct (proj1 simulate_wft_all g k a t H) as [Hw _].
  exact (proj1 wft_ref_all g Hg t Hw Hl).
Qed.
Print Assumptions C02_trace_score_is_sum_of_log_densities.

Theorem C02_score_without_side_conditions : forall g k a t, simulate g k a = Ok t -> t_score t = tsum (t_terms t).
Proof. intros g k a t H. apply (wft_score g). apply (proj1 simulate_wft_all g k a t H). Qed.
Print Assumptions C02_score_without_side_conditions.

Theorem C02_masked_off_contributes_nothing : forall g c a l v,
  ref (GMask g) c (VB false :: a) = Ok (l, v) -> l = [].
Proof. exact ref_mask_false. Qed.
Print Assumptions C02_masked_off_contributes_nothing.

(* the same for the traces importance and edits return: "the score of its traces" *)
Theorem C02_importance_trace_score : forall g k c a t w,
  wfg g -> generate g k c a = Ok (t, w) -> sites_live t ->
  ref g (t_choices t) (t_args t) = Ok (t_terms t, t_retval t) /\ t_score t = tsum (t_terms t).
Proof.
  intros g k c a t w Hg H Hl. destruct (proj1 generate_wft_all _ _ _ _ _ H) as [Hw _]. simpl in Hw.
  exact (proj1 wft_ref_all g Hg t Hw Hl).
Qed.
Print Assumptions C02_importance_trace_score.
Theorem C02_edited_trace_score : forall g k t r a tg t' w b,
  wfg g -> plain r -> wft g t -> edit g k t r a tg = Ok (t', w, b) -> sites_live t' ->
  ref g (t_choices t') (t_args t') = Ok (t_terms t', t_retval t') /\ t_score t' = tsum (t_terms t').
Proof.
  intros g k t r a tg t' w b Hg Hp Hw H Hl.
  destruct (edit_ok g k t r a tg t' w b Hg Hp Hw H) as [Hw' _].
  exact (proj1 wft_ref_all g Hg t' Hw' Hl).
Qed.
Print Assumptions C02_edited_trace_score.

(* ---- non-vacuity: concrete non-trivial programs and traces meeting the hypotheses above (proofs/GFIWitness.v) ---- *)
From Proofs Require Import GFIWitness.
Example C02_hypotheses_met : wfg ex_g /\ simulate ex_g ex_k ex_a = Ok ex_t /\ sites_live ex_t /\ length (t_choices ex_t) = 7%nat.
Proof. exact (conj ex_wfg (conj ex_simulate (conj ex_sites_live ex_nontrivial))). Qed.
Print Assumptions C02_hypotheses_met.
