"""tools/trial.py <first-seed> <count> [oracle ...] : development aid — run engine cases on the implementation, compare with
the Coq model (cases/trial_*.v) and run the named oracles; prints mismatches.  Not part of any registered check."""
import sys, json, collections
sys.path.insert(0, '/verif')
from harness import gfi_run, gfi, core, bgfi

if __name__ == "__main__":
    a, n = int(sys.argv[1]), int(sys.argv[2])
    oracles = sys.argv[3:]
    import os
    if os.environ.get("ROOTS"):        # ROOTS=vmap,axis1 : n cases of each named root flavour
        cases = [gfi_run.make_case(a + 100 * ri + j, depth=2, flavour="root:" + r) for ri, r in enumerate(os.environ["ROOTS"].split(",")) for j in range(n)]
    else:
        cases = [gfi_run.make_case(s, depth=(2 if s % 3 else 3)) for s in range(a, a + n)]
    outs = gfi_run.run_cases(cases, procs=12)
    kept = [i for i, o in enumerate(outs) if "skip" not in o]
    terms = [gfi_run.c_case(cases[i], outs[i]) for i in kept]
    pairs, errors = bgfi.coq_pairs("trial", terms)
    print("errors", errors[:2])
    kinds = collections.Counter()
    for i in kept:
        for s in outs[i]["steps"]:
            kinds[s["kind"] + ":" + s["res"][0] + (":" + s["res"][1] if s["res"][0] in ("known", "err") else "")] += 1
    print(dict(kinds))
    for (ci, si) in pairs:
        gi = kept[ci]
        st = [j for (j, _, _, _) in gfi_run.shipped_steps(outs[gi])][si]
        print("MISMATCH seed", cases[gi]["seed"], "step", st, outs[gi]["steps"][st]["kind"], json.dumps(outs[gi]["steps"][st], default=str)[:400])
    outs_j = json.loads(json.dumps(outs, default=str)); cases_j = json.loads(json.dumps(cases, default=str))
    for name in oracles:
        for i in kept:
            for f in bgfi.ORACLES[name](cases_j[i], outs_j[i]):
                if len(f) > 2 and f[2]:
                    continue
                print("ORACLE", name, "seed", cases[i]["seed"], f[0], json.dumps(f[1], default=str)[:400])
