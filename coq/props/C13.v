(* C13 — switch and or_else follow exactly one branch, the one at the clamped index.
   (mix draws its component with the real categorical distribution and is covered by the
   C24 wrapper theorems plus this one; it is not modelled separately.) *)
From Coq Require Import List ZArith.
Import ListNotations.
From Gen Require Import SelGen.
From Model Require Import Key Sel GFI GFIEdit Derived.
From Proofs Require Import GFIBase GFIRef GFIWf GFIConsistent GFIProject GFISim GFIGen GFIEditProofs GFIEditChoices GFIDerived GFIDerived2 GFICombinators.
Open Scope Z_scope.

Theorem C13_switch_trace_is_the_branch : forall bs t,
  wft (GSwitch bs) t ->
  exists idx bargs sub a,
    t_args t = VZ idx :: bargs /\ nth_error bargs (clampZ idx (gfs_len bs)) = Some (VT a) /\
    wf_branch bs (clampZ idx (gfs_len bs)) sub /\ t_args sub = a /\
    t_score t = t_score sub /\ t_retval t = t_retval sub /\ t_choices t = t_choices sub /\ t_terms t = t_terms sub.
Proof. exact switch_trace_is_the_branch. Qed.
Print Assumptions C13_switch_trace_is_the_branch.

Theorem C13_importance_weight_from_the_branch : forall bs k c idx bargs t w,
  generate (GSwitch bs) k c (VZ idx :: bargs) = Ok (t, w) ->
  exists a sub, nth_error bargs (clampZ idx (gfs_len bs)) = Some (VT a) /\
    gen_branch bs (clampZ idx (gfs_len bs)) k c a = Ok (sub, w) /\
    t = TSwitch (VZ idx :: bargs) (clampZ idx (gfs_len bs)) sub (t_retval sub) (t_score sub).
Proof. exact switch_generate_is_branch. Qed.
Print Assumptions C13_importance_weight_from_the_branch.

Theorem C13_out_of_range_index_is_clamped : forall idx n, (0 < n)%nat ->
  (clampZ idx n < n)%nat /\ (0 <= idx < Z.of_nat n -> clampZ idx n = Z.to_nat idx) /\
  (idx < 0 -> clampZ idx n = 0%nat) /\ (Z.of_nat n <= idx -> clampZ idx n = (n - 1)%nat).
Proof.
  intros idx n Hn. split; [apply clampZ_range; exact Hn|]. split; [apply clampZ_in_range|].
  split; [apply clampZ_below | apply clampZ_above; exact Hn].
Qed.
Print Assumptions C13_out_of_range_index_is_clamped.

Theorem C13_or_else_is_if : forall g1 g2 k b a1 a2,
  (forall t, simulate (g_or_else g1 g2) k [VB b; VT a1; VT a2] = Ok t ->
     exists t', simulate (if b then g1 else g2) k (if b then a1 else a2) = Ok t' /\
                t_score t = t_score t' /\ t_retval t = t_retval t' /\ t_choices t = t_choices t' /\ t_terms t = t_terms t') /\
  (forall c, assess (g_or_else g1 g2) c [VB b; VT a1; VT a2] = assess (if b then g1 else g2) c (if b then a1 else a2)) /\
  (forall c t w, generate (g_or_else g1 g2) k c [VB b; VT a1; VT a2] = Ok (t, w) ->
     exists t', generate (if b then g1 else g2) k c (if b then a1 else a2) = Ok (t', w) /\
                t_score t = t_score t' /\ t_retval t = t_retval t' /\ t_choices t = t_choices t').
Proof.
  intros. split; [intros t; apply or_else_simulate|]. split; [intros c; apply or_else_assess | intros c t w; apply or_else_generate].
Qed.
Print Assumptions C13_or_else_is_if.

(* mix (mixture.py): index ~ d(logits) at "mixture_component", the switch of the components at "component_sample";
   the score is the index density of the component that ran plus that component's score, the return value and the
   choices under "component_sample" are that component's *)
Theorem C13_mix_is_index_plus_component : forall d bs t,
  wft (g_mix d bs) t -> length (t_args t) = S (gfs_len bs) ->
  exists p bargs idx sub a,
    t_args t = VZ p :: bargs /\
    nth_error bargs (clampZ idx (gfs_len bs)) = Some (VT a) /\
    wf_branch bs (clampZ idx (gfs_len bs)) sub /\ t_args sub = a /\
    t_score t = d_logpdf d idx p + t_score sub /\ t_retval t = t_retval sub /\
    t_choices t = cprefix (map KS mix_component) [([], VZ idx)] ++ cprefix (map KS mix_sample) (t_choices sub).
Proof. exact mix_is_index_plus_component. Qed.
Print Assumptions C13_mix_is_index_plus_component.

(* ---- non-vacuity: concrete non-trivial programs and traces meeting the hypotheses above (proofs/GFIWitness.v) ---- *)
From Proofs Require Import GFIWitness.
Example C13_hypotheses_met :
  (wft ex_switch (tr_of ex_switch ex_switch_a) /\ length (t_choices (tr_of ex_switch ex_switch_a)) = 1%nat) /\
  (let t := tr_of (g_or_else (GDist 0) ex_kernel) [VB false; VT [VZ 4]; VT [VZ 2; VZ 3]] in
   wft (g_or_else (GDist 0) ex_kernel) t /\ length (t_choices t) = 1%nat).
Proof. exact (conj ex_switch_wft ex_or_else_wft). Qed.
Print Assumptions C13_hypotheses_met.
Example C13_mix_hypotheses_met : let t := tr_of ex_mix ex_mix_a in
  wft ex_mix t /\ length (t_args t) = S (gfs_len (GCons (GDist 1) (GCons ex_kernel GNil))) /\ length (t_choices t) = 2%nat.
Proof. exact ex_mix_wft. Qed.
Print Assumptions C13_mix_hypotheses_met.
