"""C35 — engine B-gfi (harness/bgfi.py); theorems in coq/props/C35.v."""
from . import bgfi


def run(ctx):
    bgfi.run_property(ctx, "C35", oracles=bgfi.PROP_ORACLES.get("C35"))


def replay(case):
    return bgfi.replay(case)
