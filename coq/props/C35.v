(* C35 — masked constraint values act as conditional constraints.  The general statements are C03's and C05's:
   "con c tm" (the constraint holds a valid value at tm's address) is true for an entry Mask(v, True) and false for an
   entry Mask(v, False); here they are instantiated, and made exact at a site. *)
From Coq Require Import List ZArith.
Import ListNotations.
From Gen Require Import SelGen.
From Model Require Import Key Sel GFI GFIEdit GFIOps.
From Proofs Require Import GFIBase GFIRef GFIWf GFIConsistent GFIProject GFISim GFIGen GFIEditProofs GFIStatic.
Open Scope Z_scope.

From Proofs Require Import GFIEditChoices.
Theorem C35_masked_true_is_the_constraint_at_a_site : forall d k v p,
  generate (GDist d) k [([], VM true (VZ v))] [VZ p] = generate (GDist d) k [([], VZ v)] [VZ p].
Proof. exact masked_true_is_constraint_site. Qed.
Print Assumptions C35_masked_true_is_the_constraint_at_a_site.
Theorem C35_masked_false_is_unconstrained_at_a_site : forall d k x p,
  generate (GDist d) k [([], VM false x)] [VZ p] = generate (GDist d) k [] [VZ p].
Proof. exact masked_false_is_absent_site. Qed.
Print Assumptions C35_masked_false_is_unconstrained_at_a_site.
Theorem C35_masked_update_at_a_site : forall d k vold sold v p tg,
  (exists b, edit (GDist d) k (TDist d [VZ p] vold sold) (RUpdate [([], VM true (VZ v))]) [VZ p] tg
             = Ok (TDist d [VZ p] v (d_logpdf d v p), d_logpdf d v p - sold, b) /\
             edit (GDist d) k (TDist d [VZ p] vold sold) (RUpdate [([], VZ v)]) [VZ p] tg
             = Ok (TDist d [VZ p] v (d_logpdf d v p), d_logpdf d v p - sold, b)) /\
  (exists b b', edit (GDist d) k (TDist d [VZ p] vold sold) (RUpdate [([], VM false (VZ v))]) [VZ p] tg
             = Ok (TDist d [VZ p] vold (d_logpdf d vold p), d_logpdf d vold p - sold, b) /\
             edit (GDist d) k (TDist d [VZ p] vold sold) (RUpdate []) [VZ p] tg
             = Ok (TDist d [VZ p] vold (d_logpdf d vold p), d_logpdf d vold p - sold, b') /\
             req_flat b = Some [([], VM false (VZ vold))] /\ req_flat b' = Some []).
Proof. exact masked_update_site. Qed.
Print Assumptions C35_masked_update_at_a_site.
(* everywhere (vmap indices, scan steps, static nesting): weight and values follow the mask flag *)
Theorem C35_importance_follows_the_flag : forall g k c a t w,
  generate g k c a = Ok (t, w) ->
  w = tsum (filter (con c) (t_terms t)) /\ Forall (agrees_at c) (t_terms t) /\
  (forall p d v par f, cget c p = Some (VM f (VZ v)) -> con c {| tm_path := p; tm_dist := d; tm_val := v; tm_par := par |} = f).
Proof.
  intros g k c a t w H. destruct (generate_weight g k c a t w H) as [H1 H2]. split; [exact H1|]. split; [exact H2|].
  intros p d v par f Hc. apply con_masked. exact Hc.
Qed.
Print Assumptions C35_importance_follows_the_flag.
Theorem C35_update_follows_the_flag : forall g k t c a tg t' w b,
  wfg g -> wft g t -> edit g k t (RUpdate c) a tg = Ok (t', w, b) ->
  Forall (fun tm => agrees_at c tm /\ (con c tm = false -> leafval (t_choices t) (tm_path tm) = Some (tm_val tm))) (t_terms t').
Proof.
  intros g k t c a tg t' w b Hg Hw H. pose proof (edit_choices g k t (RUpdate c) a tg t' w b Hg I Hw H) as Hc.
  unfold ChOk in Hc. eapply Forall_impl; [|exact Hc]. intros tm [Hi Hk]. split; [exact Hi|].
  intros Hn. apply Hk. simpl. rewrite Hn. reflexivity.
Qed.
Print Assumptions C35_update_follows_the_flag.

(* ---- non-vacuity: concrete non-trivial programs and traces meeting the hypotheses above (proofs/GFIWitness.v) ---- *)
From Proofs Require Import GFIWitness.
Example C35_hypotheses_met : wfg ex_g /\ wft ex_g ex_t /\
  exists t' w b, edit ex_g ex_k2 ex_t (RUpdate ex_c) ex_a' ex_tg = Ok (t', w, b) /\ t' <> ex_t /\ w <> 0.
Proof. exact (conj ex_wfg (conj ex_wft ex_update_succeeds)). Qed.
Print Assumptions C35_hypotheses_met.
