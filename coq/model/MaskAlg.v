(* Model of genjax/_src/core/generative/functional_types.py (class Mask), on top
   of the staging helpers of Flag.v.  A mask value is a flat list of array
   leaves; flags are Python bools, 0-d arrays or 1-d arrays. *)
From Coq Require Import List Bool ZArith Lia.
Import ListNotations.
From Model Require Import Flag.
Open Scope Z_scope.

Record mask := MkMask { mval : list tv; mflag : flag }.

Definition flag_scalar (f : flag) : bool := match f with FS _ _ => true | FV _ => false end.
Definition flag_len (f : flag) : option nat := match f with FS _ _ => None | FV l => Some (length l) end.
Definition opt_nat_eqb (a b : option nat) : bool :=
  match a, b with None, None => true | Some x, Some y => Nat.eqb x y | _, _ => false end.

(* Mask.__init__ / _validate_init: a vectorised flag's shape must be a prefix of every leaf shape *)
Definition valid_init (v : list tv) (f : flag) : bool :=
  match f with
  | FS _ _ => true
  | FV l => forallb (fun x => match x with TVec _ xs => Nat.eqb (length xs) (length l) | TS _ _ => false end) v
  end.
Definition mk (v : list tv) (f : flag) : option mask := if valid_init v f then Some (MkMask v f) else None.

Inductive mv := Raw (v : list tv) | Msk (m : mask).

(* Mask.build *)
Definition build (v : mv) (f : flag) : option mask :=
  match v with
  | Raw x => mk x f
  | Msk m =>
      let g := mflag m in
      if flag_scalar f || opt_nat_eqb (flag_len f) (flag_len g)
      then match and_ f g with Some h => mk (mval m) h | None => None end
      else None
  end.

(* Mask.flatten: None | the bare value | the mask itself *)
Inductive flat := FlNone | FlVal (v : list tv) | FlMask (m : mask).
Definition flatten (m : mask) : flat :=
  if concrete_false (mflag m) then FlNone
  else if concrete_true (mflag m) then FlVal (mval m)
  else FlMask m.
Definition maybe_mask (v : mv) (f : flag) : option flat := option_map flatten (build v f).

(* jnp.where(flag, v, default) on one leaf: shapes equal, dtype joined *)
Definition jwhere (f : flag) (t e : tv) : option tv :=
  let d := dty_join (tv_dty t) (tv_dty e) in
  match f, t, e with
  | FS _ b, TS _ x, TS _ y => Some (TS d (if b then x else y))
  | FS _ b, TVec _ l, TVec _ m => if Nat.eqb (length l) (length m) then Some (TVec d (if b then l else m)) else None
  | FV bs, TVec _ l, TVec _ m =>
      if Nat.eqb (length l) (length m) && Nat.eqb (length bs) (length l)
      then Some (TVec d (zip2 (fun b p => if b : bool then fst p else snd p) bs (combine l m))) else None
  | _, _, _ => None
  end.
Fixpoint omap2 {A B C} (f : A -> B -> option C) (l1 : list A) (l2 : list B) : option (list C) :=
  match l1, l2 with
  | [], [] => Some []
  | a :: r1, b :: r2 =>
      match f a b, omap2 f r1 r2 with Some c, Some r => Some (c :: r) | _, _ => None end
  | _, _ => None
  end.
(* Mask.unmask(default) *)
Definition unmask_default (m : mask) (dflt : list tv) : option (list tv) :=
  omap2 (jwhere (mflag m)) (mval m) dflt.

(* _validate_mask_shapes: same tree structure, every leaf (flag included) same shape *)
Definition tv_shape_eqb (a b : tv) : bool :=
  match a, b with
  | TS _ _, TS _ _ => true
  | TVec _ l, TVec _ m => Nat.eqb (length l) (length m)
  | _, _ => false
  end.
Fixpoint shapes_eqb (a b : list tv) : bool :=
  match a, b with [], [] => true | x :: r, y :: s => tv_shape_eqb x y && shapes_eqb r s | _, _ => false end.
Definition validate_shapes (a b : mask) : bool :=
  shapes_eqb (mval a) (mval b) && opt_nat_eqb (flag_len (mflag a)) (flag_len (mflag b)).

(* _or_idx: first + 2 * and_(not_(first), second) - 1 *)
Definition oi (a b : bool) : Z := if a then 0 else if b then 1 else -1.
Definition or_idx (f g : flag) : option index :=
  match f, g with
  | FS _ a, FS _ b => Some (IArr (oi a b))
  | FV l, FS _ b => Some (IVec (map (fun a => oi a b) l))
  | FS _ a, FV l => Some (IVec (map (oi a) l))
  | FV l, FV m => option_map IVec (if Nat.eqb (length l) (length m) then Some (zip2 oi l m) else None)
  end.

(* flags as array leaves for tree_choose *)
Definition flag_tv (f : flag) : tv :=
  match f with FS _ b => TS DBool (if b then 1 else 0) | FV l => TVec DBool (map (fun b : bool => if b then 1 else 0) l) end.
Definition tv_flag (v : tv) : flag :=
  match v with TS _ z => FS Ar (negb (Z.eqb z 0)) | TVec _ l => FV (map (fun z => negb (Z.eqb z 0)) l) end.

Definition choose_leaves (i : index) (a b : list tv) : option (list tv) :=
  omap2 (fun x y => tree_choose i [x; y]) a b.

(* Mask.__or__ *)
Definition mor (a b : mask) : option mask :=
  if negb (validate_shapes a b) then None else
  match mflag a with
  | FS Py true => Some a
  | FS Py false => Some b
  | _ =>
      match or_idx (mflag a) (mflag b) with
      | None => None
      | Some i =>
          match choose_leaves i (mval a) (mval b), tree_choose i [flag_tv (mflag a); flag_tv (mflag b)] with
          | Some v, Some fl => Some (MkMask v (tv_flag fl))
          | _, _ => None
          end
      end
  end.

(* Mask.__xor__ *)
Definition mxor (a b : mask) : option mask :=
  if negb (validate_shapes a b) then None else
  match mflag a, mflag b with
  | FS Py false, FS Py false | FS Py true, FS Py true => build (Msk a) (FS Py false)
  | FS Py true, FS Py false => Some a
  | FS Py false, FS Py true => Some b
  | fa, fb =>
      match or_idx fa fb, xor_ fa fb with
      | Some i, Some fx =>
          match choose_leaves i (mval a) (mval b) with
          | Some v => mk v fx
          | None => None
          end
      | _, _ => None
      end
  end.

(* Mask.__invert__ *)
Definition mnot (a : mask) : mask := MkMask (mval a) (not_ (mflag a)).

(* ---- observation: flag with staging erased, values with dtype erased ---- *)
Definition tv_num (v : tv) : list Z := match v with TS _ z => [z] | TVec _ l => l end.
Definition mobs_flag (m : mask) : oflag := obs (mflag m).
Definition mobs_val (m : mask) : list (list Z) := map tv_num (mval m).

(* ---- correspondence cases ---- *)
Inductive mcase :=
| MBuild (v : mv) (f : flag) (want : option mask)
| MMaybe (v : mv) (f : flag) (want : option flat)
| MUnmask (m : mask) (d : list tv) (want : option (list tv))
| MOr (a b : mask) (want : option mask)
| MXor (a b : mask) (want : option mask)
| MNot (a : mask) (want : mask).

Definition mask_eqb (a b : mask) : bool := list_eqb tv_eqb (mval a) (mval b) && flag_eqb (mflag a) (mflag b).
Definition flat_eqb (a b : flat) : bool :=
  match a, b with
  | FlNone, FlNone => true
  | FlVal x, FlVal y => list_eqb tv_eqb x y
  | FlMask x, FlMask y => mask_eqb x y
  | _, _ => false
  end.
Definition mcase_ok (c : mcase) : bool :=
  match c with
  | MBuild v f w => opt_eqb mask_eqb (build v f) w
  | MMaybe v f w => opt_eqb flat_eqb (maybe_mask v f) w
  | MUnmask m d w => opt_eqb (list_eqb tv_eqb) (unmask_default m d) w
  | MOr a b w => opt_eqb mask_eqb (mor a b) w
  | MXor a b w => opt_eqb mask_eqb (mxor a b) w
  | MNot a w => mask_eqb (mnot a) w
  end.
Fixpoint mmismatches_from (n : nat) (cs : list mcase) : list nat :=
  match cs with
  | [] => []
  | c :: r => if mcase_ok c then mmismatches_from (S n) r else n :: mmismatches_from (S n) r
  end.
Definition mmismatches := mmismatches_from 0.
