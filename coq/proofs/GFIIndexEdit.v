(* C11 / C12 "index edit": an IndexRequest on a vmap (arguments unchanged) edits element i alone — the new trace
   is again an elementwise trace, every other element is the old one, the weight is the score change. *)
From Coq Require Import List Bool ZArith NArith Lia Arith.
Import ListNotations.
From Gen Require Import SelGen.
From Model Require Import Key Sel GFI GFIEdit.
From Proofs Require Import GFIBase GFIRef GFIWf GFIConsistent GFISim GFIEditProofs.
Open Scope Z_scope.

Lemma replace_nth_length {A} (l : list A) i x : length (replace_nth l i x) = length l.
Proof. revert i; induction l as [|y r IH]; intros [|j]; simpl; auto. Qed.
Lemma replace_nth_same {A} (l : list A) i x y : nth_error l i = Some y -> nth_error (replace_nth l i x) i = Some x.
Proof. revert i; induction l as [|z r IH]; intros [|j] H; simpl in *; try discriminate; auto. Qed.
Lemma replace_nth_other {A} (l : list A) i j x : i <> j -> nth_error (replace_nth l i x) j = nth_error l j.
Proof.
  revert i j; induction l as [|z r IH]; intros [|i] [|j] H; simpl; auto; try (exfalso; apply H; reflexivity);
    try (apply IH; lia).
Qed.
Lemma zsum_replace_nth (f : trace -> Z) l i x y :
  nth_error l i = Some y -> zsum (map f (replace_nth l i x)) = zsum (map f l) - f y + f x.
Proof.
  revert i; induction l as [|z r IH]; intros [|j] H; simpl in *; try discriminate.
  - inversion H; subst. lia.
  - rewrite (IH j H). lia.
Qed.

Theorem vmap_index_edit axes g k t idx r tg t' w b :
  wfg g -> plain r -> wft (GVmap axes g) t ->
  edit (GVmap axes g) k t (RIndex idx r) (t_args t) tg = Ok (t', w, b) ->
  exists inner i told tnew wi bi,
    t = TVmap inner (t_args t) /\ (0 <= idx < Z.of_nat (length inner)) /\ i = Z.to_nat idx /\
    nth_error inner i = Some told /\
    edit g k told r (slice_args axes (t_args t) i) tg = Ok (tnew, wi, bi) /\
    t' = TVmap (replace_nth inner i tnew) (t_args t) /\ b = RIndex idx bi /\
    wft (GVmap axes g) t' /\ w = t_score t' - t_score t /\
    (forall j, j <> i -> nth_error (replace_nth inner i tnew) j = nth_error inner j).
Proof.
  intros Hg Hp Hw H. destruct t; simpl in Hw; try contradiction. cbn [t_args] in *.
  destruct Hw as [n [Hlen [Hn Hall]]]. simpl in H.
  destruct (tags_nochange tg); [|discriminate].
  destruct ((0 <=? idx) && (idx <? Z.of_nat (length inner))) eqn:Er; [|discriminate].
  apply andb_true_iff in Er. destruct Er as [E1 E2]. apply Z.leb_le in E1. apply Z.ltb_lt in E2.
  destruct (nth_error inner (Z.to_nat idx)) as [told|] eqn:Ht; [|discriminate].
  bind_inv H as x Hx. destruct x as [[tnew wi] bi]. inversion H; subst. clear H.
  destruct (Hall _ _ Ht) as [Hwo Hao].
  rewrite <- Hao in Hx.
  destruct (edit_ok g k told r (t_args told) tg tnew w bi Hg Hp Hwo Hx) as [Hwn [Han Hwt]].
  rewrite Hao in Hx.
  exists inner, (Z.to_nat idx), told, tnew, w, bi.
  split; [reflexivity|]. split; [lia|]. split; [reflexivity|]. split; [exact Ht|]. split; [exact Hx|].
  split; [reflexivity|]. split; [reflexivity|]. split; [|split].
  - simpl. exists (length inner). split; [exact Hlen|]. split; [apply replace_nth_length|].
    intros j tj Hj. destruct (Nat.eq_dec (Z.to_nat idx) j) as [<-|Hne].
    + rewrite (replace_nth_same inner _ tnew told Ht) in Hj. inversion Hj; subst. split; [exact Hwn|]. rewrite Han. exact Hao.
    + rewrite replace_nth_other in Hj by exact Hne. apply (Hall _ _ Hj).
  - simpl. rewrite (zsum_replace_nth t_score inner _ tnew told Ht). lia.
  - intros j Hne. apply replace_nth_other. lia.
Qed.
