"""C29 — ADEV estimators are correct derivative estimators.  Engine C-adev (harness/adev.py)."""
import itertools
from fractions import Fraction as Fr

from . import core, adev
from .adev import fr_json, fr_of

HEADER = "From Coq Require Import List ZArith QArith.\nFrom Model Require Import Adev.\nOpen Scope Q_scope."
DET = ["flip_enum", "flip_enum", "normal_reparam", ["baseline", "flip_enum"], ["baseline", "normal_reparam"], "mvdiag"]
ENUM = ["flip_enum", ["baseline", "flip_enum"]]
RF = ["flip_enum", "flip_reinforce", "flip_reinforce", ["baseline", "flip_reinforce"], "normal_reparam"]
RFN = RF + ["normal_reinforce", ["baseline", "normal_reinforce"]]
STRAT = ["flip_enum", "flip_reinforce", "flip_reinforce", ["baseline", "flip_reinforce"]]


def has(prog, names):
    return any(s in names for s in adev.prog_sites(prog))


# ---- case construction ----------------------------------------------------------------
def mk_case(kind, prog, vals, tans, seed):
    return {"kind": kind, "prog": prog, "params": [fr_json(v) for v in vals], "tangents": [fr_json(t) for t in tans], "seed": seed}


def gen_cases(ctx):
    rng = ctx.rng
    cases = []
    def add(kind, prims, n, sites=3, region=True, need=None, **kw):
        g = adev.Gen(rng, prims, region=region, **kw)
        made = 0
        tries = 0
        while made < n and tries < 200 * n:
            tries += 1
            npar = rng.randint(1, 3)
            kinds, vals, tans = g.params(npar)
            prog = g.prog(kinds, 0, sites)
            if not adev.prog_sites(prog) and rng.random() < 0.85:
                continue        # mostly programs with at least one site
            if need and not need(prog, kinds, tans):
                continue
            cases.append(mk_case(kind, prog, vals, tans, rng.randrange(1 << 20)))
            made += 1
    add("det", DET, ctx.n(36, 600))
    add("det", ENUM, ctx.n(12, 200))
    add("rf", RFN, ctx.n(28, 500))
    add("strat", STRAT, ctx.n(5, 60), sites=2, allow_cond=True)
    # make sure the rarer features are present: a diagonal normal whose scale moves, a baseline whose
    # value moves, a reparameterised scale that moves
    def moving(e, tans):
        return e[0] == "v" and e[1] < len(tans) and tans[e[1]] != 0
    def mv_scale(prog, kinds, tans):
        return prog[0] == "mvdiag" and any(moving(e, tans) for e in prog[2])
    def nr_scale(prog, kinds, tans):
        return prog[0] == "sample" and adev.base_prim(prog[1]) == "normal_reparam" and moving(prog[2][-1], tans)
    add("det", ["mvdiag", "flip_enum"], ctx.n(4, 30), need=mv_scale)
    add("det", ["normal_reparam", "flip_enum"], ctx.n(3, 30), need=nr_scale)
    return cases


def outside_cases(ctx):
    """a small stream outside the region: primitives that raise, key reuse after a tail call, sampling in a
    non-tail cond branch, wrong arity"""
    rng = ctx.rng
    P = ["v", 0]
    out = []
    for pr in ("flip_mvd", "flip_enum_parallel", ["baseline", "flip_mvd"]):
        out.append(mk_case("out", ["sample", pr, ([["c", 1, 1]] if isinstance(pr, list) else []) + [P], ["ret", ["if", 0, ["c", 0, 1], ["neg", ["mul", P, ["c", 1, 2]]]]]], [Fr(1, 4)], [Fr(1)], 3))
    out.append(mk_case("out", ["sample", "categorical_enum_parallel", [["c", 1, 4], ["c", 1, 4], ["c", 1, 2]], ["ret", ["mul", ["v", 1], P]]], [Fr(1, 4)], [Fr(1)], 3))
    out.append(mk_case("out", ["sample", "uniform", [], ["ret", ["mul", ["v", 1], P]]], [Fr(1, 2)], [Fr(1)], 3))
    # a broken primitive in the branch that is NOT taken still raises (lax.cond traces both)
    out.append(mk_case("out", ["sample", "flip_enum", [P], ["cond", 0, ["ret", P], ["sample", "flip_mvd", [P], ["ret", P]], ["ret", ["v", 1]]]], [Fr(1, 4)], [Fr(1)], 3))
    # key reuse
    for seed in (1, 2):
        out.append(mk_case("out", ["sample", "normal_reparam", [P, ["c", 1, 1]], ["sample", "normal_reparam", [P, ["c", 1, 1]], ["ret", ["sub", ["v", 1], ["v", 2]]]]], [Fr(1, 4)], [Fr(1)], seed))
        out.append(mk_case("out", ["sample", "normal_reparam", [P, ["c", 1, 1]], ["sample", "normal_reinforce", [P, ["c", 3, 2]], ["ret", ["mul", ["v", 1], ["v", 2]]]]], [Fr(1, 4)], [Fr(1)], seed))
        out.append(mk_case("out", ["mvdiag", [P, P], [["c", 1, 1], ["c", 1, 2]], ["sample", "flip_reinforce", [["c", 1, 2]], ["ret", ["if", 0, ["v", 1], ["v", 2]]]]], [Fr(1, 4)], [Fr(1)], seed))
    # sampling in a non-tail cond branch
    out.append(mk_case("out", ["sample", "flip_enum", [["c", 1, 2]], ["cond", 0, ["sample", "flip_enum", [P], ["ret", ["if", 1, ["c", 1, 1], ["c", 0, 1]]]], ["ret", ["c", 0, 1]], ["ret", ["mul", ["v", 1], ["v", 1]]]]], [Fr(1, 4)], [Fr(1)], 0))
    out.append(mk_case("out", ["sample", "flip_enum", [["c", 1, 2]], ["cond", 0, ["cost", P, ["ret", P]], ["ret", ["c", 0, 1]], ["ret", ["mul", ["v", 1], ["v", 1]]]]], [Fr(1, 4)], [Fr(1)], 0))
    # wrong arity
    out.append(mk_case("arity", ["sample", "flip_enum", [P, P], ["ret", P]], [Fr(1, 4)], [Fr(1)], 0))
    out.append(mk_case("arity", ["sample", "normal_reparam", [P], ["ret", P]], [Fr(1, 4)], [Fr(1)], 0))
    out.append(mk_case("arity", ["sample", ["baseline", "flip_reinforce"], [P], ["ret", P]], [Fr(1, 4)], [Fr(1)], 0))
    return out


def outside_signature(case):
    sites = adev.prog_sites(case["prog"])
    for s in sites:
        if s in adev.BROKEN:
            return f"adev-prim-raises:{s}"
    if "cond" in sites and case["prog"][0] == "sample" and case["prog"][3][0] == "cond" and case["prog"][3][4] != ["ret", ["v", len(case["params"])]]:
        return "adev-cond-branch-continuation"
    return "adev-tailcall-key-reuse"


# ---- jobs ---------------------------------------------------------------------------------
def jobs_of(case, whats):
    vals = [float(fr_of(v)) for v in case["params"]]
    tans = [float(fr_of(t)) for t in case["tangents"]]
    return [(case["prog"], vals, tans, case["seed"], w) for w in whats]


def c_term(case, what, out, ds):
    n = len(case["params"])
    prog = adev.c_prog(case["prog"], n, 0)
    vals = [fr_of(v) for v in case["params"]]
    tans = [fr_of(t) for t in case["tangents"]]
    if what == "jvp":
        params = "[" + "; ".join(adev.c_dual((v, t)) for v, t in zip(vals, tans)) + "]"
        return f"CJvp {prog} {params} {adev.c_draws(ds)} {adev.c_opt(out, adev.c_dual)}"
    if what == "est":
        return f"CEst {prog} {adev.c_qlist(vals)} {adev.c_draws(ds)} {adev.c_opt(out, adev.cq)}"
    return f"CGrad {prog} {adev.c_qlist(vals)} {adev.c_draws(ds)} {adev.c_opt(out, adev.c_qlist)}"


# ---- the direct oracle (no model) -------------------------------------------------------------
def oracle_det(case, jvp, ds):
    """deterministic estimators: (primal, tangent) = (E, dE/dtheta) exactly, pointwise in eps"""
    if jvp is None:
        return "jvp_estimate raised"
    vals = [fr_of(v) for v in case["params"]]
    tans = [fr_of(t) for t in case["tangents"]]
    E = adev.o_expect(case["prog"], vals, ds, True)
    dE = adev.o_derivative(case["prog"], vals, tans, ds)
    sc = 1 + abs(float(E)) + abs(float(dE))
    if not adev.close(jvp[0], E, sc):
        return f"primal {jvp[0]} but the expectation is {float(E)}"
    if not adev.close(jvp[1], dE, sc):
        return f"tangent {jvp[1]} but the derivative of the expectation is {float(dE)} (expectation {float(E)})"
    return None


def oracle_primal(case, jvp, ds):
    """any estimator: the primal is the program's value for the sampled randomness"""
    if jvp is None:
        return "jvp_estimate raised"
    vals = [fr_of(v) for v in case["params"]]
    V = adev.o_expect(case["prog"], vals, ds, False)
    if not adev.close(jvp[0], V, 1 + abs(float(V)), tol=1e-4):
        return f"primal {jvp[0]} but the program's value for the sampled randomness is {float(V)}"
    return None


def oracle_gradjvp(case, jvp, grad, est):
    if jvp is None or grad is None or est is None:
        return "grad_estimate / estimate raised"
    tans = [float(fr_of(t)) for t in case["tangents"]]
    ip = sum(t * g for t, g in zip(tans, grad))
    sc = 1 + abs(jvp[0]) + sum(abs(t * g) for t, g in zip(tans, grad))
    if not adev.close(jvp[1], ip, sc, tol=1e-4):
        return f"jvp tangent {jvp[1]} but <tangent, grad_estimate> = {ip} (grad {grad})"
    if not adev.close(est, jvp[0], 1 + abs(est), tol=1e-5):
        return f"estimate {est} but the jvp primal is {jvp[0]}"
    return None


def strat_cells(case):
    """thresholds of the flip_reinforce sites per depth and the product cells of [0,1)^D"""
    vals = [fr_of(v) for v in case["params"]]
    th = {}
    adev.o_expect(case["prog"], vals, [(0.0, 0.0, [0.0, 0.0])] * adev.NDEPTH, True, th)
    D = (max(th) + 1) if th else 0
    axes = []
    for d in range(D):
        pts = sorted({Fr(0), Fr(1)} | {t for t in th.get(d, set()) if 0 < t < 1})
        axes.append([(pts[i], pts[i + 1]) for i in range(len(pts) - 1)])
    return D, axes


def strat_seeds(case, U):
    """one seed per cell: u_d strictly inside the cell"""
    D, axes = strat_cells(case)
    cells = []
    for combo in itertools.product(*axes) if D else [()]:
        w = Fr(1)
        for lo, hi in combo:
            w *= hi - lo
        seed = None
        for s in range(U.shape[0]):
            if all(float(lo) <= float(U[s, d]) < float(hi) for d, (lo, hi) in enumerate(combo)):
                seed = s
                break
        cells.append((w, seed))
    return D, cells


def oracle_strat(case, cells, outs):
    """exact unbiasedness on the implementation: sum over the cells of the partition of [0,1)^D by the
    flip thresholds of vol(cell) * estimate(a key whose draws lie in the cell) = (E, dE)"""
    vals = [fr_of(v) for v in case["params"]]
    tans = [fr_of(t) for t in case["tangents"]]
    ds = [(0.0, 0.0, [0.0, 0.0])] * adev.NDEPTH
    E = adev.o_expect(case["prog"], vals, ds, True)
    dE = adev.o_derivative(case["prog"], vals, tans, ds)
    mp = mt = 0.0
    for (w, seed), o in zip(cells, outs):
        if o is None:
            return "jvp_estimate raised"
        mp += float(w) * o[0]
        mt += float(w) * o[1]
    sc = 1 + abs(float(E)) + abs(float(dE)) + sum(float(w) * abs(o[1]) for (w, _), o in zip(cells, outs))
    if not adev.close(mp, E, sc, tol=1e-4):
        return f"expected primal over the {len(cells)} cells {mp} but the expectation is {float(E)}"
    if not adev.close(mt, dE, sc, tol=1e-4):
        return f"expected tangent over the {len(cells)} cells {mt} but the derivative of the expectation is {float(dE)}"
    return None


# ---- primitives outside the Coq model (sqrt / log / TFP implicit gradients): oracle only ---------------
def extra_check(name, seed, a, b):
    """mv_normal_reparam, beta_implicit: the estimate is the JVP of the sample path for the key's draw;
    geometric_reinforce: primal = value at the sample, tangent = k' + k * d logpdf.  Returns None or a reason."""
    import jax, jax.numpy as jnp
    from tensorflow_probability.substrates import jax as tfp
    from genjax.adev import expectation, Dual, mv_normal_reparam, beta_implicit, geometric_reinforce
    tfd = tfp.distributions
    key = jax.random.key(seed)
    _, sub = jax.random.split(key)
    try:
        if name == "mv_normal_reparam":
            w = jnp.array([1.0, -2.0])
            mu = jnp.array([a, -1.0]); cov = jnp.array([[2.0, b], [b, 1.0]])
            tmu = jnp.array([1.0, 0.5]); tcov = jnp.array([[0.25, 0.125], [0.125, -0.5]])
            got = expectation(lambda mu, cov: jnp.sum(mv_normal_reparam(mu, cov) * w)).jvp_estimate(key, (Dual(mu, tmu), Dual(cov, tcov)))
            eps = tfd.Normal(loc=0.0, scale=1.0).sample(2, seed=sub)
            want = jax.jvp(lambda mu, cov: jnp.sum((mu + jnp.linalg.cholesky(cov) @ eps) * w), (mu, cov), (tmu, tcov))
        elif name == "beta_implicit":
            al, be = 1.0 + abs(a) * 2, 1.5 + abs(b)
            got = expectation(lambda x, y: beta_implicit(x, y) ** 2).jvp_estimate(key, (Dual(al, 1.0), Dual(be, -0.5)))
            want = jax.jvp(lambda x, y: tfd.Beta(concentration1=x, concentration0=y).sample(seed=key) ** 2, (al, be), (1.0, -0.5))
        else:
            l0 = float(a)
            got = expectation(lambda l_: geometric_reinforce((l_,)) * l_).jvp_estimate(key, (Dual(l0, 1.0),))
            x = tfd.Geometric(l0).sample(seed=sub)
            lp = jax.jvp(lambda l_: tfd.Geometric(l_).log_prob(x), (l0,), (1.0,))[1]
            want = (x * l0, x + x * l0 * lp)
    except Exception as e:
        return f"raised {type(e).__name__}: {str(e)[:80]}"
    gp, gt, wp, wt = float(got.primal), float(got.tangent), float(want[0]), float(want[1])
    sc = 1 + abs(wp) + abs(wt)
    if abs(gp - wp) > 1e-4 * sc or abs(gt - wt) > 1e-4 * sc:
        return f"estimate ({gp}, {gt}) but the pathwise / score-function value for the key's draw is ({wp}, {wt})"
    return None


# ---- run ------------------------------------------------------------------------------------
def run(ctx):
    import time
    t0 = time.time()
    ctx.proofs()
    ctx.log(f"proofs built and checked in {time.time() - t0:.0f}s")
    import genjax
    ctx.log(f"implementation under test: {genjax.__file__}")
    cases = gen_cases(ctx)
    outs = outside_cases(ctx)
    rng = ctx.rng
    plan = []          # (case, what)
    for c in cases:
        plan.append((c, "jvp"))
        if c["kind"] in ("det", "rf") and rng.random() < 0.3:
            plan.append((c, "grad"))
            plan.append((c, "est"))
    for c in outs:
        plan.append((c, "jvp"))
        if c["kind"] == "out" and rng.random() < 0.3:
            plan.append((c, "est"))
    # stratification: one run per cell
    U = adev.uniform_table(ctx.n(4096, 16384), 3)
    strat = []
    for c in cases:
        if c["kind"] != "strat":
            continue
        D, cells = strat_seeds(c, U)
        if any(s is None for _, s in cells) or len(cells) > ctx.n(12, 40):
            continue
        strat.append((c, cells))
    jobs = []
    for c, w in plan:
        jobs += jobs_of(c, [w])
    nplan = len(jobs)
    for c, cells in strat:
        vals = [float(fr_of(v)) for v in c["params"]]
        tans = [float(fr_of(t)) for t in c["tangents"]]
        jobs += [(c["prog"], vals, tans, seed, "jvp") for _, seed in cells]
    t1 = time.time()
    res = adev.run_jobs(jobs)
    ctx.log(f"{len(jobs)} implementation runs in {time.time() - t1:.0f}s")
    t1 = time.time()
    # correspondence
    terms = [c_term(c, w, res[i][0], res[i][1]) for i, (c, w) in enumerate(plan)]
    mism, errs = core.coq_mismatches("C29", HEADER, terms, "acase", fn="amismatches", shard=120)
    ctx.log(f"{len(terms)} cases evaluated in Coq in {time.time() - t1:.0f}s")
    for e in errs[:2]:
        ctx.fail("correspondence", "C-adev case file did not evaluate: " + e)
    for i in mism[:4]:
        c, w = plan[i]
        ctx.fail("correspondence", f"model coq/model/Adev.v and the implementation disagree on {w} of {c['prog']} at {c['params']} tangents {c['tangents']} seed {c['seed']}: implementation gives {res[i][0]}",
                 case=dict(c, what=w))
    # oracle
    by = {}
    for i, (c, w) in enumerate(plan):
        by.setdefault(id(c), {"case": c})[w] = res[i]
    nbad = 0
    noracle = 0
    for rec in by.values():
        c = rec["case"]
        jvp, ds = rec["jvp"]
        whys = []
        if c["kind"] in ("det",):
            whys.append(("det", oracle_det(c, jvp, ds)))
        if c["kind"] in ("rf", "strat", "det"):
            whys.append(("primal", oracle_primal(c, jvp, ds)))
        if "grad" in rec:
            whys.append(("gradjvp", oracle_gradjvp(c, jvp, rec["grad"][0], rec["est"][0])))
        if c["kind"] == "out":
            try:
                why = oracle_det(c, jvp, ds) if not has(c["prog"], ("normal_reinforce", "flip_reinforce")) else oracle_primal(c, jvp, ds)
            except adev.NotPolynomial:
                why = None
                ctx.log(f"note: {adev.prog_sites(c['prog'])} no longer raises (returned {jvp}); K40 may be repaired")
            if why:
                ctx.fail("oracle", f"{c['prog']}: {why}", case=dict(c, oracle="det"), signature=outside_signature(c))
            continue
        if c["kind"] == "arity":
            if jvp is not None:
                ctx.fail("oracle", f"{c['prog']}: a primitive accepted a wrong number of arguments", case=dict(c, oracle="arity"))
            continue
        for name, why in whys:
            noracle += 1
            if why:
                nbad += 1
                if nbad <= 3:
                    ctx.fail("oracle", f"{name}: {c['prog']} at {c['params']} tangents {c['tangents']} seed {c['seed']}: {why}", case=dict(c, oracle=name))
    k = nplan
    nstrat = 0
    for c, cells in strat:
        o = [r[0] for r in res[k:k + len(cells)]]
        k += len(cells)
        why = oracle_strat(c, cells, o)
        noracle += 1
        nstrat += 1
        if why:
            nbad += 1
            if nbad <= 3:
                ctx.fail("oracle", f"unbiasedness: {c['prog']} at {c['params']} tangents {c['tangents']}: {why}",
                         case=dict(c, oracle="strat", cells=[[fr_json(w), s] for w, s in cells]))
    # the correspondence broke but no oracle failed on this run's cases: search around the mismatches
    if mism and nbad == 0:
        tried = 0
        for i in mism:
            c, w = plan[i]
            if c["kind"] in ("out", "arity") or tried >= 4:
                continue
            sites = set(adev.prog_sites(c["prog"]))
            if sites & {"normal_reinforce", "normal_reparam", "mvdiag"} or not sites & {"flip_reinforce"}:
                continue
            D, cells = strat_seeds(c, U)
            if any(sd is None for _, sd in cells) or len(cells) > 16:
                continue
            tried += 1
            vals = [float(fr_of(v)) for v in c["params"]]
            tans = [float(fr_of(t)) for t in c["tangents"]]
            o = [adev.run_impl(c["prog"], vals, tans, sd, "jvp") for _, sd in cells]
            why = oracle_strat(c, cells, o)
            if why:
                nbad += 1
                ctx.fail("oracle", f"unbiasedness (search around a correspondence mismatch): {c['prog']} at {c['params']} tangents {c['tangents']}: {why}",
                         case=dict(c, oracle="strat", cells=[[fr_json(w_), sd] for w_, sd in cells]))
                break
    # exported primitives outside the Coq model: oracle only
    nextra = 0
    for name in ("mv_normal_reparam", "beta_implicit", "geometric_reinforce"):
        for _ in range(ctx.n(2, 12)):
            seed, a, b = rng.randrange(1 << 16), rng.choice([0.25, 0.5, 0.75, -0.5]), rng.choice([0.25, 0.5, -0.25])
            why = extra_check(name, seed, a, b)
            nextra += 1
            if why:
                ctx.fail("oracle", f"{name} (seed {seed}, a={a}, b={b}): {why}", case={"kind": "extra", "oracle": "extra", "name": name, "seed": seed, "a": a, "b": b})
    # coverage
    ctx.cov["evaluations"] = len(jobs) + nextra
    ctx.cov["traces_validated_against_impl"] = len(plan) - len(mism)
    nontriv = {repr(c["prog"]) for c, w in plan if adev.prog_sites(c["prog"])}
    ctx.cov["distinct_nontrivial"] = len(nontriv)
    sites = {}
    for c, w in plan:
        if w == "jvp":
            for s in adev.prog_sites(c["prog"]):
                sites[s] = sites.get(s, 0) + 1
    ctx.cov["by_kind"] = {"programs": {k_: sum(1 for c in cases + outs if c["kind"] == k_) for k_ in ("det", "rf", "strat", "out", "arity")},
                          "calls": {w_: sum(1 for c, w in plan if w == w_) for w_ in ("jvp", "grad", "est")},
                          "sites": sites, "oracle_checks": noracle, "stratified_programs": nstrat,
                          "stratified_runs": len(jobs) - nplan, "oracle_only_primitives(mv_normal_reparam,beta_implicit,geometric_reinforce)": nextra, "raised": sum(1 for r in res[:nplan] if r[0] is None)}
    ctx.cov["rule"] = ("programs from the grammar (<= 3 sample sites, cond on flip results, add_cost, jnp.where, + - * neg on dyadic "
                       "parameters/constants), 1-3 parameters in {k/8} (probabilities), {1/2..2} (scales), {k/4} (reals), random tangents, "
                       "fixed keys; every case runs Expectation.jvp_estimate (40%: also grad_estimate and estimate) on /repo and the base draws "
                       "(uniform, normal, normal vector per key-chain depth) are recomputed from the key; Coq compares its interp/run_grad/"
                       "run_estimate within 2e-5*(1+|primal|+|tangent|); non-trivial = at least one sample/cond/add_cost site; "
                       "oracle (no model): exact Fractions expectation and interpolated derivative for enumeration/reparameterisation, value at "
                       "the sampled draws for every primal, <tangent,grad>=jvp, and for flip_reinforce/baseline programs the exact expectation "
                       "of the estimator over the cells cut by the flip thresholds (one key per cell)")
    ctx.add_samples([{"case": plan[i][0], "what": plan[i][1], "impl": res[i][0]} for i in (0, len(plan) // 2, len(plan) - 1)])
    ctx.cov["tolerance"] = "2e-5 relative to 1+|primal|+|tangent| (float32 arithmetic, 1/p in REINFORCE); 1e-4 for stratified sums and normal_reinforce primals"
    ctx.cov["genjax_file"] = genjax.__file__


def replay(case):
    """re-run one oracle case on the implementation; True iff the property holds"""
    kind = case.get("oracle")
    if kind == "extra":
        why = extra_check(case["name"], case["seed"], case["a"], case["b"])
        print(f"{case['name']} seed {case['seed']}: {why or 'ok'}")
        return why is None
    c = {k: case[k] for k in ("kind", "prog", "params", "tangents", "seed")}
    def one(what, seed=None):
        vals = [float(fr_of(v)) for v in c["params"]]
        tans = [float(fr_of(t)) for t in c["tangents"]]
        s = c["seed"] if seed is None else seed
        return adev.run_impl(c["prog"], vals, tans, s, what), adev.draws_for(s)
    if kind is None:
        kind = "det" if c["kind"] in ("det", "out") else "primal"
    if kind == "arity":
        jvp, _ = one("jvp")
        print("implementation:", jvp)
        return jvp is None
    if kind == "strat":
        cells = [(fr_of(w), s) for w, s in case["cells"]]
        outs = [one("jvp", s)[0] for _, s in cells]
        why = oracle_strat(c, cells, outs)
    elif kind == "gradjvp":
        jvp, ds = one("jvp")
        why = oracle_gradjvp(c, jvp, one("grad")[0], one("est")[0])
    elif kind == "primal":
        jvp, ds = one("jvp")
        why = oracle_primal(c, jvp, ds)
    else:
        jvp, ds = one("jvp")
        why = oracle_det(c, jvp, ds)
    print(f"{c['prog']} params {c['params']} tangents {c['tangents']} seed {c['seed']}: {why or 'ok'}")
    return why is None
