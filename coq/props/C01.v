(* C01 — every trace agrees with assess on its own choices and arguments.
   Model: coq/model/GFI.v.  `wfg g`: the addresses of each static body have distinct first
   components (the shape the static language's choice maps are looked up by);
   `sites_live t`: every call made at a static address recorded at least one choice
   (otherwise the implementation itself reports MissingAddress: known finding K16). *)
From Coq Require Import List ZArith.
From Model Require Import Key Sel GFI.
From Model Require Import GFIEdit.
From Proofs Require Import GFIBase GFIRef GFIWf GFIConsistent GFISim GFIEditProofs.

Theorem C01_simulate_agrees_with_assess : forall g k a t,
  wfg g -> simulate g k a = Ok t -> sites_live t ->
  assess g (t_choices t) (t_args t) = Ok (t_score t, t_retval t).
Proof. exact simulate_agrees_with_assess. Qed.
Print Assumptions C01_simulate_agrees_with_assess.

Theorem C01_importance_agrees_with_assess : forall g k c a t w,
  wfg g -> generate g k c a = Ok (t, w) -> sites_live t ->
  assess g (t_choices t) (t_args t) = Ok (t_score t, t_retval t).
Proof. exact generate_agrees_with_assess. Qed.
Print Assumptions C01_importance_agrees_with_assess.

(* the invariant every operation must establish, and what follows from it: a trace that records an
   execution of g (wft) never reports a score or return value of another execution *)
Theorem C01_wellformed_trace_agrees : forall g t,
  wfg g -> wft g t -> sites_live t ->
  assess g (t_choices t) (t_args t) = Ok (t_score t, t_retval t).
Proof.
  intros g t Hg Hw Hl. destruct (proj1 wft_ref_all g Hg t Hw Hl) as [Hr Hs].
  rewrite assess_is_ref_sum, Hr. simpl. rewrite Hs. reflexivity.
Qed.
Print Assumptions C01_wellformed_trace_agrees.

(* ... "update or edit": an Update or Regenerate edit of such a trace (with any new arguments and tags) again gives one,
   and so do chains of them *)
Theorem C01_edited_trace_agrees_with_assess : forall g k t r a tg t' w b,
  wfg g -> plain r -> wft g t -> edit g k t r a tg = Ok (t', w, b) -> sites_live t' ->
  assess g (t_choices t') (t_args t') = Ok (t_score t', t_retval t').
Proof.
  intros g k t r a tg t' w b Hg Hp Hw H Hl.
  destruct (edit_ok g k t r a tg t' w b Hg Hp Hw H) as [Hw' _].
  destruct (proj1 wft_ref_all g Hg t' Hw' Hl) as [Hr Hs].
  rewrite assess_is_ref_sum, Hr. simpl. rewrite Hs. reflexivity.
Qed.
Print Assumptions C01_edited_trace_agrees_with_assess.

(* ---- non-vacuity: concrete non-trivial programs and traces meeting the hypotheses above (proofs/GFIWitness.v) ---- *)
From Proofs Require Import GFIWitness.
Example C01_hypotheses_met : wfg ex_g /\ simulate ex_g ex_k ex_a = Ok ex_t /\ wft ex_g ex_t /\ sites_live ex_t /\ length (t_choices ex_t) = 7%nat.
Proof. exact (conj ex_wfg (conj ex_simulate (conj ex_wft (conj ex_sites_live ex_nontrivial)))). Qed.
Print Assumptions C01_hypotheses_met.
