"""known-finding witness (C29, C30): TailCallADEVPrimitive.jvp_estimate hands the UNSPLIT key to the
continuation (kdual(key, before_tail_call(key, ...))), so the next sampling site splits the same
key again: two reparameterised sites (normal_reparam, mv_normal_diag_reparam, ...) draw the SAME
eps.  x - y is identically 0 for independent x, y ~ N(mu, 1), E[(x-y)^2] is estimated as 0
instead of 2; a VI guide with two reparameterised sites is perfectly correlated.
exit 1 while present."""
import sys, jax
from genjax.adev import expectation, normal_reparam, Dual

@expectation
def loss(mu):
    x = normal_reparam(mu, 1.0)
    y = normal_reparam(mu, 1.0)
    return (x - y) ** 2

bad = []
vals = [float(loss.jvp_estimate(jax.random.key(k), (Dual(0.25, 1.0),)).primal) for k in range(4)]
if all(v == 0.0 for v in vals):
    bad.append(("(x-y)^2 == 0 for 4 keys; E[(x-y)^2] = 2", vals[:3]))
print("FAIL" if bad else "OK", bad[:2])
sys.exit(1 if bad else 0)
