(* C29 — ADEV estimators are correct derivative estimators.
   Model: coq/model/Adev.v (dual numbers over Q; interp = ADInterpreter.eval_jaxpr_adev with every
   primitive's jvp_estimate, the key chain made explicit as a depth counter and base draws rs).
   Specification: valueQ (the program's value / expectation over Q, continuation passing, a fresh
   draw per site) and specP (the same expectation as a polynomial in the step theta along the line
   x_i + theta x_i' through the parameters); "derivative" is the formal derivative of that polynomial.
   lg/dlg (log and its derivative) are arbitrary function symbols; the C29 grammar (wf) is arithmetic.
   Region (wf): primitives that run on the unchanged tree, nothing draws after a tail-call
   (reparameterised) site, sampling inside cond branches only when the cond is in tail position. *)
From Coq Require Import List ZArith QArith Bool.
Import ListNotations.
From Model Require Import Adev.
From Proofs Require Import AdevC29.
Open Scope Q_scope.

(* 1. the primal of a forward-mode estimate is the program's value for the sampled randomness
      (enumerated sites averaged), for every program of the region and every primitive that runs *)
Theorem C29_primal_is_value : forall lg dlg sel p, wf sel p = true ->
  forall env benv rs d, exists r, interp lg dlg p env benv rs d = Some r /\
    fst r == valueQ lg false p (map fst env) benv rs d Kid.
Proof. exact primal_is_value_model. Qed.
Print Assumptions C29_primal_is_value.
Example C29_primal_is_value_nonvacuous :
  wf prim_any (Sample PFlipReinforce [EV 0] (Sample PNormalReinforce [EV 1; EC 1]
      (Cond 0 (Ret (EMul (EV 0) (EV 0))) (Ret (EV 1)) (AddCost (EV 2) (Ret (EV 0)))))) = true.
Proof. reflexivity. Qed.

(* 2. enumeration: primal = the exact expectation P(0), tangent = its exact derivative P'(0), and P
      is the expectation as a function of the step (for every theta) *)
Theorem C29_enum_exact : forall lg dlg p, wf prim_enum p = true ->
  forall env benv rs d, exists r, interp lg dlg p env benv rs d = Some r /\
    fst r == peval (specP p (map line env) benv rs d PKid) 0 /\
    snd r == peval (pderiv (specP p (map line env) benv rs d PKid)) 0 /\
    forall t, peval (specP p (map line env) benv rs d PKid) t
              == valueQ lg true p (map (fun x => fst x + t * snd x) env) benv rs d Kid.
Proof. exact enum_exact_model. Qed.
Print Assumptions C29_enum_exact.
Example C29_enum_exact_nonvacuous :
  wf prim_enum (Sample PFlipEnum [EV 0] (Sample (PBaseline PFlipEnum) [EV 1; EIf 0 (EV 0) (EC (1#4))]
      (Cond 1 (Ret (EC 0)) (Sample PFlipEnum [EV 1] (Ret (EIf 0 (EV 0) (EMul (EV 1) (EV 1))))) (Ret (EV 0))))) = true.
Proof. reflexivity. Qed.

(* 3. reparameterisation (with enumeration): pointwise in eps, tangent = derivative of the primal
      along the reparameterised path *)
Theorem C29_reparam_pathwise : forall lg dlg p, wf prim_det p = true ->
  forall env benv rs d, exists r, interp lg dlg p env benv rs d = Some r /\
    fst r == peval (specP p (map line env) benv rs d PKid) 0 /\
    snd r == peval (pderiv (specP p (map line env) benv rs d PKid)) 0 /\
    forall t, peval (specP p (map line env) benv rs d PKid) t
              == valueQ lg true p (map (fun x => fst x + t * snd x) env) benv rs d Kid.
Proof. exact det_exact_model. Qed.
Print Assumptions C29_reparam_pathwise.
Example C29_reparam_pathwise_nonvacuous :
  wf prim_det (Sample PFlipEnum [EV 0] (Sample PNormalReparam [EIf 0 (EV 1) (EC 0); EV 2]
      (Ret (EMul (EV 0) (EV 0))))) = true
  /\ wf prim_det (SampleMvDiag [EV 0; EV 1] [EC 1; EV 2] (Ret (EMul (EV 0) (EV 1)))) = true.
Proof. split; reflexivity. Qed.

(* 4. REINFORCE (flip_reinforce) and baselines, mixed with enumeration and reparameterisation:
      the expectation over the uniform draws (each on the grid {0,1/N,..,(N-1)/N}, which contains
      every reachable flip probability) of (primal, tangent) is (P(0), P'(0)) *)
Theorem C29_reinforce_unbiased : forall lg dlg p, wf prim_exact p = true ->
  forall N n env benv rs d, (0 < N)%nat -> (udepth p <= n)%nat -> probs_ok lg dlg N p env benv ->
    Eu N n d (fun rs' => ofst (interp lg dlg p env benv rs' d)) rs
      == peval (specP p (map line env) benv rs d PKid) 0 /\
    Eu N n d (fun rs' => osnd (interp lg dlg p env benv rs' d)) rs
      == peval (pderiv (specP p (map line env) benv rs d PKid)) 0 /\
    forall t, peval (specP p (map line env) benv rs d PKid) t
              == valueQ lg true p (map (fun x => fst x + t * snd x) env) benv rs d Kid.
Proof. exact reinforce_unbiased_model. Qed.
Print Assumptions C29_reinforce_unbiased.
Definition ex_reinforce : prog :=
  Sample PFlipEnum [EV 0] (Sample (PBaseline PFlipReinforce) [EC 3; EIf 0 (EV 0) (EC (1#4))]
    (Sample PFlipReinforce [EV 0] (Ret (EIf 0 (EMul (EV 0) (EV 0)) (EIf 1 (EC 1) (EV 0)))))).
Example C29_reinforce_unbiased_nonvacuous :
  wf prim_exact ex_reinforce = true /\ (udepth ex_reinforce <= 2)%nat /\
  probs_ok (fun _ => 0) (fun _ => 0) 4 ex_reinforce [(1#2, 1)] [].
Proof.
  split; [reflexivity|]. split; [simpl; repeat constructor|].
  assert (G2 : on_grid 4 (1#2)) by (exists 2%nat; split; [split; repeat constructor|reflexivity]).
  assert (G1 : on_grid 4 (1#4)) by (exists 1%nat; split; [split; repeat constructor|reflexivity]).
  simpl. repeat split; assumption.
Qed.

(* 5. a baseline does not change the expectation of the estimator *)
Theorem C29_baseline_unbiased : forall lg dlg pr b args k,
  wf prim_exact (Sample (PBaseline pr) (b :: args) k) = true ->
  forall N n env benv rs d, (0 < N)%nat -> (udepth (Sample pr args k) <= n)%nat ->
    probs_ok lg dlg N (Sample (PBaseline pr) (b :: args) k) env benv ->
    wf prim_exact (Sample pr args k) = true /\
    Eu N n d (fun rs' => ofst (interp lg dlg (Sample (PBaseline pr) (b :: args) k) env benv rs' d)) rs
      == Eu N n d (fun rs' => ofst (interp lg dlg (Sample pr args k) env benv rs' d)) rs /\
    Eu N n d (fun rs' => osnd (interp lg dlg (Sample (PBaseline pr) (b :: args) k) env benv rs' d)) rs
      == Eu N n d (fun rs' => osnd (interp lg dlg (Sample pr args k) env benv rs' d)) rs.
Proof. exact baseline_unbiased_model. Qed.
Print Assumptions C29_baseline_unbiased.
Example C29_baseline_unbiased_nonvacuous :
  wf prim_exact (Sample (PBaseline PFlipReinforce) [EC 10; EV 0] (Ret (EIf 0 (EC 9) (EC 11)))) = true /\
  probs_ok (fun _ => 0) (fun _ => 0) 8 (Sample (PBaseline PFlipReinforce) [EC 10; EV 0] (Ret (EIf 0 (EC 9) (EC 11)))) [(1#8, 1)] [].
Proof.
  split; [reflexivity|]. simpl. repeat split.
  exists 1%nat. split; [split; repeat constructor|reflexivity].
Qed.

(* 6. grad_estimate agrees with jvp_estimate: the tangent is the inner product of the input tangent
      with the gradient (every primitive that runs, REINFORCE on normals included) *)
Theorem C29_grad_is_jvp : forall lg dlg sel p, wf sel p = true ->
  forall xs t rs, exists g r,
    run_grad lg dlg p xs rs = Some g /\ run_jvp lg dlg p (envOf xs t 0) rs = Some r /\
    length g = length xs /\
    snd r == gsum (length xs) (fun i => t i * nth i g 0).
Proof. exact grad_is_jvp_model. Qed.
Print Assumptions C29_grad_is_jvp.

(* 7. Expectation.estimate returns the program's value at the given arguments, = the primal of
      jvp_estimate for any tangents *)
Theorem C29_estimate_is_value : forall lg dlg sel p, wf sel p = true ->
  forall xs rs, exists v, run_estimate lg dlg p xs rs = Some v /\
    v == valueQ lg false p (rev xs) [] rs 0 Kid /\
    forall t, exists r, run_jvp lg dlg p (envOf xs t 0) rs = Some r /\ fst r == v.
Proof. exact estimate_is_value_model. Qed.
Print Assumptions C29_estimate_is_value.

(* ---- outside the region: what the faithful model shows (known findings K40-K45) ---- *)
(* flip_mvd, flip_enum_parallel, categorical_enum_parallel, uniform raise for every program *)
Theorem C29_broken_primitives_refuted : forall lg dlg pr args k env benv rs d,
  pr = PFlipMVD \/ pr = PFlipEnumPar \/ pr = PCatEnumPar \/ pr = PUniform ->
  interp lg dlg (Sample pr args k) env benv rs d = None.
Proof. exact broken_prims_raise. Qed.
Print Assumptions C29_broken_primitives_refuted.

(* two reparameterised sites share their eps: x - y is identically 0, its value for independent
   draws is sigma*(eps_0 - eps_1) *)
Definition ex_keyreuse : prog :=
  Sample PNormalReparam [EV 0; EC 1] (Sample PNormalReparam [EV 1; EC 1] (Ret (ESub (EV 1) (EV 0)))).
Definition rs01 : rnd := rnd_of [{| du := 0; de := 1; dv := [] |}; {| du := 0; de := 3; dv := [] |}].
Theorem C29_tailcall_key_reuse_refuted :
  (forall rs, exists r, interp (fun _ => 0) (fun _ => 0) ex_keyreuse [(1#4, 1)] [] rs 0%nat = Some r /\ fst r == 0) /\
  ~ valueQ (fun _ => 0) false ex_keyreuse [1#4] [] rs01 0 Kid == 0.
Proof.
  split.
  - intros rs. eexists. split; [reflexivity|]. simpl. ring.
  - vm_compute. discriminate.
Qed.
Print Assumptions C29_tailcall_key_reuse_refuted.

(* a flip_enum inside a cond branch that is not in tail position: the estimator returns
   q * p^2 (derivative 2 q p p') for E[x^2] = q * p *)
Definition ex_nontail : prog :=
  Sample PFlipEnum [EC (1#2)]
    (Cond 0 (Sample PFlipEnum [EV 0] (Ret (EIf 0 (EC 1) (EC 0)))) (Ret (EC 0))
       (Ret (EMul (EV 0) (EV 0)))).
Theorem C29_cond_nontail_refuted :
  exists r, interp (fun _ => 0) (fun _ => 0) ex_nontail [(1#4, 1)] [] (rnd_of []) 0%nat = Some r /\
    fst r == 1#32 /\ snd r == 1#4 /\
    peval (specP ex_nontail [line (1#4, 1)] [] (rnd_of []) 0 PKid) 0 == 1#8 /\
    peval (pderiv (specP ex_nontail [line (1#4, 1)] [] (rnd_of []) 0 PKid)) 0 == 1#2.
Proof. eexists. split; [reflexivity|]. vm_compute. repeat split. Qed.
Print Assumptions C29_cond_nontail_refuted.
