(* C27 — Rejuvenate returns the Metropolis-Hastings log acceptance ratio.
   Model: coq/model/Rejuv.v (Rejuvenate.edit) over coq/model/FlatQ.v (flat static programs over
   Q: every site's argument function, log-density and sampler are arbitrary functions, so the
   statements hold for every flat model p, every flat proposal q, every argument_mapping).
   `wf_trace p t`: t stores, per site, the log-density of its value (what simulate / update
   leave behind; FlatQProofs.simulate_wf, update_spec). *)
From Coq Require Import List Bool ZArith NArith QArith.
Import ListNotations.
From Model Require Import Key FlatQ Rejuv.
From Proofs Require Import FlatQProofs RejuvProofs.
Open Scope Q_scope.

(* weight = log p(x') + log q(x | x') - log p(x) - log q(x' | x); the four densities are the
   programs' own `assess`; the backward one is evaluated on the discard with the arguments
   argument_mapping gives on the NEW trace's choices *)
Theorem C27_rejuvenate_weight : forall p q amap k t nt w bwd,
  wf_trace p t ->
  rejuvenate p q amap k t = Ok (nt, w, bwd) ->
  exists pt lpx lpx' lqf lqb,
    simulate q (fold_in k 1) (amap (choices t)) = Ok pt /\
    choices nt = override (choices t) (choices pt) /\
    bwd = discard (choices t) (choices pt) /\
    assess p (choices t) (t_args t) = Ok lpx /\
    assess p (choices nt) (t_args t) = Ok lpx' /\
    assess q (choices pt) (amap (choices t)) = Ok lqf /\
    assess q bwd (amap (choices nt)) = Ok lqb /\
    w == lpx' + lqb - lpx - lqf /\
    wf_trace p nt.
Proof. exact rejuvenate_weight. Qed.
Print Assumptions C27_rejuvenate_weight.

(* the same for whatever proposal trace was drawn (any key derivation): everything after `propose` *)
Theorem C27_rejuvenate_weight_any_draw : forall p q amap pt t nt w bwd,
  wf_trace p t -> wf_trace q pt -> t_args pt = amap (choices t) ->
  rejuvenate_from p q amap pt t = Ok (nt, w, bwd) ->
  exists lpx lpx' lqf lqb,
    choices nt = override (choices t) (choices pt) /\
    bwd = discard (choices t) (choices pt) /\
    assess p (choices t) (t_args t) = Ok lpx /\
    assess p (choices nt) (t_args t) = Ok lpx' /\
    assess q (choices pt) (amap (choices t)) = Ok lqf /\
    assess q bwd (amap (choices nt)) = Ok lqb /\
    w == lpx' + lqb - lpx - lqf /\
    wf_trace p nt.
Proof. exact rejuvenate_from_weight. Qed.
Print Assumptions C27_rejuvenate_weight_any_draw.

(* the returned trace holds the proposed choices; every other choice is untouched *)
Theorem C27_rejuvenate_holds_proposed_choices : forall p q amap k t nt w bwd,
  wf_trace p t ->
  rejuvenate p q amap k t = Ok (nt, w, bwd) ->
  exists pt, simulate q (fold_in k 1) (amap (choices t)) = Ok pt /\
    forall a, In a (addrs p) ->
      get (choices nt) a = match get (choices pt) a with
                           | Some v => Some v
                           | None => get (choices t) a
                           end.
Proof. exact rejuvenate_choices. Qed.
Print Assumptions C27_rejuvenate_holds_proposed_choices.

(* the backward density is evaluated on the old values of exactly the proposed addresses *)
Theorem C27_rejuvenate_backward_choices : forall p q amap k t nt w bwd,
  wf_trace p t ->
  rejuvenate p q amap k t = Ok (nt, w, bwd) ->
  exists pt, simulate q (fold_in k 1) (amap (choices t)) = Ok pt /\
    forall a, get bwd a = if is_some (get (choices pt) a) then get (choices t) a else None.
Proof. exact rejuvenate_discard. Qed.
Print Assumptions C27_rejuvenate_backward_choices.

(* the hypotheses are satisfiable on a model with a dependent site and a state-dependent proposal,
   and the edit really moves a choice *)
Example C27_rejuvenate_nonvacuous :
  wf_trace (prog_of ex_p) ex_t /\
  exists nt w bwd, rejuvenate (prog_of ex_p) (prog_of ex_q) ex_amap ex_k1 ex_t = Ok (nt, w, bwd)
                   /\ chm_eqb (choices nt) (choices ex_t) = false /\ bwd <> [].
Proof. exact rejuvenate_nonvacuous. Qed.

(* Rejuvenate applied with argdiffs that CHANGE the model's arguments: the inner update runs under the new arguments —
   the new trace holds them, log p(x') is taken under the new arguments and log p(x) under the old trace's *)
Theorem C27_rejuvenate_weight_new_arguments : forall p q amap k t a nt w bwd,
  wf_trace p t ->
  rejuvenate_args p q amap k t a = Ok (nt, w, bwd) ->
  exists pt lpx lpx' lqf lqb,
    simulate q (fold_in k 1) (amap (choices t)) = Ok pt /\
    choices nt = override (choices t) (choices pt) /\
    bwd = discard (choices t) (choices pt) /\
    t_args nt = a /\
    assess p (choices t) (t_args t) = Ok lpx /\
    assess p (choices nt) a = Ok lpx' /\
    assess q (choices pt) (amap (choices t)) = Ok lqf /\
    assess q bwd (amap (choices nt)) = Ok lqb /\
    w == lpx' + lqb - lpx - lqf /\
    wf_trace p nt.
Proof. exact rejuvenate_args_weight. Qed.
Print Assumptions C27_rejuvenate_weight_new_arguments.
Theorem C27_unchanged_arguments_is_the_special_case : forall p q amap k t,
  rejuvenate_args p q amap k t (t_args t) = rejuvenate p q amap k t.
Proof. exact rejuvenate_args_same. Qed.
Print Assumptions C27_unchanged_arguments_is_the_special_case.
Example C27_new_arguments_nonvacuous :
  wf_trace (prog_of ex_pa) ex_ta /\
  exists nt w w0 bwd bwd0 nt0,
    rejuvenate_args (prog_of ex_pa) (prog_of ex_q) (amap_of ex_pa [V 1]) ex_k1 ex_ta [3#2] = Ok (nt, w, bwd) /\
    rejuvenate (prog_of ex_pa) (prog_of ex_q) (amap_of ex_pa [V 1]) ex_k1 ex_ta = Ok (nt0, w0, bwd0) /\
    t_args nt = [3#2] /\ ~ w == w0.
Proof. exact rejuvenate_args_nonvacuous. Qed.
Print Assumptions C27_new_arguments_nonvacuous.

(* traces made by simulate, and traces returned by Rejuvenate itself, are well-formed: the
   theorem applies along a whole chain of moves *)
Theorem C27_simulate_wf : forall p k args t, simulate p k args = Ok t -> wf_trace p t /\ t_args t = args.
Proof. exact simulate_wf. Qed.
Print Assumptions C27_simulate_wf.

(* the clause "backward arguments from the new trace" is not idle: computing them from the
   discarded values (finding F07, repaired by 155c8d3) changes the weight *)
Theorem C27_backward_args_from_discard_refuted :
  exists p q amap k t nt w w' bwd,
    wf_trace p t /\
    rejuvenate p q amap k t = Ok (nt, w, bwd) /\
    rejuvenate_bwd_args_from_discard p q amap k t = Ok (nt, w', bwd) /\
    ~ w == w'.
Proof. exact rejuvenate_bwd_args_matter. Qed.
Print Assumptions C27_backward_args_from_discard_refuted.
