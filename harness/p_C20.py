"""C20 — staging helpers (FlagOp, tree_choose, multi_switch).  Engine A-mask."""
import itertools
import numpy as np
from . import core
from .core import clist, cz, cbool, copt

DT = {"b": "DBool", "i": "DInt", "f": "DFloat"}


# ---- model-side literals ------------------------------------------------------
def c_flag(f):
    k = f[0]
    if k == "py": return f"(FS Py {cbool(f[1])})"
    if k == "ar": return f"(FS Ar {cbool(f[1])})"
    return f"(FV {clist([cbool(b) for b in f[1]])})"


def c_tv(v):
    d, data = v
    if isinstance(data, list):
        return f"(TVec {DT[d]} {clist([cz(x) for x in data])})"
    return f"(TS {DT[d]} {cz(data)})"


def c_index(i):
    k = i[0]
    if k == "py": return f"(IPy {cz(i[1])})"
    if k == "ar": return f"(IArr {cz(i[1])})"
    return f"(IVec {clist([cz(x) for x in i[1]])})"


# ---- implementation side ------------------------------------------------------
def to_flag(f):
    import jax.numpy as jnp
    k = f[0]
    if k == "py": return bool(f[1])
    if k == "ar": return jnp.array(bool(f[1]))
    return jnp.array([bool(b) for b in f[1]])


def from_flag(x):
    if isinstance(x, bool):
        return ("py", x)
    a = np.asarray(x)
    assert a.dtype == np.bool_, a.dtype
    if a.ndim == 0: return ("ar", bool(a))
    assert a.ndim == 1
    return ("v", [bool(b) for b in a])


def to_tv(v):
    import jax.numpy as jnp
    d, data = v
    dt = {"b": jnp.bool_, "i": jnp.int32, "f": jnp.float32}[d]
    return jnp.array(data, dtype=dt)


def from_tv(x):
    a = np.asarray(x)
    d = "b" if a.dtype == np.bool_ else ("i" if np.issubdtype(a.dtype, np.integer) else "f")
    assert a.ndim <= 1
    conv = (lambda t: int(bool(t))) if d == "b" else (lambda t: int(t))
    if d == "f":
        assert np.all(a == np.round(a)), a
    return (d, [conv(t) for t in a] if a.ndim == 1 else conv(a))


def to_index(i):
    import jax.numpy as jnp
    k = i[0]
    if k == "py": return int(i[1])
    if k == "ar": return jnp.array(int(i[1]))
    return jnp.array([int(x) for x in i[1]])


def run_impl(case, jit=False):
    import jax
    from genjax._src.core.compiler.staging import FlagOp, tree_choose, multi_switch
    k = case[0]
    try:
        if k == "bin":
            fn = [FlagOp.and_, FlagOp.or_, FlagOp.xor_][case[1]]
            f, g = to_flag(case[2]), to_flag(case[3])
            if jit:
                stat = tuple(i for i, x in enumerate((f, g)) if isinstance(x, bool))
                r = jax.jit(fn, static_argnums=stat)(f, g)
                if len(stat) == 2:
                    r = bool(r)      # two concrete flags give a Python bool; jit returns every output as an array
            else:
                r = fn(f, g)
            return from_flag(r)
        if k == "not":
            f = to_flag(case[1])
            r = (jax.jit(FlagOp.not_, static_argnums=(0,) if isinstance(f, bool) else ())(f)) if jit else FlagOp.not_(f)
            if jit and isinstance(f, bool):
                r = bool(r)          # (as above)
            return from_flag(r)
        if k == "where":
            f = to_flag(case[1])
            fn = FlagOp.where
            r = (jax.jit(fn, static_argnums=(0,) if isinstance(f, bool) else ())(f, to_tv(case[2]), to_tv(case[3]))) if jit else fn(f, to_tv(case[2]), to_tv(case[3]))
            return from_tv(r)
        if k == "cond":
            f = to_flag(case[1])
            t, e = to_tv(case[2]), to_tv(case[3])
            fn = lambda f: FlagOp.cond(f, lambda: t, lambda: e)
            r = (jax.jit(fn, static_argnums=(0,) if isinstance(f, bool) else ())(f)) if jit else fn(f)
            return from_tv(r)
        if k == "choose":
            i = to_index(case[1])
            vs = [to_tv(v) for v in case[2]]
            fn = lambda i: tree_choose(i, vs)
            r = (jax.jit(fn, static_argnums=(0,) if isinstance(i, int) else ())(i)) if jit else fn(i)
            return from_tv(r)
        if k == "switch":
            i = to_index(case[1])
            outs = [to_tv(v) for v in case[2]]
            fns = [(lambda o: (lambda: o))(o) for o in outs]
            fn = lambda i: multi_switch(i, fns, [() for _ in outs])
            r = (jax.jit(fn, static_argnums=(0,) if isinstance(i, int) else ())(i)) if jit else fn(i)
            return [from_tv(x) for x in r]
    except (TypeError, ValueError, IndexError) as e:
        return None
    raise ValueError(case)


# ---- direct oracle: Boolean logic / modular choice / clamp, numpy only -------------
def erase(f):
    return np.array(f[1]) if f[0] == "v" else np.array(bool(f[1]))


def oracle(case, out):
    """returns None if fine, else a description.  `out` None (an exception) is accepted
    only where numpy/lax semantics make the call ill-typed."""
    k = case[0]
    if k == "bin":
        a, b = erase(case[2]), erase(case[3])
        try:
            want = [np.logical_and, np.logical_or, np.logical_xor][case[1]](a, b)
        except ValueError:
            return None if out is None else "expected a broadcasting error"
        if out is None: return "raised"
        got = erase(out)
        return None if got.shape == want.shape and np.all(got == want) else f"got {got}, Boolean logic gives {want}"
    if k == "not":
        want = np.logical_not(erase(case[1]))
        if out is None: return "raised"
        got = erase(out)
        return None if got.shape == want.shape and np.all(got == want) else f"got {got}, want {want}"
    if k in ("where", "cond"):
        f, t, e = case[1], case[2], case[3]
        if out is None:
            return None  # ill-typed combinations are allowed to raise; the model pins which ones
        fb = erase(f)
        tv_, ev_ = np.array(t[1]), np.array(e[1])
        if fb.ndim == 0:
            want = tv_ if fb else ev_
        else:
            want = np.where(fb, tv_, ev_)
        got = np.array(out[1])
        return None if got.shape == np.shape(want) and np.all(got == want) else f"got {got}, selection gives {want}"
    if k == "choose":
        i, vs = case[1], case[2]
        n = len(vs)
        if out is None:
            return None
        order = "bif"
        d = max((v[0] for v in vs), key=order.index)
        if i[0] in ("py", "ar"):
            want = vs[i[1] % n][1]
        else:
            want = [(vs[z % n][1][j] if isinstance(vs[z % n][1], list) else vs[z % n][1]) for j, z in enumerate(i[1])]
        return None if (out[0] == d and out[1] == want) else f"got {out}, element at idx mod {n} with dtype join is {(d, want)}"
    if k == "switch":
        i, outs = case[1], case[2]
        if i[0] == "v":
            return None if out is None else "vector index accepted"
        if out is None: return "raised"
        n = len(outs)
        c = min(max(i[1], 0), n - 1)
        want = [o if j == c else (o[0], [0] * len(o[1]) if isinstance(o[1], list) else 0) for j, o in enumerate(outs)]
        return None if out == want else f"got {out}, clamped branch {c} with zero placeholders is {want}"


def c_case(case, out):
    k = case[0]
    if k == "bin":
        return f"CBin {case[1]}%nat {c_flag(case[2])} {c_flag(case[3])} {copt(None if out is None else c_flag(out))}"
    if k == "not":
        return f"CNot {c_flag(case[1])} {c_flag(out)}"
    if k == "where":
        return f"CWhere {c_flag(case[1])} {c_tv(case[2])} {c_tv(case[3])} {copt(None if out is None else c_tv(out))}"
    if k == "cond":
        return f"CCond {c_flag(case[1])} {c_tv(case[2])} {c_tv(case[3])} {copt(None if out is None else c_tv(out))}"
    if k == "choose":
        return f"CChoose {c_index(case[1])} {clist([c_tv(v) for v in case[2]])} {copt(None if out is None else c_tv(out))}"
    if k == "switch":
        return f"CSwitch {c_index(case[1])} {clist([c_tv(v) for v in case[2]])} {copt(None if out is None else clist([c_tv(v) for v in out]))}"


FLAGS = [("py", True), ("py", False), ("ar", True), ("ar", False), ("v", [True]), ("v", [False]),
         ("v", [True, False]), ("v", [False, True]), ("v", [True, True, False]), ("v", [False, True, False])]
TVS = [("i", 3), ("i", -2), ("f", 5), ("b", 1), ("i", [1, 2]), ("f", [7, 8]), ("i", [4, 5, 6]), ("f", [1, 2, 3]), ("b", [1, 0])]


def gen_cases(ctx):
    rng = ctx.rng
    cases = []
    for op in range(3):
        for f, g in itertools.product(FLAGS, FLAGS):
            cases.append(("bin", op, f, g))
    for f in FLAGS:
        cases.append(("not", f))
    for f in FLAGS:
        for t, e in itertools.product(TVS, TVS):
            cases.append(("where", f, t, e))
            if f[0] != "v" or rng.random() < 0.2:
                cases.append(("cond", f, t, e))
    scal = [("i", 1), ("i", 2), ("f", 3), ("b", 1), ("b", 0), ("f", -4), ("i", 7)]
    for n in (1, 2, 3, 4):
        combos = list(itertools.product(scal, repeat=n))
        rng.shuffle(combos)
        for vs in combos[: ctx.n(6, 40)]:
            for z in range(-n - 1, 2 * n + 2):
                for st in ("py", "ar"):
                    cases.append(("choose", (st, z), list(vs)))
                    cases.append(("switch", (st, z), list(vs)))
    vecs = [("i", [1, 2, 3]), ("f", [10, 20, 30]), ("b", [1, 0, 1]), ("i", [-1, -2, -3])]
    for n in (2, 3):
        for vs in itertools.product(vecs, repeat=n):
            for _ in range(ctx.n(1, 4)):
                idx = [rng.randint(-n - 1, 2 * n + 1) for _ in range(3)]
                cases.append(("choose", ("v", idx), list(vs)))
            z = rng.randint(-n - 1, 2 * n + 1)
            cases.append(("choose", ("ar", z), list(vs)))
            cases.append(("switch", ("ar", z), list(vs)))
    cases.append(("switch", ("v", [0, 1]), [("i", 1), ("i", 2)]))
    # heterogeneous shapes in a switch
    for z in range(-2, 5):
        cases.append(("switch", ("ar", z), [("i", 1), ("f", [2, 4]), ("b", [1, 1, 0])]))
        cases.append(("switch", ("py", z), [("i", 1), ("f", [2, 4]), ("b", [1, 1, 0])]))
    return cases


def run(ctx):
    ctx.proofs()
    cases = gen_cases(ctx)
    modes = [False] if ctx.quick else [False, True]
    terms, kept, nbad = [], [], 0
    for jit in modes:
        for c in cases:
            out = run_impl(c, jit=jit)
            why = oracle(c, out)
            if why is not None:
                nbad += 1
                if nbad <= 3:
                    ctx.fail("oracle", f"{c} ({'jit' if jit else 'eager'}): {why}", case={"case": c, "jit": jit})
            terms.append(c_case(c, out))
            kept.append((c, out, jit))
    mism, errs = core.coq_mismatches("C20", "From Coq Require Import List Bool ZArith.\nFrom Model Require Import Flag.", terms, "fcase", fn="fmismatches", shard=1500)
    for e in errs[:2]:
        ctx.fail("correspondence", "A-mask/flag case file did not evaluate: " + e)
    for i in mism[:3]:
        c, out, jit = kept[i]
        ctx.fail("correspondence", f"model coq/model/Flag.v and implementation disagree on {c} ({'jit' if jit else 'eager'}): implementation gives {out}", case={"case": c, "jit": jit})
    ctx.cov["evaluations"] = len(kept)
    ctx.cov["traces_validated_against_impl"] = len(kept) - len(mism)
    ctx.cov["distinct_nontrivial"] = len({repr(c) for c, o, j in kept if o is not None})
    ctx.cov["errors_compared"] = sum(1 for c, o, j in kept if o is None)
    ctx.cov["by_kind"] = {k: sum(1 for c, o, j in kept if c[0] == k) for k in ("bin", "not", "where", "cond", "choose", "switch")}
    ctx.cov["rule"] = ("all pairs of 10 flags (Python/0-d array/1-d arrays) x and/or/xor, not; where/cond over flags x 9x9 typed operands; "
                      "tree_choose and multi_switch for n<=4 candidates x every index in [-n-1, 2n+1] as Python int and array, vector indices; "
                      "thorough also under jax.jit; non-trivial = implementation returned a value (ill-typed calls are compared as errors)")
    ctx.cov["exhaustive"] = True
    ctx.add_samples([{"case": c, "impl": o, "jit": j} for c, o, j in kept[:1] + kept[400:401] + kept[-3:-2]])


def replay(case):
    c = detuple(case["case"])
    out = run_impl(c, jit=case.get("jit", False))
    why = oracle(c, out)
    print(f"{c}: implementation {out}: {why or 'ok'}")
    return why is None


def detuple(x):
    if isinstance(x, list):
        if x and isinstance(x[0], str) and x[0] in ("bin", "not", "where", "cond", "choose", "switch", "py", "ar", "v", "i", "f", "b"):
            if x[0] in ("choose", "switch"):
                return (x[0], detuple(x[1]), [detuple(v) for v in x[2]])
            if x[0] in ("v",) or (x[0] in ("i", "f", "b") and isinstance(x[1], list)):
                return (x[0], list(x[1]))
            return tuple(detuple(y) for y in x)
        return [detuple(y) for y in x]
    return x
