(* C31 — the time-travel debugger records and replays executions faithfully.
   Model: coq/model/TimeTravel.v (the peel-one-record-point CPS interpreter, the
   `_record` loop, time_machine, TimeTravelingDebugger.jump/fwd/bwd/remix, written to
   mirror time_travel.py).  Specification (coq/proofs/TimeTravelProofs.v, no
   continuations, stacks or fuel in it): eval_prog = calling f; ref_calls = the
   recorded calls in execution order (a jit-ted sub-function is one opaque step);
   all_calls = every recorded call, inside sub-jaxprs too; flat = no record point inside a
   sub-jaxpr; last_index; spec_step (min / pred / last occurrence); eval_ov / calls_ov =
   re-running with call number i given new arguments.
   All statements are for every program (any nesting depth, any number of record
   points, any tags), every argument list, every script. *)
From Coq Require Import List Bool ZArith.
Import ListNotations.
From Model Require Import TimeTravel.
From Proofs Require Import TimeTravelProofs.
Close Scope Z_scope.

(* final_retval == f(args); the recording always terminates (the fuel of the model's loop suffices) *)
Theorem C31_tt_final : forall p a,
  exists d, time_machine p a = Some d /\ final d = eval_prog p a.
Proof. exact tt_final. Qed.
Print Assumptions C31_tt_final.

(* one frame per recorded call, in execution order, with that call's callee, arguments and
   local return value: "_enter" (f itself), f's recorded calls (a call before the calls nested in
   it), "exit"; the pointer starts at 0; jump_points maps exactly the non-empty tags, each to
   the LAST frame carrying it *)
Theorem C31_tt_frames_preorder : forall p a,
  exists d, time_machine p a = Some d /\
    let cs := ref_calls (instrument p (length a)) a in
    frames_of d = map call3 cs /\
    ptr d = 0 /\
    (forall t, dict_get (jp d) t = if truthy t then last_index t (map ctag cs) else None) /\
    cs = mkcall (TName 0) p a (eval_prog p a) :: ref_calls p a ++
         [mkcall (TName 1) ident [eval_prog p a] (eval_prog p a)].
Proof. exact tt_frames_preorder. Qed.
Print Assumptions C31_tt_frames_preorder.

(* ... and these are ALL the recorded calls f executes, provided no record point sits inside a
   sub-jaxpr (a jit-ted helper, a cond branch, a scan body: `Call` in the model), i.e. flat p *)
Theorem C31_tt_frames_all_recorded : forall p a, flat p = true ->
  exists d, time_machine p a = Some d /\
    frames_of d = map call3 (all_calls (instrument p (length a)) a) /\
    all_calls (instrument p (length a)) a =
      mkcall (TName 0) p a (eval_prog p a) :: all_calls p a ++ [mkcall (TName 1) ident [eval_prog p a] (eval_prog p a)].
Proof. exact tt_frames_all. Qed.
Print Assumptions C31_tt_frames_all_recorded.
(* outside that region the statement fails: a record point under jax.jit is executed (final_retval is
   right) but gets no frame and no jump point (witness/w15_tt_record_under_subjaxpr.py on /repo) *)
Theorem C31_tt_frames_refuted :
  exists p a d, time_machine p a = Some d /\ final d = eval_prog p a /\
    length (frames_of d) < length (all_calls (instrument p (length a)) a) /\
    dict_get (jp d) (TName 2) = None /\
    In (TName 2) (map ctag (all_calls (instrument p (length a)) a)).
Proof. exact tt_frames_refuted. Qed.
Print Assumptions C31_tt_frames_refuted.

(* last_index is the last occurrence *)
Theorem C31_last_index_is_last : forall t tags k,
  last_index t tags = Some k <->
  (nth_error tags k = Some t /\ forall m, k < m -> nth_error tags m <> Some t).
Proof. exact last_index_char. Qed.
Print Assumptions C31_last_index_is_last.

(* after ANY sequence of jump / fwd / bwd (a raising jump leaves the debugger as it was) the
   pointer is inside the recorded frames and is where the specification says: jump -> last
   frame with that tag (unknown, empty or None tag: unchanged), fwd -> min (ptr+1) (n-1),
   bwd -> pred ptr; frames, final_retval and jump_points are untouched *)
Theorem C31_tt_nav_bounds : forall p a script,
  exists d, time_machine p a = Some d /\
    let d' := fold_left nav_step script d in
    let tags := map ctag (ref_calls (instrument p (length a)) a) in
    ptr d' < length (dseq d') /\
    length (dseq d') = length tags /\
    ptr d' = fold_left (spec_step tags) script 0 /\
    dseq d' = dseq d /\ final d' = final d /\ jp d' = jp d.
Proof. exact tt_nav_bounds. Qed.
Print Assumptions C31_tt_nav_bounds.

(* remix at the frame under the pointer (reached by any navigation) with as many arguments as
   the call had: final_retval = re-running the instrumented f with the arguments of call
   number ptr replaced by the new ones (so that call's result is recomputed from them); the
   frames before ptr are kept, the frame at ptr and the later ones are the calls of the re-run;
   pointer, jump_points and the number of frames are unchanged.  Any other number of
   arguments raises TypeError. *)
Theorem C31_tt_remix : forall p a script a',
  exists d, time_machine p a = Some d /\
    let d1 := fold_left nav_step script d in
    let P := instrument p (length a) in
    let i := ptr d1 in
    exists c, nth_error (ref_calls P a) i = Some c /\
    (length a' = length (cargs c) ->
       exists d2, remix d1 a' = Ok d2 /\
         final d2 = eval_ov i a' P a 0 /\
         frames_of d2 = firstn i (map call3 (ref_calls P a)) ++ skipn i (map call3 (calls_ov i a' P a 0)) /\
         ptr d2 = i /\ jp d2 = jp d /\ length (dseq d2) = length (dseq d)) /\
    (length a' <> length (cargs c) -> remix d1 a' = Err EType).
Proof. exact tt_remix. Qed.
Print Assumptions C31_tt_remix.

(* summary() after any navigation reports final_retval = f(args), the frame under the pointer
   (one of the recorded frames) and that frame's tag when it is the last frame carrying this
   non-empty tag (shown_tag), None otherwise *)
Theorem C31_tt_summary : forall p a script,
  exists d, time_machine p a = Some d /\
    let d' := fold_left nav_step script d in
    let tags := map ctag (ref_calls (instrument p (length a)) a) in
    exists fr, nth_error (dseq d) (ptr d') = Some fr /\
      summary d' = Ok (eval_prog p a, (shown_tag tags (ptr d'), fr)).
Proof. exact tt_summary. Qed.
Print Assumptions C31_tt_summary.

(* stronger bound: after ANY sequence of jump / fwd / bwd / remix (a raising command leaves the
   debugger as it was) the pointer is inside the frames; the number of frames (2 + the number
   of record points f executes) and jump_points never change *)
Theorem C31_tt_bounds_any_script : forall p a script,
  exists d, time_machine p a = Some d /\
    let d' := fold_left step_keep script d in
    ptr d' < length (dseq d') /\ length (dseq d') = length (dseq d) /\ jp d' = jp d /\
    length (dseq d) = 2 + count p.
Proof. exact tt_bounds_any_script. Qed.
Print Assumptions C31_tt_bounds_any_script.

(* the re-run with an override outside the program's calls is the plain run (the override
   semantics is a conservative extension of eval_prog) *)
Theorem C31_override_out_of_range : forall i a' p env c,
  (i < c \/ c + count p <= i) -> eval_ov i a' p env c = eval_prog p env.
Proof. exact ov_out. Qed.
Print Assumptions C31_override_out_of_range.

(* non-vacuity: the hypotheses of C31_tt_remix / C31_override_out_of_range are met by a concrete
   run with nested record points and a duplicated tag (the numbers are what /repo prints for
   f(2,3) with h z = z+10; g x y = (let w = rec h "h" x in tag (w*y) "mid" + 1);
   f a b = (let u = rec g "g" a b in let v = rec g "g" u a in u - v)) *)
Definition ex_h : prog := Ret (EAdd (EVar 0) (EConst 10%Z)).
Definition ex_g : prog := Rec (TName 3) ex_h [EVar 0] (Tag (TName 4) (EMul (EVar 2) (EVar 1)) (Ret (EAdd (EVar 3) (EConst 1%Z)))).
Definition ex_f : prog := Rec (TName 2) ex_g [EVar 0; EVar 1] (Rec (TName 2) ex_g [EVar 2; EVar 0] (Ret (ESub (EVar 2) (EVar 3)))).
Definition ex_view (d : debugger) := (final d, ptr d, map (fun fr => (fargs fr, fret fr)) (dseq d)).
Example C31_nonvacuous :
  match time_machine ex_f [2; 3]%Z with
  | None => None
  | Some d =>
      let d1 := fold_left nav_step [NJump (TName 3); NFwd; NFwd; NFwd; NBwd; NBwd; NJump (TName 9)] d in
      Some (ex_view d, dict_get (jp d) (TName 2), ptr d1,
            option_map (fun c => length (cargs c)) (nth_error (ref_calls (instrument ex_f 2) [2; 3]%Z) (ptr d1)),
            match remix d1 [5%Z] with Ok d2 => Some (ex_view d2) | Err _ => None end,
            eval_ov 5 [5%Z] (instrument ex_f 2) [2; 3]%Z 0,
            match remix d1 [1; 2]%Z with Err EType => true | _ => false end)
  end =
  Some ((-58, 0%nat, [([2; 3], -58); ([2; 3], 37); ([2], 12); ([36], 36); ([37; 2], 95); ([37], 47); ([94], 94); ([-58], -58)])%Z,
        Some 4, 5, Some 1,
        Some (6, 5%nat, [([2; 3], -58); ([2; 3], 37); ([2], 12); ([36], 36); ([37; 2], 95); ([5], 15); ([30], 30); ([6], 6)])%Z,
        6%Z, true).
Proof. vm_compute. reflexivity. Qed.
Example C31_flat_nonvacuous : flat ex_f = true /\ flat (Call ex_h [EVar 0] ex_f) = true /\ flat ex_hidden = false.
Proof. repeat split. Qed.
Example C31_override_nonvacuous : (5 < 6 \/ 6 + count ex_f <= 5) /\ eval_ov 5 [1%Z] ex_f [2; 3]%Z 6 = (-58)%Z.
Proof. split; [left; repeat constructor | vm_compute; reflexivity]. Qed.
