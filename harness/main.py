"""./check <ID> [--tier quick|thorough] [--replay file]"""
import argparse
import importlib
import json
import os
import sys

sys.path.insert(0, os.environ.get("VERIF_REPO", "/repo") + "/src")
os.environ.setdefault("JAX_PLATFORMS", "cpu")
os.environ.setdefault("TF_CPP_MIN_LOG_LEVEL", "3")
import warnings
warnings.filterwarnings("ignore")

from . import core


def main():
    ap = argparse.ArgumentParser()
    ap.add_argument("pid")
    ap.add_argument("--tier", default=os.environ.get("VERIF_TIER", "quick"), choices=["quick", "thorough"])
    ap.add_argument("--replay")
    a = ap.parse_args()
    seed = int(os.environ.get("VERIF_SEED", "0"))
    mod = importlib.import_module(f"harness.p_{a.pid}")
    if a.replay:
        rec = json.load(open(a.replay))
        if rec.get("case") is None:
            print("no failing input was found; obligations that no longer check:")
            for w in rec.get("no_longer_checks", []):
                print("  " + w)
            sys.exit(1)
        ok = mod.replay(rec["case"])
        sys.exit(0 if ok else 1)
    ctx = core.Ctx(a.pid, a.tier, seed)
    try:
        mod.run(ctx)
    except Exception as e:
        import traceback
        traceback.print_exc()
        ctx.fail("tie", f"check crashed: {type(e).__name__}: {e}")
    sys.exit(ctx.finish())


if __name__ == "__main__":
    main()
