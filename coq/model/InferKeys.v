(* Which PRNG key every primitive draw of Importance / ImportanceK / ChangeTarget receives
   (smc.py, sp.py, static.py), over the free key algebra of Key.v: a key is the list of
   fold_in data from the run's root key (on this tree split(k, n)[i] = fold_in(k, i)).
   Used (a) with threefry (Key.eval_fkey) to predict, bit for bit, the value of every
   key-echo site of the implementation's particles, (b) for the distinctness theorems.
   No proofs here (coq/proofs/InferKeysProofs.v). *)
From Coq Require Import List NArith Bool.
From Model Require Import Key.
Import ListNotations.
Open Scope N_scope.

(* a generative function, as far as keys are concerned: a distribution, or a static function
   with a list of traced sites (each again a generative function) *)
Inductive kgf := KDist | KStatic (sites : list kgf).

(* static.py *Handler.fresh_key_and_increment: traced site number c = 1, 2, ... receives
   fold_in(key, c); the counter advances at every site, constrained or not.
   A distribution draws with the key it is handed.  Relative paths of the primitive draws: *)
Fixpoint leaf_paths (g : kgf) : list fkey :=
  match g with
  | KDist => [[]]
  | KStatic sites =>
      (fix go (l : list kgf) (c : N) : list fkey :=
         match l with
         | [] => []
         | s :: r => map (cons c) (leaf_paths s) ++ go r (c + 1)
         end) sites 1
  end.
Definition leaf_keys (g : kgf) (k : fkey) : list fkey := map (app k) (leaf_paths g).

(* where the value at a leaf comes from: an observation (None) or a draw made with a key *)
Definition prov := option fkey.
(* constraint on the leaves (in traced order): None = unconstrained, Some p = constrained to a
   value of provenance p *)
Definition kcon := list (option prov).

(* generate: a constrained leaf keeps the constraint's value, an unconstrained one is drawn
   with its leaf key *)
Fixpoint gen_prov (lks : list fkey) (con : kcon) : list prov :=
  match lks with
  | [] => []
  | lk :: r => (match hd None con with Some p => p | None => Some lk end) :: gen_prov r (tl con)
  end.
Fixpoint gen_draws (lks : list fkey) (con : kcon) : list fkey :=
  match lks with
  | [] => []
  | lk :: r => (match hd None con with Some _ => [] | None => [lk] end) ++ gen_draws r (tl con)
  end.

Record ktarget := mkKT { kg : kgf; kobs : list bool }.        (* per leaf: observed? *)
(* a proposal Marginal(qf) over a flat static function qf: site j (counter j+1) has the
   address of the target's leaf number (nth j q) *)
Definition kprop := list nat.

Fixpoint find_idx (i : nat) (q : list nat) (j : nat) : option nat :=
  match q with
  | [] => None
  | x :: r => if Nat.eqb x i then Some j else find_idx i r (S j)
  end.
(* Marginal.random_weighted(key): key, sub_key = split(key); gen_fn.simulate(sub_key) -> site j
   of qf draws with key.1.(j+1) *)
Definition q_site_key (qk : fkey) (j : nat) : fkey := qk ++ [1; N.of_nat (S j)].
Definition q_draws (qk : fkey) (q : option kprop) : list fkey :=
  match q with None => [] | Some l => map (q_site_key qk) (seq 0 (length l)) end.
(* target.importance(key, choice): constraint.merge(choice), the target's constraint first *)
Definition imp_con (t : ktarget) (qk : fkey) (q : option kprop) (n : nat) : kcon :=
  map (fun i => if nth i (kobs t) false then Some None
                else match q with
                     | None => None
                     | Some l => match find_idx i l 0 with Some j => Some (Some (q_site_key qk j)) | None => None end
                     end) (seq 0 n).
Definition nleaves (g : kgf) : nat := length (leaf_paths g).

(* one particle: the key handed to q.random_weighted, the key handed to target.importance *)
Definition imp_one (t : ktarget) (q : option kprop) (qk mk : fkey) : list prov * list fkey :=
  let con := imp_con t qk q (nleaves (kg t)) in
  let lks := leaf_keys (kg t) mk in
  (gen_prov lks con, q_draws qk q ++ gen_draws lks con).

Inductive kalg :=
| KImp (t : ktarget) (q : option kprop)
| KImpK (t : ktarget) (q : option kprop) (K : nat)
(* amap: for each leaf of the new target, the leaf of the previous target with the same address *)
| KChange (prev : kalg) (t : ktarget) (amap : list (option nat)).
Definition kfinal (a : kalg) : ktarget :=
  match a with KImp t _ => t | KImpK t _ _ => t | KChange _ t _ => t end.

(* ChangeTarget._reweight: latents = the previous target's unconstrained choices of the particle;
   target.importance(key, latents) *)
Definition change_con (pt t : ktarget) (amap : list (option nat)) (p : list prov) (n : nat) : kcon :=
  map (fun j => if nth j (kobs t) false then Some None
                else match nth j amap None with
                     | Some o => if nth o (kobs pt) false then None else Some (nth o p None)
                     | None => None
                     end) (seq 0 n).

(* run_smc: the provenance of every leaf of every particle, and all the keys drawn with *)
Fixpoint krun (a : kalg) (k : fkey) : list (list prov) * list fkey :=
  match a with
  | KImp t q =>
      (* key, sub_key = split(key): q gets key.1, target.importance gets key.0 *)
      let r := imp_one t q (k ++ [1]) (k ++ [0]) in ([fst r], snd r)
  | KImpK t q K =>
      (* key, sub_key = split(key); sub_keys = split(sub_key, K)
         with q: q gets key.1.i, target.importance gets split(key.0, K)[i]
         without: target.importance gets key.1.i *)
      let rs := map (fun i => match q with
                              | Some _ => imp_one t q (k ++ [1; N.of_nat i]) (k ++ [0; N.of_nat i])
                              | None => imp_one t q (k ++ [1; N.of_nat i]) (k ++ [1; N.of_nat i])
                              end) (seq 0 K) in
      (map fst rs, flat_map snd rs)
  | KChange prev t amap =>
      (* collection = prev.run_smc(key); sub_keys = split(key, K); particle i is reweighted with key.i *)
      let r := krun prev k in
      let n := nleaves (kg t) in
      let news := map (fun ip => let con := change_con (kfinal prev) t amap (snd ip) n in
                                 let lks := leaf_keys (kg t) (k ++ [N.of_nat (fst ip)]) in
                                 (gen_prov lks con, gen_draws lks con))
                      (combine (seq 0 (length (fst r))) (fst r)) in
      (map fst news, snd r ++ flat_map snd news)
  end.

(* ---- correspondence: the implementation's particles, built with key-echo sites whose value is
   (key_data mod 2^20); observations are constrained to (0, 0) ---- *)
Definition echo (root : key) (p : prov) : N * N :=
  match p with
  | None => (0, 0)
  | Some path => let '(a, b) := eval_fkey root path in (a mod 1048576, b mod 1048576)
  end.
Inductive kcase := KCase (seed : N) (a : kalg) (obs : list (list (N * N))).
Definition NN_eqb (a b : N * N) : bool := N.eqb (fst a) (fst b) && N.eqb (snd a) (snd b).
Fixpoint list_eqb {A} (e : A -> A -> bool) (a b : list A) : bool :=
  match a, b with [], [] => true | x :: a', y :: b' => e x y && list_eqb e a' b' | _, _ => false end.
Definition kcase_ok (c : kcase) : bool :=
  match c with
  | KCase seed a obs =>
      list_eqb (list_eqb NN_eqb) (map (map (echo (key_of_seed seed))) (fst (krun a []))) obs
  end.
Fixpoint kmismatches_from (n : nat) (cs : list kcase) : list nat :=
  match cs with
  | [] => []
  | c :: r => if kcase_ok c then kmismatches_from (S n) r else n :: kmismatches_from (S n) r
  end.
Definition kmismatches := kmismatches_from 0.

(* do two draws share a key? *)
Fixpoint fkey_eqb (a b : fkey) : bool :=
  match a, b with [], [] => true | x :: a', y :: b' => N.eqb x y && fkey_eqb a' b' | _, _ => false end.
Fixpoint has_dup (l : list fkey) : bool :=
  match l with [] => false | x :: r => existsb (fkey_eqb x) r || has_dup r end.
