(* Correspondence driver for the GFI model: a case is a program and a history of
   operations, each with the implementation's canonical observation. *)
From Coq Require Import List Bool ZArith NArith.
Import ListNotations.
From Gen Require Import SelGen.
From Model Require Import Key Sel GFI GFIEdit Derived.
Open Scope Z_scope.

(* observation of a trace: score, return value, and lookups of its choices *)
Record tobs := { o_score : Z; o_ret : val; o_look : list (list ckey * option Z) }.

Definition look (c : chm) (p : list ckey) : option Z :=
  match cget c p with Some (VZ z) => Some z | Some (VM true (VZ z)) => Some z | _ => None end.
Definition optZ_eqb (a b : option Z) : bool :=
  match a, b with Some x, Some y => Z.eqb x y | None, None => true | _, _ => false end.
Definition tobs_ok (t : trace) (o : tobs) : bool :=
  Z.eqb (t_score t) (o_score o) && val_eqb (t_retval t) (o_ret o)
  && forallb (fun pw => optZ_eqb (look (t_choices t) (fst pw)) (snd pw)) (o_look o).

(* build a constraint / sample choice map from entries (path, value) *)
Definition cbuild (es : list (list ckey * val)) : chm := es.

(* requests as the harness writes them (selections as terms) *)
Inductive rterm :=
| QUpdate (c : list (list ckey * val))
| QRegen (s : sterm)
| QIndex (i : Z) (r : rterm)
| QStatic (m : list (addr * rterm))
| QEmpty.
Fixpoint rbuild (q : rterm) : request :=
  match q with
  | QUpdate c => RUpdate c
  | QRegen s => RRegen (build s)
  | QIndex i r => RIndex i (rbuild r)
  | QStatic m => RStatic (map (fun p => (fst p, rbuild (snd p))) m)
  | QEmpty => REmpty
  end.

(* observation of a backward request: is it a set of constraints, and which values it restores *)
Record bobs := { b_flat : bool; b_look : list (list ckey * option Z) }.
Definition bobs_ok (r : request) (o : bobs) : bool :=
  if has_junk r then true else
  match req_flat r with
  | Some c => b_flat o && forallb (fun pw => optZ_eqb (look c (fst pw)) (snd pw)) (b_look o)
  | None => negb (b_flat o)
  end.

(* an edit that succeeded in the model: what is needed to apply its backward request *)
Record edone := { e_trace : trace; e_bwd : request; e_oldargs : list val; e_tags : list tagt }.

Inductive want (A : Type) := WOk (a : A) | WErr (e : err).
Arguments WOk {A}. Arguments WErr {A}.

(* get_subtrace addresses: static addresses, and (for the stacked subtraces of vmap / scan) the element observed *)
Inductive hop := HAddr (a : addr) | HIdx (j : nat).
Fixpoint elem_at (t : trace) (j : nat) {struct t} : res trace :=
  match t with
  | TVmap inner _ | TScan inner _ _ _ => match nth_error inner j with Some x => Ok x | None => Err EOther end
  | TSwitch _ _ sub _ _ => elem_at sub j
  | TMask inner _ _ => elem_at inner j
  | TDimap inner _ _ => elem_at inner j
  | TDist _ _ _ _ | TStatic _ _ _ => Err ENotSupported
  end.
Fixpoint hops_at (t : trace) (hs : list hop) {struct hs} : res trace :=
  match hs with
  | [] => Ok t
  | HAddr a :: r => do x <- get_inner_trace t a; hops_at x r
  | HIdx j :: r => do x <- elem_at t j; hops_at x r
  end.

Inductive step :=
| StSim (seed : N) (args : list val) (w : want tobs)
| StGen (seed : N) (c : list (list ckey * val)) (args : list val) (w : want (tobs * Z))
| StAssess (c : list (list ckey * val)) (args : list val) (w : want (Z * val))
| StAssessOwn (ti : nat) (w : want (Z * val))         (* assess(tr.get_choices(), tr.get_args()) *)
| StProject (ti : nat) (s : sterm) (w : want Z)
| StEdit (ti : nat) (seed : N) (q : rterm) (args : list val) (tags : list tagt) (w : want (tobs * Z * bobs))
| StBwd (ei : nat) (seed : N) (w : want (tobs * Z))     (* apply the backward request of edit ei to its new trace, old arguments *)
| StPropose (seed : N) (args : list val) (w : want tobs)              (* propose = simulate's choices, score, return value *)
| StSub (ti : nat) (hs : list hop) (w : want (Z * list (list ckey * option Z))).   (* get_subtrace: score and choices of the sub-execution *)

Definition res_ok {A B} (r : res A) (w : want B) (ok : A -> B -> bool) : bool :=
  match r, w with
  | Ok a, WOk b => ok a b
  | Err e, WErr e' => err_eqb e e'
  | _, _ => false
  end.

Definition st := (list trace * list (option edone))%type.

Definition run_step (g : gf) (sx : st) (s : step) : bool * st :=
  let '(traces, edits) := sx in
  match s with
  | StSim seed args w =>
      let r := simulate g (key_of_seed seed) args in
      (res_ok r w tobs_ok, (match r with Ok t => traces ++ [t] | _ => traces end, edits))
  | StGen seed c args w =>
      let r := generate g (key_of_seed seed) (cbuild c) args in
      (res_ok r w (fun x o => tobs_ok (fst x) (fst o) && Z.eqb (snd x) (snd o)),
       (match r with Ok x => traces ++ [fst x] | _ => traces end, edits))
  | StAssessOwn ti w =>
      match nth_error traces ti with
      | Some t => (res_ok (assess g (t_choices t) (t_args t)) w (fun x o => Z.eqb (fst x) (fst o) && val_eqb (snd x) (snd o)), sx)
      | None => (false, sx)
      end
  | StAssess c args w =>
      (res_ok (assess g (cbuild c) args) w (fun x o => Z.eqb (fst x) (fst o) && val_eqb (snd x) (snd o)), sx)
  | StProject ti s w =>
      match nth_error traces ti with
      | Some t => (res_ok (project t (build s)) w Z.eqb, sx)
      | None => (false, sx)
      end
  | StEdit ti seed q args tags w =>
      match nth_error traces ti with
      | Some t =>
          let r := req_edit g (key_of_seed seed) t (rbuild q) args tags in
          (res_ok r w (fun x o => let '(t', wt, b) := x in let '(ot, ow, ob) := o in
                                  tobs_ok t' ot && Z.eqb wt ow && bobs_ok b ob),
           match r with
           | Ok (t', _, b) => (traces ++ [t'], edits ++ [Some {| e_trace := t'; e_bwd := b; e_oldargs := t_args t; e_tags := tags |}])
           | Err _ => (traces, edits ++ [None])
           end)
      | None => (false, sx)
      end
  | StPropose seed args w =>
      (res_ok (simulate g (key_of_seed seed) args) w tobs_ok, sx)
  | StSub ti hs w =>
      match nth_error traces ti with
      | Some t => (res_ok (hops_at t hs) w
                          (fun x o => Z.eqb (t_score x) (fst o) &&
                                      forallb (fun pw => optZ_eqb (look (t_choices x) (fst pw)) (snd pw)) (snd o)), sx)
      | None => (false, sx)
      end
  | StBwd ei seed w =>
      match nth_error edits ei with
      | Some (Some e) =>
          if has_junk (e_bwd e) then (true, sx)
          else (res_ok (req_edit g (key_of_seed seed) (e_trace e) (e_bwd e) (e_oldargs e) (e_tags e)) w
                       (fun x o => tobs_ok (fst (fst x)) (fst o) && Z.eqb (snd (fst x)) (snd o)), sx)
      | _ => (false, sx)
      end
  end.

(* index of the first step on which model and implementation differ *)
Fixpoint first_bad (g : gf) (sx : st) (ss : list step) (i : nat) : option nat :=
  match ss with
  | [] => None
  | s :: r => let '(ok, sx') := run_step g sx s in
              if ok then first_bad g sx' r (S i) else Some i
  end.

Definition gcase := (dgf * list step)%type.     (* programs in derived syntax: desugared here, by the model *)
(* flat list: case index, step index, case index, step index, ... *)
Fixpoint gmismatches_from (n : nat) (cs : list gcase) : list nat :=
  match cs with
  | [] => []
  | (p, ss) :: r => match first_bad (desugar p) ([], []) ss 0 with
                    | None => gmismatches_from (S n) r
                    | Some i => n :: i :: gmismatches_from (S n) r
                    end
  end.
Definition gmismatches := gmismatches_from 0.

(* ---- mix (C13): the component sub-execution of genjax.mix is the model's switch run with the key of the second
   site of the static function mixture.py builds (g_mix in Derived.v), on the index the first site drew ---- *)
Record mixcase := { mx_prog : dgf; mx_seed : N; mx_args : list val; mx_sim : tobs;
                    mx_gen : list (N * list val * list (list ckey * val) * (tobs * Z)) }.
Definition mix_ok (c : mixcase) : bool :=
  let g := desugar (mx_prog c) in
  (match simulate g (fold_in (key_of_seed (mx_seed c)) 2) (mx_args c) with Ok t => tobs_ok t (mx_sim c) | Err _ => false end) &&
  forallb (fun x : N * list val * list (list ckey * val) * (tobs * Z) =>
             let '(sd, a, es, ow) := x in
             match generate g (fold_in (key_of_seed sd) 2) (cbuild es) a with
             | Ok (t, wt) => tobs_ok t (fst ow) && Z.eqb wt (snd ow)
             | Err _ => false
             end) (mx_gen c).
Fixpoint mix_mismatches_from (n : nat) (cs : list mixcase) : list nat :=
  match cs with
  | [] => []
  | c :: r => if mix_ok c then mix_mismatches_from (S n) r else n :: mix_mismatches_from (S n) r
  end.
Definition mix_mismatches := mix_mismatches_from 0.
