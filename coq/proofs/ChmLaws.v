(* The algebraic laws of the choice-map operations, on denotations (C17):
   Mask.__or__, ChoiceMap.mask, Or.build, filter, extend, Switch.build. *)
From Coq Require Import List Bool ZArith Arith Lia.
Import ListNotations.
From Gen Require Import SelGen.
From Model Require Import Sel Flag Chm ChmSpec.
From Proofs Require Import SelProofs ChmBasics.
Open Scope Z_scope.

(* ---- arrays of equal shape have values at the same element addresses ---- *)
Lemma shape_go_nth : forall l m,
  (fix go (l m : list arr) : bool :=
     match l, m with [] , [] => true | x :: r, y :: s => arr_shape_eqb x y && go r s | _, _ => false end) l m = true ->
  length l = length m /\ forall k x y, nth_error l k = Some x -> nth_error m k = Some y -> arr_shape_eqb x y = true.
Proof.
  induction l as [|x l IH]; destruct m as [|y m]; intros H; try discriminate.
  - split; [reflexivity|]. intros [|k] ? ? ?; discriminate.
  - apply andb_prop in H. destruct H as [H1 H2]. destruct (IH m H2) as [HL HN]. split; [simpl; congruence|].
    intros [|k] a b Ha Hb; simpl in *.
    + injection Ha as <-. injection Hb as <-. exact H1.
    + eauto.
Qed.
Lemma aview_shape_none : forall t a b, arr_shape_eqb a b = true -> aview a t = None -> aview b t = None.
Proof.
  induction t as [|i t IH]; intros a b Hs Ha.
  - destruct a, b; simpl in *; try discriminate; reflexivity.
  - destruct a as [z|l], b as [w|m]; simpl in *; try discriminate; try reflexivity.
    apply shape_go_nth in Hs. destruct Hs as [HL HN].
    unfold nget in *. destruct l as [|x l]; destruct m as [|y m]; try discriminate; try reflexivity.
    rewrite <- HL.
    destruct (nth_error (x :: l) (norm_index (length (x :: l)) i)) as [xa|] eqn:Ea;
    destruct (nth_error (y :: m) (norm_index (length (x :: l)) i)) as [ya|] eqn:Eb; try reflexivity.
    + eapply IH; eauto.
    + apply nth_error_None in Ea. assert (Hlt : (norm_index (length (x :: l)) i < length (y :: m))%nat).
      { apply nth_error_Some. congruence. } rewrite <- HL in Hlt. lia.
Qed.

(* ---- Mask.__or__ is the left-biased union, element by element ---- *)
Lemma nth_error_combine {A B} : forall (l : list A) (m : list B) k,
  nth_error (combine l m) k = match nth_error l k, nth_error m k with Some a, Some b => Some (a, b) | _, _ => None end.
Proof.
  induction l as [|a l IH]; intros m k; simpl.
  - destruct k; reflexivity.
  - destruct m as [|b m]; destruct k; simpl; try reflexivity.
    + destruct (nth_error l k); reflexivity.
    + apply IH.
Qed.

Lemma nget_len {A} (l : list A) n i : length l = S n -> nget l i = nth_error l (norm_index (S n) i).
Proof. intros H. unfold nget. destruct l; [discriminate|]. now rewrite H. Qed.
Lemma nget_nil {A} (l : list A) i : length l = 0%nat -> nget l i = None.
Proof. destruct l; [reflexivity|discriminate]. Qed.
Lemma norm_index_lt n i : (norm_index (S n) i < S n)%nat.
Proof. unfold norm_index. lia. Qed.

Definition orf (t : bool * bool) : bool := fst t || snd t.
Definition self (t : bool * bool * (arr * arr)) : arr := if fst (fst t) then fst (snd t) else snd (snd t).

Lemma vec_or_view (LA LB : list bool) (RA RB : list arr) i t n :
  length LA = n -> length LB = n -> length RA = n -> length RB = n ->
  (forall k x y, nth_error RA k = Some x -> nth_error RB k = Some y -> arr_shape_eqb x y = true) ->
  match nget (map orf (combine LA LB)) i with
  | Some true => aview (AN (map self (combine (combine LA LB) (combine RA RB)))) (i :: t)
  | _ => None
  end =
  funion (match nget LA i with Some true => aview (AN RA) (i :: t) | _ => None end)
         (match nget LB i with Some true => aview (AN RB) (i :: t) | _ => None end).
Proof.
  intros H1 H2 H3 H4 HN.
  destruct n as [|n].
  - rewrite (nget_nil LA), (nget_nil LB), (nget_nil (map orf (combine LA LB))); auto.
    rewrite map_length, combine_length. lia.
  - assert (H5 : length (map orf (combine LA LB)) = S n) by (rewrite map_length, combine_length; lia).
    assert (H6 : length (map self (combine (combine LA LB) (combine RA RB))) = S n) by (rewrite map_length, !combine_length; lia).
    rewrite (nget_len _ n i H1), (nget_len _ n i H2), (nget_len _ n i H5).
    cbn [aview]. rewrite (nget_len _ n i H3), (nget_len _ n i H4), (nget_len _ n i H6).
    set (k := norm_index (S n) i). pose proof (norm_index_lt n i) as Hk. fold k in Hk.
    rewrite !nth_error_map, !nth_error_combine.
    destruct (nth_error LA k) as [pa|] eqn:EA; [|apply nth_error_None in EA; lia].
    destruct (nth_error LB k) as [pb|] eqn:EB; [|apply nth_error_None in EB; lia].
    destruct (nth_error RA k) as [va|] eqn:ERA; [|apply nth_error_None in ERA; lia].
    destruct (nth_error RB k) as [vb|] eqn:ERB; [|apply nth_error_None in ERB; lia].
    unfold option_map, orf, self. cbn [fst snd].
    destruct pa; simpl.
    + destruct (aview va t) eqn:E; [reflexivity|].
      rewrite (aview_shape_none t va vb (HN k va vb ERA ERB) E). now destruct pb.
    + now destruct pb.
Qed.

Definition pair_ok (x : arr * flag) : Prop := valid_init (fst x) (snd x) = true.
Definition pview (x : arr * flag) (t : list Z) : option Z := sview (LMask (fst x) (snd x)) t.
Lemma pview_none xb g t : aview xb t = None -> pview (xb, g) t = None.
Proof.
  intros H. unfold pview. simpl. destruct g as [s q|l].
  - rewrite H. now destruct q.
  - destruct t as [|i t]; [reflexivity|]. rewrite H. destruct (nget l i) as [[|]|]; reflexivity.
Qed.
Lemma pview_mask_of v t : pview (mask_of v) t = sview v t.
Proof. destruct v as [a|a [s b|l]]; reflexivity. Qed.
Lemma pair_ok_mask_of v : leaf_ok v -> pair_ok (mask_of v).
Proof. unfold pair_ok. destruct v as [a|a [s b|l]]; simpl; auto. Qed.

Lemma mor_pview x y m t :
  pair_ok x -> pair_ok y -> mor x y = OK m ->
  pair_ok m /\ pview m t = funion (pview x t) (pview y t).
Proof.
  destruct x as [xa f], y as [xb g]. unfold pair_ok. simpl fst. simpl snd. intros Ha Hb H. unfold mor in H.
  destruct (arr_shape_eqb xa xb && opt_nat_eqb (flag_len f) (flag_len g)) eqn:Es; simpl in H; [|discriminate].
  apply andb_prop in Es. destruct Es as [Es El].
  assert (Hnone : aview xa t = None -> aview xb t = None) by (apply aview_shape_none; exact Es).
  destruct f as [[|] pa|la].
  - (* Python flag first *)
    destruct pa; injection H as <-; (split; [assumption|]).
    + unfold pview at 1 2. simpl. destruct (aview xa t) eqn:E; [reflexivity|].
      symmetry. apply pview_none. auto.
    + reflexivity.
  - (* scalar array flag first *)
    destruct g as [sg pg|lg]; [|simpl in El; discriminate].
    assert (H' : m = (if pa then xa else xb, FS Ar (pa || pg))) by (destruct sg; injection H as <-; reflexivity).
    subst m. split; [reflexivity|]. unfold pview. simpl. destruct pa; simpl.
    + destruct (aview xa t) eqn:E; [reflexivity|]. rewrite (Hnone eq_refl). now destruct pg.
    + reflexivity.
  - (* vector flags *)
    destruct g as [sg pg|lg]; [simpl in El; discriminate|].
    destruct xa as [z|ra]; [destruct xb; discriminate|].
    destruct xb as [z|rb]; [discriminate|].
    destruct (is_rank1 (AN ra)) eqn:Er; [|discriminate]. injection H as <-.
    simpl in Ha, Hb, El. apply Nat.eqb_eq in Ha, Hb, El.
    pose proof (shape_go_nth _ _ Es) as [HL HN].
    split.
    { unfold pair_ok. simpl. rewrite !map_length, !combine_length. apply Nat.eqb_eq. lia. }
    unfold pview. cbn [fst snd sview].
    destruct t as [|i t]; [reflexivity|].
    apply (vec_or_view la lg ra rb i t (length la)); auto; lia.
Qed.

Lemma mor_sview a b m t :
  leaf_ok a -> leaf_ok b ->
  mor (mask_of a) (mask_of b) = OK m ->
  leaf_ok (leaf_of_mask m) /\ sview (leaf_of_mask m) t = funion (sview a t) (sview b t).
Proof.
  intros Ha Hb H.
  destruct (mor_pview _ _ _ t (pair_ok_mask_of _ Ha) (pair_ok_mask_of _ Hb) H) as [Hok Hv].
  split; [exact Hok|]. rewrite <- (pview_mask_of a), <- (pview_mask_of b). exact Hv.
Qed.

(* ---- ChoiceMap.mask and Or.build ---- *)
Definition mask_spec (n : nat) : Prop :=
  forall f c z, filter_flag n f c = OK z -> flag_scalar f = true -> wf c ->
    wf z /\ (vect c -> vect z) /\ forall pend p, abs z pend p = fmask (flag_true f) (abs c pend p).
Definition or_spec (n : nat) : Prop :=
  forall x y z, or_build n x y = OK z -> wf x -> wf y ->
    wf z /\ (vect x -> vect y -> vect z) /\ forall pend p, abs z pend p = funion (abs x pend p) (abs y pend p).

(* a well-formed Switch denotes its selected branch *)
Lemma abs_Switch_wf i cs pend p :
  wf (Switch i cs) ->
  exists k ck, i = SArr (Z.of_nat k) /\ nth_error cs k = Some ck /\ abs (Switch i cs) pend p = abs ck pend p.
Proof.
  intros H. apply wf_Switch in H. destruct H as [[k [Hi [Hk Hinv]]] _].
  destruct (nth_error cs k) as [ck|] eqn:E; [|apply nth_error_None in E; lia].
  exists k, ck. repeat split; auto. rewrite abs_Switch.
  apply (first_some_single _ k).
  - rewrite nth_error_map, E. reflexivity.
  - intros j w Hj Hne. rewrite nth_error_map in Hj. destruct (nth_error cs j) as [cj|] eqn:Ej; [|discriminate].
    injection Hj as <-. eapply Hinv; eauto.
Qed.

(* Switch.build: every branch masked by (_idx == idx) *)
Lemma switch_rebuild n k xs ys :
  mask_spec n ->
  (k < length xs)%nat ->
  Forall wf xs ->
  mapM (fun kc => filter_flag n (branch_flag (SArr (Z.of_nat k)) (fst kc)) (snd kc)) (enum xs) = OK ys ->
  wf (Switch (SArr (Z.of_nat k)) ys) /\
  forall pend p, abs (Switch (SArr (Z.of_nat k)) ys) pend p =
                 match nth_error xs k with Some x => abs x pend p | None => None end.
Proof.
  intros IHm Hk Hwf H.
  apply (mapM_enum_OK (fun j x => filter_flag n (branch_flag (SArr (Z.of_nat k)) j) x)) in H.
  destruct H as [HL HN].
  assert (Hys : forall j y, nth_error ys j = Some y ->
            exists x, nth_error xs j = Some x /\ wf y /\ forall pend p, abs y pend p = fmask (Nat.eqb j k) (abs x pend p)).
  { intros j y Hy.
    destruct (nth_error xs j) as [x|] eqn:Ex.
    - destruct (HN j x Ex) as [y' [Hy' Hf]]. rewrite Hy in Hy'. injection Hy' as <-.
      exists x. split; auto.
      rewrite Forall_forall in Hwf. specialize (Hwf x (nth_error_In _ _ Ex)).
      destruct (IHm _ _ _ Hf eq_refl Hwf) as [W [_ A]]. split; auto.
      intros pend p. rewrite A. simpl. f_equal.
      destruct (Nat.eqb j k) eqn:E.
      + apply Nat.eqb_eq in E. subst. apply Z.eqb_refl.
      + apply Nat.eqb_neq in E. apply Z.eqb_neq. lia.
    - apply nth_error_None in Ex. assert (j < length ys)%nat by (apply nth_error_Some; congruence). lia. }
  split.
  - apply wf_Switch. split.
    + exists k. repeat split; auto; [lia|].
      intros j cj Hj Hne pend p. destruct (Hys j cj Hj) as [x [_ [_ A]]]. rewrite A.
      apply Nat.eqb_neq in Hne. now rewrite Hne.
    + apply Forall_forall. intros y Hin. apply In_nth_error in Hin. destruct Hin as [j Hj].
      destruct (Hys j y Hj) as [x [_ [W _]]]. exact W.
  - intros pend p. rewrite abs_Switch.
    destruct (nth_error xs k) as [x|] eqn:Ex; [|apply nth_error_None in Ex; lia].
    destruct (HN k x Ex) as [y [Hy _]].
    apply (first_some_single _ k).
    + rewrite nth_error_map, Hy. simpl. destruct (Hys k y Hy) as [x' [Ex' [_ A]]].
      rewrite Ex in Ex'. injection Ex' as <-. rewrite A, Nat.eqb_refl. reflexivity.
    + intros j w Hj Hne. rewrite nth_error_map in Hj. destruct (nth_error ys j) as [yj|] eqn:Ej; [|discriminate].
      injection Hj as <-. destruct (Hys j yj Ej) as [x' [_ [_ A]]]. rewrite A.
      apply Nat.eqb_neq in Hne. now rewrite Hne.
Qed.

Lemma keys_of_Forall2 (R : chm -> chm -> Prop) (m m' : list (nat * chm)) :
  Forall2 (fun kv kv' => fst kv' = fst kv /\ R (snd kv) (snd kv')) m m' -> map fst m' = map fst m.
Proof. intros H. apply (Forall2_keys R m m' H). Qed.

Lemma Forall2_mapM_keys (g : chm -> res chm) m m' :
  mapM (fun kv : nat * chm => do x <- g (snd kv); OK (fst kv, x)) m = OK m' ->
  Forall2 (fun kv kv' => fst kv' = fst kv /\ g (snd kv) = OK (snd kv')) m m'.
Proof.
  intros H. apply mapM_OK in H. induction H as [|kv kv' m m' H1 _ IH]; constructor; auto.
  inv_bind H1. injection H1 as <-. simpl. auto.
Qed.

Lemma vect_not_switch c : vect c -> match c with Switch _ _ | Indexed _ _ | Or _ _ => False | _ => True end.
Proof. destruct c; simpl; auto. Qed.

Lemma abs_pend_nil_none c : (match c with Static _ | Indexed _ _ => True | _ => False end) -> forall pend, abs c pend [] = None.
Proof. destruct c; simpl; intros H pend; try tauto; reflexivity. Qed.

Lemma mask_or : forall n, mask_spec n /\ or_spec n.
Proof.
  induction n as [|n [IHm IHo]]; [split; intros ? ? ? H; discriminate|].
  split.
  - (* filter_flag *)
    intros f c z H Hf Hwf. destruct c as [m|v|c a|i cs|a b]; cbn [filter_flag] in H.
    + (* Static *)
      inv_bind H. injection H as <-.
      apply Forall2_mapM_keys in Ha.
      apply wf_Static in Hwf. destruct Hwf as [ND Hall].
      pose proof (Forall2_keys (fun c c' => filter_flag n f c = OK c') m a Ha) as [Hkeys Hassoc].
      assert (ND' : NoDup (map fst a)) by now rewrite Hkeys.
      assert (Hsub : forall kv', In kv' a -> exists c, In (fst kv', c) m /\ filter_flag n f c = OK (snd kv')).
      { clear -Ha. induction Ha as [|kv kv' m a [H1 H2] _ IH]; intros x Hin; [destruct Hin|].
        destruct Hin as [<-|Hin].
        - exists (snd kv). rewrite H1. split; [left; now destruct kv|exact H2].
        - destruct (IH x Hin) as [c [Hc1 Hc2]]. exists c. split; [now right|exact Hc2]. }
      rewrite Forall_forall in Hall.
      split; [|split].
      * apply wf_static_build; auto. apply Forall_forall. intros kv' Hin.
        destruct (Hsub kv' Hin) as [c [Hc1 Hc2]]. apply (IHm _ _ _ Hc2 Hf). apply (Hall _ Hc1).
      * intros Hv. apply vect_static_build. apply Forall_forall. intros kv' Hin.
        destruct (Hsub kv' Hin) as [c [Hc1 Hc2]]. apply vect_Static in Hv. rewrite Forall_forall in Hv.
        apply (IHm _ _ _ Hc2 Hf (Hall _ Hc1)). apply (Hv _ Hc1).
      * intros pend p. rewrite abs_static_build by exact ND'. rewrite !abs_Static.
        destruct (split_static p) as [[[is k] rest]|]; [|now rewrite fmask_None].
        specialize (Hassoc k). destruct (assoc k m) as [c|] eqn:E1; destruct (assoc k a) as [c'|] eqn:E2; try tauto.
        -- apply (IHm _ _ _ Hassoc Hf). apply (Hall _ (assoc_In _ _ _ E1)).
        -- now rewrite fmask_None.
    + (* Choice *)
      unfold choice_filter_flag in H. inv_bind H. injection H as <-.
      destruct f as [s b|l]; [|discriminate].
      pose proof (mask_build_ok _ _ _ Ha) as Hok.
      destruct (wf_choice_build a Hok) as [W V]. split; [exact W|split; [intros _; exact V|]].
      intros pend p. rewrite abs_choice_build. simpl.
      destruct (forallb is_index p); [|now rewrite fmask_None].
      apply (mask_build_sview _ _ _ _ _ Ha).
    + (* Indexed *)
      inv_bind H. injection H as <-. simpl in Hwf. destruct Hwf as [Hc Ha'].
      destruct (IHm _ _ _ Ha Hf Hc) as [W [V A]].
      split; [|split].
      * apply wf_indexed_build; auto. destruct a as [| |l|]; auto.
      * intros [].
      * intros pend p. rewrite abs_indexed_build. simpl.
        destruct p as [|[k|j] rest]; try now rewrite fmask_None.
        destruct a as [k|k|l|]; try now rewrite fmask_None.
        -- rewrite A. apply fmask_if.
        -- rewrite A. apply fmask_if.
        -- destruct pend as [|r pend'].
           ++ destruct (find_index l (lidx_z j) 0); [apply A|now rewrite fmask_None].
           ++ destruct (nget l r); [|now rewrite fmask_None]. rewrite A. apply fmask_if.
    + (* Switch *)
      inv_bind H. inv_bind H. injection H as <-.
      pose proof Hwf as Hwf0.
      apply wf_Switch in Hwf. destruct Hwf as [[k [-> [Hk Hinv]]] Hall].
      apply mapM_OK in Ha.
      assert (Hwa : Forall wf a).
      { apply Forall_forall. intros x Hin. apply In_nth_error in Hin. destruct Hin as [j Hj].
        destruct (Forall2_nth_r _ _ _ Ha j x Hj) as [c [Hc Hfc]].
        rewrite Forall_forall in Hall. apply (IHm _ _ _ Hfc Hf (Hall _ (nth_error_In _ _ Hc))). }
      assert (HLa : length a = length cs) by (symmetry; apply (Forall2_length _ _ _ Ha)).
      destruct (switch_rebuild n k a a0 IHm ltac:(lia) Hwa Ha0) as [W A].
      split; [exact W|split; [intros []|]].
      intros pend p. rewrite A.
      destruct (abs_Switch_wf _ _ pend p Hwf0) as [k' [ck [Ek [Eck ->]]]].
      injection Ek as Ek. apply Nat2Z.inj in Ek. subst k'.
      destruct (Forall2_nth _ _ _ Ha k ck Eck) as [y [Hy Hfy]]. rewrite Hy.
      rewrite Forall_forall in Hall. apply (IHm _ _ _ Hfy Hf (Hall _ (nth_error_In _ _ Eck))).
    + (* Or *)
      inv_bind H. inv_bind H. simpl in Hwf. destruct Hwf as [Wa [Wb Hnil]].
      destruct (IHm _ _ _ Ha Hf Wa) as [W1 [_ A1]]. destruct (IHm _ _ _ Ha0 Hf Wb) as [W2 [_ A2]].
      destruct (IHo _ _ _ H W1 W2) as [W [_ A]].
      split; [exact W|split; [intros []|]].
      intros pend p. rewrite A, A1, A2, abs_Or. now rewrite fmask_funion.
  - (* or_build *)
    intros x y z H Wx Wy. cbn [or_build] in H.
    destruct (static_is_empty y) eqn:Ey.
    { injection H as <-. apply static_is_empty_true in Ey. subst y. repeat split; auto.
      intros pend p. now rewrite abs_empty, funion_None_r. }
    destruct (static_is_empty x) eqn:Ex.
    { injection H as <-. apply static_is_empty_true in Ex. subst x. repeat split; auto.
      intros pend p. now rewrite abs_empty. }
    assert (SwL : forall ix csx y xs ys,
               wf (Switch ix csx) -> wf y ->
               mapM (fun c => or_build n c y) csx = OK xs ->
               mapM (fun kc => filter_flag n (branch_flag ix (fst kc)) (snd kc)) (enum xs) = OK ys ->
               wf (Switch ix ys) /\ (vect (Switch ix csx) -> vect y -> vect (Switch ix ys)) /\
               forall pend p, abs (Switch ix ys) pend p = funion (abs (Switch ix csx) pend p) (abs y pend p)).
    { intros ix csx y0 xs ys Wsw Wy0 Hxs Hys.
      pose proof Wsw as Wsw0. apply wf_Switch in Wsw. destruct Wsw as [[k [-> [Hk Hinv]]] Hall].
      apply mapM_OK in Hxs.
      assert (Hwa : Forall wf xs).
      { apply Forall_forall. intros x0 Hin. apply In_nth_error in Hin. destruct Hin as [j Hj].
        destruct (Forall2_nth_r _ _ _ Hxs j x0 Hj) as [c [Hc Hfc]].
        rewrite Forall_forall in Hall. apply (IHo _ _ _ Hfc (Hall _ (nth_error_In _ _ Hc)) Wy0). }
      assert (HLa : length xs = length csx) by (symmetry; apply (Forall2_length _ _ _ Hxs)).
      destruct (switch_rebuild n k xs ys IHm ltac:(lia) Hwa Hys) as [W A].
      split; [exact W|split; [intros []|]].
      intros pend p. rewrite A.
      destruct (abs_Switch_wf _ _ pend p Wsw0) as [k' [ck [Ek [Eck ->]]]].
      injection Ek as Ek. apply Nat2Z.inj in Ek. subst k'.
      destruct (Forall2_nth _ _ _ Hxs k ck Eck) as [y1 [Hy Hfy]]. rewrite Hy.
      rewrite Forall_forall in Hall. apply (IHo _ _ _ Hfy (Hall _ (nth_error_In _ _ Eck)) Wy0). }
    assert (SwR : forall x0 iy csy xs ys,
               wf x0 -> wf (Switch iy csy) ->
               mapM (fun c => or_build n x0 c) csy = OK xs ->
               mapM (fun kc => filter_flag n (branch_flag iy (fst kc)) (snd kc)) (enum xs) = OK ys ->
               wf (Switch iy ys) /\ (vect x0 -> vect (Switch iy csy) -> vect (Switch iy ys)) /\
               forall pend p, abs (Switch iy ys) pend p = funion (abs x0 pend p) (abs (Switch iy csy) pend p)).
    { intros x0 iy csy xs ys Wx0 Wsw Hxs Hys.
      pose proof Wsw as Wsw0. apply wf_Switch in Wsw. destruct Wsw as [[k [-> [Hk Hinv]]] Hall].
      apply mapM_OK in Hxs.
      assert (Hwa : Forall wf xs).
      { apply Forall_forall. intros x1 Hin. apply In_nth_error in Hin. destruct Hin as [j Hj].
        destruct (Forall2_nth_r _ _ _ Hxs j x1 Hj) as [c [Hc Hfc]].
        rewrite Forall_forall in Hall. apply (IHo _ _ _ Hfc Wx0 (Hall _ (nth_error_In _ _ Hc))). }
      assert (HLa : length xs = length csy) by (symmetry; apply (Forall2_length _ _ _ Hxs)).
      destruct (switch_rebuild n k xs ys IHm ltac:(lia) Hwa Hys) as [W A].
      split; [exact W|split; [intros _ []|]].
      intros pend p. rewrite A.
      destruct (abs_Switch_wf _ _ pend p Wsw0) as [k' [ck [Ek [Eck ->]]]].
      injection Ek as Ek. apply Nat2Z.inj in Ek. subst k'.
      destruct (Forall2_nth _ _ _ Hxs k ck Eck) as [y1 [Hy Hfy]]. rewrite Hy.
      rewrite Forall_forall in Hall. apply (IHo _ _ _ Hfy Wx0 (Hall _ (nth_error_In _ _ Eck))). }
    assert (Fall : forall x0 y0, wf x0 -> wf y0 ->
               match x0 with Static _ | Indexed _ _ | Or _ _ => True | _ => False end ->
               match y0 with Static _ | Indexed _ _ | Or _ _ => True | _ => False end ->
               (vect x0 -> vect y0 -> False) ->
               wf (Or x0 y0) /\ (vect x0 -> vect y0 -> vect (Or x0 y0)) /\
               forall pend p, abs (Or x0 y0) pend p = funion (abs x0 pend p) (abs y0 pend p)).
    { intros x0 y0 W1 W2 K1 K2 NV. split; [|split; [intros V1 V2; destruct (NV V1 V2)|reflexivity]].
      simpl. split; [exact W1|split; [exact W2|]]. intros pend. split.
      - destruct x0; try contradiction; try reflexivity. simpl in W1. destruct W1 as [_ [_ Hn]].
        rewrite abs_Or. destruct (Hn pend) as [-> ->]. reflexivity.
      - destruct y0; try contradiction; try reflexivity. simpl in W2. destruct W2 as [_ [_ Hn]].
        rewrite abs_Or. destruct (Hn pend) as [-> ->]. reflexivity. }
    destruct x as [m1|a|cx ax|ix csx|x1 x2]; destruct y as [m2|b|cy ay|iy csy|y1 y2]; try discriminate;
      try (injection H as <-; apply Fall; auto; simpl; tauto);
      try (inv_bind H; inv_bind H; injection H as <-; eapply SwL; eauto; fail);
      try (inv_bind H; inv_bind H; injection H as <-; eapply SwR; eauto; fail).
    + (* Static, Static *)
      inv_bind H. injection H as <-.
      apply wf_Static in Wx, Wy. destruct Wx as [ND1 All1], Wy as [ND2 All2].
      rewrite Forall_forall in All1, All2.
      set (l2 := filter (fun kv : nat * chm => match assoc (fst kv) m1 with Some _ => false | None => true end) m2).
      apply mapM_OK in Ha.
      assert (Hkeys : map fst a = map fst m1).
      { clear -Ha. induction Ha as [|kv kv' m a H _ IH]; simpl; [reflexivity|]. f_equal; [|exact IH].
        destruct (assoc (fst kv) m2); [inv_bind H; injection H as <-; reflexivity|injection H as <-; reflexivity]. }
      assert (Hl1 : forall k, match assoc k m1, assoc k a with
                            | Some c1, Some c' => match assoc k m2 with Some c2 => or_build n c1 c2 = OK c' | None => c' = c1 end
                            | None, None => True
                            | _, _ => False end).
      { clear -Ha. induction Ha as [|[k1 v1] kv' m a H _ IH]; intros k; simpl; [exact I|].
        simpl in H. destruct (assoc k1 m2) as [c2|] eqn:E2.
        - inv_bind H. injection H as <-. simpl. destruct (Nat.eqb k1 k) eqn:E; [|apply IH].
          apply Nat.eqb_eq in E. subst. now rewrite E2.
        - injection H as <-. simpl. destruct (Nat.eqb k1 k) eqn:E; [|apply IH].
          apply Nat.eqb_eq in E. subst. now rewrite E2. }
      assert (ND : NoDup (map fst (a ++ l2))).
      { rewrite map_app, Hkeys. apply nodup_app; auto.
        - apply filter_keys_nodup; exact ND2.
        - intros k Hin1 Hin2. apply in_map_iff in Hin2. destruct Hin2 as [[k' v] [<- Hin2]].
          apply filter_In in Hin2. destruct Hin2 as [_ Hin2]. simpl in *.
          destruct (assoc k' m1) eqn:E; [discriminate|]. apply assoc_None in E. contradiction. }
      assert (Hwfa : Forall (fun kv => wf (snd kv)) (a ++ l2) /\ (vect (Static m1) -> vect (Static m2) -> Forall (fun kv => vect (snd kv)) (a ++ l2))).
      { split.
        - apply Forall_app. split.
          + apply Forall_forall. intros [k c'] Hin. simpl.
            assert (E' : assoc k a = Some c').
            { assert (NDa : NoDup (map fst a)) by now rewrite Hkeys.
              clear -Hin NDa. induction a as [|[k0 v0] a IH]; [destruct Hin|]. simpl in *.
              inversion NDa; subst. destruct Hin as [Hin|Hin].
              - injection Hin as -> ->. now rewrite Nat.eqb_refl.
              - destruct (Nat.eqb k0 k) eqn:E; [|auto]. apply Nat.eqb_eq in E. subst.
                exfalso. apply H1. apply in_map_iff. exists (k, c'). auto. }
            specialize (Hl1 k). rewrite E' in Hl1. destruct (assoc k m1) as [c1|] eqn:E1; [|tauto].
            pose proof (All1 _ (assoc_In _ _ _ E1)) as W1. simpl in W1.
            destruct (assoc k m2) as [c2|] eqn:E2.
            * pose proof (All2 _ (assoc_In _ _ _ E2)) as W2. simpl in W2. apply (IHo _ _ _ Hl1 W1 W2).
            * now subst.
          + apply Forall_forall. intros kv Hin. apply filter_In in Hin. destruct Hin as [Hin _]. apply (All2 _ Hin).
        - intros V1 V2. apply vect_Static in V1, V2. rewrite Forall_forall in V1, V2.
          apply Forall_app. split.
          + apply Forall_forall. intros [k c'] Hin. simpl.
            assert (E' : assoc k a = Some c').
            { assert (NDa : NoDup (map fst a)) by now rewrite Hkeys.
              clear -Hin NDa. induction a as [|[k0 v0] a IH]; [destruct Hin|]. simpl in *.
              inversion NDa; subst. destruct Hin as [Hin|Hin].
              - injection Hin as -> ->. now rewrite Nat.eqb_refl.
              - destruct (Nat.eqb k0 k) eqn:E; [|auto]. apply Nat.eqb_eq in E. subst.
                exfalso. apply H1. apply in_map_iff. exists (k, c'). auto. }
            specialize (Hl1 k). rewrite E' in Hl1. destruct (assoc k m1) as [c1|] eqn:E1; [|tauto].
            pose proof (All1 _ (assoc_In _ _ _ E1)) as W1. pose proof (V1 _ (assoc_In _ _ _ E1)) as VV1. simpl in W1, VV1.
            destruct (assoc k m2) as [c2|] eqn:E2.
            * pose proof (All2 _ (assoc_In _ _ _ E2)) as W2. pose proof (V2 _ (assoc_In _ _ _ E2)) as VV2. simpl in W2, VV2.
              apply (IHo _ _ _ Hl1 W1 W2); auto.
            * now subst.
          + apply Forall_forall. intros kv Hin. apply filter_In in Hin. destruct Hin as [Hin _]. apply (V2 _ Hin). }
      destruct Hwfa as [Hwfa Hva].
      split; [|split].
      * apply wf_static_build; auto.
      * intros V1 V2. apply vect_static_build. auto.
      * intros pend p. rewrite abs_static_build by exact ND. rewrite !abs_Static.
        destruct (split_static p) as [[[is k] rest]|]; [|reflexivity].
        rewrite assoc_app. specialize (Hl1 k).
        destruct (assoc k m1) as [c1|] eqn:E1; destruct (assoc k a) as [c'|] eqn:E'; try tauto.
        -- pose proof (All1 _ (assoc_In _ _ _ E1)) as W1. simpl in W1.
           destruct (assoc k m2) as [c2|] eqn:E2.
           ++ pose proof (All2 _ (assoc_In _ _ _ E2)) as W2. simpl in W2. apply (IHo _ _ _ Hl1 W1 W2).
           ++ subst. now rewrite funion_None_r.
        -- unfold l2. rewrite (assoc_filter_nodup _ k m2 ND2). simpl. rewrite E1.
           destruct (assoc k m2); reflexivity.
    + (* Choice, Choice *)
      inv_bind H. injection H as <-. simpl in Wx, Wy.
      destruct (mor_sview a b a0 [] Wx Wy Ha) as [Hok _].
      destruct (wf_choice_build _ Hok) as [W V]. split; [exact W|split; [intros _ _; exact V|]].
      intros pend p.
      change (abs (choice_build (leaf_of_mask a0)) pend p = funion (abs (Choice a) pend p) (abs (Choice b) pend p)).
      rewrite abs_choice_build. simpl.
      destruct (forallb is_index p); [|reflexivity].
      apply (mor_sview a b a0 _ Wx Wy Ha).
Qed.
