(* jax.vmap-built maps (C17): stacking the rows of a vectorised construction gives a
   vectorised map whose row r is the r-th row; with the mapped index as an address
   component, the array-shaped index level finds the first row carrying that index. *)
From Coq Require Import List Bool ZArith Arith Lia.
Import ListNotations.
From Gen Require Import SelGen.
From Model Require Import Sel Flag Chm ChmSpec.
From Proofs Require Import SelProofs ChmBasics ChmLaws ChmLookup ChmDom.
Open Scope Z_scope.

Lemma nget_nat {A} (l : list A) r x : nth_error l r = Some x -> nget l (Z.of_nat r) = Some x.
Proof.
  intros H. assert (Hlt : (r < length l)%nat) by (apply nth_error_Some; congruence).
  unfold nget. destruct l as [|y l]; [destruct r; discriminate|].
  replace (norm_index (length (y :: l)) (Z.of_nat r)) with r; [exact H|].
  unfold norm_index. destruct (Z.of_nat r <? 0) eqn:E; lia.
Qed.

Definition child_of (k : nat) (r : chm) : chm :=
  match r with Static m => match assoc k m with Some v => v | None => empty end | _ => empty end.

Lemma list_eqb_nat_eq : forall a b, list_eqb Nat.eqb a b = true -> a = b.
Proof.
  induction a as [|x a IH]; destruct b as [|y b]; simpl; intros H; try discriminate; auto.
  apply andb_prop in H. destruct H as [H1 H2]. apply Nat.eqb_eq in H1. subst. f_equal. auto.
Qed.

Lemma assoc_combine : forall (keys : list nat) (cols : list chm) k,
  NoDup keys -> length keys = length cols ->
  match assoc k (combine keys cols) with
  | Some c => exists j, nth_error keys j = Some k /\ nth_error cols j = Some c
  | None => ~ In k keys
  end.
Proof.
  induction keys as [|k0 keys IH]; intros cols k ND HL; destruct cols as [|c0 cols]; simpl in *; try discriminate; auto.
  inversion ND; subst. destruct (Nat.eqb k0 k) eqn:E.
  - apply Nat.eqb_eq in E. subst. exists 0%nat. auto.
  - apply Nat.eqb_neq in E. specialize (IH cols k H2 ltac:(lia)).
    destruct (assoc k (combine keys cols)).
    + destruct IH as [j [H3 H4]]. exists (S j). auto.
    + tauto.
Qed.

Theorem vstack_rows : forall n rows z, vstack n rows = OK z -> Forall vect rows -> Forall wf rows ->
  vect z /\ wf z /\
  forall r row, nth_error rows r = Some row -> forall pend p, abs z (Z.of_nat r :: pend) p = abs row pend p.
Proof.
  induction n as [|n IH]; intros rows z H Hv Hw; [discriminate|].
  destruct rows as [|first rest]; cbn [vstack] in H; [discriminate|].
  destruct first as [m0|[a0|a0 f0]|? ?|? ?|? ?]; try (inversion Hv; subst; match goal with V : vect _ |- _ => destruct V end; fail).
  - (* Static *)
    set (rows := Static m0 :: rest) in *.
    destruct (forallb (fun r => match r with Static m => list_eqb Nat.eqb (map fst m) (map fst m0) | _ => false end) rows) eqn:Ek; [|discriminate].
    inv_bind H. injection H as <-. rewrite forallb_forall in Ek.
    rewrite Forall_forall in Hv, Hw.
    assert (ND : NoDup (map fst m0)).
    { assert (W : wf (Static m0)) by (apply Hw; left; reflexivity). apply wf_Static in W. tauto. }
    apply mapM_OK in Ha.
    assert (HL : length (map fst m0) = length a) by (apply (Forall2_length _ _ _ Ha)).
    assert (Hcol : forall j k col, nth_error (map fst m0) j = Some k -> nth_error a j = Some col ->
              vect col /\ wf col /\ forall r row, nth_error rows r = Some row -> forall pend p,
                abs col (Z.of_nat r :: pend) p = abs (child_of k row) pend p).
    { intros j k col Hk Hc. destruct (Forall2_nth _ _ _ Ha j k Hk) as [col' [Hc' Hst]]. rewrite Hc in Hc'. injection Hc' as <-.
      assert (Hch : forall row, In row rows -> vect (child_of k row) /\ wf (child_of k row)).
      { intros row Hin. pose proof (Hv _ Hin) as V. pose proof (Hw _ Hin) as W. specialize (Ek _ Hin).
        destruct row as [m| | | |]; try discriminate. unfold child_of.
        destruct (assoc k m) as [c|] eqn:E; [|split; [exact I|apply wf_Static; split; constructor]].
        apply assoc_In in E. apply vect_Static in V. apply wf_Static in W. destruct W as [_ W].
        rewrite Forall_forall in V, W. split; [apply (V _ E)|apply (W _ E)]. }
      destruct (IH _ _ Hst) as [V [W A]].
      - apply Forall_forall. intros x Hx. apply in_map_iff in Hx. destruct Hx as [row [<- Hin]]. apply (Hch _ Hin).
      - apply Forall_forall. intros x Hx. apply in_map_iff in Hx. destruct Hx as [row [<- Hin]]. apply (Hch _ Hin).
      - split; [exact V|split; [exact W|]]. intros r row Hr pend p. apply A.
        change (fun r0 : chm => match r0 with Static m => match assoc k m with Some v => v | None => empty end | _ => empty end) with (child_of k).
        now rewrite nth_error_map, Hr. }
    assert (Hkeys : map fst (combine (map fst m0) a) = map fst m0).
    { clear -HL. revert a HL. induction (map fst m0) as [|k ks IHk]; intros [|c a] HL; simpl in *; try discriminate; auto.
      f_equal. apply IHk. lia. }
    assert (Hin_col : forall kv, In kv (combine (map fst m0) a) -> exists j, nth_error (map fst m0) j = Some (fst kv) /\ nth_error a j = Some (snd kv)).
    { intros [k c] Hin. apply In_nth_error in Hin. destruct Hin as [j Hj]. exists j.
      rewrite nth_error_combine in Hj. destruct (nth_error (map fst m0) j), (nth_error a j); try discriminate.
      injection Hj as -> ->. auto. }
    split; [|split].
    + apply vect_Static. apply Forall_forall. intros kv Hin. destruct (Hin_col kv Hin) as [j [H1 H2]].
      apply (Hcol _ _ _ H1 H2).
    + apply wf_Static. split; [now rewrite Hkeys|]. apply Forall_forall. intros kv Hin.
      destruct (Hin_col kv Hin) as [j [H1 H2]]. apply (Hcol _ _ _ H1 H2).
    + intros r row Hr pend p.
      assert (Hin : In row rows) by (apply (nth_error_In _ _ Hr)).
      specialize (Ek _ Hin). destruct row as [m| | | |]; try discriminate.
      apply list_eqb_nat_eq in Ek.
      rewrite !abs_Static. destruct (split_static p) as [[[is k] rest']|]; [|reflexivity].
      pose proof (assoc_combine (map fst m0) a k ND HL) as Hac.
      destruct (assoc k (combine (map fst m0) a)) as [col|].
      * destruct Hac as [j [H1 H2]]. destruct (Hcol _ _ _ H1 H2) as [_ [_ A]].
        cbn [app]. rewrite (A r (Static m) Hr). unfold child_of. destruct (assoc k m); [reflexivity|apply abs_empty].
      * rewrite <- Ek in Hac. apply assoc_None in Hac. now rewrite Hac.
  - (* Choice, bare values *)
    inv_bind H. injection H as <-. apply mapM_OK in Ha.
    split; [exact I|split; [exact I|]]. intros r row Hr pend p.
    destruct (Forall2_nth _ _ _ Ha r row Hr) as [x [Hx Hrow]].
    destruct row as [|[ar|? ?]| | |]; try discriminate. injection Hrow as <-.
    simpl. destruct (forallb is_index p); [|reflexivity]. now rewrite (nget_nat _ _ _ Hx).
  - (* Choice, masked values: scalar array flags become a vector flag *)
    inv_bind H. injection H as <-. apply mapM_OK in Ha.
    split; [exact I|split].
    { simpl. rewrite !map_length. apply Nat.eqb_refl. }
    intros r row Hr pend p.
    destruct (Forall2_nth _ _ _ Ha r row Hr) as [x [Hx Hrow]].
    destruct row as [|[?|ar [[|] b|?]]| | |]; try discriminate. injection Hrow as <-.
    simpl. destruct (forallb is_index p); [|reflexivity].
    rewrite (nget_nat (map snd a) r b) by (rewrite nth_error_map, Hx; reflexivity).
    rewrite (nget_nat (map fst a) r ar) by (rewrite nth_error_map, Hx; reflexivity).
    reflexivity.
Qed.

(* jax.vmap(lambda i, v: C[i].set(...)): the rows are Indexed levels over vectorised maps.
   Looking index i up finds the first row whose index is i, and returns that row. *)
Theorem vmap_indexed_lookup : forall n rows z cs zs,
  vstack n rows = OK z ->
  Forall2 (fun row cz => row = Indexed (fst cz) (IAr (snd cz)) /\ vect (fst cz) /\ wf (fst cz)) rows (combine cs zs) ->
  length cs = length zs -> rows <> [] ->
  wf z /\
  forall i p, amap z (CI i :: p) =
              match find_index zs (lidx_z i) 0 with
              | Some r => match nth_error cs r with Some c => amap c p | None => None end
              | None => None
              end.
Proof.
  intros n rows z cs zs H Hrows HL Hne.
  destruct n as [|n]; [discriminate|]. destruct rows as [|first rest]; [congruence|]. cbn [vstack] in H.
  assert (Hall : forall r row, nth_error (first :: rest) r = Some row ->
            exists c zr, nth_error cs r = Some c /\ nth_error zs r = Some zr /\ row = Indexed c (IAr zr) /\ vect c /\ wf c).
  { intros r row Hr. destruct (Forall2_nth _ _ _ Hrows r row Hr) as [[c zr] [Hc [E [V W]]]].
    rewrite nth_error_combine in Hc. destruct (nth_error cs r) eqn:E1, (nth_error zs r) eqn:E2; try discriminate.
    injection Hc as -> ->. eauto 10. }
  destruct (Hall 0%nat first eq_refl) as [c0 [z0 [_ [_ [-> _]]]]].
  inv_bind H. inv_bind H. inv_bind H. injection H as <-.
  apply mapM_OK in Ha, Ha0.
  assert (Ecs : a = cs).
  { apply nth_ext with (d := empty) (d' := empty).
    - rewrite <- (Forall2_length _ _ _ Ha). rewrite (Forall2_length _ _ _ Hrows), combine_length. lia.
    - intros r Hr. rewrite <- (Forall2_length _ _ _ Ha) in Hr.
      destruct (nth_error (Indexed c0 (IAr z0) :: rest) r) as [row|] eqn:Er; [|apply nth_error_None in Er; lia].
      destruct (Hall r row Er) as [c [zr [H1 [H2 [-> _]]]]].
      destruct (Forall2_nth _ _ _ Ha r _ Er) as [y [Hy Hrow]]. injection Hrow as <-.
      now rewrite (nth_error_nth _ _ _ Hy), (nth_error_nth _ _ _ H1). }
  assert (Ezs : a0 = zs).
  { apply nth_ext with (d := 0) (d' := 0).
    - rewrite <- (Forall2_length _ _ _ Ha0). rewrite (Forall2_length _ _ _ Hrows), combine_length. lia.
    - intros r Hr. rewrite <- (Forall2_length _ _ _ Ha0) in Hr.
      destruct (nth_error (Indexed c0 (IAr z0) :: rest) r) as [row|] eqn:Er; [|apply nth_error_None in Er; lia].
      destruct (Hall r row Er) as [c [zr [H1 [H2 [-> _]]]]].
      destruct (Forall2_nth _ _ _ Ha0 r _ Er) as [y [Hy Hrow]]. injection Hrow as <-.
      now rewrite (nth_error_nth _ _ _ Hy), (nth_error_nth _ _ _ H2). }
  subst a a0.
  assert (Vcs : Forall vect cs /\ Forall wf cs).
  { split; apply Forall_forall; intros c Hin; apply In_nth_error in Hin; destruct Hin as [r Hr];
      (destruct (nth_error (Indexed c0 (IAr z0) :: rest) r) as [row|] eqn:Er;
       [destruct (Hall r row Er) as [c' [zr [H1 [_ [_ [V W]]]]]]; rewrite Hr in H1; injection H1 as <-; assumption|
        apply nth_error_None in Er; rewrite (Forall2_length _ _ _ Ha) in Er;
        assert (r < length cs)%nat by (apply nth_error_Some; congruence); lia]). }
  destruct Vcs as [Vcs Wcs].
  destruct (vstack_rows _ _ _ Ha1 Vcs Wcs) as [V [W A]].
  split; [simpl; auto|].
  intros i p. unfold amap. simpl.
  destruct (find_index zs (lidx_z i) 0) as [r|] eqn:E; [|reflexivity].
  destruct (nth_error cs r) as [c|] eqn:Ec; [apply (A r c Ec)|].
  apply find_index_spec in E. destruct E as [_ E]. rewrite Nat.sub_0_r in E.
  apply nth_error_None in Ec. assert (r < length zs)%nat by (apply nth_error_Some; congruence). lia.
Qed.
