(* C34 — get_subtrace returns the sub-execution at an address (static parents, through dimap / mask / switch
   wrappers).  Under a mask whose flag is false the inner trace is exposed with its own score although it contributes
   nothing to the parent: the statement's "address the program traced" excludes it; see DESIGN.md. *)
From Coq Require Import List ZArith.
Import ListNotations.
From Gen Require Import SelGen.
From Model Require Import Key Sel GFI GFIEdit GFIOps.
From Proofs Require Import GFIBase GFIRef GFIWf GFIConsistent GFIProject GFISim GFIGen GFIEditProofs GFIStatic.
Open Scope Z_scope.

Theorem C34_subtrace_of_a_static_function : forall b args ret subs a t',
  wft (GStatic b) (TStatic args ret subs) -> heads_ok (body_addrs b) -> subs_get subs a = Some t' ->
  get_inner_trace (TStatic args ret subs) a = Ok t' /\
  csub_addr (t_choices (TStatic args ret subs)) a = t_choices t' /\
  t_score t' = tsum (t_terms t') /\
  incl (map (tm_prefix (map KS a)) (t_terms t')) (t_terms (TStatic args ret subs)).
Proof. exact subtrace_of_static. Qed.
Print Assumptions C34_subtrace_of_a_static_function.

Theorem C34_wrappers_are_transparent : forall inner a args ret check j score,
  get_inner_trace (TDimap inner args ret) a = get_inner_trace inner a /\
  get_inner_trace (TMask inner check args) a = get_inner_trace inner a /\
  get_inner_trace (TSwitch args j inner ret score) a = get_inner_trace inner a.
Proof. exact subtrace_through_wrappers. Qed.
Print Assumptions C34_wrappers_are_transparent.

(* ---- non-vacuity: concrete non-trivial programs and traces meeting the hypotheses above (proofs/GFIWitness.v) ---- *)
From Proofs Require Import GFIWitness.
Example C34_hypotheses_met : wft ex_r ex_rt /\ sites_live ex_rt.
Proof. exact (conj ex_r_wft ex_r_sites_live). Qed.
Print Assumptions C34_hypotheses_met.
