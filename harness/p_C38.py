"""C38 — engine B-gfi (harness/bgfi.py); theorems in coq/props/C38.v."""
from . import bgfi


def run(ctx):
    bgfi.run_property(ctx, "C38", oracles=bgfi.PROP_ORACLES.get("C38"))


def replay(case):
    return bgfi.replay(case)
