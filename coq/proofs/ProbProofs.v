(* Lemmas about finite sums and finite distributions over Qc (model/Prob.v). *)
From Coq Require Import List ZArith QArith Qcanon Bool Lia.
From Model Require Import Prob.
Import ListNotations.
Open Scope Qc_scope.

(* ---- sumQ ---- *)
Lemma sumQ_app l1 l2 : sumQ (l1 ++ l2) = sumQ l1 + sumQ l2.
Proof. induction l1; simpl; [ring|rewrite IHl1; ring]. Qed.

Lemma sumQ_map_ext {A} (f g : A -> Qc) l :
  (forall a, In a l -> f a = g a) -> sumQ (map f l) = sumQ (map g l).
Proof.
  induction l; simpl; intros H; [reflexivity|].
  rewrite (H a) by now left. rewrite IHl; [reflexivity|]. intros; apply H; now right.
Qed.

Lemma sumQ_map_scale {A} c (f : A -> Qc) l : sumQ (map (fun a => c * f a) l) = c * sumQ (map f l).
Proof. induction l; simpl; [ring|rewrite IHl; ring]. Qed.

Lemma sumQ_map_scale_r {A} c (f : A -> Qc) l : sumQ (map (fun a => f a * c) l) = sumQ (map f l) * c.
Proof. induction l; simpl; [ring|rewrite IHl; ring]. Qed.

Lemma sumQ_map_plus {A} (f g : A -> Qc) l :
  sumQ (map (fun a => f a + g a) l) = sumQ (map f l) + sumQ (map g l).
Proof. induction l; simpl; [ring|rewrite IHl; ring]. Qed.

Lemma sumQ_map_zero {A} (f : A -> Qc) l : (forall a, In a l -> f a = 0) -> sumQ (map f l) = 0.
Proof.
  induction l; simpl; intros H; [reflexivity|].
  rewrite (H a) by now left. rewrite IHl; [ring|]. intros; apply H; now right.
Qed.

Lemma sumQ_flat_map {A B} (f : A -> list B) (h : B -> Qc) l :
  sumQ (map h (flat_map f l)) = sumQ (map (fun a => sumQ (map h (f a))) l).
Proof. induction l; simpl; [reflexivity|]. rewrite map_app, sumQ_app, IHl. reflexivity. Qed.

Lemma sumQ_map_map {A B} (f : A -> B) (h : B -> Qc) l : sumQ (map h (map f l)) = sumQ (map (fun a => h (f a)) l).
Proof. now rewrite map_map. Qed.

Lemma sumQ_swap {A B} (f : A -> B -> Qc) la lb :
  sumQ (map (fun a => sumQ (map (fun b => f a b) lb)) la) = sumQ (map (fun b => sumQ (map (fun a => f a b) la)) lb).
Proof.
  induction la; simpl.
  - symmetry. apply sumQ_map_zero. reflexivity.
  - rewrite IHla. rewrite <- sumQ_map_plus. reflexivity.
Qed.

(* a sum whose only non-zero term is the one at x *)
Lemma sumQ_single {A} (sel : A -> bool) (g : A -> Qc) (x : A) l :
  NoDup l -> In x l -> sel x = true -> (forall a, In a l -> sel a = true -> a = x) ->
  sumQ (map (fun a => if sel a then g a else 0) l) = g x.
Proof.
  induction l; simpl; intros ND Hin Hx Hu; [contradiction|].
  inversion ND; subst. destruct Hin as [->|Hin].
  - rewrite Hx. rewrite sumQ_map_zero; [ring|].
    intros b Hb. destruct (sel b) eqn:Eb; [|reflexivity].
    assert (b = x) by (apply Hu; auto). subst. contradiction.
  - destruct (sel a) eqn:Ea.
    + assert (a = x) by (apply Hu; auto). subst. contradiction.
    + rewrite IHl; auto. ring.
Qed.

Lemma sumQ_none {A} (sel : A -> bool) (g : A -> Qc) l :
  (forall a, In a l -> sel a = false) -> sumQ (map (fun a => if sel a then g a else 0) l) = 0.
Proof. intros H. apply sumQ_map_zero. intros a Ha. now rewrite (H a Ha). Qed.

(* ---- E ---- *)
Lemma E_nil {A} (f : A -> Qc) : E f [] = 0.
Proof. reflexivity. Qed.
Lemma E_cons {A} (f : A -> Qc) a p d : E f ((a, p) :: d) = f a * p + E f d.
Proof. reflexivity. Qed.
Lemma E_app {A} (f : A -> Qc) d1 d2 : E f (d1 ++ d2) = E f d1 + E f d2.
Proof. unfold E. now rewrite map_app, sumQ_app. Qed.
Lemma E_ret {A} (f : A -> Qc) a : E f (ret a) = f a.
Proof. unfold E, ret; simpl; ring. Qed.
Lemma E_scale {A} (f : A -> Qc) p d : E f (scale p d) = p * E f d.
Proof.
  unfold E, scale. rewrite map_map. simpl. rewrite <- sumQ_map_scale.
  apply sumQ_map_ext. intros; ring.
Qed.
Lemma E_bind {A B} (f : B -> Qc) (d : dist A) (k : A -> dist B) :
  E f (bind d k) = E (fun a => E f (k a)) d.
Proof.
  induction d as [|[a p] d IH]; [reflexivity|].
  change (bind ((a, p) :: d) k) with (scale p (k a) ++ bind d k).
  rewrite E_app, E_scale, E_cons, IH. ring.
Qed.
Lemma E_dmap {A B} (f : B -> Qc) (g : A -> B) d : E f (dmap g d) = E (fun a => f (g a)) d.
Proof. unfold E, dmap. rewrite map_map. reflexivity. Qed.
Lemma E_ext_in {A} (f g : A -> Qc) d : (forall a p, In (a, p) d -> f a = g a) -> E f d = E g d.
Proof.
  intros H. unfold E. apply sumQ_map_ext. intros [a p] Hin. simpl. now rewrite (H a p Hin).
Qed.
Lemma E_ext {A} (f g : A -> Qc) d : (forall a, f a = g a) -> E f d = E g d.
Proof. intros H. apply E_ext_in. intros; apply H. Qed.
Lemma E_lin {A} c (f : A -> Qc) d : E (fun a => c * f a) d = c * E f d.
Proof. induction d as [|[a p] d IH]; [unfold E; simpl; ring|]. rewrite !E_cons, IH. ring. Qed.
Lemma E_lin_r {A} c (f : A -> Qc) d : E (fun a => f a * c) d = E f d * c.
Proof. induction d as [|[a p] d IH]; [unfold E; simpl; ring|]. rewrite !E_cons, IH. ring. Qed.
Lemma E_plus {A} (f g : A -> Qc) d : E (fun a => f a + g a) d = E f d + E g d.
Proof. induction d as [|[a p] d IH]; [unfold E; simpl; ring|]. rewrite !E_cons, IH. ring. Qed.
Lemma E_zero {A} (d : dist A) : E (fun _ => 0) d = 0.
Proof. induction d as [|[a p] d IH]; [reflexivity|]. rewrite E_cons, IH. ring. Qed.
Lemma E_const {A} c (d : dist A) : E (fun _ => c) d = c * mass d.
Proof. unfold mass. rewrite <- E_lin. apply E_ext. intros; ring. Qed.
Lemma E_sumQ {A B} (f : A -> B -> Qc) (l : list A) (d : dist B) :
  E (fun b => sumQ (map (fun a => f a b) l)) d = sumQ (map (fun a => E (f a) d) l).
Proof.
  induction l; simpl; [apply E_zero|]. rewrite E_plus, IHl. reflexivity.
Qed.
Lemma E_prior_like {A} (f : A -> Qc) (w : A -> Qc) l :
  E f (map (fun v => (v, w v)) l) = sumQ (map (fun v => f v * w v) l).
Proof. unfold E. now rewrite map_map. Qed.

(* ---- support ---- *)
Lemma In_scale {A} (b : A) r p d : In (b, r) (scale p d) <-> exists q, In (b, q) d /\ r = p * q.
Proof.
  unfold scale. rewrite in_map_iff. split.
  - intros [[b' q] [H Hin]]. inversion H; subst. now exists q.
  - intros [q [Hin ->]]. now exists (b, q).
Qed.
Lemma In_bind {A B} (b : B) r (d : dist A) (k : A -> dist B) :
  In (b, r) (bind d k) <-> exists a p q, In (a, p) d /\ In (b, q) (k a) /\ r = p * q.
Proof.
  unfold bind. rewrite in_flat_map. split.
  - intros [[a p] [Hin H]]. apply In_scale in H. destruct H as [q [Hq ->]]. now exists a, p, q.
  - intros [a [p [q [Hin [Hq ->]]]]]. exists (a, p). split; [assumption|]. apply In_scale. now exists q.
Qed.
Lemma In_dmap {A B} (b : B) r (g : A -> B) d : In (b, r) (dmap g d) <-> exists a, In (a, r) d /\ b = g a.
Proof.
  unfold dmap. rewrite in_map_iff. split.
  - intros [[a p] [H Hin]]. inversion H; subst. now exists a.
  - intros [a [Hin ->]]. now exists (a, r).
Qed.
Lemma In_ret {A} (a b : A) r : In (b, r) (ret a) <-> b = a /\ r = 1.
Proof. unfold ret; simpl. split; [intros [H|[]]; now inversion H|intros [-> ->]; now left]. Qed.

(* ---- mass ---- *)
Lemma mass_ret {A} (a : A) : mass (ret a) = 1.
Proof. unfold mass. now rewrite E_ret. Qed.
Lemma mass_dmap {A B} (g : A -> B) d : mass (dmap g d) = mass d.
Proof. unfold mass. now rewrite E_dmap. Qed.
Lemma mass_bind {A B} (d : dist A) (k : A -> dist B) :
  (forall a p, In (a, p) d -> mass (k a) = 1) -> mass (bind d k) = mass d.
Proof.
  intros H. unfold mass. rewrite E_bind. apply E_ext_in. intros a p Hin. apply (H a p Hin).
Qed.
Lemma mass_iid {A} K (d : dist A) : mass d = 1 -> mass (iid K d) = 1.
Proof.
  intros Hd. induction K; simpl; [apply mass_ret|].
  rewrite mass_bind; [assumption|]. intros. now rewrite mass_dmap.
Qed.
Lemma mass_mapM {A B} (k : A -> dist B) l : (forall a, In a l -> mass (k a) = 1) -> mass (mapM k l) = 1.
Proof.
  induction l; simpl; intros H; [apply mass_ret|].
  rewrite mass_bind; [apply H; now left|]. intros. rewrite mass_dmap. apply IHl. intros; apply H; now right.
Qed.

(* ---- naturals as rationals ---- *)
Lemma this0 : this 0 = 0%Q.
Proof. reflexivity. Qed.
Lemma Qc_of_nat_S n : Qc_of_nat (S n) = 1 + Qc_of_nat n.
Proof.
  unfold Qc_of_nat. apply Qc_is_canon.
  unfold Qcplus. unfold Q2Qc. cbn [this].
  rewrite !Qred_correct. rewrite Nat2Z.inj_succ.
  unfold Qeq, inject_Z, Qplus. cbn [Qnum Qden]. lia.
Qed.
Lemma Qc_of_nat_0 : Qc_of_nat 0 = 0.
Proof. apply Qc_is_canon. reflexivity. Qed.
Lemma Qc_of_nat_pos n : (0 < n)%nat -> 0 < Qc_of_nat n.
Proof.
  intros H. unfold Qclt. rewrite this0. unfold Qc_of_nat, Q2Qc. cbn [this]. rewrite Qred_correct.
  unfold Qlt, inject_Z. cbn [Qnum Qden]. lia.
Qed.

(* ---- positivity ---- *)
Lemma Qc_pos_plus a b : 0 < a -> 0 <= b -> 0 < a + b.
Proof.
  unfold Qclt, Qcle. rewrite this0. unfold Qcplus, Q2Qc. cbn [this]. rewrite Qred_correct. intros Ha Hb.
  apply Qlt_le_trans with (y := (this a + 0)%Q).
  - now rewrite Qplus_0_r.
  - apply Qplus_le_r. exact Hb.
Qed.
Lemma Qc_nonneg_plus a b : 0 <= a -> 0 <= b -> 0 <= a + b.
Proof.
  unfold Qcle. rewrite this0. unfold Qcplus, Q2Qc. cbn [this]. rewrite Qred_correct. intros Ha Hb.
  apply Qle_trans with (y := (this a + 0)%Q).
  - now rewrite Qplus_0_r.
  - apply Qplus_le_r. exact Hb.
Qed.
Lemma Qc_pos_mult a b : 0 < a -> 0 < b -> 0 < a * b.
Proof.
  unfold Qclt. rewrite this0. unfold Qcmult, Q2Qc. cbn [this]. rewrite Qred_correct. intros Ha Hb. now apply Qmult_lt_0_compat.
Qed.
Lemma Qc_pos_inv a : 0 < a -> 0 < / a.
Proof.
  unfold Qclt. rewrite this0. unfold Qcinv, Q2Qc. cbn [this]. rewrite Qred_correct. intros Ha. now apply Qinv_lt_0_compat.
Qed.
Lemma Qc_pos_nz a : 0 < a -> a <> 0.
Proof. intros H E0. rewrite E0 in H. now apply Qclt_not_eq in H. Qed.
Lemma Qc_of_nat_nz n : (0 < n)%nat -> Qc_of_nat n <> 0.
Proof. intros H. apply Qc_pos_nz. now apply Qc_of_nat_pos. Qed.
Lemma Qc_lt_le a b : a < b -> a <= b.
Proof. apply Qclt_le_weak. Qed.
Lemma sumQ_nonneg l : Forall (fun w => 0 < w) l -> 0 <= sumQ l.
Proof.
  induction 1; simpl; [apply Qcle_refl|]. apply Qc_nonneg_plus; [now apply Qc_lt_le|assumption].
Qed.
Lemma sumQ_pos l : l <> [] -> Forall (fun w => 0 < w) l -> 0 < sumQ l.
Proof.
  destruct l; [congruence|]. intros _ H. inversion H; subst. simpl.
  apply Qc_pos_plus; [assumption|now apply sumQ_nonneg].
Qed.

(* ---- K independent draws: linearity ---- *)
Lemma E_iid_sum {A} (g : A -> Qc) K (d : dist A) :
  mass d = 1 -> E (fun l => sumQ (map g l)) (iid K d) = Qc_of_nat K * E g d.
Proof.
  intros Hd. induction K.
  - simpl. rewrite E_ret, Qc_of_nat_0. simpl. ring.
  - simpl iid. rewrite E_bind.
    rewrite (E_ext _ (fun a => g a + Qc_of_nat K * E g d)).
    + rewrite E_plus, E_const, Hd, Qc_of_nat_S. ring.
    + intros a. rewrite E_dmap. simpl.
      rewrite E_plus, E_const, IHK. rewrite mass_iid by assumption. ring.
Qed.

Lemma iid_support {A} K (d : dist A) ps p :
  In (ps, p) (iid K d) -> length ps = K /\ Forall (fun a => exists q, In (a, q) d) ps.
Proof.
  revert ps p. induction K; simpl; intros ps p H.
  - apply In_ret in H. destruct H as [-> _]. split; [reflexivity|constructor].
  - apply In_bind in H. destruct H as [a [pa [q [Ha [H _]]]]].
    apply In_dmap in H. destruct H as [l [Hl ->]].
    destruct (IHK _ _ Hl) as [Hlen Hall]. split; [simpl; now rewrite Hlen|].
    constructor; [now exists pa|assumption].
Qed.

Lemma mapM_support {A B} (k : A -> dist B) l bs p :
  In (bs, p) (mapM k l) -> Forall2 (fun a b => exists q, In (b, q) (k a)) l bs.
Proof.
  revert bs p. induction l; simpl; intros bs p H.
  - apply In_ret in H. destruct H as [-> _]. constructor.
  - apply In_bind in H. destruct H as [b [pb [q [Hb [H _]]]]].
    apply In_dmap in H. destruct H as [r [Hr ->]].
    constructor; [now exists pb|]. eapply IHl; eauto.
Qed.

(* mapM of deterministic kernels is deterministic *)
Lemma mapM_ret {A B} (k : A -> dist B) (g : A -> B) l :
  (forall a, In a l -> k a = ret (g a)) -> forall f, E f (mapM k l) = f (map g l).
Proof.
  induction l; simpl; intros H f; [now rewrite E_ret|].
  rewrite (H a) by now left. rewrite E_bind, E_ret, E_dmap.
  rewrite IHl; [reflexivity|]. intros; apply H; now right.
Qed.

(* regrouping an expectation by the value of the output *)
Lemma E_regroup {X} (eqb : X -> X -> bool) (h : X -> Qc) (xs : list X) (d : dist (X * Qc)) :
  (forall a b, eqb a b = true <-> a = b) -> NoDup xs ->
  (forall ow p, In (ow, p) d -> In (fst ow) xs) ->
  E (fun ow => h (fst ow) * / snd ow) d = sumQ (map (fun x => h x * E (inv_on eqb x) d) xs).
Proof.
  intros Heq ND Hin. induction d as [|[[o w] p] d IH].
  - simpl. symmetry. apply sumQ_map_zero. intros. unfold E. simpl. ring.
  - rewrite E_cons, IH by (intros; eapply Hin; right; eauto). simpl fst; simpl snd.
    rewrite (sumQ_map_ext (fun x => h x * E (inv_on eqb x) ((o, w, p) :: d))
                          (fun x => (if eqb o x then h x * (/ w * p) else 0) + h x * E (inv_on eqb x) d)).
    + rewrite sumQ_map_plus. f_equal.
      assert (Ho : In o xs) by (apply (Hin (o, w) p); now left).
      rewrite (sumQ_single (fun x => eqb o x) (fun x => h x * (/ w * p)) o); auto.
      * ring.
      * now apply Heq.
      * intros a _ Ha. apply Heq in Ha. now subst.
    + intros x _. rewrite E_cons. unfold inv_on at 1. simpl. destruct (eqb o x); ring.
Qed.
