"""known-finding witness: ChangeTarget.run_smc hands `key` to prev.run_smc and then
splits the same `key` for the reweighting step, so a latent that is new in the
changed target is drawn with the PRNG key an old latent was drawn with (C26):
with Importance, the new latent z is drawn with key.0.1 -- the key x was drawn with;
with ImportanceK (K=2, a new latent inside a called function) particle 1's new latent
gets key.1.1.1 -- the key particle 1's x was drawn with.  Same key + same distribution
= same value: the draws are dependent, not fresh.
exit 1 if a new latent of a particle equals an old latent of that particle."""
import sys, jax, jax.numpy as jnp
from genjax import gen, normal, ChoiceMapBuilder as C
from genjax._src.generative_functions.distributions.distribution import exact_density
from genjax.inference import Target
from genjax.inference.smc import Importance, ImportanceK, ChangeTarget

# key-echo probe: the sample is (the low bits of) its own key; equal samples = same key
echo = exact_density(lambda key: (jax.random.key_data(key) % (2**20)).astype(jnp.float32),
                     lambda v: jnp.zeros(()), "echo")
@gen
def old():
    x = echo() @ "x"
    o = echo() @ "obs"
@gen
def new():
    z = echo() @ "z"       # a latent the old target does not have, traced first
    x = echo() @ "x"
    o = echo() @ "obs"
@gen
def inner():
    return echo() @ "u"
@gen
def new_nested():
    z = inner() @ "z"
    x = echo() @ "x"
    o = echo() @ "obs"
@gen
def old_n():
    x = normal(0.0, 1.0) @ "x"
    o = normal(x, 1.0) @ "obs"
@gen
def new_n():
    z = normal(0.0, 1.0) @ "z"
    x = normal(z, 1.0) @ "x"
    o = normal(x, 1.0) @ "obs"

obs = C.d({"obs": jnp.zeros(2)})
bad = []
for seed in range(3):
    key = jax.random.key(seed)
    pc = ChangeTarget(Importance(Target(old, (), obs)), Target(new, (), obs)).run_smc(key)
    ch = pc.get_particles().get_choices()
    for i in range(ch["x"].shape[0]):
        if bool(jnp.all(ch["x"][i] == ch["z"][i])):
            bad.append(("Importance", seed, i, [int(t) for t in ch["z"][i]]))
    pc = ChangeTarget(ImportanceK(Target(old, (), obs), None, 2), Target(new_nested, (), obs)).run_smc(key)
    ch = pc.get_particles().get_choices()
    for i in range(ch["x"].shape[0]):
        if bool(jnp.all(ch["x"][i] == ch["z", "u"][i])):
            bad.append(("ImportanceK", seed, i, [int(t) for t in ch["x"][i]]))
    # the same with real distributions: z ~ normal(0,1) comes out equal to the old x ~ normal(0,1)
    o1 = C["obs"].set(0.5)
    pc = ChangeTarget(Importance(Target(old_n, (), o1)), Target(new_n, (), o1)).run_smc(key)
    ch = pc.get_particles().get_choices()
    if float(ch["x"][0]) == float(ch["z"][0]):
        bad.append(("normal", seed, 0, float(ch["z"][0])))
print("FAIL" if bad else "OK", bad[:4])
sys.exit(1 if bad else 0)
