"""C08 — engine B-gfi (harness/bgfi.py); theorems in coq/props/C08.v."""
from . import bgfi


def run(ctx):
    bgfi.run_property(ctx, "C08", oracles=bgfi.PROP_ORACLES.get("C08"))


def replay(case):
    return bgfi.replay(case)
