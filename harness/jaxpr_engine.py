"""Engine A-jaxpr (C09, C36): random JAX-traceable functions from a grammar of jnp/lax
operations, their jaxprs serialised as Coq literals, and the REAL incremental / stateful
interpreters of genjax run on them.

A program is a JSON-able AST (so that a case replays alone):
  prog  = {"ik": [input kinds], "stmts": [stmt], "outs": [operand | special], "ostruct": str, "istruct": str}
  stmt  = {"op": name, "a": [...], "rk": [result kinds]}
  opnd  = ["x", i] (i-th value defined so far) | ["l", int] | ["lf", int] (Python int / float literal)
  kinds = "f" f32[]  "i" i32[]  "b" bool[]  "v" f32[3]  "w" bool[3]
  sub   = {"pk": [param kinds], "stmts": [...], "outs": [opnd], "ok": [out kinds]}   (may close over outer values)
All numbers are small integers, so float32 arithmetic is exact; a run whose float32 and
float64 evaluations differ, or that leaves the exact range, is dropped and counted.
"""
import os
import sys
import traceback

import numpy as np

NUMK = ("f", "i")
VLEN = 3
EXACT = 1 << 24


# ----------------------------------------------------------------------------
# generator
# ----------------------------------------------------------------------------
def _vars(kinds, want):
    return [i for i, k in enumerate(kinds) if k in want]


def _opnd(rng, kinds, want, lit=0.25):
    """an operand of one of the kinds in `want` (a variable, or a Python literal for f / i)"""
    c = _vars(kinds, want)
    can_lit = lit > 0 and ("f" in want or "i" in want)
    if c and not (can_lit and rng.random() < lit):
        nc = [i for i in c if i >= 3]          # values 0..2 are the closed-over constants
        return ["x", rng.choice(nc if nc and rng.random() < 0.8 else c)]
    if can_lit:
        if "f" in want and (("i" not in want) or rng.random() < 0.5):
            return ["lf", rng.randint(-2, 3)]
        return ["l", rng.randint(-2, 3)]
    return None


def _kind_of(o, kinds):
    return kinds[o[1]] if o[0] == "x" else ("f" if o[0] == "lf" else "i")


def _join(ks):
    if "v" in ks: return "v"
    if "f" in ks: return "f"
    return "i"


def gen_sub(rng, kinds, pk, ok, depth, nst=None):
    """a sub-program with parameters of kinds pk returning values of kinds ok"""
    inner = list(kinds) + list(pk)
    stmts = []
    for _ in range(rng.randint(1, 2) if nst is None else nst):
        st = gen_stmt(rng, inner, depth + 1, prefer=len(kinds))
        if st is None:
            continue
        stmts.append(st)
        inner += st["rk"]
    outs = []
    for k in ok:
        # prefer something computed inside / a parameter, else anything of a compatible kind
        want = {"f": ("f", "i"), "i": ("i",), "b": ("b",), "v": ("v", "f"), "w": ("w", "b")}[k]
        c = [i for i in _vars(inner, want) if i >= len(kinds)] or _vars(inner, want)
        if c and rng.random() < 0.9:
            outs.append(["x", c[-1] if rng.random() < 0.6 else rng.choice(c)])
        elif k in ("f", "i", "v"):
            outs.append(["l", rng.randint(-2, 2)])
        else:
            return None
    return {"pk": list(pk), "stmts": stmts, "outs": outs, "ok": list(ok)}


SIMPLE = ["bin", "bin", "bin", "un", "cmp", "where", "select", "cast", "idx", "dynidx", "dyn2", "slicesum",
          "red", "dot", "cumsum", "stack", "bcast", "clip", "logic", "not", "cvjp"]
STRUCT = ["cond", "switch", "scan", "fori", "foridyn", "while", "jit", "remat", "initial", "map"]


def gen_stmt(rng, kinds, depth, prefer=0, flat=False):
    for _ in range(30):
        structured = (not flat) and depth < 2 and rng.random() < (0.45 if depth == 0 else 0.2)
        op = rng.choice(STRUCT if structured else SIMPLE)
        st = _gen_op(rng, kinds, op, depth)
        if st is not None:
            return st
    return None


def _gen_op(rng, kinds, op, depth):
    num = ("f", "i")
    if op == "bin":
        a = _opnd(rng, kinds, ("f", "i", "v"), lit=0.2)
        b = _opnd(rng, kinds, ("f", "i", "v"), lit=0.3)
        if a[0] != "x" and b[0] != "x":
            return None
        f = rng.choice(["add", "sub", "mul", "max", "min", "add", "mul"])
        return {"op": "bin", "a": [f, a, b], "rk": [_join([_kind_of(a, kinds), _kind_of(b, kinds)])]}
    if op == "un":
        a = _opnd(rng, kinds, ("f", "i", "v"), lit=0)
        if a is None: return None
        f = rng.choice(["neg", "abs", "sign", "sq", "cube", "relu", "relu"])
        k = _kind_of(a, kinds)
        if f == "relu" and k == "i":
            f = "abs"
        return {"op": "un", "a": [f, a], "rk": [k]}
    if op == "cmp":
        a = _opnd(rng, kinds, ("f", "i", "v"), lit=0)
        if a is None: return None
        k = _kind_of(a, kinds)
        b = _opnd(rng, kinds, ("v", "f") if k == "v" else num, lit=0.5)
        kb = _kind_of(b, kinds)
        return {"op": "cmp", "a": [rng.choice(["lt", "le", "gt", "ge", "eq", "ne"]), a, b],
                "rk": ["w" if "v" in (k, kb) else "b"]}
    if op == "logic":
        a, b = _opnd(rng, kinds, ("b",), 0), _opnd(rng, kinds, ("b",), 0)
        if a is None: return None
        return {"op": "logic", "a": [rng.choice(["and", "or"]), a, b], "rk": ["b"]}
    if op == "not":
        a = _opnd(rng, kinds, ("b", "w"), 0)
        if a is None: return None
        return {"op": "not", "a": [a], "rk": [_kind_of(a, kinds)]}
    if op == "where":
        c = _opnd(rng, kinds, ("b", "w"), 0)
        if c is None: return None
        a = _opnd(rng, kinds, ("f", "i", "v"), lit=0.2)
        b = _opnd(rng, kinds, ("f", "i", "v"), lit=0.3)
        ks = [_kind_of(a, kinds), _kind_of(b, kinds)] + (["v"] if _kind_of(c, kinds) == "w" else [])
        return {"op": "where", "a": [c, a, b], "rk": [_join(ks)]}
    if op == "select":
        c = _opnd(rng, kinds, ("b",), 0)
        k = rng.choice(["f", "v", "i"])
        a, b = _opnd(rng, kinds, (k,), 0), _opnd(rng, kinds, (k,), 0)
        if c is None or a is None: return None
        return {"op": "select", "a": [c, a, b], "rk": [k]}
    if op == "cast":
        a = _opnd(rng, kinds, ("f", "i", "b"), 0)
        if a is None: return None
        k = "i" if _kind_of(a, kinds) == "f" else rng.choice(["f", "i"]) if _kind_of(a, kinds) == "b" else "f"
        return {"op": "cast", "a": [a, k], "rk": [k]}
    if op in ("idx", "slicesum", "red", "cumsum"):
        v = _opnd(rng, kinds, ("v",), 0)
        if v is None: return None
        if op == "idx": return {"op": "idx", "a": [v, rng.randint(-1, VLEN - 1)], "rk": ["f"]}
        if op == "slicesum":
            lo = rng.randint(0, VLEN - 1)
            return {"op": "slicesum", "a": [v, lo, rng.randint(lo + 1, VLEN)], "rk": ["f"]}
        if op == "red": return {"op": "red", "a": [rng.choice(["sum", "max", "min"]), v], "rk": ["f"]}
        return {"op": "cumsum", "a": [v], "rk": ["v"]}
    if op in ("dynidx", "dyn2"):
        v, i = _opnd(rng, kinds, ("v",), 0), _opnd(rng, kinds, ("i",), 0)
        if v is None or i is None: return None
        return {"op": op, "a": [v, i], "rk": ["f"]}
    if op == "dot":
        v, w = _opnd(rng, kinds, ("v",), 0), _opnd(rng, kinds, ("v",), 0)
        if v is None: return None
        return {"op": "dot", "a": [v, w], "rk": ["f"]}
    if op == "stack":
        xs = [_opnd(rng, kinds, ("f",), lit=0.2) for _ in range(VLEN)]
        if all(x[0] != "x" for x in xs): return None
        return {"op": "stack", "a": xs, "rk": ["v"]}
    if op == "bcast":
        a = _opnd(rng, kinds, ("f", "i"), 0)
        if a is None: return None
        return {"op": "bcast", "a": [a], "rk": ["v"]}
    if op == "clip":
        a = _opnd(rng, kinds, ("f", "i", "v"), 0)
        if a is None: return None
        lo = rng.randint(-2, 1)
        return {"op": "clip", "a": [a, lo, rng.randint(lo, 3)], "rk": [_kind_of(a, kinds)]}
    if op == "cvjp":
        a = _opnd(rng, kinds, ("f",), 0)
        if a is None: return None
        return {"op": "cvjp", "a": [a], "rk": ["f"]}
    # ---- structured ----
    if op == "cond":
        c = _opnd(rng, kinds, ("b",), 0)
        if c is None: return None
        nop = rng.randint(0, 2)
        ops = [_opnd(rng, kinds, ("f", "i", "v"), 0) for _ in range(nop)]
        if any(o is None for o in ops): return None
        pk = [_kind_of(o, kinds) for o in ops]
        ok = [rng.choice(["f", "f", "i", "v"]) for _ in range(rng.randint(1, 2))]
        st, sf = gen_sub(rng, kinds, pk, ok, depth), gen_sub(rng, kinds, pk, ok, depth)
        if st is None or sf is None: return None
        return {"op": "cond", "a": [c, st, sf, ops], "rk": ok}
    if op == "switch":
        i = _opnd(rng, kinds, ("i",), 0)
        if i is None: return None
        ops = [o for o in [_opnd(rng, kinds, ("f", "i"), 0) for _ in range(rng.randint(0, 1))] if o]
        pk = [_kind_of(o, kinds) for o in ops]
        ok = [rng.choice(["f", "i"])]
        subs = [gen_sub(rng, kinds, pk, ok, depth, nst=1) for _ in range(rng.randint(2, 3))]
        if any(s is None for s in subs): return None
        return {"op": "switch", "a": [i, subs, ops], "rk": ok}
    if op == "scan":
        ck = [rng.choice(["f", "f", "i"]) for _ in range(rng.randint(1, 2))]
        init = [_opnd(rng, kinds, (k,), lit=0.3) for k in ck]
        xs = _opnd(rng, kinds, ("v",), 0) if rng.random() < 0.7 else None
        yk = [rng.choice(["f", "i"]) for _ in range(rng.randint(0, 1))]
        sub = gen_sub(rng, kinds, ck + (["f"] if xs else []), ck + yk, depth)
        if sub is None: return None
        length = VLEN if xs else rng.randint(0, 3)
        return {"op": "scan", "a": [sub, init, xs, length, rng.random() < 0.25],
                "rk": ck + [("v" if (k == "f" and length == VLEN) else "vo") for k in yk]}   # "vo": a vector nothing else consumes
    if op == "map":
        xs = _opnd(rng, kinds, ("v",), 0)
        if xs is None: return None
        sub = gen_sub(rng, kinds, ["f"], ["f"], depth)
        if sub is None: return None
        return {"op": "map", "a": [sub, xs], "rk": ["v"]}
    if op in ("fori", "foridyn"):
        ck = rng.choice(["f", "i"])
        init = _opnd(rng, kinds, (ck,), lit=0.3)
        sub = gen_sub(rng, kinds, ["i", ck], [ck], depth)
        if sub is None: return None
        if op == "fori":
            return {"op": "fori", "a": [rng.randint(0, 3), sub, init], "rk": [ck]}
        n = _opnd(rng, kinds, ("i",), 0)
        if n is None: return None
        return {"op": "foridyn", "a": [n, sub, init], "rk": [ck]}
    if op == "while":
        ck = [rng.choice(["f", "i"]) for _ in range(rng.randint(1, 2))]
        init = [_opnd(rng, kinds, (k,), lit=0.3) for k in ck]
        sub = gen_sub(rng, kinds, ["i"] + ck, ck, depth)
        if sub is None: return None
        extra = rng.random() < 0.4       # extra data-dependent exit condition
        return {"op": "while", "a": [rng.randint(0, 3), sub, init, extra, rng.randint(-3, 6)], "rk": ["i"] + ck}
    if op in ("jit", "remat", "initial"):
        ops = [o for o in [_opnd(rng, kinds, ("f", "i", "v"), 0) for _ in range(rng.randint(1, 2))] if o]
        if not ops: return None
        pk = [_kind_of(o, kinds) for o in ops]
        ok = [rng.choice(["f", "i", "v"]) for _ in range(rng.randint(1, 2))]
        sub = gen_sub(rng, kinds, pk, ok, depth)
        if sub is None: return None
        return {"op": op, "a": [sub, ops], "rk": ok}
    raise ValueError(op)


def gen_prog(rng, nst, wide=False):
    """wide: a long straight-line program (many live variables, long live ranges, no control flow)"""
    n_in = rng.choice([1, 2, 2, 3, 3])
    ik = [rng.choice(["f", "f", "i", "v"]) for _ in range(n_in)]
    # closed-over constants come first in the value list: CV f32[3], CS f32[] (arrays), then inputs
    kinds = ["v", "f", "i"] + ik
    stmts = []
    for _ in range(nst):
        st = gen_stmt(rng, kinds, 0, flat=wide)
        if st is None: continue
        stmts.append(st)
        kinds += st["rk"]
    outs = []
    nout = rng.randint(3, 6) if wide else rng.randint(1, 4)
    defined = list(range(3 + n_in, len(kinds)))
    for _ in range(nout):
        r = rng.random()
        if defined and r < 0.6:
            outs.append(["x", rng.choice(defined[-4:] if (rng.random() < 0.7 and not wide) else defined)])
        elif r < 0.72:
            outs.append(["x", 3 + rng.randrange(n_in)])            # an input passed through
        elif r < 0.8:
            outs.append(["x", rng.randrange(3)])                   # a closed-over constant
        elif r < 0.88:
            outs.append([rng.choice(["l", "lf"]), rng.randint(-2, 3)])   # Python literal
        elif r < 0.94:
            outs.append([rng.choice(["npf", "jnf", "npi"]), rng.randint(-2, 3)])  # numpy / jnp scalar
        elif outs:
            outs.append(list(outs[0]))                             # the same output twice
        else:
            outs.append(["x", 3 + rng.randrange(n_in)])
    return {"ik": ik, "stmts": stmts, "outs": outs,
            "ostruct": rng.choice(["flat", "flat", "dict", "nest"]),
            "istruct": "pair" if n_in >= 2 and rng.random() < 0.25 else "flat"}


def gen_value(rng, k, lo=-3, hi=3):
    if k == "v":
        return [rng.randint(lo, hi) for _ in range(VLEN)]
    return rng.randint(lo, hi)


# ----------------------------------------------------------------------------
# realising a program as a Python function over jnp / lax
# ----------------------------------------------------------------------------
_CONSTS = None
_PRIM = None
_CVJP = None
_X64 = False      # set only inside exact_guard: the same program evaluated in float64 / int64


def _fd():
    import jax.numpy as jnp
    return jnp.float64 if _X64 else jnp.float32


def _id():
    import jax.numpy as jnp
    return jnp.int64 if _X64 else jnp.int32


_CONSTS64 = None


def _setup():
    """closed-over constants (float32 / int32, or their 64-bit twins inside exact_guard), the
    InitialStylePrimitive instance and the custom_vjp function the grammar uses"""
    global _CONSTS, _PRIM, _CVJP, _CONSTS64
    import jax
    import jax.numpy as jnp
    if _CONSTS is None:
        from genjax._src.core.compiler.initial_style_primitive import InitialStylePrimitive
        _CONSTS = (jnp.array([1.0, -2.0, 3.0], dtype=jnp.float32), jnp.array(2.0, dtype=jnp.float32),
                   jnp.array(1, dtype=jnp.int32))
        _PRIM = InitialStylePrimitive("verif_initial_style")

        @jax.custom_vjp
        def cv(x):
            return x * 2 - 1
        cv.defvjp(lambda x: (x * 2 - 1, None), lambda r, g: (g * 2,))
        _CVJP = cv
    if _X64:
        if _CONSTS64 is None:
            _CONSTS64 = (jnp.array([1.0, -2.0, 3.0], dtype=jnp.float64), jnp.array(2.0, dtype=jnp.float64),
                         jnp.array(1, dtype=jnp.int64))
        return _CONSTS64
    return _CONSTS


def _coerce(x, k):
    import jax.numpy as jnp
    if k == "f": return jnp.asarray(x, dtype=_fd())
    if k == "i": return jnp.asarray(x, dtype=_id())
    if k == "b": return jnp.asarray(x, dtype=jnp.bool_)
    if k == "v": return jnp.broadcast_to(jnp.asarray(x, dtype=_fd()), (VLEN,))
    if k == "vi": return jnp.broadcast_to(jnp.asarray(x, dtype=_id()), (VLEN,))
    if k == "w": return jnp.broadcast_to(jnp.asarray(x, dtype=jnp.bool_), (VLEN,))
    raise ValueError(k)


def _val(o, vals):
    if o[0] == "x": return vals[o[1]]
    if o[0] == "l": return int(o[1])
    if o[0] == "lf": return float(o[1])
    raise ValueError(o)


def _subfn(sub, outer):
    def fn(*params):
        vals = list(outer) + list(params)
        _exec(sub["stmts"], vals)
        return tuple(_coerce(_val(o, vals), k) for o, k in zip(sub["outs"], sub["ok"]))
    return fn


def _exec(stmts, vals):
    import jax
    import jax.numpy as jnp
    from jax import lax
    for st in stmts:
        op, a = st["op"], st["a"]
        V = lambda o: _val(o, vals)
        if op == "bin":
            f = {"add": jnp.add, "sub": jnp.subtract, "mul": jnp.multiply, "max": jnp.maximum, "min": jnp.minimum}[a[0]]
            r = [f(V(a[1]), V(a[2]))]
        elif op == "un":
            x = V(a[1])
            r = [{"neg": lambda: -x, "abs": lambda: jnp.abs(x), "sign": lambda: jnp.sign(x), "sq": lambda: x ** 2,
                  "cube": lambda: lax.integer_pow(x, 3), "relu": lambda: jax.nn.relu(x)}[a[0]]()]
        elif op == "cmp":
            x, y = V(a[1]), V(a[2])
            r = [{"lt": lambda: x < y, "le": lambda: x <= y, "gt": lambda: x > y, "ge": lambda: x >= y,
                  "eq": lambda: x == y, "ne": lambda: x != y}[a[0]]()]
        elif op == "logic":
            r = [jnp.logical_and(V(a[1]), V(a[2])) if a[0] == "and" else jnp.logical_or(V(a[1]), V(a[2]))]
        elif op == "not":
            r = [jnp.logical_not(V(a[0]))]
        elif op == "where":
            r = [jnp.where(V(a[0]), V(a[1]), V(a[2]))]
        elif op == "select":
            r = [lax.select(V(a[0]), V(a[1]), V(a[2]))]
        elif op == "cast":
            r = [V(a[0]).astype(_id() if a[1] == "i" else _fd())]
        elif op == "idx":
            r = [V(a[0])[a[1]]]
        elif op == "dynidx":
            r = [V(a[0])[V(a[1])]]
        elif op == "dyn2":
            r = [lax.dynamic_index_in_dim(V(a[0]), V(a[1]), keepdims=False)]
        elif op == "slicesum":
            r = [jnp.sum(V(a[0])[a[1]:a[2]])]
        elif op == "red":
            r = [{"sum": jnp.sum, "max": jnp.max, "min": jnp.min}[a[0]](V(a[1]))]
        elif op == "dot":
            r = [jnp.dot(V(a[0]), V(a[1]))]
        elif op == "cumsum":
            r = [jnp.cumsum(V(a[0]))]
        elif op == "stack":
            r = [jnp.stack([jnp.asarray(V(o), dtype=_fd()) for o in a])]
        elif op == "bcast":
            r = [jnp.broadcast_to(V(a[0]).astype(_fd()), (VLEN,))]
        elif op == "clip":
            r = [jnp.clip(V(a[0]), a[1], a[2])]
        elif op == "cvjp":
            r = [_CVJP(V(a[0]))]
        elif op == "cond":
            r = list(lax.cond(V(a[0]), _subfn(a[1], vals), _subfn(a[2], vals), *[V(o) for o in a[3]]))
        elif op == "switch":
            r = list(lax.switch(V(a[0]), [_subfn(s, vals) for s in a[1]], *[V(o) for o in a[2]]))
        elif op == "scan":
            sub, init, xs, length, rev = a
            nc = len(init)
            f = _subfn(sub, vals)

            def body(carry, x, f=f, nc=nc, has=xs is not None):
                out = f(*carry, x) if has else f(*carry)
                return tuple(out[:nc]), tuple(out[nc:])
            c0 = tuple(_coerce(V(o), k) for o, k in zip(init, sub["ok"][:nc]))
            cf, ys = lax.scan(body, c0, V(xs) if xs is not None else None, length=length, reverse=bool(rev))
            r = list(cf) + list(ys)
        elif op == "map":
            f = _subfn(a[0], vals)
            r = [lax.map(lambda x: f(x)[0], V(a[1]))]
        elif op in ("fori", "foridyn"):
            f = _subfn(a[1], vals)
            k = a[1]["ok"][0]
            hi = a[0] if op == "fori" else jnp.clip(V(a[0]), 0, 3)
            r = [lax.fori_loop(0, hi, lambda t, s: f(jnp.asarray(t, dtype=_id()), s)[0], _coerce(V(a[2]), k))]
        elif op == "while":
            bound, sub, init, extra, lim = a
            f = _subfn(sub, vals)
            s0 = (jnp.asarray(0, dtype=_id()),) + tuple(_coerce(V(o), k) for o, k in zip(init, sub["ok"]))

            def cnd(s, extra=extra, bound=bound, lim=lim):
                c = s[0] < bound
                return jnp.logical_and(c, s[1] != lim) if extra else c
            r = list(lax.while_loop(cnd, lambda s: (s[0] + 1,) + tuple(f(*s)), s0))
        elif op == "jit":
            r = list(jax.jit(_subfn(a[0], vals))(*[V(o) for o in a[1]]))
        elif op == "remat":
            r = list(jax.checkpoint(_subfn(a[0], vals))(*[V(o) for o in a[1]]))
        elif op == "initial":
            from genjax._src.core.compiler.initial_style_primitive import initial_style_bind
            r = list(initial_style_bind(_PRIM)(_subfn(a[0], vals))(*[V(o) for o in a[1]]))
        elif op == "call":       # the wrapped function of an "initial" statement called directly (see inline_initial)
            r = list(_subfn(a[0], vals)(*[V(o) for o in a[1]]))
        else:
            raise ValueError(op)
        vals.extend(r)


def has_swappable(prog):
    """a top-level add / mul / max statement: the primitives the "swap" handler takes over"""
    return any(st["op"] == "bin" and st["a"][0] in ("add", "mul", "max") for st in prog["stmts"])


def has_initial(x):
    if isinstance(x, dict):
        return x.get("op") == "initial" or any(has_initial(v) for v in x.values())
    if isinstance(x, list):
        return any(has_initial(v) for v in x)
    return False


def inline_initial(x):
    """the same program with every InitialStylePrimitive call replaced by a call of its wrapped function"""
    if isinstance(x, dict):
        y = {k: inline_initial(v) for k, v in x.items()}
        if y.get("op") == "initial":
            y["op"] = "call"
        return y
    if isinstance(x, list):
        return [inline_initial(v) for v in x]
    return x


def build_fn(prog):
    """the Python function of a program; its positional arguments follow prog["istruct"]"""
    import jax.numpy as jnp
    _setup()

    def flat_fn(*xs):
        vals = list(_setup()) + list(xs)      # looked up at call time: float64 twins inside exact_guard
        _exec(prog["stmts"], vals)
        outs = []
        for o in prog["outs"]:
            if o[0] == "npf": outs.append(np.float32(o[1]))
            elif o[0] == "npi": outs.append(np.int32(o[1]))
            elif o[0] == "jnf": outs.append(jnp.asarray(o[1], dtype=_fd()))
            else: outs.append(_val(o, vals))
        s = prog["ostruct"]
        if s == "dict":
            return {f"o{i}": v for i, v in enumerate(outs)}
        if s == "nest" and len(outs) >= 2:
            return (outs[0], tuple(outs[1:]))
        return tuple(outs)

    if prog["istruct"] == "pair":
        return lambda p, *rest: flat_fn(p[0], p[1], *rest)
    return flat_fn


def pack_inputs(prog, leaves):
    """leaves (one per input) -> the positional arguments of build_fn(prog)"""
    leaves = list(leaves)
    if prog["istruct"] == "pair":
        return ((leaves[0], leaves[1]),) + tuple(leaves[2:])
    return tuple(leaves)


def to_array(k, v, x64=False):
    import jax.numpy as jnp
    if x64:
        return jnp.asarray(v, dtype=jnp.float64 if k in ("f", "v") else jnp.int64)
    return jnp.asarray(v, dtype=jnp.float32 if k in ("f", "v") else jnp.int32)


# ----------------------------------------------------------------------------
# canonical values
# ----------------------------------------------------------------------------
class Inexact(Exception):
    pass


def canon(x):
    """observable value -> int | [int] ; bool as 0/1"""
    a = np.asarray(x)
    if a.ndim > 1:
        raise Inexact(f"rank {a.ndim}")
    if a.dtype == np.bool_:
        a = a.astype(np.int64)
    elif np.issubdtype(a.dtype, np.floating):
        if not np.all(np.isfinite(a)) or not np.all(a == np.round(a)) or np.any(np.abs(a) >= EXACT):
            raise Inexact(str(a))
        a = a.astype(np.int64)
    elif np.issubdtype(a.dtype, np.integer):
        if np.any(np.abs(a.astype(np.int64)) >= EXACT):
            raise Inexact(str(a))
        a = a.astype(np.int64)
    else:
        raise Inexact(f"dtype {a.dtype}")
    return [int(t) for t in a] if a.ndim == 1 else int(a)


def sig(x):
    """dtype/shape signature of an observable (compared by the direct oracle only)"""
    a = np.asarray(x)
    return f"{a.dtype}{list(a.shape)}"


# ----------------------------------------------------------------------------
# serialising a jaxpr as a Coq term (fail-closed on anything unknown)
# ----------------------------------------------------------------------------
class Unsupported(Exception):
    pass


def cz(z):
    z = int(z)
    return f"({z})" if z < 0 else str(z)


def c_val(v):
    return "(VV [" + "; ".join(cz(t) for t in v) + "])" if isinstance(v, list) else f"(VS {cz(v)})"


def c_list(xs):
    return "[" + "; ".join(xs) + "]"


class Ser:
    def __init__(self):
        self.idx = {}        # var.count -> index (the key genjax's Environment uses)
        self.obj = {}        # var.count -> id(var): distinct Var objects sharing a count are reported
        self.collisions = 0
        self.prims = {}
        self.neqn = 0
        self.nlit = 0
        self.ndrop = 0

    def atom(self, v):
        import jax.core as jc
        from jax.extend.core import Literal
        if isinstance(v, Literal):
            self.nlit += 1
            return f"ALit {c_val(canon(v.val))}"
        if isinstance(v, jc.DropVar):
            self.ndrop += 1
            return "ADrop"
        if getattr(v.aval, "ndim", 0) > 1:
            raise Unsupported(f"rank-{v.aval.ndim} variable")
        c = v.count
        if c not in self.idx:
            self.idx[c] = len(self.idx)
            self.obj[c] = id(v)
        elif self.obj[c] != id(v):
            self.collisions += 1
        return f"AVar {self.idx[c]}%nat"

    def closed(self, cj):
        return self.jaxpr(cj.jaxpr), c_list([c_val(canon(c)) for c in cj.consts])

    def jaxpr(self, j):
        cv = c_list([self.atom(v) for v in j.constvars])
        iv = c_list([self.atom(v) for v in j.invars])
        eqs = c_list([self.eqn(e) for e in j.eqns])
        ov = c_list([self.atom(v) for v in j.outvars])
        return f"(mkJaxpr {cv} {iv} {eqs} {ov})"

    def eqn(self, e):
        self.neqn += 1
        p = self.prim(e)
        return f"mkEqn {p} {c_list([self.atom(v) for v in e.invars])} {c_list([self.atom(v) for v in e.outvars])}"

    def prim(self, e):
        from genjax._src.core.compiler.initial_style_primitive import InitialStylePrimitive
        name, P = e.primitive.name, e.params
        key = "initial_style" if isinstance(e.primitive, InitialStylePrimitive) else name
        self.prims[key] = self.prims.get(key, 0) + 1
        dt = [getattr(v.aval, "dtype", None) for v in e.invars]
        shp = [tuple(getattr(v.aval, "shape", ())) for v in e.invars]
        oshp = [tuple(getattr(v.aval, "shape", ())) for v in e.outvars]
        if isinstance(e.primitive, InitialStylePrimitive):
            impl = P["impl"]
            cells = dict(zip(impl.__code__.co_freevars, impl.__closure__))
            cj = cells["jaxpr"].cell_contents
            if len(cj.jaxpr.constvars) != P["num_consts"]:
                raise Unsupported("initial-style: num_consts differs from the wrapped jaxpr's constvars")
            return f"(PInitial {self.jaxpr(cj.jaxpr)} {P['num_consts']}%nat)"
        simple = {"add": "PAdd", "sub": "PSub", "mul": "PMul", "neg": "PNeg", "max": "PMax", "min": "PMin",
                  "abs": "PAbs", "sign": "PSign", "select_n": "PSelectN", "clamp": "PClamp",
                  "copy": "PId", "copy_p": "PId"}
        if name in simple:
            return simple[name]
        if name in ("and", "or", "not"):
            if any(d != np.bool_ for d in dt):
                raise Unsupported(f"{name} on non-bool")
            return {"and": "PAnd", "or": "POr", "not": "PNot"}[name]
        if name in ("lt", "le", "gt", "ge", "eq", "ne"):
            return f"(PCmp C{name.capitalize()})"
        if name == "integer_pow":
            if P["y"] < 0: raise Unsupported("negative power")
            return f"(PIntPow {P['y']}%nat)"
        if name == "convert_element_type":
            return "PToBool" if P["new_dtype"] == np.bool_ else "PId"
        if name == "slice":
            if len(shp[0]) != 1 or (P["strides"] not in (None, (1,))): raise Unsupported("slice")
            return f"(PSlice {P['start_indices'][0]}%nat {P['limit_indices'][0]}%nat)"
        if name == "squeeze":
            if shp[0] != (1,) or tuple(P["dimensions"]) != (0,): raise Unsupported("squeeze")
            return "PSqueeze"
        if name == "dynamic_slice":
            if len(shp[0]) != 1: raise Unsupported("dynamic_slice")
            return f"(PDynSlice {P['slice_sizes'][0]}%nat)"
        if name == "broadcast_in_dim":
            s = tuple(P["shape"])
            if len(s) > 1: raise Unsupported("broadcast_in_dim")
            return "(PBroadcast None)" if s == () else f"(PBroadcast (Some {s[0]}%nat))"
        if name == "reshape":
            s = tuple(P["new_sizes"])
            if len(s) > 1 or P.get("dimensions") is not None: raise Unsupported("reshape")
            return "(PReshape None)" if s == () else f"(PReshape (Some {s[0]}%nat))"
        if name in ("reduce_sum", "reduce_max", "reduce_min"):
            if len(shp[0]) != 1 or tuple(P["axes"]) != (0,): raise Unsupported(name)
            return {"reduce_sum": "PReduceSum", "reduce_max": "PReduceMax", "reduce_min": "PReduceMin"}[name]
        if name == "dot_general":
            if shp != [(shp[0][0],), (shp[0][0],)] or P["dimension_numbers"] != (((0,), (0,)), ((), ())):
                raise Unsupported("dot_general")
            return "PDot"
        if name == "cumsum":
            if len(shp[0]) != 1: raise Unsupported("cumsum")
            return f"(PCumsum {'true' if P['reverse'] else 'false'})"
        if name == "concatenate":
            if any(len(s) != 1 for s in shp): raise Unsupported("concatenate")
            return "PConcat"
        if name == "iota":
            if len(P["shape"]) != 1: raise Unsupported("iota")
            return f"(PIota {P['shape'][0]}%nat)"
        if name in ("pjit", "closed_call", "core_closed_call"):
            j, cs = self.closed(P["jaxpr"] if "jaxpr" in P else P["call_jaxpr"])
            return f"(PCall {j} {cs})"
        if name == "custom_jvp_call":
            j, cs = self.closed(P["call_jaxpr"])
            return f"(PCall {j} {cs})"
        if name == "custom_vjp_call_jaxpr":
            j, cs = self.closed(P["fun_jaxpr"])
            return f"(PCall {j} {cs})"
        if name in ("remat2", "checkpoint", "remat"):
            return f"(PCall {self.jaxpr(P['jaxpr'])} [])"
        if name == "cond":
            brs = [self.closed(b) for b in P["branches"]]
            return "(PCond " + c_list([f"({j}, {cs})" for j, cs in brs]) + ")"
        if name == "scan":
            j, cs = self.closed(P["jaxpr"])
            return (f"(PScan {j} {cs} {P['length']}%nat {P['num_consts']}%nat {P['num_carry']}%nat "
                    f"{'true' if P['reverse'] else 'false'})")
        if name == "while":
            cj, ccs = self.closed(P["cond_jaxpr"])
            bj, bcs = self.closed(P["body_jaxpr"])
            return f"(PWhile {cj} {ccs} {bj} {bcs} {P['cond_nconsts']}%nat {P['body_nconsts']}%nat)"
        raise Unsupported(f"primitive {name}")


# ----------------------------------------------------------------------------
# running one case on the implementation
# ----------------------------------------------------------------------------
TAGC = {"N": "NoChange", "U": "UnknownChange"}
SHAPEC = {"N": "(SDiff NoChange)", "U": "(SDiff UnknownChange)", "R": "SRaw"}
HK = {"none": "HNone", "null": "HNull", "swap": "HSwap"}


def _handlers():
    from jax import lax
    from genjax._src.core.compiler.interpreters.stateful import StatefulHandler
    from genjax._src.core.compiler.interpreters.incremental import Diff, UnknownChange

    class Null(StatefulHandler):
        def handles(self, primitive): return False
        def dispatch(self, primitive, *args, **kwargs): raise AssertionError("null handler dispatched")

    swap = {lax.add_p: lax.sub, lax.mul_p: lax.add, lax.max_p: lax.min}

    class SwapS(StatefulHandler):
        def handles(self, primitive): return primitive in swap
        def dispatch(self, primitive, *args, **kwargs): return swap[primitive](*args)

    class SwapI(StatefulHandler):
        def handles(self, primitive): return primitive in swap
        def dispatch(self, primitive, *args, **kwargs):
            return Diff(swap[primitive](*[a.get_primal() for a in args]), UnknownChange)
    return Null, SwapS, SwapI


def flat_direct(out):
    import jax.tree_util as jtu
    leaves, tree = jtu.tree_flatten(out)
    return leaves, str(tree)


def run_incremental(prog, leaves, tags, h):
    """incremental(f)(handler, primals, tangents) on /repo's code.
    returns ("ok", [(value, N|U|R)], [signatures], treedef) or ("err", exception type)"""
    import jax.tree_util as jtu
    from genjax._src.core.compiler.interpreters.incremental import incremental, Diff, NoChange, UnknownChange, _NoChange
    Null, SwapS, SwapI = _handlers()
    f = build_fn(prog)
    handler = {"none": None, "null": Null(), "swap": SwapI()}[h]
    T = {"N": NoChange, "U": UnknownChange}
    tg = pack_inputs(prog, [T[t] for t in tags]) if len(tags) == len(prog["ik"]) else tuple(T[t] for t in tags)
    if (len(tags) + tags.count("U")) % 2:
        # the tags as any pytree operation hands them on (tree_map / flatten+unflatten / a jit, vmap or scan boundary):
        # equal to the module-level NoChange / UnknownChange, but fresh instances, not the same objects
        tg = jtu.tree_map(lambda x: x, tg)
    try:
        out = incremental(f)(handler, pack_inputs(prog, leaves), tg)
    except Inexact:
        raise
    except Exception as e:
        return ("err", type(e).__name__ + ": " + str(e)[:200])
    flat, tree = jtu.tree_flatten(out, is_leaf=lambda v: isinstance(v, Diff))
    obs, sigs = [], []
    for v in flat:
        if isinstance(v, Diff):
            obs.append((canon(v.get_primal()), "N" if isinstance(v.get_tangent(), _NoChange) else "U"))
            sigs.append(sig(v.get_primal()))
        else:
            obs.append((canon(v), "R"))
            sigs.append(sig(v))
    return ("ok", obs, sigs, str(tree))


def run_stateful(prog, leaves, h):
    import jax.tree_util as jtu
    from genjax._src.core.compiler.interpreters.stateful import stateful
    Null, SwapS, SwapI = _handlers()
    f = build_fn(prog)
    handler = {"null": Null(), "swap": SwapS()}[h]
    try:
        out = stateful(f)(handler, *pack_inputs(prog, leaves))
    except Exception as e:
        return ("err", type(e).__name__ + ": " + str(e)[:200])
    flat, tree = jtu.tree_flatten(out)
    return ("ok", [canon(v) for v in flat], [sig(v) for v in flat], str(tree))


def oracle_prog(prog):
    """the function ordinary evaluation runs: JAX only -- a genjax InitialStylePrimitive call is
    replaced by a plain call of the function it wraps"""
    return inline_initial(prog) if has_initial(prog) else prog


def run_direct(prog, leaves):
    out = build_fn(oracle_prog(prog))(*pack_inputs(prog, leaves))
    flat, tree = flat_direct(out)
    return [canon(v) for v in flat], [sig(v) for v in flat], tree


def exact_guard(prog, vals, jd=None):
    """ordinary evaluation f( *xs) in float32 (eager: values, types, structure), checked against the
    same program evaluated in float64 / int64 (under jit): equal results = the exact integer result"""
    a32 = [to_array(k, v) for k, v in zip(prog["ik"], vals)]
    d32, s32, t32 = run_direct(prog, a32)
    d64 = jd.run64(vals) if jd is not None else run_direct64(prog, vals)
    if d64 != d32:
        raise Inexact("float32 and float64 evaluations differ")
    return d32, s32, t32


def run_direct64(prog, vals, jf=None):
    import jax
    global _X64
    try:
        with jax.experimental.enable_x64():
            _X64 = True
            _setup()          # create the 64-bit constants outside of any trace
            a64 = [to_array(k, v, x64=True) for k, v in zip(prog["ik"], vals)]
            out = (jf or jax.jit(build_fn(oracle_prog(prog))))(*pack_inputs(prog, a64))
            flat, _ = flat_direct(out)
            return [canon(v) for v in flat]
    finally:
        _X64 = False


def jit_direct(prog):
    """f under jax.jit (float32, and float64 for the exactness guard), for evaluating many
    perturbed inputs cheaply; values only"""
    import jax
    jf, jf64 = jax.jit(build_fn(oracle_prog(prog))), jax.jit(build_fn(oracle_prog(prog)))

    def run(vals):
        leaves = [to_array(k, v) for k, v in zip(prog["ik"], vals)]
        flat, _ = flat_direct(jf(*pack_inputs(prog, leaves)))
        d = [canon(v) for v in flat]
        if run_direct64(prog, vals, jf64) != d:
            raise Inexact("float32 and float64 evaluations differ")
        return d
    run.run64 = lambda vals: run_direct64(prog, vals, jf64)
    return run


def stage_and_serialise(prog, leaves):
    """the jaxpr genjax's own `stage` produces for the function, as a Coq term"""
    from genjax._src.core.compiler.staging import stage
    f = build_fn(prog)
    closed, (flat_args, _, _) = stage(f)(*pack_inputs(prog, leaves))
    s = Ser()
    term = s.jaxpr(closed.jaxpr)
    consts = c_list([c_val(canon(c)) for c in closed.literals])
    return term, consts, s


def c_args(prog, vals):
    return c_list([c_val(v) for v in vals])


def c_obs(obs):
    return "(Some " + c_list([f"({c_val(v)}, {SHAPEC[t]})" for v, t in obs]) + ")"


def c_vals(vs):
    return "(Some " + c_list([c_val(v) for v in vs]) + ")"


# ---- C09 ------------------------------------------------------------------------
def incr_oracle(prog, vals, tags, h, res, perturbs, direct=None, jd=None, rerun=True):
    """the property on the implementation, without the model.  Returns a description or None."""
    leaves = [to_array(k, v) for k, v in zip(prog["ik"], vals)]
    direct, dsig, dtree = direct or run_direct(prog, leaves)
    if res[0] != "ok":
        return f"incremental(f) raised {res[1]} where f(*xs) evaluates"
    _, obs, sigs, tree = res
    if [v for v, _ in obs] != direct:
        return f"primal outputs {[v for v, _ in obs]} differ from ordinary evaluation {direct}"
    if sigs != dsig:
        return f"primal output types {sigs} differ from ordinary evaluation {dsig}"
    if tree != dtree:
        return f"output structure {tree} differs from ordinary evaluation {dtree}"
    jd = jd or jit_direct(prog)
    for n, pv in enumerate(perturbs):
        if any(t == "N" and a != b for t, a, b in zip(tags, vals, pv)):
            raise ValueError("perturbation touches a NoChange input")
        try:
            pdirect = jd(pv)
        except Inexact:
            continue
        for k, ((v, t), w) in enumerate(zip(obs, pdirect)):
            if t in ("N", "R") and v != w:
                return (f"output {k} is tagged {'NoChange' if t == 'N' else 'as a constant (not a Diff)'} with value {v}, "
                        f"but changing only UnknownChange inputs {vals} -> {pv} changes it to {w}")
        if n == 0 and rerun:
            pleaves = [to_array(k, v) for k, v in zip(prog["ik"], pv)]
            pres = run_incremental(prog, pleaves, tags, h)
            if pres[0] != "ok":
                return f"incremental(f) raised {pres[1]} on inputs {pv}"
            if [t for _, t in pres[1]] != [t for _, t in obs]:
                return f"tags depend on values: {[t for _, t in obs]} at {vals}, {[t for _, t in pres[1]]} at {pv}"
            if [v for v, _ in pres[1]] != pdirect:
                return f"primal outputs {[v for v, _ in pres[1]]} at {pv} differ from ordinary evaluation {pdirect}"
    return None


def run_incr_case(case):
    """one function, one input point, several taggings.  Returns a dict for p_C09."""
    prog, vals = case["prog"], case["vals"]
    out = {"terms": [], "metas": [], "oracle": [], "skip": None, "stats": {}}
    try:
        leaves = [to_array(k, v) for k, v in zip(prog["ik"], vals)]
        jd = jit_direct(prog)
        try:
            direct, dsig, dtree = exact_guard(prog, vals, jd)
        except Inexact as e:
            out["skip"] = f"inexact: {e}"
            return out
        try:
            jterm, cterm, ser = stage_and_serialise(prog, leaves)
        except (Inexact, Unsupported):
            raise
        except Exception as e:
            # genjax's own `stage` (or initial_style_bind under it) failed on a function JAX evaluates:
            # let the direct oracle say so on the interpreter itself; no Coq term for this function
            tags = case["runs"][0]["tags"][:len(vals)] + ["N"] * max(0, len(vals) - len(case["runs"][0]["tags"]))
            res = run_incremental(prog, leaves, tags, "none")
            why = incr_oracle(prog, vals, tags, "none", res, [], direct=(direct, dsig, dtree), jd=jd, rerun=False)
            if why is None:
                raise
            out["oracle"].append({"what": why, "case": {"prog": prog, "vals": vals, "tags": tags, "h": "none", "perturb": []}})
            out["skip"] = f"staging: {type(e).__name__}: {str(e)[:200]}"
            return out
        out["stats"] = {"prims": ser.prims, "neqn": ser.neqn, "nlit": ser.nlit, "ndrop": ser.ndrop,
                        "collisions": ser.collisions, "nvars": len(ser.idx)}
        out["jdef"] = [jterm, cterm]
        for nrun, run in enumerate(case["runs"]):
            tags, h, perturbs = run["tags"], run["h"], run.get("perturb", [])
            res = run_incremental(prog, leaves, tags, h)
            valid = len(tags) == len(vals)
            why = None
            if valid and h != "swap":
                why = incr_oracle(prog, vals, tags, h, res, perturbs, direct=(direct, dsig, dtree), jd=jd, rerun=nrun == 0)
                if why:
                    out["oracle"].append({"what": why, "case": {"prog": prog, "vals": vals, "tags": tags, "h": h, "perturb": perturbs}})
            impl = c_obs(res[1]) if res[0] == "ok" else "None"
            dterm = c_vals(direct) if (valid and h != "swap") else "None"
            out["terms"].append(f"ICase @J@ @C@ {c_args(prog, vals)} "
                                f"{c_list([TAGC[t] for t in tags])} {HK[h]} {impl} {dterm}")
            out["metas"].append({"prog": prog, "vals": vals, "tags": tags, "h": h, "perturb": perturbs,
                                 "impl": res[1] if res[0] == "ok" else res[1], "ok": res[0] == "ok",
                                 "ntagN": sum(1 for _, t in res[1] if t == "N") if res[0] == "ok" else 0,
                                 "ntagU": sum(1 for _, t in res[1] if t == "U") if res[0] == "ok" else 0,
                                 "ntagR": sum(1 for _, t in res[1] if t == "R") if res[0] == "ok" else 0})
    except Inexact as e:
        out["skip"] = f"inexact: {e}"
        out["terms"], out["metas"] = [], []
    except Unsupported as e:
        out["skip"] = f"unsupported: {e}"
        out["terms"], out["metas"] = [], []
    return out


# ---- C36 ------------------------------------------------------------------------
def stateful_oracle(prog, vals, res, direct=None):
    leaves = [to_array(k, v) for k, v in zip(prog["ik"], vals)]
    direct, dsig, dtree = direct or run_direct(prog, leaves)
    if res[0] != "ok":
        return f"stateful(f) with a handler that handles nothing raised {res[1]} where f(*xs) evaluates"
    if res[1] != direct:
        return f"outputs {res[1]} differ from ordinary evaluation {direct}"
    if res[2] != dsig:
        return f"output types {res[2]} differ from ordinary evaluation {dsig}"
    if res[3] != dtree:
        return f"output structure {res[3]} differs from ordinary evaluation {dtree}"
    return None


def run_stateful_case(case):
    prog = case["prog"]
    out = {"terms": [], "metas": [], "oracle": [], "skip": None, "stats": {}}
    try:
        jd = jit_direct(prog)
        for vals in case["points"]:
            leaves = [to_array(k, v) for k, v in zip(prog["ik"], vals)]
            try:
                direct, dsig, dtree = exact_guard(prog, vals, jd)
            except Inexact as e:
                out["skipped_points"] = out.get("skipped_points", 0) + 1
                continue
            try:
                if "jdef" not in out:
                    jterm, cterm, ser = stage_and_serialise(prog, leaves)
                    out["jdef"] = [jterm, cterm]
            except (Inexact, Unsupported):
                raise
            except Exception as e:
                res = run_stateful(prog, leaves, "null")
                why = stateful_oracle(prog, vals, res, direct=(direct, dsig, dtree))
                if why is None:
                    raise
                out["oracle"].append({"what": why, "case": {"prog": prog, "vals": vals, "h": "null"}})
                out["skip"] = f"staging: {type(e).__name__}: {str(e)[:200]}"
                return out
            out["stats"] = {"prims": ser.prims, "neqn": ser.neqn, "nlit": ser.nlit, "ndrop": ser.ndrop,
                            "collisions": ser.collisions, "nvars": len(ser.idx)}
            for h in case["handlers"]:
                res = run_stateful(prog, leaves, h)
                if h == "null":
                    why = stateful_oracle(prog, vals, res, direct=(direct, dsig, dtree))
                    if why:
                        out["oracle"].append({"what": why, "case": {"prog": prog, "vals": vals, "h": h}})
                impl = c_vals(res[1]) if res[0] == "ok" else "None"
                dterm = c_vals(direct) if h == "null" else "None"
                out["terms"].append(f"SCase @J@ @C@ {c_args(prog, vals)} {HK[h]} {impl} {dterm}")
                out["metas"].append({"prog": prog, "vals": vals, "h": h, "impl": res[1], "ok": res[0] == "ok",
                                     "same": res[0] == "ok" and res[1] == direct, "neqn": ser.neqn,
                                     "initial": ser.prims.get("initial_style", 0),
                                     "control": sum(ser.prims.get(k, 0) for k in ("cond", "scan", "while"))})
        if not out["terms"]:
            out["skip"] = "inexact: every point"
    except Inexact as e:
        out["skip"] = f"inexact: {e}"
        out["terms"], out["metas"] = [], []
    except Unsupported as e:
        out["skip"] = f"unsupported: {e}"
        out["terms"], out["metas"] = [], []
    return out


# ----------------------------------------------------------------------------
# process pool
# ----------------------------------------------------------------------------
def worker_init():
    sys.path.insert(0, os.environ.get("VERIF_REPO", "/repo") + "/src")
    os.environ.setdefault("JAX_PLATFORMS", "cpu")
    import warnings
    warnings.filterwarnings("ignore")


def _w_incr(case):
    try:
        r = run_incr_case(case)
        r["genjax_file"] = genjax_file()
        return r
    except Exception as e:
        return {"terms": [], "metas": [], "oracle": [], "stats": {},
                "skip": f"harness: {type(e).__name__}: {e}\n{traceback.format_exc()[-900:]}"}


def _w_stateful(case):
    try:
        r = run_stateful_case(case)
        r["genjax_file"] = genjax_file()
        return r
    except Exception as e:
        return {"terms": [], "metas": [], "oracle": [], "stats": {},
                "skip": f"harness: {type(e).__name__}: {e}\n{traceback.format_exc()[-900:]}"}


def run_pool(kind, cases, procs=8):
    import multiprocessing as mp
    # one compute thread per worker: the workers are the parallelism
    flags = os.environ.get("XLA_FLAGS", "")
    if "xla_cpu_multi_thread_eigen" not in flags:
        os.environ["XLA_FLAGS"] = (flags + " --xla_cpu_multi_thread_eigen=false intra_op_parallelism_threads=1").strip()
    os.environ.setdefault("OMP_NUM_THREADS", "1")
    os.environ.setdefault("OPENBLAS_NUM_THREADS", "1")
    from . import core
    res = core.run_pool(_w_incr if kind == "incr" else _w_stateful, cases, procs=procs, initializer=worker_init, tasks_per_child=40)
    if any(r is None for r in res):
        raise RuntimeError("a worker process died three times on the same case")
    return res


def genjax_file():
    import genjax
    return genjax.__file__


HEADER = ("From Coq Require Import List Bool ZArith.\n"
          "From Model Require Import Jaxpr Stateful Incr JaxPrims.")


def coq_check(name, results, ctype, fn, group=6):
    """Evaluate the cases of `results` (worker outputs, in order) inside Coq.  The jaxpr of a function is
    defined once per case file and shared by all of that function's cases.  Returns (indices into the
    flattened list of terms that mismatch, errors)."""
    from concurrent.futures import ThreadPoolExecutor
    from . import core
    live = [r for r in results if r.get("terms")]
    chunks = [live[i:i + group] for i in range(0, len(live), group)]
    jobs, off = [], 0
    for ci, ch in enumerate(chunks):
        defs, terms = [], []
        for k, r in enumerate(ch):
            j, c = r["jdef"]
            defs.append(f"Definition j{k} : cjaxpr := {j}.\nDefinition c{k} : list cval := {c}.")
            terms += [t.replace("@J@", f"j{k}").replace("@C@", f"c{k}") for t in r["terms"]]
        header = HEADER + "\nImport ListNotations.\nOpen Scope Z_scope.\n" + "\n".join(defs)
        jobs.append((f"{name}_{ci}", header, terms, off))
        off += len(terms)

    def run(job):
        nm, header, terms, o = job
        mism, errs = core.coq_mismatches(nm, header, terms, ctype, fn=fn, shard=max(1, len(terms)))
        return [o + i for i in mism], errs

    mism, errs = [], []
    with ThreadPoolExecutor(max_workers=10) as ex:
        for m, e in ex.map(run, jobs):
            mism += m
            errs += e
    return sorted(mism), errs
