(* C03 — importance weights equal the log-density of the constrained choices.
   `con c tm`: the constraint holds a valid (unmasked or mask-true) value at the address of the
   random choice tm; `agrees_at`: the trace's value there is the constraint's. *)
From Coq Require Import List ZArith.
Import ListNotations.
From Model Require Import Key Sel GFI.
From Proofs Require Import GFIBase GFIRef GFIWf GFIConsistent GFIProject GFISim GFIGen.

Theorem C03_importance_weight : forall g k c a t w,
  generate g k c a = Ok (t, w) ->
  w = tsum (filter (con c) (t_terms t)) /\ Forall (agrees_at c) (t_terms t).
Proof. exact generate_weight. Qed.
Print Assumptions C03_importance_weight.

Theorem C03_empty_constraint_weight_zero : forall g k a t w, generate g k [] a = Ok (t, w) -> w = 0%Z.
Proof. exact generate_empty_weight. Qed.
Print Assumptions C03_empty_constraint_weight_zero.

Theorem C03_full_constraint_weight_is_score : forall g k c a t w,
  generate g k c a = Ok (t, w) -> (forall tm, In tm (t_terms t) -> con c tm = true) -> w = t_score t.
Proof. exact generate_full_weight. Qed.
Print Assumptions C03_full_constraint_weight_is_score.
