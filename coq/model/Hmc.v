(* Model of genjax/_src/inference/requests/hmc.py: selection_gradient, assess_momenta,
   HMC.edit, for a flat static model (coq/model/FlatQ.v) whose selected choices are
   float scalars.  The gradient of the log-density is a parameter `gradf` (any function:
   the theorems do not need it to be a derivative; the case files instantiate it with the
   formal derivative of the model's polynomial log-density).  The momentum draw
   (tfd.Normal through fold_in(split(key)[1], i)) is an INPUT of the model; the irrational
   constant log sqrt(2 pi) of normal_score is the parameter `lnorm`.

   `hmc_edit true` is the code as it stands: the scan carry hands the OLD `gradient` to the
   next iteration (known finding K08); `hmc_edit false` is the one-identifier repair
   (carry `gradients`).  No proofs in this file. *)
From Coq Require Import List Bool ZArith NArith QArith.
Import ListNotations.
From Model Require Import Key FlatQ.
Open Scope Q_scope.

Fixpoint zipw {A B C} (f : A -> B -> C) (l1 : list A) (l2 : list B) : list C :=
  match l1, l2 with a :: r1, b :: r2 => f a b :: zipw f r1 r2 | _, _ => [] end.

(* jtu.tree_map(lambda v, g: v + (eps / 2) * g, momenta, gradient) *)
Definition kick (eps : Q) (m g : list Q) : list Q := zipw (fun v g => v + (eps * (1 # 2)) * g) m g.
(* jtu.tree_map(lambda v, m: v + eps * m, values, momenta) *)
Definition drift (eps : Q) (x m : list Q) : list Q := zipw (fun v m => v + eps * m) x m.

(* selection_gradient(selection, trace, argdiffs): the selected choices (keys, values) and the
   gradient of `assess(full choices, args)` with respect to them, at the trace's choices *)
Definition sel_entries (sel : list nat) (x : chm) : chm := filter (fun av => memb (fst av) sel) x.
Definition selection_gradient (gradf : list Q -> chm -> nat -> Q) (sel : list nat) (t : strace)
  : list nat * list Q * list Q :=
  let x := choices t in
  let f := sel_entries sel x in
  (map fst f, map snd f, map (gradf (t_args t) x) (map fst f)).

(* normal_score / assess_momenta(momenta, mul) *)
Definition normal_score (lnorm v : Q) : Q := - ((1 # 2) * (v * v)) - lnorm.
Fixpoint assess_momenta (lnorm mul : Q) (m : list Q) : Q :=
  match m with [] => 0 | v :: r => normal_score lnorm (mul * v) + assess_momenta lnorm mul r end.

Definition carry_t := (strace * list Q * list Q * list Q)%type.   (* trace, values, gradient, momenta *)

(* HMC.edit: kernel *)
Definition hmc_kernel (stale : bool) (p : prog) (gradf : list Q -> chm -> nat -> Q) (sel : list nat)
           (eps : Q) (c : carry_t) : res carry_t :=
  let '(t, values, gradient, momenta) := c in
  let momenta := kick eps momenta gradient in
  let values := drift eps values momenta in
  let ks := map fst (sel_entries sel (choices t)) in
  do u <- update p t (combine ks values);
  let '(new_t, _, _) := u in
  let '(_, values', gradients) := selection_gradient gradf sel new_t in
  let momenta := kick eps momenta gradients in
  Ok (new_t, values', (if stale then gradient else gradients), momenta).

Fixpoint hmc_loop (stale : bool) (p : prog) gradf (sel : list nat) (eps : Q) (L : nat) (c : carry_t)
  : res carry_t :=
  match L with
  | O => Ok c
  | S n => do c' <- hmc_kernel stale p gradf sel eps c; hmc_loop stale p gradf sel eps n c'
  end.

(* HMC.edit(key, tr, argdiffs); returns the final trace, alpha and the final momenta.
   L = 0: `retdiffs[-1]` on an empty scan output raises. *)
Definition hmc_edit (stale : bool) (p : prog) gradf (lnorm : Q) (sel : list nat) (eps : Q) (L : nat)
           (mom0 : list Q) (t : strace) : res (strace * Q * list Q) :=
  match L with
  | O => Err EOther
  | _ =>
      let original_model_score := score t in
      let '(_, values, gradients) := selection_gradient gradf sel t in
      let original_momenta_score := assess_momenta lnorm 1 mom0 in
      do c <- hmc_loop stale p gradf sel eps L (t, values, gradients, mom0);
      let '(final_t, _, _, final_momenta) := c in
      let final_model_score := score final_t in
      let final_momenta_score := assess_momenta lnorm (-1) final_momenta in
      Ok (final_t,
          final_model_score - original_model_score + final_momenta_score - original_momenta_score,
          final_momenta)
  end.

(* ---------------- the specification: the leapfrog integrator ---------------- *)
(* G = gradient of the log-density with respect to the moved coordinates *)
Definition leap (G : list Q -> list Q) (eps : Q) (s : list Q * list Q) : list Q * list Q :=
  let '(q, p) := s in
  let ph := kick eps p (G q) in
  let q' := drift eps q ph in
  (q', kick eps ph (G q')).
Definition flip (s : list Q * list Q) : list Q * list Q := (fst s, map Qopp (snd s)).
Fixpoint iter {A} (n : nat) (f : A -> A) (a : A) : A :=
  match n with O => a | S k => iter k f (f a) end.
(* what the code does instead: the first half-kick always uses g0 *)
Definition stale_leap (G : list Q -> list Q) (g0 : list Q) (eps : Q) (s : list Q * list Q) : list Q * list Q :=
  let '(q, p) := s in
  let ph := kick eps p g0 in
  let q' := drift eps q ph in
  (q', kick eps ph (G q')).
Definition kinetic (m : list Q) : Q := fold_right (fun v acc => (1 # 2) * (v * v) + acc) 0 m.

(* ---------------- correspondence cases ---------------- *)
Fixpoint index_of (a : nat) (l : list nat) : option nat :=
  match l with
  | [] => None
  | b :: r => if Nat.eqb a b then Some O else option_map S (index_of a r)
  end.
Definition getd (x : chm) (a : nat) : Q := match get x a with Some v => v | None => 0 end.
(* gradient of a polynomial program: formal derivative of its total log-density *)
Definition gradf_of (p : list psite) : list Q -> chm -> nat -> Q :=
  fun args x a =>
    let env := args ++ map (fun s => getd x (ps_addr s)) p in
    match index_of a (map ps_addr p) with
    | Some i => peval_r env (pderiv (length args + i) (total_lp_from p (map PConst args)))
    | None => 0
    end.

Inductive hcase :=
(* program, args, selected addresses, eps, L, start values (site order), momenta (selected, trace order);
   implementation: final values (site order), alpha; tolerance *)
| HCase (p : list psite) (margs : list Q) (sel : list nat) (eps : Q) (L : nat) (x0 mom0 : list Q)
        (x1 : list Q) (alpha : Q) (tol : Q)
| HErr (p : list psite) (margs : list Q) (sel : list nat) (eps : Q) (L : nat) (x0 mom0 : list Q)
(* selection_gradient: values (exact) and gradients (within tol) of the selected sites *)
| GCase (p : list psite) (margs : list Q) (sel : list nat) (x0 : list Q) (vals grads : list Q) (tol : Q).

(* selected choices within tolerance, the others exactly *)
Fixpoint all_close (tol : Q) (sel : list nat) (a : chm) (b : list Q) : bool :=
  match a, b with
  | [], [] => true
  | (ad, x) :: r, y :: s =>
      (if memb ad sel then close tol (Qabs' x) x y else qeqb x y) && all_close tol sel r s
  | _, _ => false
  end.

Fixpoint qlist_close (tol : Q) (a b : list Q) : bool :=
  match a, b with
  | [], [] => true
  | x :: r, y :: s => close tol (Qabs' x) x y && qlist_close tol r s
  | _, _ => false
  end.

Definition hcase_ok (stale : bool) (c : hcase) : bool :=
  match c with
  | HCase p margs sel eps L x0 mom0 x1 alpha tol =>
      let t := trace_at (prog_of p) margs x0 in
      match hmc_edit stale (prog_of p) (gradf_of p) 0 sel eps L mom0 t with
      | Ok (ft, a, fm) =>
          all_close tol sel (choices ft) x1
          && close tol (Qabs' (score t) + Qabs' (score ft) + kinetic mom0 + kinetic fm) a alpha
      | Err _ => false
      end
  | HErr p margs sel eps L x0 mom0 =>
      match hmc_edit stale (prog_of p) (gradf_of p) 0 sel eps L mom0 (trace_at (prog_of p) margs x0) with
      | Ok _ => false
      | Err _ => true
      end
  | GCase p margs sel x0 vals grads tol =>
      let '(_, v, g) := selection_gradient (gradf_of p) sel (trace_at (prog_of p) margs x0) in
      qlist_eqb v vals && qlist_close tol g grads
  end.
Fixpoint hmismatches_from (stale : bool) (n : nat) (cs : list hcase) : list nat :=
  match cs with
  | [] => []
  | c :: r => if hcase_ok stale c then hmismatches_from stale (S n) r else n :: hmismatches_from stale (S n) r
  end.
Definition hmismatches := hmismatches_from true 0.          (* the code as it stands (K08 included) *)
Definition hmismatches_fixed := hmismatches_from false 0.   (* the repaired carry *)
