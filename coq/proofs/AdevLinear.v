(* AdevLinear.v — the estimator's primal does not depend on the input tangents and its tangent is
   linear in them; hence jvp_estimate(t) = sum_i t_i * grad_estimate_i  (grad_is_jvp). *)
From Coq Require Import List ZArith QArith Qabs Bool Lia Setoid Morphisms.
Import ListNotations.
From Model Require Import Adev.
From Proofs Require Import AdevPoly AdevGrid AdevProofs AdevMaster.
Open Scope Q_scope.

Definition LinRel (a b : Q) (x y z : dual) : Prop :=
  fst x = fst z /\ fst y = fst z /\ snd z == a * snd x + b * snd y.

Inductive F3 (R : dual -> dual -> dual -> Prop) : list dual -> list dual -> list dual -> Prop :=
| F3_nil : F3 R [] [] []
| F3_cons x y z l1 l2 l3 : R x y z -> F3 R l1 l2 l3 -> F3 R (x :: l1) (y :: l2) (z :: l3).

Lemma LinRel_dz a b : LinRel a b (0, 0) (0, 0) (0, 0).
Proof. repeat split; simpl; ring. Qed.
Lemma F3_nth a b l1 l2 l3 : F3 (LinRel a b) l1 l2 l3 -> forall i, LinRel a b (nth i l1 (0,0)) (nth i l2 (0,0)) (nth i l3 (0,0)).
Proof. induction 1; intros [|i]; simpl; try apply LinRel_dz; try assumption. apply IHF3. Qed.
Lemma F3_app R l1 l2 l3 m1 m2 m3 : F3 R l1 l2 l3 -> F3 R m1 m2 m3 -> F3 R (l1 ++ m1) (l2 ++ m2) (l3 ++ m3).
Proof. induction 1; intros H'; simpl; [assumption|]. constructor; [assumption|]. apply IHF3. assumption. Qed.
Lemma F3_rev R l1 l2 l3 : F3 R l1 l2 l3 -> F3 R (rev l1) (rev l2) (rev l3).
Proof. induction 1; simpl. { constructor. } apply F3_app; [assumption|]. constructor; [assumption|constructor]. Qed.

Section L.
Variables lg dlg : Q -> Q.
Notation deval := (deval lg dlg).
Notation interpT := (interpT lg dlg).
Notation run_jvp := (run_jvp lg dlg).
Notation run_grad := (run_grad lg dlg).

Lemma deval_lin a b e : forall g1 g2 g3 benv, F3 (LinRel a b) g1 g2 g3 ->
  LinRel a b (deval e g1 benv) (deval e g2 benv) (deval e g3 benv).
Proof.
  induction e; intros g1 g2 g3 benv H; simpl.
  - repeat split; simpl; ring.
  - apply F3_nth. assumption.
  - destruct (IHe1 _ _ _ benv H) as [A [B C]], (IHe2 _ _ _ benv H) as [A' [B' C']].
    unfold LinRel, dadd; simpl. rewrite A, B, A', B', C, C'. repeat split; ring.
  - destruct (IHe1 _ _ _ benv H) as [A [B C]], (IHe2 _ _ _ benv H) as [A' [B' C']].
    unfold LinRel, dsub; simpl. rewrite A, B, A', B', C, C'. repeat split; ring.
  - destruct (IHe1 _ _ _ benv H) as [A [B C]], (IHe2 _ _ _ benv H) as [A' [B' C']].
    unfold LinRel, dmul; simpl. rewrite A, B, A', B', C, C'. repeat split; ring.
  - destruct (IHe _ _ _ benv H) as [A [B C]].
    unfold LinRel, dneg; simpl. rewrite A, B, C. repeat split; ring.
  - destruct (IHe1 _ _ _ benv H) as [A [B C]], (IHe2 _ _ _ benv H) as [A' [B' C']].
    unfold LinRel, ddiv; simpl. rewrite A, B, A', B', C, C'. repeat split; unfold Qdiv; ring.
  - destruct (IHe _ _ _ benv H) as [A [B C]].
    unfold LinRel, dlog; simpl. rewrite A, B, C. repeat split; ring.
  - destruct (nth c benv false); [apply IHe1|apply IHe2]; assumption.
Qed.
Lemma deval_lin_args a b args : forall g1 g2 g3 benv, F3 (LinRel a b) g1 g2 g3 ->
  F3 (LinRel a b) (map (fun e => deval e g1 benv) args) (map (fun e => deval e g2 benv) args) (map (fun e => deval e g3 benv) args).
Proof. induction args; intros; simpl; constructor; [apply deval_lin|apply IHargs]; assumption. Qed.

Definition brel3 (a b : Q) (v1 v2 v3 : bval) : Prop :=
  match v1, v2, v3 with
  | BB x, BB y, BB z => x = z /\ y = z
  | BR x, BR y, BR z => LinRel a b x y z
  | _, _, _ => False
  end.

Lemma siteT_lin a b pr : forall args1 args2 args3 rs d K1 K2 K3,
  F3 (LinRel a b) args1 args2 args3 ->
  (forall v1 v2 v3 d', brel3 a b v1 v2 v3 -> LinRel a b (K1 v1 d') (K2 v2 d') (K3 v3 d')) ->
  LinRel a b (siteT pr args1 rs d K1) (siteT pr args2 rs d K2) (siteT pr args3 rs d K3).
Proof.
  induction pr; intros args1 args2 args3 rs d K1 K2 K3 Hargs HK.
  - (* flip_enum *)
    inversion Hargs as [|p1 p2 p3 ? ? ? Hp Hr]; subst; simpl; try apply LinRel_dz.
    inversion Hr; subst; simpl; try apply LinRel_dz.
    destruct Hp as [A [B C]].
    destruct (HK (BB true) (BB true) (BB true) d (conj eq_refl eq_refl)) as [T1 [T2 T3]].
    destruct (HK (BB false) (BB false) (BB false) d (conj eq_refl eq_refl)) as [F1 [F2 F3']].
    unfold LinRel, dadd, dmul, dsub, dC; simpl. rewrite A, B, T1, T2, F1, F2, C, T3, F3'. repeat split; ring.
  - (* flip_reinforce *)
    inversion Hargs as [|p1 p2 p3 ? ? ? Hp Hr]; subst; simpl; try apply LinRel_dz.
    inversion Hr; subst; simpl; try apply LinRel_dz.
    destruct Hp as [A [B C]]. rewrite A, B.
    set (v := qlt (du (rs d)) (fst p3)).
    destruct (HK (BB v) (BB v) (BB v) (S d) (conj eq_refl eq_refl)) as [T1 [T2 T3]].
    unfold LinRel; simpl. rewrite T1, T2. split; [reflexivity|]. split; [reflexivity|]. rewrite T3.
    unfold flip_lp'. destruct v; rewrite ?A, ?B, C; unfold Qdiv; ring.
  - (* normal_reparam *)
    inversion Hargs as [|m1 m2 m3 ? ? ? Hm Hr]; subst; simpl; try apply LinRel_dz.
    inversion Hr as [|s1 s2 s3 ? ? ? Hs Hr']; subst; simpl; try apply LinRel_dz.
    inversion Hr'; subst; simpl; try apply LinRel_dz.
    apply HK. simpl. destruct Hm as [A [B C]], Hs as [A' [B' C']].
    unfold LinRel, dadd, dmul, dC; simpl. rewrite A, B, A', B', C, C'. repeat split; ring.
  - (* normal_reinforce *)
    inversion Hargs as [|m1 m2 m3 ? ? ? Hm Hr]; subst; simpl; try apply LinRel_dz.
    inversion Hr as [|s1 s2 s3 ? ? ? Hs Hr']; subst; simpl; try apply LinRel_dz.
    inversion Hr'; subst; simpl; try apply LinRel_dz.
    destruct Hm as [A [B C]], Hs as [A' [B' C']]. rewrite A, B, A', B'.
    set (x := fst m3 + fst s3 * de (rs d)).
    assert (Hx : brel3 a b (BR (dC x)) (BR (dC x)) (BR (dC x))) by (simpl; repeat split; simpl; ring).
    destruct (HK _ _ _ (S d) Hx) as [T1 [T2 T3]].
    unfold LinRel; simpl. rewrite T1, T2. split; [reflexivity|]. split; [reflexivity|]. rewrite T3.
    unfold normal_lp'. rewrite ?A, ?B, ?A', ?B', C, C'. unfold Qdiv; ring.
  - inversion Hargs; subst; simpl; apply LinRel_dz.
  - inversion Hargs; subst; simpl; apply LinRel_dz.
  - inversion Hargs; subst; simpl; apply LinRel_dz.
  - inversion Hargs; subst; simpl; apply LinRel_dz.
  - (* baseline *)
    inversion Hargs as [|b1 b2 b3 ? ? ? Hb Hr]; subst; simpl; try apply LinRel_dz.
    assert (IH := IHpr _ _ _ rs d (fun v d' => dsub (K1 v d') b1) (fun v d' => dsub (K2 v d') b2) (fun v d' => dsub (K3 v d') b3) Hr).
    destruct IH as [T1 [T2 T3]].
    { intros v1 v2 v3 d' Hv. destruct (HK v1 v2 v3 d' Hv) as [A [B C]]. destruct Hb as [A' [B' C']].
      unfold LinRel, dsub; simpl. rewrite A, B, A', B', C, C'. repeat split; ring. }
    destruct Hb as [A' [B' C']].
    unfold LinRel, dadd; simpl. rewrite T1, T2, T3, A', B', C'. repeat split; ring.
Qed.

Lemma zipmv_lin a b l1 : forall l2 l3 s1 s2 s3 eps,
  F3 (LinRel a b) l1 l2 l3 -> F3 (LinRel a b) s1 s2 s3 ->
  F3 (LinRel a b) (zipmv l1 s1 eps) (zipmv l2 s2 eps) (zipmv l3 s3 eps).
Proof.
  induction l1; intros l2 l3 s1 s2 s3 eps H1 H2; inversion H1; subst; simpl. { constructor. }
  inversion H2; subst; simpl. { constructor. }
  constructor. 2:{ apply IHl1; assumption. }
  destruct H3 as [A [B C]], H as [A' [B' C']].
  unfold LinRel, dadd, dmul, dC; simpl. rewrite A, B, A', B', C, C'. repeat split; ring.
Qed.

Theorem interpT_lin a b p : forall g1 g2 g3 benv rs d, F3 (LinRel a b) g1 g2 g3 ->
  LinRel a b (interpT p g1 benv rs d) (interpT p g2 benv rs d) (interpT p g3 benv rs d).
Proof.
  induction p; intros g1 g2 g3 benv rs d H; cbn [interpT].
  - apply deval_lin. assumption.
  - apply siteT_lin. { apply deval_lin_args. assumption. }
    intros [x|x] [y|y] [z|z] d' Hv; simpl in Hv; try contradiction.
    + destruct Hv; subst. apply IHp. assumption.
    + apply IHp. constructor; assumption.
  - apply IHp. apply F3_app; [|assumption]. apply F3_rev. apply zipmv_lin; apply deval_lin_args; assumption.
  - destruct (deval_lin a b e _ _ _ benv H) as [A [B C]]. destruct (IHp _ _ _ benv rs d H) as [A' [B' C']].
    unfold LinRel, dadd; simpl. rewrite A, B, A', B', C, C'. repeat split; ring.
  - apply IHp3. constructor; [|assumption].
    destruct (nth c benv false); [apply IHp1|apply IHp2]; assumption.
Qed.

Lemma unit_from_envOf xs i : forall j, unit_from xs i j = envOf xs (fun k => if Nat.eqb i k then 1 else 0) j.
Proof. induction xs; intros j; simpl; [reflexivity|]. rewrite IHxs. reflexivity. Qed.
Lemma envOf_lin a b xs : forall t1 t2 t3 j,
  (forall k, (j <= k < j + length xs)%nat -> t3 k == a * t1 k + b * t2 k) ->
  F3 (LinRel a b) (envOf xs t1 j) (envOf xs t2 j) (envOf xs t3 j).
Proof.
  induction xs; intros t1 t2 t3 j H; simpl. { constructor. }
  constructor. { repeat split; simpl. apply H. simpl. lia. }
  apply IHxs. intros k Hk. apply H. simpl. lia.
Qed.

Definition trunc (k : nat) (t : nat -> Q) : nat -> Q := fun j => if (j <? k)%nat then t j else 0.

Theorem tangent_is_grad_sum p xs t benv rs d :
  snd (interpT p (rev (envOf xs t 0)) benv rs d)
  == gsum (length xs) (fun i => t i * snd (interpT p (rev (unit_from xs i 0)) benv rs d)).
Proof.
  set (J := fun t' => snd (interpT p (rev (envOf xs t' 0)) benv rs d)).
  assert (Lin : forall a b t1 t2 t3, (forall k, (k < length xs)%nat -> t3 k == a * t1 k + b * t2 k) ->
                 J t3 == a * J t1 + b * J t2).
  { intros a b t1 t2 t3 H. unfold J.
    destruct (interpT_lin a b p (rev (envOf xs t1 0)) (rev (envOf xs t2 0)) (rev (envOf xs t3 0)) benv rs d) as [_ [_ C]].
    { apply F3_rev. apply envOf_lin. intros k Hk. apply H. lia. }
    exact C. }
  assert (Step : forall k, (k <= length xs)%nat ->
     J (trunc k t) == gsum k (fun i => t i * snd (interpT p (rev (unit_from xs i 0)) benv rs d))).
  { induction k; intros Hk.
    - simpl. rewrite (Lin 0 0 t t (trunc 0 t)). { ring. } intros j _. unfold trunc. simpl. ring.
    - cbn [gsum]. rewrite <- IHk by lia.
      rewrite (Lin 1 (t k) (trunc k t) (fun j => if Nat.eqb k j then 1 else 0) (trunc (S k) t)).
      + assert (E : J (fun j => if Nat.eqb k j then 1 else 0) = snd (interpT p (rev (unit_from xs k 0)) benv rs d))
          by (unfold J; rewrite unit_from_envOf; reflexivity).
        rewrite E. ring.
      + intros j _. unfold trunc.
        destruct (Nat.ltb_spec j (S k)), (Nat.ltb_spec j k), (Nat.eqb_spec k j); try lia; subst; ring. }
  fold (J t). rewrite <- (Step (length xs) (le_n _)).
  rewrite (Lin 1 0 (trunc (length xs) t) t t). { ring. }
  intros k Hk. unfold trunc. destruct (Nat.ltb_spec k (length xs)); [ring|lia].
Qed.

End L.
