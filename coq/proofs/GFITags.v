(* C08 (the part about argument tags): for Update and Regenerate on programs without a switch, the
   result of an edit does not depend on how the arguments are tagged; and at a distribution site the
   return value tagged NoChange by the source (no constraint / not selected) is the previous one.
   Return-value tags of composite programs are computed by the incremental interpreter: C09. *)
From Coq Require Import List Bool ZArith NArith Lia Arith.
Import ListNotations.
From Gen Require Import SelGen.
From Model Require Import Key Sel GFI GFIEdit.
From Proofs Require Import GFIBase GFIRef GFIWf GFIEditProofs.
Open Scope Z_scope.

Fixpoint no_switch (g : gf) : Prop :=
  match g with
  | GDist _ => True
  | GStatic b => no_switch_body b
  | GVmap _ g' | GScan _ g' | GMask g' | GDimap _ g' _ => no_switch g'
  | GSwitch _ => False
  end
with no_switch_body (b : sbody) : Prop :=
  match b with SRet _ => True | SSite _ g _ rest => no_switch g /\ no_switch_body rest end.

Lemma mapiM_ext {A B} (f g : nat -> A -> res B) l : forall s,
  (forall i x, f i x = g i x) -> mapiM f s l = mapiM g s l.
Proof.
  induction l as [|x r IH]; intros s H; [reflexivity|]. simpl. rewrite H. destruct (g s x); simpl; [rewrite (IH (S s) H); reflexivity | reflexivity].
Qed.
Lemma scanE_ext (f g : nat -> trace -> val -> res (trace * Z * request * val * val)) l : forall s c,
  (forall i t c, f i t c = g i t c) -> scanE f s l c = scanE g s l c.
Proof.
  induction l as [|x r IH]; intros s c H; [reflexivity|]. simpl. rewrite H.
  destruct (g s x c) as [[[[[t' w] b] c'] y]|]; simpl; [rewrite (IH (S s) c' H); reflexivity | reflexivity].
Qed.

Theorem tags_irrelevant_all :
  (forall g, no_switch g -> forall k t r a tg tg', plain r -> length tg = length tg' ->
      edit g k t r a tg = edit g k t r a tg') /\
  (forall b, no_switch_body b -> forall k cnt olds r env envt envt' acc w bw, plain r ->
      edit_body b k cnt olds r env envt acc w bw = edit_body b k cnt olds r env envt' acc w bw) /\
  (forall bs : gfs, True).
Proof.
  apply gf_sbody_gfs_ind; try (intros; exact I).
  - intros d _ k t r a tg tg' Hp Hl. reflexivity.
  - intros b IH Hn k t r a tg tg' Hp Hl. simpl. destruct t; try reflexivity.
    destruct r; try (simpl in Hp; contradiction).
    + rewrite (IH Hn k 1%N subs (RUpdate c) a tg tg' [] 0 [] I). reflexivity.
    + rewrite (IH Hn k 1%N subs (RRegen s) a tg tg' [] 0 [] I). reflexivity.
  - intros axes g IH Hn k t r a tg tg' Hp Hl. simpl. destruct t; try reflexivity.
    destruct r; try (simpl in Hp; contradiction); try reflexivity.
    destruct (negb _); [reflexivity|].
    rewrite (mapiM_ext _ (fun i told => edit g (fold_in k (N.of_nat i)) told (RUpdate (csub c (KI i))) (slice_args axes a i) tg') inner 0%nat); [reflexivity|].
    intros i x. apply IH; auto; exact I.
  - intros n g IH Hn k t r a tg tg' Hp Hl. reflexivity.
  - intros bs _ Hn. contradiction.
  - intros g IH Hn k t r a tg tg' Hp Hl. simpl. destruct t; try reflexivity. destruct a as [|[|post| | | |] ia]; try reflexivity.
    destruct tg as [|t0 itags], tg' as [|t0' itags']; simpl in Hl; try discriminate; try reflexivity.
    destruct r; try (simpl in Hp; contradiction); try reflexivity.
    rewrite (IH Hn k t (RUpdate c) ia itags itags' I); [reflexivity | lia].
  - intros pre g IH post Hn k t r a tg tg' Hp Hl. simpl. destruct t; try reflexivity.
    destruct (eval_list a pre) as [ia|]; simpl; [|reflexivity].
    rewrite (IH Hn k t r ia (map (tag_eval tg) pre) (map (tag_eval tg') pre) Hp); [reflexivity | rewrite !map_length; reflexivity].
  - intros e _ k cnt olds r env envt envt' acc w bw Hp. reflexivity.
  - intros ad g IHg es rest IHr [Hng Hnr] k cnt olds r env envt envt' acc w bw Hp. simpl.
    destruct (eval_list env es) as [av|]; simpl; [|reflexivity].
    destruct (subs_get olds ad) as [told|]; [|reflexivity].
    assert (E : forall sub, plain sub ->
      edit g (fold_in k cnt) told sub av (map (tag_eval envt) es) = edit g (fold_in k cnt) told sub av (map (tag_eval envt') es)).
    { intros sub Hs. apply IHg; auto. rewrite !map_length. reflexivity. }
    destruct r; simpl in Hp; try contradiction.
    + rewrite (E (RUpdate (csub_addr c ad)) I).
      destruct (edit g (fold_in k cnt) told (RUpdate (csub_addr c ad)) av (map (tag_eval envt') es)) as [[[t' w'] b']|]; simpl; [|reflexivity].
      destruct (existsb _ acc); [reflexivity|]. apply IHr; auto; exact I.
    + rewrite (E (RRegen (sel_addr s ad)) I).
      destruct (edit g (fold_in k cnt) told (RRegen (sel_addr s ad)) av (map (tag_eval envt') es)) as [[[t' w'] b']|]; simpl; [|reflexivity].
      destruct (existsb _ acc); [reflexivity|]. apply IHr; auto; exact I.
Qed.
Theorem tags_irrelevant g k t r a tg tg' :
  no_switch g -> plain r -> length tg = length tg' -> edit g k t r a tg = edit g k t r a tg'.
Proof. intros Hn Hp Hl. apply (proj1 tags_irrelevant_all g Hn k t r a tg tg' Hp Hl). Qed.

(* the tag the source attaches to a distribution site's return value *)
Definition site_retdiff_changed (r : request) : bool :=
  match r with
  | RUpdate c => match cvalue c with None => false | Some _ => true end
  | RRegen s => check s
  | _ => true
  end.
Theorem site_nochange_means_unchanged d k t r a tg t' w b :
  wft (GDist d) t -> edit (GDist d) k t r a tg = Ok (t', w, b) -> site_retdiff_changed r = false -> t_retval t' = t_retval t.
Proof.
  intros Hw H Hc. destruct t; simpl in Hw; try contradiction. destruct Hw as [-> [p0 [-> ->]]]. simpl in H.
  destruct a as [|[p| | | | |] [|? ?]]; try discriminate.
  destruct r; simpl in Hc; try discriminate.
  - destruct (cvalue c); [discriminate|]. inversion H; subst. reflexivity.
  - rewrite Hc in H. inversion H; subst. reflexivity.
Qed.
