(* C07, last clause: Regenerate with a selection that selects nothing, and unchanged arguments, returns the
   same trace with weight 0 — on every program that accepts Regenerate: distributions, the static language,
   scan (hence iterate, accumulate, reduce ...) and dimap. *)
From Coq Require Import List Bool ZArith NArith Lia Arith.
Import ListNotations.
From Gen Require Import SelGen.
From Model Require Import Key Sel GFI GFIEdit.
From Proofs Require Import GFIBase GFIRef GFIWf GFIConsistent GFISim GFIEditProofs GFIRoundtripAll GFIRoundtripRegen.
Open Scope Z_scope.

Fixpoint rssimple (g : gf) : Prop :=
  match g with
  | GDist _ => True
  | GStatic b => rssimple_body b
  | GDimap _ g' _ | GScan _ g' => rssimple g'
  | GVmap _ _ | GSwitch _ | GMask _ => False
  end
with rssimple_body (b : sbody) : Prop :=
  match b with SRet _ => True | SSite _ g _ rest => rssimple g /\ rssimple_body rest end.

Lemma edit_scan_regen_eq n g k olds a0 r0 s0 s carry xs tg :
  edit (GScan n g) k (TScan olds a0 r0 s0) (RRegen s) [carry; xs] tg =
  (if negb (match scan_len n xs with Some m => Nat.eqb m (length olds) | None => false end) then Err EType else
   do rr <- scanE (fun i told c1 => do x0 <- edit g (fold_in k (N.of_nat i)) told (RRegen s) [c1; slice0 xs i] [tg_unknown; tg_unknown];
                                    let '(t', w, b) := x0 in do cy <- split_ret (t_retval t'); Ok (t', w, b, fst cy, snd cy)) 0%nat olds carry;
   let '(xs', cf, ys) := rr in
   let ts := map (fun x => fst (fst x)) xs' in
   do bw <- Ok (RVector (map snd xs'));
   Ok (TScan ts [carry; xs] (VT [cf; stack_vals ys]) (zsum (map t_score ts)), zsum (map (fun x => snd (fst x)) xs'), bw)).
Proof. reflexivity. Qed.

Lemma scan_regen_same g k s xs
  (IH : forall k t tg, wft g t -> exists b, edit g k t (RRegen s) (t_args t) tg = Ok (t, 0, b)) :
  forall inner i c cf ys, scan_ok (wft g) xs i c inner cf ys ->
  exists xs', scanE (fun i told c1 => do x0 <- edit g (fold_in k (N.of_nat i)) told (RRegen s) [c1; slice0 xs i] [tg_unknown; tg_unknown];
                                      let '(t', w, b) := x0 in do cy <- split_ret (t_retval t'); Ok (t', w, b, fst cy, snd cy)) i inner c
              = Ok (xs', cf, ys) /\ map (fun x => fst (fst x)) xs' = inner /\ zsum (map (fun x => snd (fst x)) xs') = 0.
Proof.
  induction inner as [|t r IHl]; intros i c cf ys H; simpl in H.
  - destruct H as [-> ->]. exists []. simpl. auto.
  - destruct H as [Hw [Ha [c' [y [ys' [Hs [-> Hr]]]]]]].
    destruct (IH (fold_in k (N.of_nat i)) t [tg_unknown; tg_unknown] Hw) as [b Hb]. rewrite Ha in Hb.
    destruct (IHl (S i) c' cf ys' Hr) as [xs' [H1 [H2 H3]]].
    exists ((t, 0, b) :: xs'). simpl. rewrite Hb. simpl. rewrite Hs. simpl. rewrite H1. simpl. rewrite H2, H3. auto.
Qed.

Definition empty_sel (s : sel) : Prop := forall p, check (call s p) = false.

Lemma call_app s p q : call (call s p) q = call s (p ++ q).
Proof. unfold call. rewrite fold_left_app. reflexivity. Qed.
Lemma empty_sel_addr s a : empty_sel s -> empty_sel (sel_addr s a).
Proof. intros H p. unfold sel_addr. rewrite call_app. apply H. Qed.
Lemma empty_sel_check s : empty_sel s -> check s = false.
Proof. intros H. exact (H []). Qed.
Lemma none_is_empty : empty_sel NoneSel.
Proof.
  intros p. unfold call. assert (E : forall q, fold_left get_subselection q NoneSel = NoneSel).
  { induction q as [|x r IH]; [reflexivity | simpl; exact IH]. }
  rewrite E. reflexivity.
Qed.

Theorem regen_nothing_all :
  (forall g, wfg g -> rssimple g -> forall k t s tg, wft g t -> empty_sel s ->
      exists b, edit g k t (RRegen s) (t_args t) tg = Ok (t, 0, b)) /\
  (forall b, wfg_body b -> rssimple_body b -> forall k cnt olds s env envt acc w bw subs ret,
      wfb b env subs ret -> (forall a t, In (a, t) subs -> subs_get olds a = Some t) -> empty_sel s ->
      NoDup (map fst acc ++ body_addrs b) ->
      exists bw', edit_body b k cnt olds (RRegen s) env envt acc w bw = Ok (ret, acc ++ subs, w, bw')) /\
  (forall bs : gfs, True).
Proof.
  apply gf_sbody_gfs_ind; try (intros; exact I).
  - (* GDist *) intros d _ _ k t s tg Hw He. destruct t; simpl in Hw; try contradiction.
    destruct Hw as [-> [p0 [-> ->]]]. simpl. rewrite (empty_sel_check s He). eexists. f_equal. f_equal. f_equal. lia.
  - (* GStatic *) intros b IH [Hheads Hwb] Hs k t s tg Hw He. destruct t; simpl in Hw; try contradiction.
    cbn [t_args]. rewrite edit_static_regen_eq.
    assert (Hnd : NoDup (body_addrs b)) by (apply NoDup_heads; apply Hheads).
    assert (Haddr : map fst subs = body_addrs b).
    { clear - Hw. revert args subs Hw. induction b as [e|a g es rest IHb]; intros env subs Hw; simpl in Hw.
      - destruct Hw as [-> _]. reflexivity.
      - destruct subs as [|[a' t0] subs']; [contradiction|]. destruct Hw as [-> [_ [_ Hw']]]. simpl. f_equal. eapply IHb; eauto. }
    destruct (IH Hwb Hs k 1%N subs s args tg [] 0 [] subs ret Hw) as [bw' H1]; [| exact He | simpl; exact Hnd |].
    + intros a t Hin. clear - Hin Haddr Hnd. rewrite <- Haddr in Hnd. clear Haddr.
      induction subs as [|[a0 t0] r IHs]; [contradiction|]. simpl in Hnd. inversion Hnd as [|? ? Hnin Hnd']; subst.
      destruct Hin as [E|Hin].
      * inversion E; subst. simpl. rewrite addr_eqb_refl. reflexivity.
      * simpl. destruct (addr_eqb a a0) eqn:Ea.
        -- apply addr_eqb_eq in Ea. subst. exfalso. apply Hnin. apply in_map_iff. exists (a0, t). auto.
        -- apply IHs; assumption.
    + rewrite H1. simpl. eauto.
  - (* GVmap *) intros axes g _ _ Hs. contradiction.
  - (* GScan *) intros n g IH Hg Hs k t s tg Hw He. destruct t; simpl in Hw; try contradiction.
    destruct Hw as [carry [xs [len [cf [ys [-> [Hlen [Hn [Hok [-> ->]]]]]]]]]].
    cbn [t_args]. rewrite edit_scan_regen_eq. rewrite Hlen, Hn, Nat.eqb_refl. cbn [negb].
    destruct (scan_regen_same g k s xs (fun k0 t0 tg0 Hw0 => IH Hg Hs k0 t0 s tg0 Hw0 He) inner 0%nat carry cf ys Hok)
      as [xs' [H1 [H2 H3]]].
    rewrite H1. cbn [bind]. cbv zeta. rewrite H2, H3. eauto.
  - (* GSwitch *) intros bs _ _ Hs. contradiction.
  - (* GMask *) intros g _ _ Hs. contradiction.
  - (* GDimap *) intros pre g IH post Hg Hs k t s tg Hw He. destruct t; simpl in Hw; try contradiction.
    destruct Hw as [Hpre [Hw Hpost]]. simpl. rewrite Hpre. simpl.
    destruct (IH Hg Hs k t s (map (tag_eval tg) pre) Hw He) as [b' Hb]. rewrite Hb. simpl. rewrite Hpost. simpl. eauto.
  - (* SRet *) intros e _ _ k cnt olds s env envt acc w bw subs ret Hw Hin He Hnd. simpl in Hw. destruct Hw as [-> Hev].
    simpl. rewrite Hev. simpl. rewrite app_nil_r. eauto.
  - (* SSite *) intros ad g IHg es rest IHr [Hg Hrest] [Hsg Hsr] k cnt olds s env envt acc w bw subs ret Hw Hin He Hnd.
    simpl in Hw. destruct subs as [|[a' t0] subs']; [contradiction|]. destruct Hw as [-> [Hav [Hwt Hw']]].
    simpl. rewrite Hav. simpl. rewrite (Hin ad t0 (or_introl eq_refl)).
    destruct (IHg Hg Hsg (fold_in k cnt) t0 (sel_addr s ad) (map (tag_eval envt) es) Hwt (empty_sel_addr s ad He)) as [b' Hb].
    rewrite Hb. simpl.
    assert (Hnin : ~ In ad (map fst acc)).
    { simpl in Hnd. intros Hi. apply NoDup_remove_2 in Hnd. apply Hnd. rewrite in_app_iff. now left. }
    destruct (existsb (fun p => addr_eqb (fst p) ad) acc) eqn:Eex.
    { exfalso. apply existsb_exists in Eex. destruct Eex as [[a0 t1] [Hi Heq]]. simpl in Heq. apply addr_eqb_eq in Heq. subst.
      apply Hnin. apply in_map_iff. exists (ad, t1). auto. }
    destruct (IHr Hrest Hsr k (cnt + 1)%N olds s (env ++ [t_retval t0]) (envt ++ [tg_unknown]) (acc ++ [(ad, t0)]) (w + 0)
                  (bw ++ [(ad, b')]) subs' ret Hw') as [bw' H1].
    + intros a t Hi. apply Hin. now right.
    + exact He.
    + rewrite map_app. simpl. rewrite <- app_assoc. simpl. simpl in Hnd. exact Hnd.
    + rewrite H1. rewrite <- app_assoc. simpl. exists bw'. f_equal. f_equal. f_equal. lia.
Qed.

Theorem regenerate_nothing_is_identity g k t s tg :
  wfg g -> rssimple g -> wft g t -> empty_sel s -> exists b, edit g k t (RRegen s) (t_args t) tg = Ok (t, 0, b).
Proof. intros Hg Hs Hw He. exact (proj1 regen_nothing_all g Hg Hs k t s tg Hw He). Qed.
