"""candidate finding (C21): Pytree.tree_const wraps a concrete array in Const (a static
field), but a Const holding a non-scalar array cannot round-trip through jit twice: the
treedef comparison jax makes on the second call evaluates `array == array` as a bool.
exit 1 if present."""
import sys, jax, jax.numpy as jnp, jax.tree_util as jtu
from genjax._src.core.pytree import Pytree

f = jax.jit(lambda t: t)
bad = []
try:
    for _ in range(2):
        out = f(Pytree.tree_const((jnp.arange(2), 1)))      # (Const(Array([0, 1])), Const(1))
        assert [int(v) for v in out[0].val] == [0, 1] and out[1].val == 1
except Exception as e:
    bad.append(("second jit call with tree_const(array) raised", type(e).__name__, str(e)[:70]))
try:
    jtu.tree_structure(Pytree.tree_const(jnp.arange(2))) == jtu.tree_structure(Pytree.tree_const(jnp.arange(2)))
except Exception as e:
    bad.append(("treedef equality raised", type(e).__name__))
print("FAIL" if bad else "OK", bad[:2])
sys.exit(1 if bad else 0)
