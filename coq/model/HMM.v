(* C37 — DiscreteHMM: forward filtering / backward sampling, the latent-sequence posterior
   density and the data likelihood, in PROBABILITY space over canonical rationals (Qc:
   every operation is followed by Qred, so numerators stay small under vm_compute).
   Source: /repo/src/genjax/_src/generative_functions/distributions/custom/discrete_hmm.py

   dictionary log space -> probability space:  +  |->  *,   logsumexp |-> sum,
   x - logsumexp(x) |-> x / sum x,   log(softmax(M)) |-> the matrix M' = softmax(M) itself
   (given to the model as rationals: the implementation's own float32 values).

   The model is written to mirror the source branch by branch.  The forward pass, the backward
   pass and the density path (TFP) all read `transition_n[prev, next]`; the forward pass did not
   before the repair F37 (it contracted `prev[j] * transition_n[i, j]`), and that variant is kept
   as `alpha_step_transposed`.  No proofs in this file. *)
From Coq Require Import List Arith Bool ZArith NArith QArith Qcanon.
From Model Require Import Key.
Import ListNotations.
Open Scope Qc_scope.

(* ---- small vector helpers ---- *)
Definition tab {A} (n : nat) (f : nat -> A) : list A := map f (seq 0 n).
Definition qsum (l : list Qc) : Qc := fold_right Qcplus 0 l.
Definition qprod (l : list Qc) : Qc := fold_right Qcmult 1 l.
Definition sumN (n : nat) (f : nat -> Qc) : Qc := qsum (tab n f).
Definition vget (v : list Qc) (i : nat) : Qc := nth i v 0.
Definition mget (m : list (list Qc)) (i j : nat) : Qc := nth j (nth i m []) 0.
Definition transpose (n : nat) (m : list (list Qc)) : list (list Qc) := tab n (fun i => tab n (fun j => mget m j i)).
(* `x - logsumexp(x)` *)
Definition normalise (v : list Qc) : list Qc := let s := qsum v in map (fun x => x / s) v.

Section HMM.
  Variable N : nat.                    (* config.linear_grid_dim *)
  Variable pr : list Qc.               (* prior        = softmax(tt[int(N/2), :])      *)
  Variable tr : list (list Qc).        (* transition_n = softmax(tt)         (rows)    *)
  Variable ob : list (list Qc).        (* obs_n        = softmax(observation_tensor()) *)

  (* ================= forward_filtering_backward_sampling ================= *)

  (* forward_pass.init_branch:  alpha = (obs_n + prev.reshape(-1,1))[:, obs]  *)
  Definition alpha_init (prev : list Qc) (y : nat) : list Qc :=
    tab N (fun i => mget ob i y * vget prev i).

  (* one forward contraction with transition weight `t i j` multiplying prev[j] into state i *)
  Definition gstep (t : nat -> nat -> Qc) (prev : list Qc) (y : nat) : list Qc :=
    tab N (fun i => mget ob i y * sumN N (fun j => vget prev j * t i j)).

  (* forward_pass.t_branch (after the repair `prev + transition_n.T`):
       alpha[i] = obs_n[i, obs] + logsumexp_j (prev[j] + transition_n[j, i])
     i.e. the contraction runs over the PREVIOUS state j with weight transition_n[prev = j, next = i] *)
  Definition alpha_step : list Qc -> nat -> list Qc := gstep (fun i j => mget tr j i).
  (* the forward pass before the repair (`prev + transition_n`): weight transition_n[i, j], the table
     transposed.  Kept to document what the repair fixed (C37_ffbs_transposed_refuted). *)
  Definition alpha_step_transposed : list Qc -> nat -> list Qc := gstep (fun i j => mget tr i j).

  (* lax.scan(forward_pass, (0, prior), observation_sequence): carry = (index, alpha) *)
  Fixpoint fwd_scan_with (step : list Qc -> nat -> list Qc) (index : nat) (prev : list Qc) (ys : list nat)
    : list (list Qc) :=
    match ys with
    | [] => []
    | y :: r =>
        let alpha := if Nat.eqb index 0 then alpha_init prev y else step prev y in
        alpha :: fwd_scan_with step (S index) alpha r
    end.
  Definition alphas_with step (ys : list nat) : list (list Qc) := fwd_scan_with step 0 pr ys.
  (* forward_filter = alpha - logsumexp(alpha), stacked by the scan *)
  Definition filters_with step (ys : list nat) : list (list Qc) := map normalise (alphas_with step ys).
  Definition alphas := alphas_with alpha_step.
  Definition filters := filters_with alpha_step.
  Definition alphas_transposed := alphas_with alpha_step_transposed.

  (* backward_sample: the distribution handed to jax.random.categorical at scan step `index`
     (end_branch for index 0, t_1_branch otherwise:
        forward_filter + transition_n[:, prev_sample], renormalised) *)
  Definition bwd_dist (index prev_sample : nat) (ff : list Qc) : list Qc :=
    if Nat.eqb index 0 then ff
    else normalise (tab N (fun i => vget ff i * mget tr i prev_sample)).

  (* the scan over jnp.flip(forward_filters), carry = (key, index, prev_sample); `choose index d`
     stands for categorical(sub_key_index, log d) *)
  Fixpoint bwd_scan (choose : nat -> list Qc -> nat) (index prev : nat) (rffs : list (list Qc)) : list nat :=
    match rffs with
    | [] => []
    | ff :: r => let s := choose index (bwd_dist index prev ff) in s :: bwd_scan choose (S index) s r
    end.
  (* samples = jnp.flip(samples) *)
  Definition ffbs_sample (choose : nat -> list Qc -> nat) (ys : list nat) : list nat :=
    rev (bwd_scan choose 0 0 (rev (filters ys))).

  (* probability that the scan emits exactly rxs (scan order): product of the categorical
     probabilities of the emitted values *)
  Fixpoint bwd_pmf (index prev : nat) (rffs : list (list Qc)) (rxs : list nat) : Qc :=
    match rffs, rxs with
    | [], [] => 1
    | ff :: r, x :: xr => vget (bwd_dist index prev ff) x * bwd_pmf (S index) x r xr
    | _, _ => 0
    end.
  (* probability that forward_filtering_backward_sampling returns xs (time order) *)
  Definition ffbs_pmf_with step (ys xs : list nat) : Qc := bwd_pmf 0 0 (rev (filters_with step ys)) (rev xs).
  Definition ffbs_pmf := ffbs_pmf_with alpha_step.
  (* ... and of the sampler before the repair *)
  Definition ffbs_pmf_transposed := ffbs_pmf_with alpha_step_transposed.

  (* ================= latent_sequence_posterior / log_data_marginal ================= *)

  (* TFP HiddenMarkovModel.log_prob: the forward algorithm with transition_distribution[prev, next]
     (modelled, not verified: TFP is a dependency; the tie checks it numerically) *)
  Definition tfp_step : list Qc -> nat -> list Qc := gstep (fun i j => mget tr j i).
  Fixpoint tfp_fwd (a : list Qc) (ys : list nat) : list Qc :=
    match ys with [] => a | y :: r => tfp_fwd (tfp_step a y) r end.
  (* exp (hmm.log_prob(observation_sequence))  =  exp (data_logpdf) *)
  Definition data_lik (ys : list nat) : Qc :=
    match ys with [] => 1 | y :: r => qsum (tfp_fwd (alpha_init pr y) r) end.

  (* _inner: v = log carry[latent] + log softmax(obs logits)[latent, obs];
             carry' = softmax(transition logits[latent, :]) *)
  Fixpoint lsp_scan (carry : list Qc) (xs ys : list nat) : list Qc :=
    match xs, ys with
    | x :: xr, y :: yr => (vget carry x * mget ob x y) :: lsp_scan (nth x tr []) xr yr
    | _, _ => []
    end.
  (* prod = sum(probs) - hmm.log_prob(obs)    =  exp (estimate_logpdf) *)
  Definition est_pdf_with (d : Qc) (xs ys : list nat) : Qc := qprod (lsp_scan pr xs ys) / d.
  Definition est_pdf (xs ys : list nat) : Qc := est_pdf_with (data_lik ys) xs ys.

  (* random_weighted: v from FFBS with k1, w = estimate_logpdf(k2, v, ...) *)
  Definition rw (choose : nat -> list Qc -> nat) (ys : list nat) : Qc * list nat :=
    let v := ffbs_sample choose ys in (est_pdf v ys, v).

  (* ================= the specification: brute force ================= *)
  Fixpoint jtail (p : nat) (xs ys : list nat) : Qc :=
    match xs, ys with
    | [], [] => 1
    | x :: xr, y :: yr => mget tr p x * mget ob x y * jtail x xr yr
    | _, _ => 0
    end.
  (* joint (x_1..x_T, y_1..y_T) = prior(x_1) obs(y_1|x_1) * prod_t trans(x_t | x_{t-1}) obs(y_t | x_t) *)
  Definition joint (xs ys : list nat) : Qc :=
    match xs, ys with
    | x :: xr, y :: yr => vget pr x * mget ob x y * jtail x xr yr
    | _, _ => 0
    end.
  (* all sequences of length T over the states 0..N-1 *)
  Fixpoint seqs (T : nat) : list (list nat) :=
    match T with
    | O => [[]]
    | S t => flat_map (fun x => map (cons x) (seqs t)) (seq 0 N)
    end.
  Definition marginal (ys : list nat) : Qc := qsum (map (fun xs => joint xs ys) (seqs (length ys))).
  Definition posterior (xs ys : list nat) : Qc := joint xs ys / marginal ys.

  (* ================= hypotheses, as computable predicates ================= *)
  Definition Qc_posb (x : Qc) : bool := Z.ltb 0 (Qnum (this x)).
  Definition Qc_eqb (x y : Qc) : bool := Qeq_bool (this x) (this y).
  Definition all2 (f : nat -> nat -> bool) (n m : nat) : bool :=
    forallb (fun i => forallb (f i) (seq 0 m)) (seq 0 n).
  (* every entry the recursions can read is > 0 (true after a float softmax that did not underflow);
     M = number of observation symbols *)
  Definition positive (M : nat) : bool :=
    Nat.ltb 0 N && forallb (fun i => Qc_posb (vget pr i)) (seq 0 N)
    && all2 (fun i j => Qc_posb (mget tr i j)) N N && all2 (fun i y => Qc_posb (mget ob i y)) N M.
  Definition symmetric : bool := all2 (fun i j => Qc_eqb (mget tr i j) (mget tr j i)) N N.
  Definition row_stochastic (M : nat) : bool :=
    Qc_eqb (sumN N (vget pr)) 1 && forallb (fun i => Qc_eqb (sumN N (mget tr i)) 1) (seq 0 N)
    && forallb (fun i => Qc_eqb (sumN M (mget ob i)) 1) (seq 0 N).
  Definition in_range (M : nat) (l : list nat) : bool := forallb (fun x => Nat.ltb x M) l.
End HMM.

(* ================= scaled_circulant: the logits the config builds ================= *)
Open Scope Z_scope.
(* source[index] = eps ** |index| if index <= k else eps ** |index - N| if index - N >= -k else -delta *)
Definition circ_source (N k : Z) (eps mdelta : Q) (index : Z) : Q :=
  if index <=? k then Qpower eps (Z.abs index)
  else if index - N >=? - k then Qpower eps (Z.abs (index - N))
  else mdelta.
(* scipy.linalg.circulant(c)[i, j] = c[(i - j) mod n] *)
Definition circ_entry (N k : Z) (eps mdelta : Q) (i j : Z) : Q := circ_source N k eps mdelta ((i - j) mod N).
Definition scaled_circulant (N k : Z) (eps mdelta : Q) : list (list Q) :=
  map (fun i => map (fun j => circ_entry N k eps mdelta (Z.of_nat i) (Z.of_nat j)) (seq 0 (Z.to_nat N))) (seq 0 (Z.to_nat N)).
Close Scope Z_scope.

(* ================= correspondence cases ================= *)
Record hcfg := { cN : nat; cpr : list Q; ctr : list (list Q); cob : list (list Q) }.
Definition qv (l : list Q) : list Qc := map Q2Qc l.
Definition qm (m : list (list Q)) : list (list Qc) := map qv m.

Definition tolQ : Q := (1 # 10000)%Q.      (* relative tolerance on exp(float32 log-density) *)
Definition marginQ : Q := (1 # 1000)%Q.    (* Gumbel-max replay: ties closer than this are not judged *)
(* [lo, hi] is an enclosure of exp(implementation's log value); accept iff it lies within
   m (1 +- tol) *)
Definition within (m : Qc) (e : Q * Q) : bool :=
  (Qle_bool (fst e) (snd e) && Qle_bool (this m * (1 - tolQ)) (fst e) && Qle_bool (snd e) (this m * (1 + tolQ)))%Q.
Fixpoint all2l {A B} (f : A -> B -> bool) (a : list A) (b : list B) : bool :=
  match a, b with [], [] => true | x :: r, y :: s => f x y && all2l f r s | _, _ => false end.

(* argmax_i (log d_i + g_i) = argmax_i d_i * exp g_i; x must win up to the margin *)
Definition wins (n : nat) (d : list Qc) (e : list Q) (x : nat) : bool :=
  Nat.ltb x n && Nat.eqb (length e) n &&
  forallb (fun j => Nat.eqb j x ||
                    Qle_bool (this (vget d j) * nth j e 0) (this (vget d x) * nth x e 0 * (1 + marginQ)))%Q (seq 0 n).

Fixpoint replay_ok (n : nat) (tr : list (list Qc)) (index prev : nat) (rffs : list (list Qc))
         (es : list (list Q)) (rxs : list nat) : bool :=
  match rffs, es, rxs with
  | [], [], [] => true
  | ff :: r, e :: er, x :: xr =>
      wins n (bwd_dist n tr index prev ff) e x && replay_ok n tr (S index) x r er xr
  | _, _, _ => false
  end.

(* key chain of random_weighted + backward_sample:
   key, k1, k2 = split(key, 3); FFBS gets k1; each scan step: key, sub_key = split(key) *)
Fixpoint sub_keys (k : key) (n : nat) : list key :=
  match n with O => [] | S m => split_i k 1 :: sub_keys (split_i k 0) m end.
Definition key_eqb (a b : key) : bool := (N.eqb (fst a) (fst b) && N.eqb (snd a) (snd b)).

Definition qeq_mat (a b : list (list Q)) : bool := all2l (all2l Qeq_bool) a b.

Inductive hcase :=
(* scaled_circulant(N, k, eps, -delta) = want, exactly *)
| HLogits (N k : Z) (eps mdelta : Q) (want : list (list Q))
(* exp(estimate_logpdf(xs | ys)) for a list of latent sequences *)
| HPost (c : hcfg) (ys : list nat) (posts : list (list nat * (Q * Q)))
(* exp(data_logpdf(ys)) *)
| HData (c : hcfg) (ys : list nat) (enc : Q * Q)
(* exp(forward_filters) returned by forward_filtering_backward_sampling *)
| HFilt (c : hcfg) (ys : list nat) (enc : list (list (Q * Q)))
(* random_weighted(root key): the sub keys used by the scan steps (scan order), exp of the Gumbel
   noise drawn from them (scan order), the sample returned (time order) *)
| HSamp (c : hcfg) (ys : list nat) (root : key) (subs : list key) (es : list (list Q)) (xs : list nat).

Definition hcase_ok (c : hcase) : bool :=
  match c with
  | HLogits N k eps md want => qeq_mat (scaled_circulant N k eps md) want
  | HPost c ys posts =>
      (* est_pdf with the data likelihood computed once for the whole list *)
      let d := data_lik (cN c) (qv (cpr c)) (qm (ctr c)) (qm (cob c)) ys in
      forallb (fun p => within (est_pdf_with (qv (cpr c)) (qm (ctr c)) (qm (cob c)) d (fst p) ys) (snd p)) posts
  | HData c ys enc => within (data_lik (cN c) (qv (cpr c)) (qm (ctr c)) (qm (cob c)) ys) enc
  | HFilt c ys enc =>
      all2l (all2l within) (filters (cN c) (qv (cpr c)) (qm (ctr c)) (qm (cob c)) ys) enc
  | HSamp c ys root subs es xs =>
      all2l key_eqb (sub_keys (split_i root 1) (length ys)) subs &&
      replay_ok (cN c) (qm (ctr c)) 0 0 (rev (filters (cN c) (qv (cpr c)) (qm (ctr c)) (qm (cob c)) ys)) es (rev xs)
  end.
Fixpoint hmismatches_from (n : nat) (cs : list hcase) : list nat :=
  match cs with
  | [] => []
  | c :: r => if hcase_ok c then hmismatches_from (S n) r else n :: hmismatches_from (S n) r
  end.
Definition hmismatches := hmismatches_from 0.

(* ================= wire format of the case files =================
   Coq's decimal number notation costs ~20-50 ms per literal once QArith is loaded; the case files
   hold thousands of 24..40-bit numbers, so they are written as primitive 63-bit integer literals
   (parsed natively) and decoded here.  Only this decoder uses Uint63; no theorem depends on it. *)
From Coq Require Import Uint63.
Definition iZ (i : int) : Z := Uint63.to_Z i.
Definition inat (i : int) : nat := Z.to_nat (iZ i).
Definition iN (i : int) : N := Z.to_N (iZ i).
(* a dyadic rational (-1)^neg * m / 2^k: every float is one *)
Inductive dy := Dy (neg : bool) (m k : int).
Definition dyQ (d : dy) : Q :=
  let 'Dy s m k := d in Qmake (if s then Z.opp (iZ m) else iZ m) (Pos.shiftl 1%positive (iN k)).
(* enclosure [lo / 2^k, hi / 2^k] *)
Inductive enc := En (lo hi k : int).
Definition encQ (e : enc) : Q * Q :=
  let 'En lo hi k := e in (Qmake (iZ lo) (Pos.shiftl 1%positive (iN k)), Qmake (iZ hi) (Pos.shiftl 1%positive (iN k))).
Record wcfg := { wN : int; wpr : list dy; wtr : list (list dy); wob : list (list dy) }.
Definition cfg_of (w : wcfg) : hcfg :=
  {| cN := inat (wN w); cpr := map dyQ (wpr w); ctr := map (map dyQ) (wtr w); cob := map (map dyQ) (wob w) |}.
Definition ikey (k : int * int) : key := (iN (fst k), iN (snd k)).
Inductive wcase :=
| WLogits (N k : int) (eps mdelta : dy) (want : list (list dy))
| WPost (c : wcfg) (ys : list int) (posts : list (list int * enc))
| WData (c : wcfg) (ys : list int) (e : enc)
| WFilt (c : wcfg) (ys : list int) (e : list (list enc))
| WSamp (c : wcfg) (ys : list int) (root : int * int) (subs : list (int * int)) (es : list (list dy)) (xs : list int).
Definition decode (w : wcase) : hcase :=
  match w with
  | WLogits N k eps md want => HLogits (iZ N) (iZ k) (dyQ eps) (dyQ md) (map (map dyQ) want)
  | WPost c ys posts => HPost (cfg_of c) (map inat ys) (map (fun p => (map inat (fst p), encQ (snd p))) posts)
  | WData c ys e => HData (cfg_of c) (map inat ys) (encQ e)
  | WFilt c ys e => HFilt (cfg_of c) (map inat ys) (map (map encQ) e)
  | WSamp c ys root subs es xs =>
      HSamp (cfg_of c) (map inat ys) (ikey root) (map ikey subs) (map (map dyQ) es) (map inat xs)
  end.
Definition wmismatches (cs : list wcase) : list nat := hmismatches (map decode cs).
