"""fixed-defect witness: Rejuvenate evaluated the backward proposal with
arguments computed from the discarded (old) values instead of the new trace
(C27).  exit 1 if present."""
import sys, jax, jax.numpy as jnp
import genjax
from genjax import gen, normal, ChoiceMap as C, Diff
from genjax._src.inference.requests.rejuvenate import Rejuvenate

@gen
def model():
    x = normal(0.0, 1.0) @ "x"
    y = normal(x, 1.0) @ "y"
    return y

@gen
def walk(x):
    return normal(x, 0.5) @ "x"

bad = []
for seed in range(4):
    key = jax.random.key(seed)
    tr = model.simulate(key, ())
    req = Rejuvenate(walk, lambda chm: (chm["x"],))
    new_tr, w, rd, bwd = req.edit(jax.random.key(seed + 10), tr, ())
    # symmetric random walk: the MH ratio is the model score difference
    want = float(new_tr.get_score() - tr.get_score())
    if abs(float(w) - want) > 1e-4:
        bad.append((seed, float(w), want))
print("FAIL" if bad else "OK", bad[:3])
sys.exit(1 if bad else 0)
