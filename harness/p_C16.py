"""C16 — engine B-gfi (harness/bgfi.py); theorems in coq/props/C16.v."""
from . import bgfi


def run(ctx):
    bgfi.run_property(ctx, "C16", oracles=bgfi.PROP_ORACLES.get("C16"))


def replay(case):
    return bgfi.replay(case)
