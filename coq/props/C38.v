(* C38 — derived GFI methods and request combinators agree with the primitives.
   Trace.update / Trace.edit / Trace.project and DiffAnnotate with identity maps are thin delegations in the source;
   they are compared with the primitives on the implementation on every run (direct oracle), not modelled. *)
From Coq Require Import List ZArith.
Import ListNotations.
From Gen Require Import SelGen.
From Model Require Import Key Sel GFI GFIEdit GFIOps.
From Proofs Require Import GFIBase GFIRef GFIWf GFIConsistent GFIProject GFISim GFIGen GFIEditProofs GFIStatic.
Open Scope Z_scope.

Theorem C38_propose_is_simulate : forall g k a,
  propose g k a = match simulate g k a with Ok t => Ok (t_choices t, t_score t, t_retval t) | Err e => Err e end.
Proof. exact propose_is_simulate. Qed.
Print Assumptions C38_propose_is_simulate.
Theorem C38_importance_is_generate : forall g k c a, importance g k c a = generate g k c a.
Proof. exact importance_is_generate. Qed.
Print Assumptions C38_importance_is_generate.
Theorem C38_empty_request : forall g k t a tg,
  req_edit g k t REmpty a tg = if tags_nochange tg then Ok (t, 0, REmpty) else edit g k t (RUpdate []) a tg.
Proof. exact empty_request. Qed.
Print Assumptions C38_empty_request.
Theorem C38_primitive_requests_go_to_the_generative_function : forall g k t r a tg,
  r <> REmpty -> req_edit g k t r a tg = edit g k t r a tg.
Proof. exact primitive_requests_go_to_the_generative_function. Qed.
Print Assumptions C38_primitive_requests_go_to_the_generative_function.
Theorem C38_static_request_site : forall ad g es rest k cnt olds m env envt acc w bw av told,
  eval_list env es = Ok av -> subs_get olds ad = Some told ->
  edit_body (SSite ad g es rest) k cnt olds (RStatic m) env envt acc w bw =
  (do x <- (match static_subrequest m ad with
            | REmpty => if tags_nochange (map (tag_eval envt) es) then Ok (told, 0, REmpty)
                        else edit g (fold_in k cnt) told (RUpdate []) av (map (tag_eval envt) es)
            | sub => edit g (fold_in k cnt) told sub av (map (tag_eval envt) es)
            end);
   let '(t', w', b') := x in
   if existsb (fun p => addr_eqb (fst p) ad) acc then Err EAddressReuse
   else edit_body rest k (cnt + 1)%N olds (RStatic m) (env ++ [t_retval t']) (envt ++ [tg_unknown])
                  (acc ++ [(ad, t')]) (w + w') (bw ++ [(ad, b')])).
Proof. exact static_request_site. Qed.
Print Assumptions C38_static_request_site.
