(* C30 — VI objective gradient estimators are unbiased for their objectives.
   Model: coq/model/AdevVI.v on top of coq/model/Adev.v: the losses of vi.ELBO / vi.PWake as the ADEV
   programs the code builds (guide sample sites + the Marginal / Importance / ChangeTarget weight
   algebra), run by the model's ADEV interpreter.  Specification: the objectives as explicit sums
   over all latent assignments, in dual numbers (value, formal derivative; lg/dlg = log and its
   derivative are arbitrary function symbols, so the statements hold in particular for log, 1/x).
   With an enumerating guide (vi.flip_enum) the estimate is deterministic, so "unbiased" is "equal";
   with a reparameterised guide the statement is pointwise in eps.
   vi.IWELBO and vi.QWake raise on the unchanged tree (known findings K46, K47); ELBO with two
   reparameterised sites is outside the region (K44, C29_tailcall_key_reuse_refuted). *)
From Coq Require Import List ZArith QArith Bool.
Import ListNotations.
From Model Require Import Adev AdevVI.
From Proofs Require Import AdevProofs AdevVIProofs.
Open Scope Q_scope.

(* the loss estimate is minus the ELBO  sum_x q(x) (log p(x, obs) - log q(x)) *)
Theorem C30_elbo_is_objective : forall lg dlg g lat obs env rs d,
  length lat = length g -> Forall (fun pq => fst pq = PFlipEnum) g ->
  exists r, interp lg dlg (elbo_prog g lat obs) env [] rs d = Some r /\
            fst r == - fst (elbo_obj lg dlg (map snd g) lat obs env).
Proof.
  intros. destruct (elbo_enum lg dlg g lat obs env rs d) as [r [E [D _]]]; try assumption.
  exists r. split; assumption.
Qed.
Print Assumptions C30_elbo_is_objective.

(* its tangent is the directional derivative of minus the ELBO along the input tangents *)
Theorem C30_elbo_grad_unbiased : forall lg dlg g lat obs env rs d,
  length lat = length g -> Forall (fun pq => fst pq = PFlipEnum) g ->
  exists r, interp lg dlg (elbo_prog g lat obs) env [] rs d = Some r /\
            snd r == - snd (elbo_obj lg dlg (map snd g) lat obs env).
Proof.
  intros. destruct (elbo_enum lg dlg g lat obs env rs d) as [r [E [_ D]]]; try assumption.
  exists r. split; assumption.
Qed.
Print Assumptions C30_elbo_grad_unbiased.
Example C30_elbo_nonvacuous :
  let g := [(PFlipEnum, EV 1); (PFlipEnum, EIf 0 (EV 1) (EC (1#4)))] in
  let lat := [EV 0; EIf 0 (EC (3#4)) (EV 0)] in
  length lat = length g /\ Forall (fun pq => fst pq = PFlipEnum) g /\
  exists r, interp qlog Qinv (elbo_prog g lat [(EIf 0 (EC (3#4)) (EC (1#4)), true)]) [(1#2, 0); (1#4, 1)] [] (rnd_of []) 0 = Some r.
Proof. split; [reflexivity|]. split; [repeat constructor|]. eexists. vm_compute. reflexivity. Qed.

(* PWake: minus E_{x ~ q} log p(x, obs), value and derivative *)
Theorem C30_pwake_is_objective : forall lg dlg g lat obs env rs d,
  length lat = length g -> Forall (fun pq => fst pq = PFlipEnum) g ->
  exists r, interp lg dlg (pwake_prog g lat obs) env [] rs d = Some r /\
            fst r == - fst (pwake_obj lg dlg (map snd g) lat obs env).
Proof.
  intros. destruct (pwake_enum lg dlg g lat obs env rs d) as [r [E [D _]]]; try assumption.
  exists r. split; assumption.
Qed.
Print Assumptions C30_pwake_is_objective.
Theorem C30_pwake_grad_unbiased : forall lg dlg g lat obs env rs d,
  length lat = length g -> Forall (fun pq => fst pq = PFlipEnum) g ->
  exists r, interp lg dlg (pwake_prog g lat obs) env [] rs d = Some r /\
            snd r == - snd (pwake_obj lg dlg (map snd g) lat obs env).
Proof.
  intros. destruct (pwake_enum lg dlg g lat obs env rs d) as [r [E [_ D]]]; try assumption.
  exists r. split; assumption.
Qed.
Print Assumptions C30_pwake_grad_unbiased.

(* a reparameterised guide (one normal latent, normal observation): pointwise in eps the estimate is
   the value and the pathwise derivative of -(log p(x, v0) - log q(x)) along x = m + s * eps *)
Theorem C30_elbo_reparam_pathwise : forall lg dlg m0 s0 s1 v0 m s env rs d,
  let x := dadd (deval lg dlg m env []) (dmul (deval lg dlg s env []) (dC (de (rs d)))) in
  exists r, interp lg dlg (elbo_normal_prog m0 s0 s1 v0 m s) env [] rs d = Some r /\
    deq r (dneg (dsub (dadd (deval lg dlg (lnormal (EV 0) (eshiftr m0) (eshiftr s0)) (x :: env) [])
                            (deval lg dlg (lnormal (eshiftr v0) (EV 0) (eshiftr s1)) (x :: env) []))
                      (deval lg dlg (lnormal (EV 0) (eshiftr m) (eshiftr s)) (x :: env) []))).
Proof. exact elbo_normal_pathwise. Qed.
Print Assumptions C30_elbo_reparam_pathwise.

(* IWELBO and QWake: the faithful model of the unchanged tree raises for every guide made of ADEV
   primitives -- the objectives' theorems cannot be stated about a value (partial: nothing to prove
   until K46 / K47 are repaired) *)
Theorem C30_iwelbo_qwake_refuted_partial : forall g lat obs N xs,
  iwelbo_grad g lat obs N xs = None /\ qwake_grad g lat obs xs = None.
Proof. intros. split; reflexivity. Qed.
Print Assumptions C30_iwelbo_qwake_refuted_partial.
