(* simulate and generate record executions: their traces are well formed (wft). *)
From Coq Require Import List Bool ZArith NArith Lia Arith.
Import ListNotations.
From Gen Require Import SelGen.
From Model Require Import Key Sel GFI.
From Proofs Require Import GFIBase GFIRef GFIWf GFIConsistent.
Open Scope Z_scope.

Lemma Forall2_seq_nth {B} (R : nat -> B -> Prop) n : forall s l j t,
  Forall2 R (seq s n) l -> nth_error l j = Some t -> R (s + j)%nat t.
Proof.
  induction n as [|n IH]; intros s l j t H Hj; simpl in H; inversion H; subst.
  - destruct j; discriminate.
  - destruct j as [|j']; simpl in Hj.
    + inversion Hj; subst. rewrite Nat.add_0_r. assumption.
    + replace (s + S j')%nat with (S s + j')%nat by lia. eapply IH; eauto.
Qed.
Lemma Forall2_length' {A B} (R : A -> B -> Prop) l1 l2 : Forall2 R l1 l2 -> length l1 = length l2.
Proof. induction 1; simpl; congruence. Qed.

Lemma nth_error_map_inv {A B} (f : A -> B) l i y :
  nth_error (map f l) i = Some y -> exists x, nth_error l i = Some x /\ y = f x.
Proof.
  revert i; induction l as [|a r IH]; intros [|i] H; simpl in *; try discriminate.
  - inversion H. eauto.
  - apply IH. exact H.
Qed.

Lemma split_ret_ok v c y : split_ret v = Ok (c, y) -> v = VT [c; y].
Proof. destruct v as [| |[|c' [|y' [|]]]| | |]; simpl; intros H; inversion H; reflexivity. Qed.

(* a scanM whose steps produce well-formed iterations yields a well-formed chain *)
Lemma scanM_scan_ok_gen {T} (P : trace -> Prop) (tr : T -> trace) xs
      (step : nat -> val -> res (T * val * val)) :
  (forall i c x c' y, step i c = Ok (x, c', y) ->
      P (tr x) /\ t_args (tr x) = [c; slice0 xs i] /\ split_ret (t_retval (tr x)) = Ok (c', y)) ->
  forall n s c ts cf ys, scanM step (seq s n) c = Ok (ts, cf, ys) ->
    scan_ok P xs s c (map tr ts) cf ys /\ length ts = n.
Proof.
  intros Hstep. induction n as [|n IH]; intros s c ts cf ys H.
  - simpl in H. inversion H; subst. simpl. auto.
  - simpl seq in H. rewrite scanM_cons in H. inv_bind H. destruct x as [[x c'] y]. inv_bind H.
    destruct x0 as [[ts' cf'] ys']. inversion H; subst.
    destruct (Hstep _ _ _ _ _ Hx) as [HP [Ha Hs]]. destruct (IH _ _ _ _ _ Hx0) as [Hok Hlen].
    simpl. split; [|congruence]. split; [exact HP|]. split; [exact Ha|]. exists c', y, ys'. auto.
Qed.

Theorem simulate_wft_all :
  (forall g k a t, simulate g k a = Ok t -> wft g t /\ t_args t = a) /\
  (forall b k cnt env acc r, sim_body b k cnt env acc = Ok r ->
      exists subs, snd r = acc ++ subs /\ wfb b env subs (fst r)) /\
  (forall bs j k a t, sim_branch bs j k a = Ok t -> wf_branch bs j t /\ t_args t = a).
Proof.
  apply gf_sbody_gfs_ind.
  - (* GDist *) intros d k a t H. simpl in H.
    destruct a as [|[p| | | | |] [|? ?]]; try discriminate. inversion H; subst. simpl. split; [|reflexivity].
    split; [reflexivity|]. exists p. auto.
  - (* GStatic *) intros b IH k a t H. simpl in H. inv_bind H. inversion H; subst.
    destruct (IH _ _ _ _ _ Hx) as [subs [Hs Hw]]. simpl in Hs. simpl. rewrite Hs. auto.
  - (* GVmap *) intros axes g IH k a t H. simpl in H. destruct (vmap_len axes a) as [n|] eqn:Hn; [|discriminate].
    inv_bind H. inversion H; subst. simpl. split; [|reflexivity]. exists n. split; [exact Hn|].
    pose proof (mapM_ok_Forall2 _ _ _ Hx) as HF. split.
    + apply Forall2_length' in HF. rewrite seq_length in HF. congruence.
    + intros i t' Hi. pose proof (Forall2_seq_nth _ _ _ _ _ _ HF Hi) as Hs. simpl in Hs. apply IH in Hs. exact Hs.
  - (* GScan *) intros n g IH k a t H. simpl in H.
    destruct a as [|carry [|xs [|? ?]]]; try discriminate.
    destruct (scan_len n xs) as [len|] eqn:Hlen; [|discriminate].
    inv_bind H. destruct x as [[ts cf] ys]. inversion H; subst. simpl. split; [|reflexivity].
    exists carry, xs, len, cf, ys.
    match type of Hx with scanM ?step _ _ = _ =>
      assert (Hstep : forall i c x c' y, step i c = Ok (x, c', y) ->
                wft g x /\ t_args x = [c; slice0 xs i] /\ split_ret (t_retval x) = Ok (c', y)) end.
    { intros i c x c' y Hs. simpl in Hs. bind_inv Hs as t0 Ht0. bind_inv Hs as cy Hcy. inversion Hs; subst. destruct cy as [c'' y'']. simpl.
      destruct (IH _ _ _ Ht0) as [Hw Ha]. auto. }
    destruct (scanM_scan_ok_gen (wft g) (fun t => t) xs _ Hstep len 0%nat carry ts cf ys Hx) as [Hok Hl].
    rewrite map_id in Hok. repeat split; auto.
  - (* GSwitch *) intros bs IH k a t H. simpl in H.
    destruct a as [|[idx| | | | |] bargs]; try discriminate.
    destruct (nth_error bargs (clampZ idx (gfs_len bs))) as [[| |l| | |]|] eqn:Hnth; try discriminate.
    inv_bind H. inversion H; subst. destruct (IH _ _ _ _ Hx) as [Hw Ha]. simpl. split; [|reflexivity].
    exists idx, bargs, l. repeat split; auto.
  - (* GMask *) intros g IH k a t H. simpl in H.
    destruct a as [|[|check| | | |] a']; try discriminate. inv_bind H. inversion H; subst.
    destruct (IH _ _ _ Hx) as [Hw Ha]. simpl. subst. auto.
  - (* GDimap *) intros pre g IH post k a t H. simpl in H. inv_bind H. inv_bind H. inv_bind H. inversion H; subst.
    destruct (IH _ _ _ Hx0) as [Hw Ha]. simpl. subst. auto.
  - (* SRet *) intros e k cnt env acc r H. simpl in H. inv_bind H. inversion H; subst. exists []. simpl. rewrite app_nil_r. auto.
  - (* SSite *) intros a g IHg es rest IHr k cnt env acc r H. simpl in H. inv_bind H. inv_bind H.
    destruct (existsb _ acc); [discriminate|].
    destruct (IHr _ _ _ _ _ H) as [subs [Hs Hw]]. destruct (IHg _ _ _ Hx0) as [Hwt Ha].
    exists ((a, x0) :: subs). split; [rewrite Hs, <- app_assoc; reflexivity|]. simpl. subst. auto.
  - (* GNil *) intros j k a t H. discriminate.
  - (* GCons *) intros g IHg r IHr j k a t H. destruct j; simpl in *; [apply IHg in H | apply IHr in H]; exact H.
Qed.

Theorem generate_wft_all :
  (forall g k c a x, generate g k c a = Ok x -> wft g (fst x) /\ t_args (fst x) = a) /\
  (forall b k cnt c env acc w r, gen_body b k cnt c env acc w = Ok r ->
      exists subs, snd (fst r) = acc ++ subs /\ wfb b env subs (fst (fst r))) /\
  (forall bs j k c a x, gen_branch bs j k c a = Ok x -> wf_branch bs j (fst x) /\ t_args (fst x) = a).
Proof.
  apply gf_sbody_gfs_ind.
  - (* GDist *) intros d k c a x H. simpl in H.
    destruct a as [|[p| | | | |] [|? ?]]; try discriminate.
    destruct (cvalue c) as [[z|b|l|l|[|] v|]|]; try discriminate;
      try (destruct v; try discriminate); inversion H; subst; simpl; (split; [|reflexivity]); (split; [reflexivity|]); exists p; auto.
  - (* GStatic *) intros b IH k c a x H. simpl in H. inv_bind H. destruct x0 as [[v subs] w]. inversion H; subst.
    destruct (IH _ _ _ _ _ _ _ Hx) as [subs' [Hs Hw]]. simpl in *. subst. auto.
  - (* GVmap *) intros axes g IH k c a x H. simpl in H. destruct (vmap_len axes a) as [n|] eqn:Hn; [|discriminate].
    inv_bind H. inversion H; subst. simpl. split; [|reflexivity]. exists n. split; [exact Hn|].
    pose proof (mapM_ok_Forall2 _ _ _ Hx) as HF. split.
    + apply Forall2_length' in HF. rewrite seq_length in HF. rewrite map_length. congruence.
    + intros i t' Hi. apply nth_error_map_inv in Hi.
      destruct Hi as [y [Hy ->]]. pose proof (Forall2_seq_nth _ _ _ _ _ _ HF Hy) as Hs. simpl in Hs. apply IH in Hs. exact Hs.
  - (* GScan *) intros n g IH k c a x H. simpl in H.
    destruct a as [|carry [|xs [|? ?]]]; try discriminate.
    destruct (scan_len n xs) as [len|] eqn:Hlen; [|discriminate].
    inv_bind H. destruct x0 as [[ts cf] ys]. inversion H; subst. simpl. split; [|reflexivity].
    exists carry, xs, len, cf, ys.
    match type of Hx with scanM ?step _ _ = _ =>
      assert (Hstep : forall i c0 x c' y, step i c0 = Ok (x, c', y) ->
                wft g (fst x) /\ t_args (fst x) = [c0; slice0 xs i] /\ split_ret (t_retval (fst x)) = Ok (c', y)) end.
    { intros i c0 x c' y Hs. simpl in Hs. bind_inv Hs as t0 Ht0. bind_inv Hs as cy Hcy. inversion Hs; subst. destruct cy as [c'' y'']. simpl.
      destruct (IH _ _ _ _ Ht0) as [Hw Ha]. auto. }
    destruct (scanM_scan_ok_gen (wft g) (fun x : trace * Z => fst x) xs _ Hstep len 0%nat carry ts cf ys Hx) as [Hok Hl].
    rewrite map_length. repeat split; auto.
  - (* GSwitch *) intros bs IH k c a x H. simpl in H.
    destruct a as [|[idx| | | | |] bargs]; try discriminate.
    destruct (nth_error bargs (clampZ idx (gfs_len bs))) as [[| |l| | |]|] eqn:Hnth; try discriminate.
    inv_bind H. inversion H; subst. destruct (IH _ _ _ _ _ Hx) as [Hw Ha]. simpl. split; [|reflexivity].
    exists idx, bargs, l. repeat split; auto.
  - (* GMask *) intros g IH k c a x H. simpl in H.
    destruct a as [|[|check| | | |] a']; try discriminate. inv_bind H. inversion H; subst.
    destruct (IH _ _ _ _ Hx) as [Hw Ha]. simpl. subst. auto.
  - (* GDimap *) intros pre g IH post k c a x H. simpl in H. inv_bind H. inv_bind H. inv_bind H. inversion H; subst.
    destruct (IH _ _ _ _ Hx0) as [Hw Ha]. simpl. subst. auto.
  - (* SRet *) intros e k cnt c env acc w r H. simpl in H. inv_bind H. inversion H; subst. exists []. simpl. rewrite app_nil_r. auto.
  - (* SSite *) intros a g IHg es rest IHr k cnt c env acc w r H. simpl in H. inv_bind H. inv_bind H.
    destruct (existsb _ acc); [discriminate|].
    destruct (IHr _ _ _ _ _ _ _ H) as [subs [Hs Hw]]. destruct (IHg _ _ _ _ Hx0) as [Hwt Ha].
    exists ((a, fst x0) :: subs). split; [rewrite Hs, <- app_assoc; reflexivity|]. simpl. subst. auto.
  - (* GNil *) intros j k c a x H. discriminate.
  - (* GCons *) intros g IHg r IHr j k c a x H. destruct j; simpl in *; [apply IHg in H | apply IHr in H]; exact H.
Qed.

(* ---------------- C01 for simulate and generate ---------------- *)
Theorem simulate_agrees_with_assess g k a t :
  wfg g -> simulate g k a = Ok t -> sites_live t ->
  assess g (t_choices t) (t_args t) = Ok (t_score t, t_retval t).
Proof.
  intros Hg H Hl. destruct (proj1 simulate_wft_all g k a t H) as [Hw _].
  destruct (proj1 wft_ref_all g Hg t Hw Hl) as [Hr Hs].
  rewrite assess_is_ref_sum, Hr. simpl. rewrite Hs. reflexivity.
Qed.
Theorem generate_agrees_with_assess g k c a t w :
  wfg g -> generate g k c a = Ok (t, w) -> sites_live t ->
  assess g (t_choices t) (t_args t) = Ok (t_score t, t_retval t).
Proof.
  intros Hg H Hl. destruct (proj1 generate_wft_all g k c a (t, w) H) as [Hw _]. simpl in Hw.
  destruct (proj1 wft_ref_all g Hg t Hw Hl) as [Hr Hs].
  rewrite assess_is_ref_sum, Hr. simpl. rewrite Hs. reflexivity.
Qed.
