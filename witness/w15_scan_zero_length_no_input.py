"""iterate(n=0) / scan(n=0) without a scanned input: the documented loop runs zero times and returns the
initial value (C12).  Defect: `length or leaves(xs)[0].shape[0]` treated length 0 as "not given" and raised IndexError.
exit 0 = property holds, exit 1 = defect shows."""
import sys, os
os.environ.setdefault("JAX_PLATFORMS", "cpu")
import jax, jax.numpy as jnp, genjax

@genjax.gen
def step(x):
    return genjax.normal(x, 1.0) @ "x"

try:
    tr = step.iterate_final(n=0).simulate(jax.random.key(0), (2.0,))
    tr2 = step.iterate(n=0).simulate(jax.random.key(0), (2.0,))
    ok = float(tr.get_retval()) == 2.0 and float(tr.get_score()) == 0.0 and tr2.get_retval().shape == (1,) and float(tr2.get_retval()[0]) == 2.0
    print("iterate_final(n=0) ->", tr.get_retval(), "iterate(n=0) ->", tr2.get_retval(), "OK" if ok else "WRONG")
    sys.exit(0 if ok else 1)
except Exception as e:
    print("raised", type(e).__name__, e)
    sys.exit(1)
