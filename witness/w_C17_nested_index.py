"""candidate-defect witness (C17): an index level beneath an array-shaped index level.
Indexed.get_inner_map maps `lambda v: Mask.build(v[idx], check[idx])` over *every* pytree leaf of
self.c, the inner Indexed node's address included; the inner address becomes a Mask object and every
later `self.addr == addr` is False.  exit 1 if the defect is present."""
import sys, jax, jax.numpy as jnp
from genjax import ChoiceMapBuilder as C
v = jnp.array([10.0, 20.0, 30.0])
m1 = C[jnp.array([0, 1, 2])].set(C[jnp.array([5, 6, 7])].set(v))      # entry (1, 6) -> 20
m2 = jax.vmap(lambda i, x: C[i, 0].set(x))(jnp.arange(3), v)          # entry (1, 0) -> 20
r1, r2 = m1[1, 6], m2[1, 0]
bad = [(name, float(r.value), bool(r.flag)) for name, r in (("C[vec].set(C[vec].set(v))[1,6]", r1), ("vmap(C[i,0].set)[1,0]", r2)) if not bool(r.flag)]
print("FAIL" if bad else "OK", bad)
sys.exit(1 if bad else 0)
