(* C08 — change tags are sound.  PARTIAL in Coq:
   proved — (1) honest-or-not, the tags of the arguments do not influence an Update / Regenerate on any program
   without a switch (the only documented consumer of an UnknownChange tag is the switch index); (2) at a
   distribution site, the return value the source tags NoChange (no constraint / not selected) is the previous one;
   (3) the incremental interpreter that computes every other return tag is sound (C09: C09_incr_noninterference).
   Not proved in Coq: the composition of (2) and (3) through every combinator; it is decided on every run by the
   direct oracle (each leaf of every returned diff tagged NoChange is compared with the previous return value, and
   every edit is re-run under the other honest tagging of its unchanged arguments). *)
From Coq Require Import List ZArith.
Import ListNotations.
From Model Require Import Key Sel GFI GFIEdit.
From Proofs Require Import GFIBase GFIWf GFIEditProofs GFITags.

Theorem C08_argument_tags_do_not_matter_partial : forall g k t r a tg tg',
  no_switch g -> plain r -> length tg = length tg' -> edit g k t r a tg = edit g k t r a tg'.
Proof. exact tags_irrelevant. Qed.
Print Assumptions C08_argument_tags_do_not_matter_partial.

Theorem C08_site_nochange_means_unchanged_partial : forall d k t r a tg t' w b,
  wft (GDist d) t -> edit (GDist d) k t r a tg = Ok (t', w, b) -> site_retdiff_changed r = false -> t_retval t' = t_retval t.
Proof. exact site_nochange_means_unchanged. Qed.
Print Assumptions C08_site_nochange_means_unchanged_partial.

(* ---- non-vacuity: concrete non-trivial programs and traces meeting the hypotheses above (proofs/GFIWitness.v) ---- *)
From Proofs Require Import GFIWitness.
Example C08_hypotheses_met : no_switch ex_g /\ wft ex_g ex_t /\
  exists t' w b, edit ex_g ex_k2 ex_t (RUpdate ex_c) ex_a' ex_tg = Ok (t', w, b) /\ t' <> ex_t /\ w <> 0.
Proof. exact (conj ex_no_switch (conj ex_wft ex_update_succeeds)). Qed.
Print Assumptions C08_hypotheses_met.
