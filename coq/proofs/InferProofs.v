(* Lemmas about the inference model (model/Infer.v): Marginal, Importance(K), SIR, ChangeTarget. *)
From Coq Require Import List ZArith QArith Qcanon Bool Lia.
From Model Require Import Prob Infer.
From Proofs Require Import ProbProofs.
Import ListNotations.
Open Scope Qc_scope.

Lemma Qcinv_1 : / 1 = 1.
Proof. apply Qc_is_canon. reflexivity. Qed.

(* ---- choice maps ---- *)
Lemma hd_dom c : hd false (dom c) = is_some (chd c).
Proof. destruct c; reflexivity. Qed.
Lemma tl_dom c : tl (dom c) = dom (ctl c).
Proof. destruct c; reflexivity. Qed.

Lemma oZ_eqb_eq a b : oZ_eqb a b = true <-> a = b.
Proof.
  destruct a, b; simpl; split; try congruence; try (intros; reflexivity).
  - intros H. apply Z.eqb_eq in H. now subst.
  - intros H. inversion H. apply Z.eqb_refl.
Qed.
Lemma cmap_eqb_eq a b : cmap_eqb a b = true <-> a = b.
Proof.
  revert b. induction a as [|x a IH]; destruct b as [|y b]; simpl; split; try congruence; try (intros; reflexivity).
  - intros H. apply andb_prop in H. destruct H as [H1 H2]. apply oZ_eqb_eq in H1. apply IH in H2. now subst.
  - intros H. inversion H; subst. apply andb_true_intro. split; [now apply oZ_eqb_eq|now apply IH].
Qed.
Lemma cmap_eqb_refl a : cmap_eqb a a = true.
Proof. now apply cmap_eqb_eq. Qed.

(* ---- densities ---- *)
Lemma dens_split pol m : forall env b t, dens m env t = projb pol m env b t * projb (negb pol) m env b t.
Proof.
  induction m as [|s m IH]; intros env b t; simpl; [ring|].
  destruct t as [|v t]; [ring|]. rewrite (IH (v :: env) (tl b) t).
  destruct (hd false b), pol; simpl; ring.
Qed.

Lemma ctraces_length m : forall c t, In t (ctraces m c) -> length t = length m.
Proof.
  induction m as [|s m IH]; simpl; intros c t H.
  - destruct H as [<-|[]]. reflexivity.
  - destruct (chd c) as [v|].
    + apply in_map_iff in H. destruct H as [t' [<- H]]. simpl. f_equal. eauto.
    + apply in_flat_map in H. destruct H as [v [_ H]]. apply in_map_iff in H. destruct H as [t' [<- H]].
      simpl. f_equal. eauto.
Qed.

(* the values of a constraint lie in the supports *)
Fixpoint c_ok (m : model) (c : cmap) : Prop :=
  match m with
  | [] => True
  | s :: m' => match chd c with Some v => In v (supp s) | None => True end /\ c_ok m' (ctl c)
  end.
Lemma c_ok_nil m : c_ok m [].
Proof. induction m; simpl; auto. Qed.

Lemma projb_pos pol m : m_pos m -> forall env b c t, c_ok m c -> In t (ctraces m c) -> 0 < projb pol m env b t.
Proof.
  induction m as [|s m IH]; intros Hp env b c t Hc Hin; simpl.
  - reflexivity.
  - inversion Hp as [|? ? Hs Hm]; subst. simpl in Hin, Hc. destruct Hc as [Hv Hc].
    assert (Hcase : exists v t', t = v :: t' /\ In v (supp s) /\ In t' (ctraces m (ctl c))).
    { destruct (chd c) as [v|].
      - apply in_map_iff in Hin. destruct Hin as [t' [<- H]]. now exists v, t'.
      - apply in_flat_map in Hin. destruct Hin as [v [Hv' H]]. apply in_map_iff in H.
        destruct H as [t' [<- H]]. now exists v, t'. }
    destruct Hcase as [v [t' [-> [Hv' Ht']]]].
    apply Qc_pos_mult; [|eapply IH; eauto].
    destruct (Bool.eqb (hd false b) pol); [now apply Hs|reflexivity].
Qed.
Lemma dens_pos m : m_pos m -> forall env c t, c_ok m c -> In t (ctraces m c) -> 0 < dens m env t.
Proof.
  intros Hp env c t Hc Hin. rewrite (dens_split true m env [] t).
  apply Qc_pos_mult; eapply projb_pos; eauto.
Qed.

(* ---- generate ---- *)
Lemma E_generate m : forall env c (g : list Z -> Qc),
  E (fun tw => snd tw * g (fst tw)) (generate m env c) = sumQ (map (fun t => dens m env t * g t) (ctraces m c)).
Proof.
  induction m as [|s m IH]; intros env c g; simpl.
  - rewrite E_ret. simpl. ring.
  - destruct (chd c) as [v|].
    + rewrite E_dmap. simpl. rewrite map_map.
      rewrite (E_ext _ (fun tw => pmf s env v * (snd tw * g (v :: fst tw)))) by (intros; ring).
      rewrite E_lin, (IH (v :: env) (ctl c) (fun t => g (v :: t))).
      rewrite <- sumQ_map_scale. apply sumQ_map_ext. intros; ring.
    + rewrite E_bind. unfold prior. rewrite E_prior_like. rewrite sumQ_flat_map.
      apply sumQ_map_ext. intros v _. rewrite E_dmap. simpl.
      rewrite (IH (v :: env) (ctl c) (fun t => g (v :: t))). rewrite map_map.
      rewrite <- sumQ_map_scale_r. apply sumQ_map_ext. intros; ring.
Qed.

Lemma mass_prior s env : normed_site s -> mass (prior s env) = 1.
Proof.
  intros H. unfold mass, prior. rewrite E_prior_like.
  rewrite (sumQ_map_ext _ (pmf s env)); [apply H|intros; ring].
Qed.
Lemma mass_generate m : m_normed m -> forall env c, mass (generate m env c) = 1.
Proof.
  induction m as [|s m IH]; intros Hn env c; simpl.
  - apply mass_ret.
  - inversion Hn; subst. destruct (chd c).
    + rewrite mass_dmap. now apply IH.
    + rewrite mass_bind; [now apply mass_prior|]. intros. rewrite mass_dmap. now apply IH.
Qed.
Lemma mass_simulate m : m_normed m -> forall env, mass (simulate m env) = 1.
Proof.
  induction m as [|s m IH]; intros Hn env; simpl.
  - apply mass_ret.
  - inversion Hn; subst. rewrite mass_bind; [now apply mass_prior|]. intros. rewrite mass_dmap. now apply IH.
Qed.

Lemma In_prior s env v p : In (v, p) (prior s env) <-> In v (supp s) /\ p = pmf s env v.
Proof.
  unfold prior. rewrite in_map_iff. split.
  - intros [v' [H Hin]]. inversion H; subst. auto.
  - intros [Hin ->]. now exists v.
Qed.

(* every outcome of generate: a trace consistent with the constraint, weight = density of the
   constrained choices, probability = density of the sampled ones *)
Lemma generate_support m : forall env c t w p,
  In ((t, w), p) (generate m env c) ->
  In t (ctraces m c) /\ w = projb true m env (dom c) t /\ p = projb false m env (dom c) t.
Proof.
  induction m as [|s m IH]; intros env c t w p H; simpl in *.
  - apply In_ret in H. destruct H as [H ->]. inversion H; subst. auto.
  - rewrite hd_dom, tl_dom. destruct (chd c) as [v|] eqn:Ec.
    + apply In_dmap in H. destruct H as [[t' w'] [H Heq]]. inversion Heq; subst.
      destruct (IH _ _ _ _ _ H) as [H1 [H2 H3]]. simpl. split; [now apply in_map|].
      split; [now rewrite H2|rewrite H3; ring].
    + apply In_bind in H. destruct H as [v [pv [q [Hv [H ->]]]]].
      apply In_prior in Hv. destruct Hv as [Hv ->].
      apply In_dmap in H. destruct H as [[t' w'] [H Heq]]. inversion Heq; subst.
      destruct (IH _ _ _ _ _ H) as [H1 [H2 H3]]. simpl. split.
      * apply in_flat_map. exists v. split; [assumption|now apply in_map].
      * split; [rewrite H2; ring|now rewrite H3].
Qed.

Lemma simulate_support m : forall env t p,
  In (t, p) (simulate m env) -> In t (ctraces m []) /\ p = dens m env t.
Proof.
  induction m as [|s m IH]; intros env t p H; simpl in *.
  - apply In_ret in H. destruct H as [-> ->]. auto.
  - apply In_bind in H. destruct H as [v [pv [q [Hv [H ->]]]]].
    apply In_prior in Hv. destruct Hv as [Hv ->].
    apply In_dmap in H. destruct H as [t' [H ->]].
    destruct (IH _ _ _ H) as [H1 H2]. split.
    + apply in_flat_map. exists v. split; [assumption|now apply in_map].
    + now rewrite H2.
Qed.

Lemma E_simulate m : forall env (g : list Z -> Qc),
  E g (simulate m env) = sumQ (map (fun t => g t * dens m env t) (ctraces m [])).
Proof.
  induction m as [|s m IH]; intros env g; simpl.
  - rewrite E_ret. ring.
  - rewrite E_bind. unfold prior. rewrite E_prior_like, sumQ_flat_map.
    apply sumQ_map_ext. intros v _. rewrite E_dmap, IH, map_map.
    rewrite <- sumQ_map_scale_r. apply sumQ_map_ext. intros; ring.
Qed.

(* generate under a total constraint is deterministic *)
Lemma generate_full m : forall env t rest, length t = length m ->
  generate m env (map Some t ++ rest) = ret (t, dens m env t).
Proof.
  induction m as [|s m IH]; intros env t rest Hl; destruct t as [|v t]; try discriminate; simpl.
  - reflexivity.
  - rewrite IH by (simpl in Hl; lia). unfold ret, dmap. simpl. repeat f_equal.
Qed.
Lemma projb_full m : forall env t rest, length t = length m ->
  projb true m env (dom (map Some t ++ rest)) t = dens m env t.
Proof.
  induction m as [|s m IH]; intros env t rest Hl; destruct t as [|v t]; try discriminate; simpl.
  - reflexivity.
  - unfold dom in *. rewrite IH by (simpl in Hl; lia). reflexivity.
Qed.

(* ---- outputs of a sampler over the sites b ---- *)
Lemma outs_cons s m b x : In x (outs (s :: m) b) ->
  exists o x', x = o :: x' /\ In x' (outs m (tl b)) /\
    (if hd false b then exists v, o = Some v /\ In v (supp s) else o = None).
Proof.
  simpl. destruct (hd false b).
  - intros H. apply in_flat_map in H. destruct H as [v [Hv H]]. apply in_map_iff in H.
    destruct H as [x' [<- H]]. exists (Some v), x'. eauto.
  - intros H. apply in_map_iff in H. destruct H as [x' [<- H]]. exists None, x'. auto.
Qed.

Lemma fselb_in_outs m : forall b t, In t (ctraces m []) -> In (fselb true b t) (outs m b).
Proof.
  induction m as [|s m IH]; intros b t H; simpl in *.
  - destruct H as [<-|[]]. now left.
  - apply in_flat_map in H. destruct H as [v [Hv H]]. apply in_map_iff in H. destruct H as [t' [<- H]].
    simpl. destruct (hd false b); simpl.
    + apply in_flat_map. exists v. split; [assumption|]. apply in_map. now apply IH.
    + apply in_map. now apply IH.
Qed.

Lemma outs_projb pol m : forall env b x t, In x (outs m b) -> projb pol m env (dom x) t = projb pol m env b t.
Proof.
  induction m as [|s m IH]; intros env b x t H; [reflexivity|].
  destruct (outs_cons _ _ _ _ H) as [o [x' [-> [Hx' Ho]]]].
  simpl. destruct t as [|v t]; [reflexivity|]. rewrite (IH (v :: env) (tl b) x' t Hx').
  destruct (hd false b).
  - destruct Ho as [v0 [-> _]]. reflexivity.
  - subst o. reflexivity.
Qed.

Lemma outs_c_ok m : forall b x, In x (outs m b) -> c_ok m x.
Proof.
  induction m as [|s m IH]; intros b x H; [exact I|].
  destruct (outs_cons _ _ _ _ H) as [o [x' [-> [Hx' Ho]]]]. simpl. split; [|eapply IH; eauto].
  destruct (hd false b).
  - destruct Ho as [v0 [-> Hv]]. assumption.
  - subst o. exact I.
Qed.

(* sum over the traces consistent with c of the density of the unconstrained part = 1 *)
Lemma sum_projc m : m_normed m -> forall env c, sumQ (map (projb false m env (dom c)) (ctraces m c)) = 1.
Proof.
  induction m as [|s m IH]; intros Hn env c.
  - simpl. ring.
  - inversion Hn as [|? ? Hs Hm]; subst. simpl ctraces. destruct (chd c) as [v|] eqn:Ec.
    + rewrite map_map.
      rewrite (sumQ_map_ext _ (projb false m (v :: env) (dom (ctl c)))); [now apply IH|].
      intros t _. simpl. rewrite hd_dom, tl_dom, Ec. simpl. ring.
    + rewrite sumQ_flat_map.
      rewrite (sumQ_map_ext _ (pmf s env)); [apply Hs|].
      intros v _. rewrite map_map.
      rewrite (sumQ_map_ext _ (fun t => pmf s env v * projb false m (v :: env) (dom (ctl c)) t)).
      * rewrite sumQ_map_scale, (IH Hm). ring.
      * intros t _. simpl. rewrite hd_dom, tl_dom, Ec. simpl. reflexivity.
Qed.

(* restricting simulate to the traces whose selected part is x enumerates the traces consistent with x *)
Lemma E_simulate_filter m : m_wf m -> forall env b x (g : list Z -> Qc), In x (outs m b) ->
  E (fun t => if cmap_eqb (fselb true b t) x then g t else 0) (simulate m env)
  = sumQ (map (fun t => g t * dens m env t) (ctraces m x)).
Proof.
  induction m as [|s m IH]; intros Hw env b x g Hx.
  - simpl in Hx. destruct Hx as [<-|[]]. simpl. rewrite E_ret. simpl. ring.
  - inversion Hw as [|? ? Hs Hm]; subst.
    destruct (outs_cons _ _ _ _ Hx) as [o [x' [-> [Hx' Ho]]]].
    simpl simulate. rewrite E_bind. unfold prior. rewrite E_prior_like.
    destruct (hd false b) eqn:Eb.
    + destruct Ho as [v0 [-> Hv0]]. simpl ctraces. rewrite map_map.
      rewrite (sumQ_map_ext _ (fun v => if Z.eqb v v0 then
                 sumQ (map (fun t => g (v0 :: t) * dens (s :: m) env (v0 :: t)) (ctraces m x')) else 0)).
      * rewrite (sumQ_single (fun v => Z.eqb v v0) _ v0); auto.
        -- apply Z.eqb_refl.
        -- intros a _ Ha. now apply Z.eqb_eq in Ha.
      * intros v _. rewrite E_dmap. simpl. rewrite Eb. simpl.
        destruct (Z.eqb v v0) eqn:Ev; simpl.
        -- apply Z.eqb_eq in Ev. subst v.
           rewrite (IH Hm (v0 :: env) (tl b) x' (fun t => g (v0 :: t)) Hx').
           rewrite <- sumQ_map_scale_r. apply sumQ_map_ext. intros; ring.
        -- rewrite E_zero. ring.
    + subst o. simpl ctraces. rewrite sumQ_flat_map.
      apply sumQ_map_ext. intros v _. rewrite E_dmap. simpl. rewrite Eb. simpl.
      rewrite (IH Hm (v :: env) (tl b) x' (fun t => g (v :: t)) Hx'). rewrite map_map.
      rewrite <- sumQ_map_scale_r. apply sumQ_map_ext. intros; ring.
Qed.

(* ---- C25: Marginal without an algorithm ---- *)
Lemma marg_weight m b t : m_pos m -> In t (ctraces m []) ->
  dens m [] t / projb false m [] b t = projb true m [] b t.
Proof.
  intros Hp Hin. rewrite (dens_split true m [] b t). simpl negb.
  assert (H : projb false m [] b t <> 0) by (apply Qc_pos_nz; eapply projb_pos; eauto using c_ok_nil).
  field. exact H.
Qed.

Lemma marginal_weight_is_project m b o w p : m_pos m ->
  In ((o, w), p) (marg_rw m b) ->
  exists t, In t (ctraces m []) /\ o = fselb true b t /\ w = projb true m [] b t /\ p = dens m [] t.
Proof.
  intros Hp H. unfold marg_rw in H. apply In_dmap in H. destruct H as [t [H Heq]].
  apply simulate_support in H. destruct H as [Hin ->]. inversion Heq; subst.
  exists t. repeat split; auto. now apply marg_weight.
Qed.

Lemma marginal_uds m b : m_wf m -> m_normed m -> m_pos m -> uds cmap_eqb (outs m b) (marg_rw m b).
Proof.
  intros Hw Hn Hp x Hx. unfold marg_rw. rewrite E_dmap.
  rewrite (E_ext_in _ (fun t => if cmap_eqb (fselb true b t) x then / projb true m [] b t else 0)).
  - rewrite (E_simulate_filter m Hw [] b x _ Hx).
    rewrite <- (sum_projc m Hn [] x). apply sumQ_map_ext. intros t Ht.
    rewrite (outs_projb false m [] b x t Hx).
    rewrite (dens_split true m [] b t). simpl negb.
    assert (H : projb true m [] b t <> 0).
    { apply Qc_pos_nz. eapply projb_pos; eauto. eapply outs_c_ok; eauto. }
    field. exact H.
  - intros t p Hin. apply simulate_support in Hin. destruct Hin as [Hin _].
    unfold inv_on. simpl. now rewrite marg_weight.
Qed.

(* P(S = x) is the marginal probability (evidence) of x *)
Lemma marginal_prob m b x : m_wf m -> In x (outs m b) ->
  prob_out cmap_eqb (marg_rw m b) x = evidence m x.
Proof.
  intros Hw Hx. unfold prob_out, marg_rw. rewrite E_dmap. unfold ind_on. simpl.
  rewrite (E_simulate_filter m Hw [] b x (fun _ => 1) Hx).
  unfold evidence, tsum. apply sumQ_map_ext. intros; ring.
Qed.

(* the SPI statement: E[1/w | S = x] = 1 / p(x) *)
Lemma marginal_unbiased m b x : m_wf m -> m_normed m -> m_pos m -> In x (outs m b) ->
  cond_inv_w cmap_eqb (marg_rw m b) x = / evidence m x.
Proof.
  intros Hw Hn Hp Hx. unfold cond_inv_w.
  rewrite (marginal_uds m b Hw Hn Hp x Hx), (marginal_prob m b x Hw Hx).
  unfold Qcdiv. ring.
Qed.

(* estimate_logpdf is an unbiased estimate of the marginal density (GenSP Defn 3.1) *)
Lemma marginal_estimate_unbiased m v : E (fun w => w) (marg_est m v) = evidence m v.
Proof.
  unfold marg_est. rewrite E_dmap.
  pose proof (E_generate m [] v (fun _ => 1)) as H. cbv beta in H.
  rewrite (E_ext _ (fun tw => snd tw * 1)) by (intros; ring). rewrite H.
  unfold evidence, tsum. apply sumQ_map_ext. intros; ring.
Qed.

(* everything selected: the weight is the exact joint density and estimate_logpdf returns it *)
Definition all_sel (m : model) : list bool := map (fun _ => true) m.
Lemma fselb_all m : forall t, length t = length m -> fselb true (all_sel m) t = map Some t.
Proof.
  induction m as [|s m IH]; intros t Hl; destruct t as [|v t]; try discriminate; simpl; [reflexivity|].
  f_equal. apply IH. simpl in Hl. lia.
Qed.
Lemma projb_all m : forall env t, projb true m env (all_sel m) t = dens m env t.
Proof.
  induction m as [|s m IH]; intros env t; simpl; [reflexivity|]. destruct t; [reflexivity|]. now rewrite IH.
Qed.
Lemma marginal_all_exact m o w p : m_pos m -> In ((o, w), p) (marg_rw m (all_sel m)) ->
  exists t, o = map Some t /\ w = dens m [] t /\ w = evidence m o /\ marg_est m o = ret w.
Proof.
  intros Hp H. destruct (marginal_weight_is_project _ _ _ _ _ Hp H) as [t [Hin [-> [-> _]]]].
  pose proof (ctraces_length _ _ _ Hin) as Hl.
  exists t. rewrite fselb_all by assumption. rewrite projb_all.
  split; [reflexivity|]. split; [reflexivity|]. split.
  - rewrite <- marginal_estimate_unbiased. unfold marg_est.
    rewrite <- (app_nil_r (map Some t)), generate_full by assumption.
    unfold dmap, ret. simpl. unfold E. simpl. ring.
  - unfold marg_est. rewrite <- (app_nil_r (map Some t)), generate_full by assumption. reflexivity.
Qed.

(* the selected choices do not depend on the unselected ones: the weight is the exact marginal
   density of the selected choices, and every estimate_logpdf of the same sample returns it *)
Definition sel_indep (m : model) (b : list bool) : Prop :=
  forall t t', In t (ctraces m []) -> In t' (ctraces m []) ->
    fselb true b t = fselb true b t' -> projb true m [] b t = projb true m [] b t'.

Lemma ctraces_sub m : forall b x t, In x (outs m b) -> In t (ctraces m x) ->
  In t (ctraces m []) /\ fselb true b t = x.
Proof.
  induction m as [|s m IH]; intros b x t Hx Ht.
  - simpl in *. destruct Hx as [<-|[]]. destruct Ht as [<-|[]]. auto.
  - destruct (outs_cons _ _ _ _ Hx) as [o [x' [-> [Hx' Ho]]]]. simpl in Ht. simpl ctraces.
    destruct (hd false b) eqn:Eb.
    + destruct Ho as [v0 [-> Hv0]]. simpl in Ht. apply in_map_iff in Ht. destruct Ht as [t' [<- Ht']].
      destruct (IH _ _ _ Hx' Ht') as [H1 H2]. split.
      * apply in_flat_map. exists v0. split; [assumption|now apply in_map].
      * simpl. rewrite Eb. simpl. now rewrite H2.
    + subst o. simpl in Ht. apply in_flat_map in Ht. destruct Ht as [v [Hv Ht]].
      apply in_map_iff in Ht. destruct Ht as [t' [<- Ht']].
      destruct (IH _ _ _ Hx' Ht') as [H1 H2]. split.
      * apply in_flat_map. exists v. split; [assumption|now apply in_map].
      * simpl. rewrite Eb. simpl. now rewrite H2.
Qed.

Lemma marginal_indep_exact m b t : m_normed m -> sel_indep m b -> In t (ctraces m []) ->
  projb true m [] b t = evidence m (fselb true b t).
Proof.
  intros Hn Hi Hin. set (x := fselb true b t).
  assert (Hx : In x (outs m b)) by now apply fselb_in_outs.
  unfold evidence, tsum.
  rewrite (sumQ_map_ext _ (fun t' => projb true m [] b t * projb false m [] (dom x) t')).
  - rewrite sumQ_map_scale, (sum_projc m Hn). ring.
  - intros t' Ht'. destruct (ctraces_sub _ _ _ _ Hx Ht') as [H1 H2].
    rewrite (dens_split true m [] b t'). simpl negb.
    rewrite (outs_projb false m [] b x t' Hx). f_equal. apply Hi; auto; unfold x in *; congruence.
Qed.

Lemma marginal_indep_estimate m b t w p : m_normed m -> sel_indep m b -> In t (ctraces m []) ->
  In (w, p) (marg_est m (fselb true b t)) -> w = projb true m [] b t.
Proof.
  intros Hn Hi Hin H. unfold marg_est in H. apply In_dmap in H. destruct H as [[t' w'] [H ->]]. simpl.
  apply generate_support in H. destruct H as [Ht' [-> _]].
  assert (Hx : In (fselb true b t) (outs m b)) by now apply fselb_in_outs.
  rewrite (outs_projb true m [] b _ t' Hx).
  destruct (ctraces_sub _ _ _ _ Hx Ht') as [H1 H2]. apply Hi; auto.
Qed.

(* ================= C26: Importance, ImportanceK, SIR, ChangeTarget ================= *)

(* t carries the values the choice map c prescribes (c may be longer than t: foreign
   addresses are ignored by generate) *)
Fixpoint agrees (c : cmap) (t : list Z) : bool :=
  match c, t with
  | Some v :: c', u :: t' => Z.eqb v u && agrees c' t'
  | None :: c', _ :: t' => agrees c' t'
  | _, _ => true
  end.
(* c constrains every site of m *)
Fixpoint covers (m : model) (c : cmap) : bool :=
  match m with [] => true | _ :: m' => is_some (chd c) && covers m' (ctl c) end.
(* no selected site is constrained by c *)
Fixpoint disj (b : list bool) (c : cmap) : bool :=
  match b, c with
  | true :: _, Some _ :: _ => false
  | _ :: b', _ :: c' => disj b' c'
  | _, _ => true
  end.

Lemma ctraces_agrees m : forall c t, In t (ctraces m c) -> agrees c t = true.
Proof.
  induction m as [|s m IH]; intros c t H.
  - simpl in H. destruct H as [<-|[]]. destruct c as [|[]]; reflexivity.
  - destruct c as [|[v0|] c']; simpl in H.
    + apply in_flat_map in H. destruct H as [v [_ H]]. apply in_map_iff in H. destruct H as [t' [<- _]]. reflexivity.
    + apply in_map_iff in H. destruct H as [t' [<- H]]. simpl. rewrite Z.eqb_refl. simpl. now apply IH.
    + apply in_flat_map in H. destruct H as [v [_ H]]. apply in_map_iff in H. destruct H as [t' [<- H]].
      simpl. now apply IH.
Qed.

Lemma merge_nil_r c : merge c [] = c.
Proof. destruct c; reflexivity. Qed.
Lemma chd_merge c x : chd (merge c x) = match chd c with Some v => Some v | None => chd x end.
Proof. destruct c as [|[v|] c], x as [|y x]; reflexivity. Qed.
Lemma ctl_merge c x : ctl (merge c x) = merge (ctl c) (ctl x).
Proof. destruct c as [|o c], x as [|y x]; simpl; try reflexivity. now rewrite merge_nil_r. Qed.

Lemma agrees_merge_l c : forall x t, agrees (merge c x) t = true -> agrees c t = true.
Proof.
  induction c as [|o c IH]; intros x t H; [reflexivity|].
  destruct x as [|y x]; [exact H|]. destruct t as [|u t]; [destruct o; reflexivity|].
  simpl in H. destruct o as [v|]; simpl.
  - apply andb_prop in H. destruct H as [H1 H2]. rewrite H1. simpl. eapply IH; eauto.
  - destruct y; [apply andb_prop in H; destruct H as [_ H]|]; eapply IH; eauto.
Qed.

Lemma projb_covers m : forall env c t, covers m c = true -> projb true m env (dom c) t = dens m env t.
Proof.
  induction m as [|s m IH]; intros env c t H; simpl; [reflexivity|].
  simpl in H. apply andb_prop in H. destruct H as [H1 H2].
  destruct t as [|v t]; [reflexivity|]. rewrite hd_dom, tl_dom, H1. simpl. now rewrite IH.
Qed.

(* ---- one particle of Importance / ImportanceK ---- *)
Lemma importance_particle_weight tg q t w p : In ((t, w), p) (imp_particle tg q) ->
  match q with
  | None => In t (ctraces (tm tg) (tc tg))
            /\ w = projb true (tm tg) [] (dom (tc tg)) t /\ p = projb false (tm tg) [] (dom (tc tg)) t
            /\ w * p = dens (tm tg) [] t
  | Some q => exists ch wq pq, In ((ch, wq), pq) (q_rw q) /\
                In t (ctraces (tm tg) (merge (tc tg) ch))
                /\ w = projb true (tm tg) [] (dom (merge (tc tg) ch)) t / wq
                /\ (covers (tm tg) (merge (tc tg) ch) = true -> w = dens (tm tg) [] t / wq)
  end.
Proof.
  destruct q as [q|]; simpl; intros H.
  - apply In_bind in H. destruct H as [[ch wq] [pq [p' [Hq [H ->]]]]].
    apply In_dmap in H. destruct H as [[t' w'] [H Heq]]. inversion Heq; subst. simpl in *.
    apply generate_support in H. destruct H as [H1 [-> _]].
    exists ch, wq, pq. repeat split; auto. intros Hc. now rewrite projb_covers.
  - apply generate_support in H. destruct H as [H1 [-> ->]]. repeat split; auto.
    now rewrite (dens_split true (tm tg) [] (dom (tc tg)) t).
Qed.

(* particles satisfy the target's constraints *)
Lemma importance_particle_agrees tg q t w p : In ((t, w), p) (imp_particle tg q) ->
  agrees (tc tg) t = true /\ length t = length (tm tg).
Proof.
  intros H. apply importance_particle_weight in H. destruct q as [q|].
  - destruct H as [ch [wq [pq [_ [H _]]]]]. split; [|eapply ctraces_length; eauto].
    apply (ctraces_agrees (tm tg)) in H. eapply agrees_merge_l; eauto.
  - destruct H as [H _]. split; [now apply (ctraces_agrees (tm tg))|eapply ctraces_length; eauto].
Qed.

(* ---- proper weighting ---- *)
Lemma importance_proper_noq tg (g : list Z -> Qc) :
  E (fun tw => snd tw * g (fst tw)) (imp_particle tg None)
  = tsum (tm tg) (tc tg) (fun t => dens (tm tg) [] t * g t).
Proof. simpl. apply E_generate. Qed.

Lemma disj_nil_r b : disj b [] = true.
Proof. destruct b as [|[] b]; reflexivity. Qed.
Lemma disj_tl b c : disj b c = true -> disj (tl b) (ctl c) = true.
Proof.
  destruct b as [|[] b], c as [|[] c]; simpl; intros H; try reflexivity; try discriminate;
    try assumption; apply disj_nil_r.
Qed.
Lemma disj_hd b c : disj b c = true -> hd false b = true -> chd c = None.
Proof. destruct b as [|[] b], c as [|[] c]; simpl; intros H1 H2; try reflexivity; discriminate. Qed.

(* the outputs over the sites b partition the traces consistent with c *)
Lemma outs_partition m : forall b c (h : list Z -> Qc), disj b c = true ->
  sumQ (map (fun x => sumQ (map h (ctraces m (merge c x)))) (outs m b)) = sumQ (map h (ctraces m c)).
Proof.
  induction m as [|s m IH]; intros b c h Hd.
  - simpl. ring.
  - simpl outs. destruct (hd false b) eqn:Eb.
    + pose proof (disj_hd _ _ Hd Eb) as Hc.
      rewrite sumQ_flat_map. simpl ctraces. rewrite Hc. rewrite sumQ_flat_map.
      apply sumQ_map_ext. intros v _. rewrite !map_map.
      rewrite <- (IH (tl b) (ctl c) (fun t => h (v :: t)) (disj_tl _ _ Hd)).
      apply sumQ_map_ext. intros x _.
      rewrite chd_merge, ctl_merge, Hc. simpl. now rewrite map_map.
    + rewrite map_map. simpl ctraces. destruct (chd c) as [v|] eqn:Ec.
      * rewrite map_map. rewrite <- (IH (tl b) (ctl c) (fun t => h (v :: t)) (disj_tl _ _ Hd)).
        apply sumQ_map_ext. intros x _.
        rewrite chd_merge, ctl_merge, Ec. simpl. now rewrite map_map.
      * rewrite sumQ_flat_map.
        rewrite (sumQ_map_ext _ (fun x => sumQ (map (fun v => sumQ (map (fun t => h (v :: t)) (ctraces m (merge (ctl c) x)))) (supp s)))).
        -- rewrite sumQ_swap. apply sumQ_map_ext. intros v _. rewrite map_map.
           apply (IH (tl b) (ctl c) (fun t => h (v :: t)) (disj_tl _ _ Hd)).
        -- intros x _. rewrite chd_merge, ctl_merge, Ec. simpl. rewrite sumQ_flat_map.
           apply sumQ_map_ext. intros v _. now rewrite map_map.
Qed.

Lemma nodup_app {A} (l1 l2 : list A) : NoDup l1 -> NoDup l2 -> (forall a, In a l1 -> ~ In a l2) -> NoDup (l1 ++ l2).
Proof.
  induction l1; simpl; intros H1 H2 Hd; [assumption|]. inversion H1; subst.
  constructor.
  - rewrite in_app_iff. intros [H|H]; [contradiction|]. apply (Hd a); auto.
  - apply IHl1; auto.
Qed.
Lemma nodup_map_cons {A} (a : A) L : NoDup L -> NoDup (map (cons a) L).
Proof.
  induction 1; simpl; constructor; auto.
  rewrite in_map_iff. intros [y [Hy Hin]]. inversion Hy; subst. contradiction.
Qed.
Lemma nodup_flat_cons {A B} (g : A -> B) (l : list A) (L : list (list B)) :
  (forall a a', g a = g a' -> a = a') -> NoDup l -> NoDup L ->
  NoDup (flat_map (fun v => map (cons (g v)) L) l).
Proof.
  intros Hg Hl HL. induction Hl; simpl; [constructor|].
  apply nodup_app; auto using nodup_map_cons.
  intros y Hy Hy'. apply in_map_iff in Hy. destruct Hy as [y0 [<- _]].
  apply in_flat_map in Hy'. destruct Hy' as [v [Hv Hy']]. apply in_map_iff in Hy'.
  destruct Hy' as [y1 [Heq _]]. inversion Heq. apply Hg in H1. subst. contradiction.
Qed.
Lemma outs_NoDup m : m_wf m -> forall b, NoDup (outs m b).
Proof.
  induction m as [|s m IH]; intros Hw b; simpl.
  - repeat constructor. intros [].
  - inversion Hw; subst. destruct (hd false b).
    + apply nodup_flat_cons; auto. intros a a' H. now inversion H.
    + apply nodup_map_cons; auto.
Qed.
Lemma ctraces_NoDup m : m_wf m -> forall c, NoDup (ctraces m c).
Proof.
  induction m as [|s m IH]; intros Hw c; simpl.
  - repeat constructor. intros [].
  - inversion Hw; subst. destruct (chd c).
    + apply nodup_map_cons; auto.
    + apply (nodup_flat_cons (fun v : Z => v)); auto.
Qed.

(* a proposal that is an unbiased density sampler for the assignments to the sites qb,
   none of which the target constrains *)
Definition proper_q (m : model) (c : cmap) (qb : list bool) (q : proposal) : Prop :=
  (forall ow p, In (ow, p) (q_rw q) -> In (fst ow) (outs m qb))
  /\ uds cmap_eqb (outs m qb) (q_rw q)
  /\ disj qb c = true.

Lemma importance_proper_q tg q qb (g : list Z -> Qc) :
  m_wf (tm tg) -> proper_q (tm tg) (tc tg) qb q ->
  E (fun tw => snd tw * g (fst tw)) (imp_particle tg (Some q))
  = tsum (tm tg) (tc tg) (fun t => dens (tm tg) [] t * g t).
Proof.
  intros Hw [Hsup [Huds Hd]]. simpl. rewrite E_bind.
  set (S := fun c' => sumQ (map (fun t => dens (tm tg) [] t * g t) (ctraces (tm tg) c'))).
  rewrite (E_ext _ (fun cw => S (merge (tc tg) (fst cw)) * / snd cw)).
  - rewrite (E_regroup cmap_eqb (fun x => S (merge (tc tg) x)) (outs (tm tg) qb)); auto using cmap_eqb_eq, outs_NoDup.
    rewrite (sumQ_map_ext _ (fun x => S (merge (tc tg) x))).
    + unfold S, tsum. now apply outs_partition.
    + intros x Hx. rewrite (Huds x Hx). ring.
  - intros [ch wq]. rewrite E_dmap. simpl.
    rewrite (E_ext _ (fun tw => / wq * (snd tw * g (fst tw)))) by (intros; unfold Qcdiv; ring).
    rewrite E_lin, E_generate. unfold S. ring.
Qed.

Definition particle_ok (tg : target) (q : option proposal) : Prop :=
  match q with
  | None => True
  | Some q => exists qb, proper_q (tm tg) (tc tg) qb q /\ mass (q_rw q) = 1
  end.

Lemma importance_proper tg q (g : list Z -> Qc) : m_wf (tm tg) -> particle_ok tg q ->
  E (fun tw => snd tw * g (fst tw)) (imp_particle tg q)
  = tsum (tm tg) (tc tg) (fun t => dens (tm tg) [] t * g t).
Proof.
  intros Hw Hq. destruct q as [q|].
  - destruct Hq as [qb [Hp _]]. eapply importance_proper_q; eauto.
  - apply importance_proper_noq.
Qed.

Lemma mass_imp_particle tg q : m_normed (tm tg) -> particle_ok tg q -> mass (imp_particle tg q) = 1.
Proof.
  intros Hn Hq. destruct q as [q|]; simpl.
  - destruct Hq as [qb [_ Hm]]. rewrite mass_bind; [assumption|].
    intros. rewrite mass_dmap. now apply mass_generate.
  - now apply mass_generate.
Qed.

Lemma E_weight_is_evidence tg q : m_wf (tm tg) -> particle_ok tg q ->
  E snd (imp_particle tg q) = evidence (tm tg) (tc tg).
Proof.
  intros Hw Hq. pose proof (importance_proper tg q (fun _ => 1) Hw Hq) as H. cbv beta in H.
  rewrite (E_ext _ (fun tw => snd tw * 1)) by (intros; ring). rewrite H.
  unfold evidence, tsum. apply sumQ_map_ext. intros; ring.
Qed.

Lemma Qc_cancel k x : k <> 0 -> / k * (k * x) = x.
Proof. intros H. field. exact H. Qed.

(* ---- evidence: E[exp(log marginal likelihood estimate)] = Z, any K >= 1 ---- *)
Lemma E_lml_iid K (d : dist particle) : (0 < K)%nat -> mass d = 1 -> E lml (iid K d) = E snd d.
Proof.
  intros HK Hd.
  rewrite (E_ext_in lml (fun ps : list particle => / Qc_of_nat K * sumQ (map snd ps))).
  - rewrite E_lin, E_iid_sum by assumption. apply Qc_cancel. now apply Qc_of_nat_nz.
  - intros ps p Hin. apply iid_support in Hin. destruct Hin as [Hl _].
    unfold lml, weights. rewrite Hl. unfold Qcdiv. ring.
Qed.
Lemma E_iid1 {A} (f : list A -> Qc) (d : dist A) : E f (dmap (fun p => [p]) d) = E f (iid 1 d).
Proof.
  change (iid 1 d) with (bind d (fun a => dmap (cons a) (ret []))).
  rewrite E_dmap, E_bind. apply E_ext. intros a. now rewrite E_dmap, E_ret.
Qed.

Lemma importance_evidence_unbiased tg q K : (0 < K)%nat ->
  m_wf (tm tg) -> m_normed (tm tg) -> particle_ok tg q ->
  E lml (run_smc (AImpK tg q K)) = evidence (tm tg) (tc tg)
  /\ E lml (run_smc (AImp tg q)) = evidence (tm tg) (tc tg).
Proof.
  intros HK Hw Hn Hq. simpl. rewrite E_iid1.
  rewrite !E_lml_iid by (auto using mass_imp_particle; lia).
  split; now apply E_weight_is_evidence.
Qed.

(* ---- ChangeTarget._reweight ---- *)
Lemma change_target_ratio ptg tg t w t' w' p :
  In ((t', w'), p) (reweight ptg tg (t, w)) ->
  let c' := merge (tc tg) (unconstrained (tc ptg) t) in
  In t' (ctraces (tm tg) c') /\ agrees (tc tg) t' = true
  /\ w' = projb true (tm tg) [] (dom c') t' / dens (tm ptg) [] t * w
  /\ (covers (tm tg) c' = true -> w' = dens (tm tg) [] t' / dens (tm ptg) [] t * w).
Proof.
  unfold reweight. simpl. intros H. apply In_dmap in H. destruct H as [[t1 w1] [H Heq]].
  inversion Heq; subst. simpl. apply generate_support in H. destruct H as [H1 [-> _]].
  repeat split; auto.
  - apply (ctraces_agrees (tm tg)) in H1. eapply agrees_merge_l; eauto.
  - intros Hc. now rewrite projb_covers.
Qed.

Lemma merge_unc m : forall c t, In t (ctraces m c) ->
  exists rest, merge c (unconstrained c t) = map Some t ++ rest.
Proof.
  unfold unconstrained.
  induction m as [|s m IH]; intros c t H.
  - simpl in H. destruct H as [<-|[]]. simpl. rewrite merge_nil_r. now exists c.
  - destruct c as [|[v0|] c']; simpl in H.
    + apply in_flat_map in H. destruct H as [v [_ H]]. apply in_map_iff in H. destruct H as [t' [<- H]].
      destruct (IH [] t' H) as [rest Hr]. simpl in *. exists rest. now rewrite Hr.
    + apply in_map_iff in H. destruct H as [t' [<- H]].
      destruct (IH c' t' H) as [rest Hr]. simpl. exists rest. now rewrite Hr.
    + apply in_flat_map in H. destruct H as [v [_ H]]. apply in_map_iff in H. destruct H as [t' [<- H]].
      destruct (IH c' t' H) as [rest Hr]. simpl. exists rest. now rewrite Hr.
Qed.

(* changing to the same target changes nothing (what SMCAlgorithm.random_weighted does when
   called with the algorithm's own target) *)
Lemma reweight_same tg t w : In t (ctraces (tm tg) (tc tg)) -> dens (tm tg) [] t <> 0 ->
  reweight tg tg (t, w) = ret (t, w).
Proof.
  intros Hin Hd. unfold reweight. simpl.
  destruct (merge_unc _ _ _ Hin) as [rest ->].
  rewrite generate_full by (eapply ctraces_length; eauto).
  unfold dmap, ret. simpl. repeat f_equal. field. exact Hd.
Qed.

(* ---- SIR: SMCAlgorithm.random_weighted is an unbiased density sampler ---- *)
Definition sir_out (tg : target) (ps : list particle) : dist (cmap * Qc) :=
  bind (resample ps) (fun tw => ret (unconstrained (tc tg) (fst tw), dens (tm tg) [] (fst tw) / lml ps)).

Lemma unc_inj m : forall c t t', In t (ctraces m c) -> In t' (ctraces m c) ->
  unconstrained c t = unconstrained c t' -> t = t'.
Proof.
  unfold unconstrained.
  induction m as [|s m IH]; intros c t t' H H' Heq.
  - simpl in *. destruct H as [<-|[]]. destruct H' as [<-|[]]. reflexivity.
  - destruct c as [|[v0|] c']; simpl in H, H'.
    + apply in_flat_map in H. destruct H as [v [_ H]]. apply in_map_iff in H. destruct H as [t1 [<- H]].
      apply in_flat_map in H'. destruct H' as [v' [_ H']]. apply in_map_iff in H'. destruct H' as [t1' [<- H']].
      simpl in Heq. inversion Heq; subst. f_equal. apply (IH [] t1 t1'); auto.
    + apply in_map_iff in H. destruct H as [t1 [<- H]].
      apply in_map_iff in H'. destruct H' as [t1' [<- H']].
      simpl in Heq. inversion Heq. f_equal. apply (IH c' t1 t1'); auto.
    + apply in_flat_map in H. destruct H as [v [_ H]]. apply in_map_iff in H. destruct H as [t1 [<- H]].
      apply in_flat_map in H'. destruct H' as [v' [_ H']]. apply in_map_iff in H'. destruct H' as [t1' [<- H']].
      simpl in Heq. inversion Heq; subst. f_equal. apply (IH c' t1 t1'); auto.
Qed.

Lemma sir_inner tg ps x :
  ps <> [] -> (forall tw, In tw ps -> 0 < snd tw /\ dens (tm tg) [] (fst tw) <> 0) ->
  E (inv_on cmap_eqb x) (sir_out tg ps)
  = / Qc_of_nat (length ps)
    * sumQ (map (fun tw => if cmap_eqb (unconstrained (tc tg) (fst tw)) x
                           then snd tw / dens (tm tg) [] (fst tw) else 0) ps).
Proof.
  intros Hne Hps. unfold sir_out. rewrite E_bind. unfold resample. rewrite E_prior_like.
  rewrite <- sumQ_map_scale. apply sumQ_map_ext. intros tw Hin.
  rewrite E_ret. unfold inv_on. simpl.
  destruct (cmap_eqb (unconstrained (tc tg) (fst tw)) x); [|ring].
  destruct (Hps tw Hin) as [_ Hd].
  assert (Hs : sumQ (weights ps) <> 0).
  { apply Qc_pos_nz. apply sumQ_pos.
    - unfold weights. destruct ps; [congruence|discriminate].
    - unfold weights. apply Forall_forall. intros w Hw. apply in_map_iff in Hw.
      destruct Hw as [tw' [<- Hin']]. now apply Hps. }
  assert (HK : Qc_of_nat (length ps) <> 0).
  { apply Qc_of_nat_nz. destruct ps; [congruence|simpl; lia]. }
  unfold lml, particle in *. remember (Qc_of_nat (length ps)) as k. field. repeat split; assumption.
Qed.

Lemma sir_uds_core tg K (d : dist particle) t0 :
  (0 < K)%nat -> m_wf (tm tg) -> mass d = 1 ->
  (forall tw p, In (tw, p) d -> 0 < snd tw /\ dens (tm tg) [] (fst tw) <> 0) ->
  (forall g, E (fun tw => snd tw * g (fst tw)) d = tsum (tm tg) (tc tg) (fun t => dens (tm tg) [] t * g t)) ->
  In t0 (ctraces (tm tg) (tc tg)) -> dens (tm tg) [] t0 <> 0 ->
  E (inv_on cmap_eqb (unconstrained (tc tg) t0)) (bind (iid K d) (sir_out tg)) = 1.
Proof.
  intros HK Hw Hm Hsup Hprop Ht0 Hd0. set (x := unconstrained (tc tg) t0).
  rewrite E_bind.
  set (h := fun tw : particle => if cmap_eqb (unconstrained (tc tg) (fst tw)) x
                                 then snd tw / dens (tm tg) [] (fst tw) else 0).
  rewrite (E_ext_in _ (fun ps : list particle => / Qc_of_nat K * sumQ (map h ps))).
  - rewrite E_lin, E_iid_sum by assumption.
    transitivity (E h d); [apply Qc_cancel; now apply Qc_of_nat_nz|].
    set (g := fun t => if cmap_eqb (unconstrained (tc tg) t) x then / dens (tm tg) [] t else 0).
    rewrite (E_ext _ (fun tw => snd tw * g (fst tw))).
    + rewrite Hprop. unfold tsum.
      rewrite (sumQ_map_ext _ (fun t => if cmap_eqb (unconstrained (tc tg) t) x then (fun _ => 1) t else 0)).
      * rewrite (sumQ_single _ _ t0); auto using ctraces_NoDup.
        -- apply cmap_eqb_refl.
        -- intros t Ht He. apply cmap_eqb_eq in He. eapply unc_inj; eauto.
      * intros t Ht. unfold g. destruct (cmap_eqb (unconstrained (tc tg) t) x) eqn:He; [|ring].
        apply cmap_eqb_eq in He. assert (t = t0) by (eapply unc_inj; eauto). subst t.
        field. exact Hd0.
    + intros tw. unfold h, g. destruct (cmap_eqb _ x); unfold Qcdiv; ring.
  - intros ps p Hin. apply iid_support in Hin. destruct Hin as [Hl Hall].
    rewrite sir_inner.
    + unfold particle in *. now rewrite Hl.
    + destruct ps; [simpl in Hl; lia|discriminate].
    + intros tw Htw. rewrite Forall_forall in Hall. destruct (Hall tw Htw) as [q Hq]. eapply Hsup; eauto.
Qed.

(* facts about the particles of Importance / ImportanceK under the hypotheses *)
Definition q_positive (q : option proposal) : Prop :=
  match q with None => True | Some q => forall ow p, In (ow, p) (q_rw q) -> 0 < snd ow end.

Lemma c_ok_merge m : forall c x, c_ok m c -> c_ok m x -> c_ok m (merge c x).
Proof.
  induction m as [|s m IH]; intros c x Hc Hx; [exact I|].
  simpl in *. rewrite chd_merge, ctl_merge. destruct Hc as [H1 H2], Hx as [H3 H4].
  split; [destruct (chd c); assumption|now apply IH].
Qed.
Lemma ctraces_merge_sub m : forall c x t, c_ok m x -> In t (ctraces m (merge c x)) -> In t (ctraces m c).
Proof.
  induction m as [|s m IH]; intros c x t Hx H; [exact H|].
  simpl in *. rewrite chd_merge, ctl_merge in H. destruct Hx as [Hx1 Hx2].
  destruct (chd c) as [v|].
  - apply in_map_iff in H. destruct H as [t' [<- H]]. apply in_map. eapply IH; eauto.
  - destruct (chd x) as [v|].
    + apply in_map_iff in H. destruct H as [t' [<- H]]. apply in_flat_map. exists v. split; [assumption|].
      apply in_map. eapply IH; eauto.
    + apply in_flat_map in H. destruct H as [v [Hv H]]. apply in_map_iff in H. destruct H as [t' [<- H]].
      apply in_flat_map. exists v. split; [assumption|]. apply in_map. eapply IH; eauto.
Qed.

Lemma imp_particle_facts tg q tw p :
  m_pos (tm tg) -> c_ok (tm tg) (tc tg) -> particle_ok tg q -> q_positive q ->
  In (tw, p) (imp_particle tg q) ->
  0 < snd tw /\ 0 < dens (tm tg) [] (fst tw) /\ In (fst tw) (ctraces (tm tg) (tc tg)).
Proof.
  intros Hp Hc Hq Hqp H. destruct tw as [t w]. apply importance_particle_weight in H. simpl.
  destruct q as [q|].
  - destruct H as [ch [wq [pq [Hin [Ht [-> _]]]]]].
    destruct Hq as [qb [[Hsup _] _]]. pose proof (Hsup _ _ Hin) as Hch. simpl in Hch.
    apply outs_c_ok in Hch.
    assert (Hcm : c_ok (tm tg) (merge (tc tg) ch)) by now apply c_ok_merge.
    split; [|split].
    + unfold Qcdiv. apply Qc_pos_mult; [eapply projb_pos; eauto|].
      apply Qc_pos_inv. apply (Hqp _ _ Hin).
    + eapply dens_pos; eauto.
    + exact (ctraces_merge_sub (tm tg) (tc tg) ch t Hch Ht).
  - destruct H as [Ht [-> _]]. split; [|split]; auto.
    + eapply projb_pos; eauto.
    + eapply dens_pos; eauto.
Qed.

Lemma smc_rw_iid tg q K (f : cmap * Qc -> Qc) :
  m_pos (tm tg) -> c_ok (tm tg) (tc tg) -> particle_ok tg q -> q_positive q ->
  E f (smc_rw (AImpK tg q K) tg) = E f (bind (iid K (imp_particle tg q)) (sir_out tg)).
Proof.
  intros Hp Hc Hq Hqp. unfold smc_rw. simpl run_smc. rewrite !E_bind.
  apply E_ext_in. intros ps p Hin. apply iid_support in Hin. destruct Hin as [_ Hall].
  rewrite (mapM_ret _ (fun p => p)).
  - rewrite map_id. reflexivity.
  - intros [t w] Hin. rewrite Forall_forall in Hall. destruct (Hall _ Hin) as [p' Hp'].
    destruct (imp_particle_facts _ _ _ _ Hp Hc Hq Hqp Hp') as [_ [Hd Ht]].
    apply reweight_same; auto. now apply Qc_pos_nz.
Qed.

Lemma smc_rw_imp1 tg q (f : cmap * Qc -> Qc) :
  E f (smc_rw (AImp tg q) tg) = E f (smc_rw (AImpK tg q 1) tg).
Proof.
  unfold smc_rw.
  change (run_smc (AChange (AImp tg q) tg))
    with (bind (dmap (fun p => [p]) (imp_particle tg q)) (mapM (reweight tg tg))).
  change (run_smc (AChange (AImpK tg q 1) tg))
    with (bind (iid 1 (imp_particle tg q)) (mapM (reweight tg tg))).
  rewrite (E_bind f (bind (dmap _ _) _)), (E_bind f (bind (iid 1 _) _)).
  rewrite (E_bind _ (dmap _ _)), (E_bind _ (iid 1 _)).
  apply E_iid1.
Qed.

Lemma sir_density_sampler tg q K t0 :
  (0 < K)%nat -> m_wf (tm tg) -> m_normed (tm tg) -> m_pos (tm tg) -> c_ok (tm tg) (tc tg) ->
  particle_ok tg q -> q_positive q -> In t0 (ctraces (tm tg) (tc tg)) ->
  E (inv_on cmap_eqb (unconstrained (tc tg) t0)) (smc_rw (AImpK tg q K) tg) = 1.
Proof.
  intros HK Hw Hn Hp Hc Hq Hqp Ht0.
  rewrite smc_rw_iid by assumption.
  apply sir_uds_core; auto.
  - now apply mass_imp_particle.
  - intros tw p Hin. destruct (imp_particle_facts _ _ _ _ Hp Hc Hq Hqp Hin) as [H1 [H2 _]].
    split; [assumption|now apply Qc_pos_nz].
  - intros g. now apply importance_proper.
  - apply Qc_pos_nz. eapply dens_pos; eauto.
Qed.

(* random_weighted returns exactly the unconstrained choices of a particle *)
Lemma fselb_spec pol b : forall t i, nth_error (fselb pol b t) i =
  match nth_error t i with
  | None => None
  | Some v => Some (if Bool.eqb (nth i b false) pol then Some v else None)
  end.
Proof.
  intros t. revert b. induction t as [|v t IH]; intros b i; destruct i; simpl; try reflexivity.
  - destruct b; reflexivity.
  - rewrite IH. destruct b; simpl; [destruct i; reflexivity|reflexivity].
Qed.

Lemma smc_rw_support a tg o w p : In ((o, w), p) (smc_rw a tg) ->
  exists t, o = unconstrained (tc tg) t /\ agrees (tc tg) t = true /\ length t = length (tm tg).
Proof.
  unfold smc_rw. intros H. apply In_bind in H. destruct H as [ps [p1 [p2 [Hps [H _]]]]].
  apply In_bind in H. destruct H as [tw [p3 [p4 [Htw [H _]]]]]. apply In_ret in H. destruct H as [Heq _].
  injection Heq as Ho _. subst o. exists (fst tw). split; [reflexivity|].
  unfold resample in Htw. apply in_map_iff in Htw. destruct Htw as [tw' [Heq' Hin]].
  injection Heq' as E1 _. subst tw'.
  simpl in Hps. apply In_bind in Hps. destruct Hps as [ps0 [p5 [p6 [_ [Hm _]]]]].
  apply mapM_support in Hm.
  assert (Hex : exists p0 q0, In (tw, q0) (reweight (final_target a) tg p0)).
  { clear -Hm Hin. induction Hm; [contradiction|]. destruct Hin as [<-|Hin]; [destruct H as [q0 H]; eauto|auto]. }
  destruct Hex as [[t0 w0] [q0 Hr]]. destruct tw as [t' w'].
  apply change_target_ratio in Hr. destruct Hr as [H1 [H2 _]]. simpl.
  split; [assumption|eapply ctraces_length; eauto].
Qed.

Lemma sir_density_sampler_imp tg q t0 :
  m_wf (tm tg) -> m_normed (tm tg) -> m_pos (tm tg) -> c_ok (tm tg) (tc tg) ->
  particle_ok tg q -> q_positive q -> In t0 (ctraces (tm tg) (tc tg)) ->
  E (inv_on cmap_eqb (unconstrained (tc tg) t0)) (smc_rw (AImp tg q) tg) = 1.
Proof. intros. rewrite smc_rw_imp1. apply sir_density_sampler; auto. Qed.

(* ---- ChangeTarget keeps the collection properly weighted, for a target over the same
   latent addresses: the weight ratio is new density / old density ---- *)
Fixpoint same_shape (mo : model) (co : cmap) (mn : model) (cn : cmap) : Prop :=
  match mo, mn with
  | [], [] => True
  | so :: mo', sn :: mn' =>
      supp so = supp sn /\ is_some (chd co) = is_some (chd cn) /\ same_shape mo' (ctl co) mn' (ctl cn)
  | _, _ => False
  end.
(* the trace with the new target's observations in place of the old ones *)
Fixpoint swap (c : cmap) (t : list Z) : list Z :=
  match t with
  | [] => []
  | v :: t' => (match chd c with Some u => u | None => v end) :: swap (ctl c) t'
  end.

Lemma map_flat_map {A B C} (f : B -> C) (g : A -> list B) l :
  map f (flat_map g l) = flat_map (fun x => map f (g x)) l.
Proof. induction l; simpl; [reflexivity|]. now rewrite map_app, IHl. Qed.

Lemma ctraces_swap mo : forall co mn cn, same_shape mo co mn cn ->
  ctraces mn cn = map (swap cn) (ctraces mo co).
Proof.
  induction mo as [|so mo IH]; intros co mn cn H; destruct mn as [|sn mn]; simpl in H; try contradiction.
  - reflexivity.
  - destruct H as [Hs [Hd H]]. simpl ctraces.
    destruct (chd co) as [vo|] eqn:Eo, (chd cn) as [vn|] eqn:En; simpl in Hd; try discriminate.
    + rewrite (IH _ _ _ H), !map_map. apply map_ext. intros t. simpl. now rewrite En.
    + rewrite <- Hs, map_flat_map. apply flat_map_ext. intros v.
      rewrite (IH _ _ _ H), !map_map. apply map_ext. intros t. simpl. now rewrite En.
Qed.

Lemma same_shape_length mo : forall co mn cn, same_shape mo co mn cn -> length mo = length mn.
Proof.
  induction mo; intros co mn cn H; destruct mn; simpl in *; try contradiction; [reflexivity|].
  destruct H as [_ [_ H]]. f_equal. eauto.
Qed.
Lemma swap_length c : forall t, length (swap c t) = length t.
Proof. intros t. revert c. induction t; intros c; simpl; [reflexivity|]. now rewrite IHt. Qed.

Lemma merge_unc_shape mo : forall co mn cn t, same_shape mo co mn cn -> In t (ctraces mo co) ->
  exists rest, merge cn (unconstrained co t) = map Some (swap cn t) ++ rest.
Proof.
  unfold unconstrained.
  induction mo as [|so mo IH]; intros co mn cn t H Hin; destruct mn as [|sn mn]; simpl in H; try contradiction.
  - simpl in Hin. destruct Hin as [<-|[]]. simpl. rewrite merge_nil_r. now exists cn.
  - destruct H as [Hs [Hd H]].
    destruct co as [|[vo|] co'], cn as [|[vn|] cn']; simpl in Hd; try discriminate; simpl in Hin.
    + apply in_flat_map in Hin. destruct Hin as [v [_ Hin]]. apply in_map_iff in Hin. destruct Hin as [t' [<- Hin]].
      destruct (IH [] mn [] t' H Hin) as [rest Hr]. simpl in *. exists rest. now rewrite Hr.
    + apply in_flat_map in Hin. destruct Hin as [v [_ Hin]]. apply in_map_iff in Hin. destruct Hin as [t' [<- Hin]].
      destruct (IH [] mn cn' t' H Hin) as [rest Hr]. simpl in *. exists rest. now rewrite Hr.
    + apply in_map_iff in Hin. destruct Hin as [t' [<- Hin]].
      destruct (IH co' mn cn' t' H Hin) as [rest Hr]. simpl in *. exists rest. now rewrite Hr.
    + apply in_flat_map in Hin. destruct Hin as [v [_ Hin]]. apply in_map_iff in Hin. destruct Hin as [t' [<- Hin]].
      destruct (IH co' mn [] t' H Hin) as [rest Hr]. simpl in *. exists rest. now rewrite Hr.
    + apply in_flat_map in Hin. destruct Hin as [v [_ Hin]]. apply in_map_iff in Hin. destruct Hin as [t' [<- Hin]].
      destruct (IH co' mn cn' t' H Hin) as [rest Hr]. simpl in *. exists rest. now rewrite Hr.
Qed.

Lemma reweight_shape ptg tg t w : same_shape (tm ptg) (tc ptg) (tm tg) (tc tg) ->
  In t (ctraces (tm ptg) (tc ptg)) ->
  reweight ptg tg (t, w)
  = ret (swap (tc tg) t, dens (tm tg) [] (swap (tc tg) t) / dens (tm ptg) [] t * w).
Proof.
  intros Hs Hin. unfold reweight. simpl.
  destruct (merge_unc_shape _ _ _ _ _ Hs Hin) as [rest ->].
  rewrite generate_full.
  - reflexivity.
  - rewrite swap_length, (ctraces_length _ _ _ Hin). eapply same_shape_length; eauto.
Qed.

Lemma change_target_proper ptg tg (d : dist particle) :
  same_shape (tm ptg) (tc ptg) (tm tg) (tc tg) ->
  (forall t, In t (ctraces (tm ptg) (tc ptg)) -> dens (tm ptg) [] t <> 0) ->
  (forall tw p, In (tw, p) d -> In (fst tw) (ctraces (tm ptg) (tc ptg))) ->
  (forall g, E (fun tw => snd tw * g (fst tw)) d
             = tsum (tm ptg) (tc ptg) (fun t => dens (tm ptg) [] t * g t)) ->
  forall g, E (fun tw => snd tw * g (fst tw)) (bind d (reweight ptg tg))
            = tsum (tm tg) (tc tg) (fun t => dens (tm tg) [] t * g t).
Proof.
  intros Hs Hnz Hsup Hprop g. rewrite E_bind.
  set (G := fun t => dens (tm tg) [] (swap (tc tg) t) / dens (tm ptg) [] t * g (swap (tc tg) t)).
  rewrite (E_ext_in _ (fun tw => snd tw * G (fst tw))).
  - rewrite Hprop. unfold tsum. rewrite (ctraces_swap _ _ _ _ Hs), map_map.
    apply sumQ_map_ext. intros t Ht. unfold G. field. now apply Hnz.
  - intros [t w] p Hin. rewrite reweight_shape by (auto; apply (Hsup _ _ Hin)).
    rewrite E_ret. unfold G. simpl. unfold Qcdiv. ring.
Qed.

Lemma E_mapM_sum {A B} (k : A -> dist B) (g : B -> Qc) l :
  (forall a, In a l -> mass (k a) = 1) ->
  E (fun bs => sumQ (map g bs)) (mapM k l) = sumQ (map (fun a => E g (k a)) l).
Proof.
  induction l; simpl; intros H; [now rewrite E_ret|].
  rewrite E_bind.
  rewrite (E_ext _ (fun b => g b + sumQ (map (fun a => E g (k a)) l))).
  - rewrite E_plus, E_const, (H a) by now left. ring.
  - intros b. rewrite E_dmap. simpl. rewrite E_plus, E_const.
    rewrite IHl by (intros; apply H; now right).
    rewrite mass_mapM by (intros; apply H; now right). ring.
Qed.
Lemma mapM_length {A B} (k : A -> dist B) l bs p : In (bs, p) (mapM k l) -> length bs = length l.
Proof. intros H. apply mapM_support in H. induction H; simpl; congruence. Qed.

Lemma mass_reweight ptg tg p : m_normed (tm tg) -> mass (reweight ptg tg p) = 1.
Proof. intros Hn. unfold reweight. rewrite mass_dmap. now apply mass_generate. Qed.

(* evidence after a change of target: E[exp(lml)] = Z of the new target *)
Lemma change_target_evidence ptg tg q K :
  (0 < K)%nat -> m_wf (tm ptg) -> m_normed (tm ptg) -> m_pos (tm ptg) -> c_ok (tm ptg) (tc ptg) ->
  particle_ok ptg q -> q_positive q -> m_normed (tm tg) ->
  same_shape (tm ptg) (tc ptg) (tm tg) (tc tg) ->
  E lml (run_smc (AChange (AImpK ptg q K) tg)) = evidence (tm tg) (tc tg).
Proof.
  intros HK Hw Hn Hp Hc Hq Hqp Hn' Hs. simpl run_smc. rewrite E_bind.
  set (d := imp_particle ptg q).
  rewrite (E_ext_in _ (fun ps : list particle => / Qc_of_nat K * sumQ (map (fun p => E snd (reweight ptg tg p)) ps))).
  - rewrite E_lin, E_iid_sum by now apply mass_imp_particle.
    rewrite Qc_cancel by now apply Qc_of_nat_nz.
    rewrite <- (E_bind snd d (reweight ptg tg)).
    assert (H1 : forall t, In t (ctraces (tm ptg) (tc ptg)) -> dens (tm ptg) [] t <> 0).
    { intros t Ht. apply Qc_pos_nz. eapply dens_pos; eauto. }
    assert (H2 : forall tw p, In (tw, p) d -> In (fst tw) (ctraces (tm ptg) (tc ptg))).
    { intros tw p Hin. now destruct (imp_particle_facts _ _ _ _ Hp Hc Hq Hqp Hin) as [_ [_ H3]]. }
    assert (H3 : forall g, E (fun tw => snd tw * g (fst tw)) d
                           = tsum (tm ptg) (tc ptg) (fun t => dens (tm ptg) [] t * g t)).
    { intros g. now apply importance_proper. }
    pose proof (change_target_proper ptg tg d Hs H1 H2 H3 (fun _ => 1)) as H. cbv beta in H.
    transitivity (E (fun tw : list Z * Qc => snd tw * 1) (bind d (reweight ptg tg)));
      [apply E_ext; intros; ring|].
    etransitivity; [exact H|].
    unfold evidence, tsum. apply sumQ_map_ext. intros; ring.
  - intros ps p Hin. apply iid_support in Hin. destruct Hin as [Hl _].
    rewrite (E_ext_in _ (fun ps' : list particle => / Qc_of_nat K * sumQ (map snd ps'))).
    + rewrite E_lin, E_mapM_sum; [reflexivity|]. intros; now apply mass_reweight.
    + intros ps' p' Hin'. apply mapM_length in Hin'. unfold lml, weights.
      unfold particle in *. rewrite Hin', Hl. unfold Qcdiv. ring.
Qed.

Lemma unconstrained_spec c t i : nth_error (unconstrained c t) i =
  match nth_error t i with
  | None => None
  | Some v => Some (if is_some (nth i c None) then None else Some v)
  end.
Proof.
  unfold unconstrained. rewrite fselb_spec. destruct (nth_error t i); [|reflexivity]. f_equal.
  unfold dom. change false with (is_some (@None Z)) at 1. rewrite map_nth.
  destruct (is_some (nth i c None)); reflexivity.
Qed.

Lemma random_weighted_unconstrained_only a tg o w p : In ((o, w), p) (smc_rw a tg) ->
  exists t, length t = length (tm tg) /\ agrees (tc tg) t = true /\
    forall i, nth_error o i = match nth_error t i with
                              | None => None
                              | Some v => Some (if is_some (nth i (tc tg) None) then None else Some v)
                              end.
Proof.
  intros H. apply smc_rw_support in H. destruct H as [t [-> [H1 H2]]].
  exists t. repeat split; auto. intros i. apply unconstrained_spec.
Qed.

(* all particles of a collection of Importance / ImportanceK *)
Lemma run_smc_particles tg q K ps p :
  In (ps, p) (run_smc (AImpK tg q K)) \/ In (ps, p) (run_smc (AImp tg q)) ->
  Forall (fun tw => exists p', In (tw, p') (imp_particle tg q)) ps.
Proof.
  intros [H|H]; simpl in H.
  - now apply iid_support in H.
  - apply In_dmap in H. destruct H as [tw [H ->]]. constructor; [now exists p|constructor].
Qed.
Lemma particles_satisfy_constraints tg q K ps p :
  In (ps, p) (run_smc (AImpK tg q K)) \/ In (ps, p) (run_smc (AImp tg q)) ->
  Forall (fun tw => agrees (tc tg) (fst tw) = true /\ length (fst tw) = length (tm tg)) ps.
Proof.
  intros H. apply run_smc_particles in H. eapply Forall_impl; [|exact H].
  intros [t w] [p' Hp]. simpl. eapply importance_particle_agrees; eauto.
Qed.

(* the per-particle check of the correspondence (Infer.icase_ok, CSmc) is implied by membership
   in the support of run_smc *)
Lemma run_smc_particle_dist a : forall ps p, In (ps, p) (run_smc a) ->
  length ps = num_particles a /\ Forall (fun tw => exists p', In (tw, p') (particle_dist a)) ps.
Proof.
  induction a as [tg q|tg q K|prev IH tg]; intros ps p H; simpl in *.
  - apply In_dmap in H. destruct H as [tw [H ->]]. split; [reflexivity|]. constructor; [now exists p|constructor].
  - now apply iid_support in H.
  - apply In_bind in H. destruct H as [ps0 [p0 [p1 [H0 [H1 _]]]]].
    destruct (IH _ _ H0) as [Hl Hall]. pose proof (mapM_length _ _ _ _ H1) as Hl'.
    split; [congruence|]. apply mapM_support in H1. clear -Hall H1.
    induction H1 as [|x y l l' Hxy _ IHf]; [constructor|]. inversion Hall; subst.
    constructor; [|now apply IHf].
    destruct Hxy as [q1 Hq1]. destruct H1 as [q0 Hq0]. exists (q0 * q1).
    apply In_bind. now exists x, q0, q1.
Qed.
