(* C06 for Regenerate on distributions, static functions and dimap (Vmap rejects Regenerate; the backward
   request of a Scan regenerate is a VectorRequest no edit accepts: known finding K24): applying the backward
   request of a Regenerate to the new trace, with the original arguments, returns EXACTLY the original trace
   and its weight is the negation of the forward weight. *)
From Coq Require Import List Bool ZArith NArith Lia Arith.
Import ListNotations.
From Gen Require Import SelGen.
From Model Require Import Key Sel GFI GFIEdit.
From Proofs Require Import GFIBase GFIRef GFIWf GFIConsistent GFISim GFIEditProofs GFIRoundtripAll.
Open Scope Z_scope.

Fixpoint rsimple (g : gf) : Prop :=
  match g with
  | GDist _ => True
  | GStatic b => rsimple_body b
  | GDimap _ g' _ => rsimple g'
  | GVmap _ _ | GScan _ _ | GSwitch _ | GMask _ => False
  end
with rsimple_body (b : sbody) : Prop :=
  match b with SRet _ => True | SSite _ g _ rest => rsimple g /\ rsimple_body rest end.

(* b undoes (t -> t'): applied to t' with t's arguments it gives back t, with weight score(t) - score(t') *)
Definition Undoes (g : gf) (t t' : trace) (b : request) : Prop :=
  b <> REmpty /\ forall k' tg', exists b', edit g k' t' b (t_args t) tg' = Ok (t, t_score t - t_score t', b').

Record rfact := { rf_addr : addr; rf_g : gf; rf_es : list expr; rf_old : trace; rf_new : trace; rf_b : request }.
Definition rsite_ok (f : rfact) : Prop := Undoes (rf_g f) (rf_old f) (rf_new f) (rf_b f).
Fixpoint rbody_matches (b : sbody) (fs : list rfact) : Prop :=
  match b, fs with
  | SRet _, [] => True
  | SSite a g es rest, f :: r => rf_addr f = a /\ rf_g f = g /\ rf_es f = es /\ rbody_matches rest r
  | _, _ => False
  end.

Lemma rbody_matches_addrs : forall b fs, rbody_matches b fs -> map rf_addr fs = body_addrs b.
Proof.
  induction b as [e|a g es rest IH]; intros fs Hm; destruct fs as [|f r]; simpl in Hm; try contradiction; [reflexivity|].
  destruct Hm as [Ha [_ [_ Hm]]]. simpl. rewrite Ha. f_equal. apply IH. exact Hm.
Qed.
Lemma rolds_are_the_facts : forall b env subs ret fs,
  wfb b env subs ret -> NoDup (body_addrs b) -> rbody_matches b fs ->
  Forall (fun f => subs_get subs (rf_addr f) = Some (rf_old f)) fs ->
  map (fun f => (rf_addr f, rf_old f)) fs = subs.
Proof.
  induction b as [e|a g es rest IH]; intros env subs ret fs Hw Hnd Hm Hf.
  - destruct fs; [|contradiction]. simpl in Hw. destruct Hw as [-> _]. reflexivity.
  - destruct fs as [|f r]; [contradiction|]. simpl in Hm. destruct Hm as [Ha [_ [_ Hm]]].
    simpl in Hw. destruct subs as [|[a' t0] subs']; [contradiction|]. destruct Hw as [-> [_ [_ Hw']]].
    inversion Hf as [|? ? Hf0 Hf']; subst. simpl in Hf0. rewrite addr_eqb_refl in Hf0. inversion Hf0; subst.
    simpl. f_equal. simpl in Hnd. inversion Hnd as [|? ? Hnin Hnd']; subst.
    eapply IH; eauto.
    rewrite Forall_forall in *. intros f0 Hi. specialize (Hf' f0 Hi).
    rewrite subs_get_cons_other in Hf'; [exact Hf'|].
    intros E. apply Hnin. rewrite <- (rbody_matches_addrs _ _ Hm). rewrite <- E. apply in_map. exact Hi.
Qed.
Lemma rsubs_get_map_nodup (fs : list rfact) (h : rfact -> trace) f :
  NoDup (map rf_addr fs) -> In f fs -> subs_get (map (fun f => (rf_addr f, h f)) fs) (rf_addr f) = Some (h f).
Proof.
  induction fs as [|f0 r IH]; intros Hnd Hin; [contradiction|]. simpl in Hnd. inversion Hnd as [|? ? Hnin Hnd']; subst.
  destruct Hin as [->|Hin].
  - simpl. rewrite addr_eqb_refl. reflexivity.
  - simpl. destruct (addr_eqb (rf_addr f) (rf_addr f0)) eqn:E.
    + apply addr_eqb_eq in E. exfalso. apply Hnin. rewrite <- E. apply in_map. exact Hin.
    + apply IH; assumption.
Qed.
Lemma addr_eqb_sym (a b : addr) : addr_eqb a b = addr_eqb b a.
Proof.
  destruct (addr_eqb a b) eqn:E1, (addr_eqb b a) eqn:E2; try reflexivity.
  - apply addr_eqb_eq in E1. subst. rewrite addr_eqb_refl in E2. discriminate.
  - apply addr_eqb_eq in E2. subst. rewrite addr_eqb_refl in E1. discriminate.
Qed.
Lemma rfind_map_nodup (fs : list rfact) f :
  NoDup (map rf_addr fs) -> In f fs ->
  find (fun p : addr * request => addr_eqb (fst p) (rf_addr f)) (map (fun f => (rf_addr f, rf_b f)) fs) = Some (rf_addr f, rf_b f).
Proof.
  induction fs as [|f0 r IH]; intros Hnd Hin; [contradiction|]. simpl in Hnd. inversion Hnd as [|? ? Hnin Hnd']; subst.
  destruct Hin as [->|Hin].
  - simpl. rewrite addr_eqb_refl. reflexivity.
  - simpl. destruct (addr_eqb (rf_addr f0) (rf_addr f)) eqn:E.
    + apply addr_eqb_eq in E. exfalso. apply Hnin. rewrite E. apply in_map. exact Hin.
    + apply IH; assumption.
Qed.

Lemma sub_dispatch {A} (sub : request) (X Y : A) :
  sub <> REmpty ->
  match sub with REmpty => X | _ => Y end = Y.
Proof. intros H. destruct sub; try reflexivity. contradiction H; reflexivity. Qed.

Lemma rreplay_body : forall b fs k' cnt' NEW M env0 envt' acc0 w0 bw0 ret0,
  rbody_matches b fs -> Forall rsite_ok fs ->
  wfb b env0 (map (fun f => (rf_addr f, rf_old f)) fs) ret0 ->
  (forall f, In f fs -> subs_get NEW (rf_addr f) = Some (rf_new f) /\
                        find (fun p : addr * request => addr_eqb (fst p) (rf_addr f)) M = Some (rf_addr f, rf_b f)) ->
  NoDup (map fst acc0 ++ map rf_addr fs) ->
  exists bw1, edit_body b k' cnt' NEW (RStatic M) env0 envt' acc0 w0 bw0
              = Ok (ret0, acc0 ++ map (fun f => (rf_addr f, rf_old f)) fs,
                    w0 + zsum (map (fun f => t_score (rf_old f) - t_score (rf_new f)) fs), bw1).
Proof.
  induction b as [e|a g es rest IH]; intros fs k' cnt' NEW M env0 envt' acc0 w0 bw0 ret0 Hm Hok Hw Hlk Hnd.
  - destruct fs; [|contradiction]. simpl in Hw. destruct Hw as [_ He]. simpl. rewrite He. simpl. rewrite app_nil_r, Z.add_0_r. eauto.
  - destruct fs as [|f r]; [contradiction|]. simpl in Hm. destruct Hm as [Ha [Hg [Hes Hm]]].
    simpl in Hw. destruct Hw as [_ [Hav [Hwt Hw']]]. subst a g es. simpl.
    rewrite Hav. simpl.
    destruct (Hlk f (or_introl eq_refl)) as [Hget Hfind]. rewrite Hget. rewrite Hfind. cbn [snd].
    inversion Hok as [|? ? Hf Hok']; subst. destruct Hf as [Hne Hf].
    rewrite (sub_dispatch (rf_b f) _ _ Hne).
    destruct (Hf (fold_in k' cnt') (map (tag_eval envt') (rf_es f))) as [b' He]. rewrite He. simpl.
    assert (Hnin : ~ In (rf_addr f) (map fst acc0)).
    { simpl in Hnd. intros Hi. apply NoDup_remove_2 in Hnd. apply Hnd. rewrite in_app_iff. now left. }
    destruct (existsb (fun p => addr_eqb (fst p) (rf_addr f)) acc0) eqn:Eex.
    { exfalso. apply existsb_exists in Eex. destruct Eex as [[a0 t0] [Hin Heq]]. simpl in Heq. apply addr_eqb_eq in Heq. subst.
      apply Hnin. apply in_map_iff. exists (rf_addr f, t0). auto. }
    destruct (IH r k' (cnt' + 1)%N NEW M (env0 ++ [t_retval (rf_old f)]) (envt' ++ [tg_unknown]) (acc0 ++ [(rf_addr f, rf_old f)])
                 (w0 + (t_score (rf_old f) - t_score (rf_new f))) (bw0 ++ [(rf_addr f, b')]) ret0 Hm Hok' Hw') as [bw1 H1].
    + intros f0 Hi. apply Hlk. now right.
    + rewrite map_app. simpl. rewrite <- app_assoc. simpl. simpl in Hnd. exact Hnd.
    + rewrite H1. rewrite <- app_assoc. simpl. exists bw1. f_equal. f_equal. f_equal. lia.
Qed.

Lemma edit_static_regen_eq b k a0 r0 olds s a tg :
  edit (GStatic b) k (TStatic a0 r0 olds) (RRegen s) a tg =
  (do x <- edit_body b k 1%N olds (RRegen s) a tg [] 0 [];
   let '(v, subs, w, bw) := x in Ok (TStatic a v subs, w, RStatic bw)).
Proof. reflexivity. Qed.
Lemma edit_static_static_eq b k a0 r0 olds m a tg :
  edit (GStatic b) k (TStatic a0 r0 olds) (RStatic m) a tg =
  (do x <- edit_body b k 1%N olds (RStatic m) a tg [] 0 [];
   let '(v, subs, w, bw) := x in Ok (TStatic a v subs, w, RStatic bw)).
Proof. reflexivity. Qed.

Lemma zsum_sub_map {A} (f g : A -> Z) l : zsum (map (fun x => f x - g x) l) = zsum (map f l) - zsum (map g l).
Proof. induction l as [|x r IH]; simpl; [reflexivity | rewrite IH; lia]. Qed.

Theorem regen_undone_all :
  (forall g, wfg g -> rsimple g -> forall k t s a tg x, wft g t -> edit g k t (RRegen s) a tg = Ok x ->
      Undoes g t (fst (fst x)) (snd x)) /\
  (forall b, wfg_body b -> rsimple_body b -> forall k cnt olds s env envt acc w bw x,
      olds_ok b olds -> edit_body b k cnt olds (RRegen s) env envt acc w bw = Ok x ->
      let '(v, subs, w', bw') := x in
      exists fs, rbody_matches b fs /\ Forall rsite_ok fs /\
                 subs = acc ++ map (fun f => (rf_addr f, rf_new f)) fs /\
                 bw' = bw ++ map (fun f => (rf_addr f, rf_b f)) fs /\
                 Forall (fun f => subs_get olds (rf_addr f) = Some (rf_old f)) fs) /\
  (forall bs : gfs, True).
Proof.
  apply gf_sbody_gfs_ind; try (intros; exact I).
  - (* GDist *) intros d _ _ k t s a tg x Hw H. destruct t; simpl in Hw; try contradiction.
    destruct Hw as [-> [p0 [-> ->]]]. simpl in H.
    destruct a as [|[p| | | | |] [|? ?]]; try discriminate.
    unfold Undoes. destruct (check s); inversion H; subst; simpl; (split; [discriminate|]); intros k' tg'; simpl;
      eexists; reflexivity.
  - (* GStatic *) intros b IH [Hheads Hwb] Hs k t s a tg x Hw H. destruct t; simpl in Hw; try contradiction.
    rewrite edit_static_regen_eq in H. bind_inv H as y Hy. destruct y as [[[v subs'] w'] bw']. inversion H; subst. clear H.
    assert (Hnd : NoDup (body_addrs b)) by (apply NoDup_heads; apply Hheads).
    destruct (wfb_olds _ _ _ _ [] Hw Hnd) as [Hok _]. simpl in Hok.
    pose proof (IH Hwb Hs _ _ _ _ _ _ _ _ _ _ Hok Hy) as IH'. simpl in IH'.
    destruct IH' as [fs [Hm [Hso [Hsubs [Hbw Hold]]]]]. simpl in Hsubs, Hbw. subst subs' bw'.
    unfold Undoes. cbn [fst snd]. split; [discriminate|].
    intros k' tg'. cbn [t_args]. rewrite edit_static_static_eq.
    pose proof (rolds_are_the_facts _ _ _ _ _ Hw Hnd Hm Hold) as Hfacts.
    pose proof (rbody_matches_addrs _ _ Hm) as Haddrs.
    destruct (rreplay_body b fs k' 1%N (map (fun f => (rf_addr f, rf_new f)) fs)
                (map (fun f => (rf_addr f, rf_b f)) fs) args tg' [] 0 [] ret Hm Hso) as [bw1 H1].
    + rewrite Hfacts. exact Hw.
    + intros f Hin. split; [apply (rsubs_get_map_nodup fs rf_new f); [rewrite Haddrs; exact Hnd | exact Hin]|].
      apply rfind_map_nodup; [rewrite Haddrs; exact Hnd | exact Hin].
    + simpl. rewrite Haddrs. exact Hnd.
    + rewrite H1. cbn [bind app]. rewrite Hfacts. eexists. f_equal. f_equal. f_equal.
      rewrite zsum_sub_map. cbn [t_score]. rewrite <- Hfacts. rewrite !map_map. cbn [snd]. lia.
  - (* GVmap *) intros axes g _ _ Hs. contradiction.
  - (* GScan *) intros n g _ _ Hs. contradiction.
  - (* GSwitch *) intros bs _ _ Hs. contradiction.
  - (* GMask *) intros g _ _ Hs. contradiction.
  - (* GDimap *) intros pre g IH post Hg Hs k t s a tg x Hw H. destruct t; simpl in Hw; try contradiction.
    destruct Hw as [Hpre [Hw Hpost]]. simpl in H. bind_inv H as ia Hia. bind_inv H as y Hy. destruct y as [[t' w] b].
    bind_inv H as rv Hrv. inversion H; subst. clear H.
    destruct (IH Hg Hs _ _ _ _ _ _ Hw Hy) as [Hne Hr]. simpl in Hne, Hr.
    unfold Undoes. simpl. split; [exact Hne|]. intros k' tg'. rewrite Hpre. simpl.
    destruct (Hr k' (map (tag_eval tg') pre)) as [b' He]. rewrite He. simpl. rewrite Hpost. simpl. eauto.
  - (* SRet *) intros e _ _ k cnt olds s env envt acc w bw x Hok H. simpl in H. bind_inv H as v Hv. inversion H; subst.
    exists []. simpl. rewrite !app_nil_r. repeat split; auto; constructor.
  - (* SSite *) intros ad g IHg es rest IHr [Hg Hrest] [Hsg Hsr] k cnt olds s env envt acc w bw x [Hold Hok] H.
    simpl in H. bind_inv H as av Hav. destruct (subs_get olds ad) as [told|] eqn:Hget; [|discriminate].
    bind_inv H as y Hy. destruct y as [[t' w'] b'].
    destruct (existsb _ acc); [discriminate|].
    pose proof (IHg Hg Hsg _ _ _ _ _ _ (Hold _ eq_refl) Hy) as Hr. simpl in Hr.
    specialize (IHr Hrest Hsr _ _ _ _ _ _ _ _ _ _ Hok H). destruct x as [[[v subs] wf] bwf].
    destruct IHr as [fs [Hm [Hso [Hsubs [Hbw Hof]]]]].
    exists ({| rf_addr := ad; rf_g := g; rf_es := es; rf_old := told; rf_new := t'; rf_b := b' |} :: fs).
    simpl. split; [auto|]. split; [constructor; [exact Hr | exact Hso]|].
    split; [rewrite Hsubs, <- app_assoc; reflexivity|]. split; [rewrite Hbw, <- app_assoc; reflexivity|].
    constructor; [exact Hget | exact Hof].
Qed.

Theorem regenerate_roundtrip g k t s a tg t' w b :
  wfg g -> rsimple g -> wft g t -> edit g k t (RRegen s) a tg = Ok (t', w, b) ->
  forall k' tg', exists b', edit g k' t' b (t_args t) tg' = Ok (t, - w, b').
Proof.
  intros Hg Hs Hw H k' tg'.
  destruct (proj1 regen_undone_all g Hg Hs k t s a tg (t', w, b) Hw H) as [_ Hr]. simpl in Hr.
  destruct (Hr k' tg') as [b' He].
  destruct (edit_ok g k t (RRegen s) a tg t' w b Hg I Hw H) as [_ [_ E1]].
  exists b'. rewrite He. f_equal. f_equal. f_equal. lia.
Qed.
